From Coq Require Import NArith ZArith List Bool.
From BG Require Import C15.Model.
Import ListNotations.
Open Scope N_scope.

Lemma failure_falls_back f source pretty ch :
  f = FRustfmt -> formatter_failed ch = true -> body f source pretty ch = source.
Proof.
  intros -> H. unfold body, format_tokens, formatter_failed in *.
  destruct (spawn_ok ch); cbn [negb orb] in *; [|reflexivity].
  destruct (copy_ok ch); cbn [negb orb] in *; [|reflexivity].
  destruct (status ch) as [c| |]; try reflexivity.
  - destruct (out_utf8 ch); cbn [negb orb] in *; [|reflexivity].
    destruct c as [|p|p]; try reflexivity; try discriminate.
    destruct p as [p|p|]; try reflexivity; destruct p; try reflexivity; discriminate.
  - destruct (out_utf8 ch); reflexivity.
Qed.

Lemma success_uses_output source pretty ch :
  formatter_failed ch = false -> body FRustfmt source pretty ch = out ch.
Proof.
  intros H. unfold body, format_tokens, formatter_failed in *.
  destruct (spawn_ok ch); cbn [negb orb] in *; [|discriminate].
  destruct (copy_ok ch); cbn [negb orb] in *; [|discriminate].
  destruct (out_utf8 ch); cbn [negb orb] in *; [|discriminate].
  destruct (status ch) as [c| |]; try discriminate.
  destruct c as [|p|p]; try reflexivity; try discriminate.
  destruct p as [p|p|]; try discriminate; destruct p; try discriminate; reflexivity.
Qed.

Lemma body_cases f source pretty ch :
  body f source pretty ch = source \/ body f source pretty ch = pretty \/ body f source pretty ch = out ch.
Proof.
  destruct f.
  - left. reflexivity.
  - right. left. reflexivity.
  - destruct (formatter_failed ch) eqn:E.
    + left. apply failure_falls_back; [reflexivity|exact E].
    + right. right. apply success_uses_output. exact E.
Qed.

Lemma write_shape header raw f source pretty ch :
  write header raw f source pretty ch = prefix header raw ++ body f source pretty ch.
Proof. reflexivity. Qed.

Lemma prefix_independent header raw f f' s p ch ch' :
  firstn (length (prefix header raw)) (write header raw f s p ch) =
  firstn (length (prefix header raw)) (write header raw f' s p ch').
Proof.
  unfold write. rewrite !firstn_app, !Nat.sub_diag, !firstn_all. cbn [firstn]. reflexivity.
Qed.

Lemma no_formatter_is_source header raw s p ch :
  write header raw FNone s p ch = prefix header raw ++ s.
Proof. reflexivity. Qed.
