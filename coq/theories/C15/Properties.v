(* C15 — property theorems. *)
From Coq Require Import NArith ZArith List Bool.
From BG Require Import C15.Model C15.Proofs.
Import ListNotations.
Open Scope N_scope.

(* whatever the external formatter does, writing yields the header comment and the raw
   lines (once, in order) followed by exactly one of: the unformatted source, the
   prettyplease text, the formatter's output *)
Theorem write_total : forall header raw f source pretty ch,
  write header raw f source pretty ch = prefix header raw ++ body f source pretty ch /\
  (body f source pretty ch = source \/ body f source pretty ch = pretty \/
   body f source pretty ch = out ch).
Proof. exact (fun h r f s p ch => conj (Proofs.write_shape h r f s p ch) (Proofs.body_cases f s p ch)). Qed.
Print Assumptions write_total.

(* any signalled failure (cannot spawn, pipe error, wait error, killed by a signal, exit
   status other than 0 / 3, output that is not UTF-8) falls back to the unformatted source *)
Theorem failure_falls_back : forall source pretty ch,
  formatter_failed ch = true -> body FRustfmt source pretty ch = source.
Proof. exact (fun s p ch => Proofs.failure_falls_back FRustfmt s p ch eq_refl). Qed.
Print Assumptions failure_falls_back.

(* and only then: a formatter that did not fail has its output used *)
Theorem success_uses_output : forall source pretty ch,
  formatter_failed ch = false -> body FRustfmt source pretty ch = out ch.
Proof. exact Proofs.success_uses_output. Qed.
Print Assumptions success_uses_output.

(* the formatter choice and the child's behaviour never touch the header / raw lines *)
Theorem prefix_independent : forall header raw f f' s p ch ch',
  firstn (length (prefix header raw)) (write header raw f s p ch) =
  firstn (length (prefix header raw)) (write header raw f' s p ch').
Proof. exact Proofs.prefix_independent. Qed.
Print Assumptions prefix_independent.

Example fallback_nonvacuous :
  let ch := {| spawn_ok := true; copy_ok := true; out := [104; 97; 108; 102]; out_utf8 := true; status := Code 1%Z |} in
  formatter_failed ch = true /\ write (Some [47]) [[114]] FRustfmt [115; 114; 99] [112] ch = [47; 10; 10; 114; 10; 10; 115; 114; 99].
Proof. vm_compute. split; reflexivity. Qed.
