(* C15 — model of Bindings::write and Bindings::format_tokens (bindgen/lib.rs):
   what text is written for every outcome of the external formatter process.
   Definitions only.  Text = list of bytes. *)
From Coq Require Import NArith ZArith List Bool.
Import ListNotations.
Open Scope N_scope.

Definition str := list N.
Definition NL : N := 10.

Inductive formatter := FNone | FPrettyplease | FRustfmt.

(* everything the parent can observe of the child process *)
Inductive exit_r := Code (c : Z) | Signalled | WaitError.
Record child := {
  spawn_ok : bool;      (* Command::spawn succeeded (path exists, is executable, ...) *)
  copy_ok : bool;       (* io::copy from the child's stdout succeeded *)
  out : str;            (* bytes read from the child's stdout *)
  out_utf8 : bool;      (* String::from_utf8(out).is_ok() *)
  status : exit_r       (* child.wait() *)
}.

(* format_tokens: Some text = Ok(text), None = Err(_) *)
Definition format_tokens (f : formatter) (source pretty : str) (ch : child) : option str :=
  match f with
  | FNone => Some source
  | FPrettyplease => Some pretty
  | FRustfmt =>
      if negb (spawn_ok ch) then None
      else if negb (copy_ok ch) then None
      else match status ch with
           | WaitError => None
           | st =>
               if negb (out_utf8 ch) then Some source
               else match st with
                    | Code 0%Z => Some (out ch)
                    | Code 3%Z => Some (out ch)
                    | _ => None
                    end
           end
  end.

Definition prefix (header : option str) (raw_lines : list str) : str :=
  match header with Some h => h ++ [NL; NL] | None => [] end
  ++ flat_map (fun l => l ++ [NL]) raw_lines
  ++ match raw_lines with [] => [] | _ => [NL] end.

(* write(): header comment, raw lines, then the formatted text or, on Err, the source *)
Definition body (f : formatter) (source pretty : str) (ch : child) : str :=
  match format_tokens f source pretty ch with
  | Some t => t
  | None => source
  end.

Definition write (header : option str) (raw_lines : list str)
           (f : formatter) (source pretty : str) (ch : child) : str :=
  prefix header raw_lines ++ body f source pretty ch.

(* the formatter "signals failure in any way" *)
Definition formatter_failed (ch : child) : bool :=
  negb (spawn_ok ch) || negb (copy_ok ch) || negb (out_utf8 ch) ||
  match status ch with
  | Code 0%Z => false
  | Code 3%Z => false
  | _ => true
  end.
