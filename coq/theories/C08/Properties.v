(* C08 — property theorems (statements; proofs in Proofs.v) *)
From Coq Require Import NArith List Bool.
From BG Require Import C08.Model C08.Proofs.
Import ListNotations.
Open Scope N_scope.

(* SOUNDNESS: whenever a trait is derived on a composite, the Rust type of every member implements
   it (which is what #[derive] needs) — provided no member (transitively, by value) is a packed
   composite that cannot be Copy: such a type derives nothing at all, yet the analysis still
   answers "yes" for it (derive_sound_hole_refuted; known finding).
   [elems_complete] (Proofs.v) completes [wf]: an array element is not a forward-declared
   composite either (C rejects arrays of incomplete type); without it the statement is false in
   the model (derive_sound_needs_complete_elems) *)
Theorem derive_sound : forall o i fs tr,
  o_untagged o = true -> r_opaque i = false -> r_fwd i = false ->
  wf (TRec i fs) = true ->
  forallb elems_complete fs = true ->
  forallb (no_packed_noncopy o) fs = true ->
  mem tr (derives_of o (TRec i fs)) = true ->
  forallb (implements o tr) fs = true.
Proof. exact C08.Proofs.derive_sound. Qed.
Print Assumptions derive_sound.

Theorem derive_sound_needs_complete_elems : exists o i fs tr,
  o_untagged o = true /\ r_opaque i = false /\ r_fwd i = false /\ wf (TRec i fs) = true /\
  forallb (no_packed_noncopy o) fs = true /\
  mem tr (derives_of o (TRec i fs)) = true /\ forallb (implements o tr) fs = false.
Proof. exact C08.Proofs.derive_sound_needs_complete_elems. Qed.
Print Assumptions derive_sound_needs_complete_elems.

Theorem derive_sound_hole_refuted : exists o i fs tr,
  o_untagged o = true /\ r_opaque i = false /\ r_fwd i = false /\ wf (TRec i fs) = true /\
  mem tr (derives_of o (TRec i fs)) = true /\ forallb (implements o tr) fs = false.
Proof. exact C08.Proofs.derive_sound_hole_refuted. Qed.
Print Assumptions derive_sound_hole_refuted.

(* the derive list is closed under Rust's supertrait requirements when the options are *)
Definition opts_closed (o : opts) : Prop :=
  (o_ord o = true -> o_eq o = true /\ o_partialord o = true) /\
  (o_partialord o = true -> o_partialeq o = true) /\
  (o_eq o = true -> o_partialeq o = true).
Theorem supertraits_closed : forall o t, opts_closed o ->
  let d := derives_of o t in
  (mem Copy d = true -> mem Clone d = true) /\
  (mem Eq d = true -> mem PartialEq d = true) /\
  (mem PartialOrd d = true -> mem PartialEq d = true) /\
  (mem Ord d = true -> mem Eq d = true /\ mem PartialOrd d = true).
Proof. exact C08.Proofs.supertraits_closed. Qed.
Print Assumptions supertraits_closed.

(* ... which `--with-derive-ord` or `--with-derive-partialord` alone are not (known finding) *)
Theorem supertraits_open_refuted : exists o t,
  mem Ord (derives_of o t) = true /\ mem Eq (derives_of o t) = false /\
  (o_ord o = true /\ o_partialord o = true).
Proof. exact C08.Proofs.supertraits_open_refuted. Qed.
Print Assumptions supertraits_open_refuted.

(* Eq and Ord never on anything that contains a float (HasFloat looks through opaque
   composites); Hash never on anything whose emitted Rust type shows a float: an opaque member is
   a blob of integers and hashes whatever its C fields were ([visible_float], Proofs.v) *)
Theorem eq_ord_hash_no_float : forall o i fs,
  o_untagged o = true -> r_opaque i = false ->
  let d := derives_of o (TRec i fs) in
  ((mem Eq d || mem Ord d) = true -> has_float (TRec i fs) = false) /\
  (mem Hash d = true -> visible_float (TRec i fs) = false).
Proof. exact C08.Proofs.eq_ord_hash_no_float. Qed.
Print Assumptions eq_ord_hash_no_float.

(* without opaque composites in the tree the two notions agree *)
Theorem eq_ord_hash_no_float_no_opaque : forall o i fs,
  o_untagged o = true -> no_opaque (TRec i fs) = true ->
  let d := derives_of o (TRec i fs) in
  (mem Eq d || mem Ord d || mem Hash d) = true -> has_float (TRec i fs) = false.
Proof. exact C08.Proofs.eq_ord_hash_no_float_no_opaque. Qed.
Print Assumptions eq_ord_hash_no_float_no_opaque.

(* with one they do not: Hash is derived over an opaque member holding a float *)
Theorem eq_ord_hash_no_float_opaque_refuted : exists o i fs,
  o_untagged o = true /\ r_opaque i = false /\
  (mem Eq (derives_of o (TRec i fs)) || mem Ord (derives_of o (TRec i fs))
   || mem Hash (derives_of o (TRec i fs))) = true /\
  has_float (TRec i fs) = true.
Proof. exact C08.Proofs.eq_ord_hash_no_float_opaque_refuted. Qed.
Print Assumptions eq_ord_hash_no_float_opaque_refuted.

(* Rust unions: nothing but Copy (and Clone) *)
Theorem union_only_copy : forall o i fs tr,
  o_untagged o = true -> r_union i = true -> r_fwd i = false ->
  mem tr (derives_of o (TRec i fs)) = true -> tr = Copy \/ tr = Clone.
Proof. exact C08.Proofs.union_only_copy. Qed.
Print Assumptions union_only_copy.

(* packed types derive nothing unless they derive Copy *)
Theorem packed_needs_copy : forall o i fs,
  r_packed i = true -> r_fwd i = false ->
  derives_of o (TRec i fs) <> [] -> mem Copy (derives_of o (TRec i fs)) = true.
Proof. exact C08.Proofs.packed_needs_copy. Qed.
Print Assumptions packed_needs_copy.

(* a blocklisted, user-excluded, pointer / enum (Default), over-long array (Default) constituent *)
Theorem blocklisted_member_blocks : forall o i fs j gs,
  o_untagged o = true -> r_opaque i = false -> r_fwd i = false ->
  In (TRec j gs) fs -> r_allowlisted j = false ->
  derives_of o (TRec i fs) = [].
Proof. exact C08.Proofs.blocklisted_member_blocks. Qed.
Print Assumptions blocklisted_member_blocks.

Theorem excluded_by_name : forall o i fs a,
  In a (r_excl i) -> can o a (TRec i fs) = No.
Proof. exact C08.Proofs.excluded_by_name. Qed.
Print Assumptions excluded_by_name.

Theorem no_default_through_pointer_enum_or_long_array : forall o i fs f,
  o_untagged o = true -> r_opaque i = false -> r_fwd i = false -> In f fs ->
  (f = TPtr \/ f = TEnum \/ exists e n, f = TArr e n /\ RUST_DERIVE_IN_ARRAY_LIMIT < n) ->
  mem Default (derives_of o (TRec i fs)) = false.
Proof. exact C08.Proofs.no_default_through_pointer_enum_or_long_array. Qed.
Print Assumptions no_default_through_pointer_enum_or_long_array.

(* disabled options gate their traits *)
Theorem option_gates : forall o i fs, r_fwd i = false ->
  let d := derives_of o (TRec i fs) in
  (o_copy o = false -> mem Copy d = false /\ mem Clone d = false) /\
  (o_debug o = false -> mem Debug d = false) /\
  (o_default o = false -> mem Default d = false) /\
  (o_hash o = false -> mem Hash d = false) /\
  (o_partialord o = false -> mem PartialOrd d = false) /\
  (o_ord o = false -> mem Ord d = false) /\
  (o_partialeq o = false -> mem PartialEq d = false) /\
  (o_eq o = false -> mem Eq d = false).
Proof. exact C08.Proofs.option_gates. Qed.
Print Assumptions option_gates.

(* COMPLETENESS on plain data: nothing the options ask for is withheld *)
Theorem plain_complete : forall o i fs tr,
  plain (TRec i fs) = true -> (r_packed i = false \/ o_copy o = true) ->
  (match tr with
   | Copy | Clone => o_copy o | Debug => o_debug o | Default => o_default o | Hash => o_hash o
   | PartialOrd => o_partialord o | Ord => o_ord o | PartialEq => o_partialeq o | Eq => o_eq o
   end) = true ->
  mem tr (derives_of o (TRec i fs)) = true.
Proof. exact C08.Proofs.plain_complete. Qed.
Print Assumptions plain_complete.

(* where Default is asked for but cannot be derived, it is written by hand (all-zero) *)
Theorem default_written_when_not_derived : forall o i fs,
  o_default o = true -> r_fwd i = false -> existsb (atrait_eqb ADefault) (r_excl i) = false ->
  mem Default (derives_of o (TRec i fs)) = false -> mem Default (manual o (TRec i fs)) = true.
Proof. exact C08.Proofs.default_written_when_not_derived. Qed.
Print Assumptions default_written_when_not_derived.

(* an opaque composite derives from its layout alone; its single blob field supports every trait
   the rules grant except PartialOrd / Ord (known finding: --with-derive-partialord on an opaque type) *)
Theorem opaque_blob_sound_partial : forall o i fs tr,
  r_opaque i = true -> o_partialord o = false -> o_ord o = false ->
  mem tr (derives_of o (TRec i fs)) = true -> blob_implements tr = true.
Proof.
  intros o i fs tr Hop Hpo Ho H.
  destruct tr; try reflexivity; exfalso;
    pose proof (C08.Proofs.option_gates o i fs) as G;
    destruct (r_fwd i) eqn:Hf;
    try (cbn [derives_of] in H; rewrite Hf in H; cbn in H; discriminate);
    specialize (G eq_refl); cbv zeta in G;
    destruct G as (_ & _ & _ & _ & Gpo & Go & _);
    [ rewrite (Gpo Hpo) in H | rewrite (Go Ho) in H ]; discriminate.
Qed.
Print Assumptions opaque_blob_sound_partial.

Theorem opaque_blob_partialord_refuted : exists o i fs,
  r_opaque i = true /\ mem PartialOrd (derives_of o (TRec i fs)) = true /\ blob_implements PartialOrd = false.
Proof.
  exists {| o_untagged := true; o_copy := true; o_debug := true; o_default := false; o_hash := false;
            o_partialord := true; o_ord := false; o_partialeq := true; o_eq := false; o_impl_debug := false |},
         {| r_union := false; r_fwd := false; r_packed := false; r_allowlisted := true; r_opaque := true;
            r_big_unit := false; r_align := 8; r_excl := [] |}, [TInt].
  repeat split; reflexivity.
Qed.
Print Assumptions opaque_blob_partialord_refuted.
