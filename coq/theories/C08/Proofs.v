(* C08 — proofs of the property theorems stated in Properties.v *)
From Coq Require Import NArith List Bool Lia.
From BG Require Import C08.Model.
Import ListNotations.
Open Scope N_scope.

(* ------------------------------------------------------------------------------------------ *)
(* strong induction principle for the nested inductive [ty]                                    *)

Section TyInd.
  Variable P : ty -> Prop.
  Hypothesis HInt : P TInt.
  Hypothesis HFloat : P TFloat.
  Hypothesis HEnum : P TEnum.
  Hypothesis HPtr : P TPtr.
  Hypothesis HFn : forall d, P (TFnPtr d).
  Hypothesis HArr : forall e n, P e -> P (TArr e n).
  Hypothesis HRec : forall i fs, Forall P fs -> P (TRec i fs).

  Fixpoint ty_ind' (t : ty) : P t :=
    match t with
    | TInt => HInt
    | TFloat => HFloat
    | TEnum => HEnum
    | TPtr => HPtr
    | TFnPtr d => HFn d
    | TArr e n => HArr e n (ty_ind' e)
    | TRec i fs =>
        HRec i fs ((fix go (l : list ty) : Forall P l :=
                      match l with
                      | [] => Forall_nil P
                      | f :: l' => Forall_cons f (ty_ind' f) (go l')
                      end) fs)
    end.
End TyInd.

(* ------------------------------------------------------------------------------------------ *)
(* the local fixes as list functions                                                           *)

Definition joinN (o : opts) (a : atrait) (fs : list ty) : N :=
  fold_right (fun f acc => N.max (can o a f) acc) Yes fs.

Lemma join_fix_eq o a fs :
  (fix join (l : list ty) : N :=
     match l with [] => Yes | f :: l' => N.max (can o a f) (join l') end) fs = joinN o a fs.
Proof.
  induction fs as [|f fs IH]; [reflexivity|].
  unfold joinN; simpl fold_right. fold (joinN o a fs). rewrite <- IH. reflexivity.
Qed.

Lemma all_fix_eq (p : ty -> bool) fs :
  (fix all (l : list ty) : bool := match l with [] => true | f :: l' => p f && all l' end) fs
  = forallb p fs.
Proof. induction fs as [|f fs IH]; [reflexivity|]. simpl forallb. rewrite <- IH. reflexivity. Qed.

Lemma any_fix_eq (p : ty -> bool) fs :
  (fix any (l : list ty) : bool := match l with [] => false | f :: l' => p f || any l' end) fs
  = existsb p fs.
Proof. induction fs as [|f fs IH]; [reflexivity|]. simpl existsb. rewrite <- IH. reflexivity. Qed.

Definition can_rec_body (o : opts) (a : atrait) (i : rinfo) (joined : N) : N :=
  let r :=
    if negb (r_allowlisted i) then No
    else if existsb (atrait_eqb a) (r_excl i) then No
    else if r_opaque i then
      (if negb (atrait_eqb a ACopy) && r_union i && o_untagged o then No else Yes)
    else if r_fwd i && negb (atrait_eqb a ADebug) then No
    else if r_union i && negb (atrait_eqb a ACopy) then (if o_untagged o then No else Yes)
    else if atrait_eqb a ADefault && r_big_unit i then No
    else joined in
  if (r =? Yes) && atrait_eqb a ADefault && (RUST_DERIVE_IN_ARRAY_LIMIT <? r_align i)
  then Manually else r.

Lemma can_rec o a i fs : can o a (TRec i fs) = can_rec_body o a i (joinN o a fs).
Proof. rewrite <- join_fix_eq. reflexivity. Qed.

Lemma can_arr o a e n :
  can o a (TArr e n) =
  if negb (can o a e =? Yes) then No
  else if (n =? 0) && negb (incomplete_array_ok a) then No
  else match a with
       | ADefault => if RUST_DERIVE_IN_ARRAY_LIMIT <? n then Manually else Yes
       | _ => Yes
       end.
Proof. reflexivity. Qed.

Lemma has_float_rec i fs : has_float (TRec i fs) = existsb has_float fs.
Proof. rewrite <- any_fix_eq. reflexivity. Qed.

(* the floats bindgen's output actually shows: an opaque composite is emitted as a blob of
   integers, whatever its C fields were ([has_float] looks through opacity) *)
Fixpoint visible_float (t : ty) : bool :=
  match t with
  | TFloat => true
  | TArr e _ => visible_float e
  | TRec i fs =>
      negb (r_opaque i)
      && (fix any (l : list ty) : bool :=
            match l with [] => false | f :: l' => visible_float f || any l' end) fs
  | _ => false
  end.

Lemma visible_float_rec i fs :
  visible_float (TRec i fs) = negb (r_opaque i) && existsb visible_float fs.
Proof. rewrite <- any_fix_eq. reflexivity. Qed.

(* no opaque composite anywhere in the tree *)
Fixpoint no_opaque (t : ty) : bool :=
  match t with
  | TArr e _ => no_opaque e
  | TRec i fs =>
      negb (r_opaque i)
      && (fix all (l : list ty) : bool :=
            match l with [] => true | f :: l' => no_opaque f && all l' end) fs
  | _ => true
  end.

Lemma no_opaque_rec i fs :
  no_opaque (TRec i fs) = negb (r_opaque i) && forallb no_opaque fs.
Proof. rewrite <- all_fix_eq. reflexivity. Qed.

Definition wf_member (f : ty) : bool :=
  wf f && match f with TRec j _ => negb (r_fwd j) | _ => true end.

Lemma wf_rec i fs : wf (TRec i fs) = forallb wf_member fs.
Proof. rewrite <- all_fix_eq. reflexivity. Qed.

Lemma plain_rec i fs :
  plain (TRec i fs) =
  negb (r_union i) && negb (r_fwd i) && r_allowlisted i && negb (r_opaque i) && negb (r_big_unit i)
  && (r_align i <=? RUST_DERIVE_IN_ARRAY_LIMIT) && match r_excl i with [] => true | _ => false end
  && forallb plain fs.
Proof. rewrite <- all_fix_eq. reflexivity. Qed.

Lemma npn_rec o i fs :
  no_packed_noncopy o (TRec i fs) =
  (negb (r_packed i) || (o_copy o && yes (can o ACopy (TRec i fs))))
  && forallb (no_packed_noncopy o) fs.
Proof. rewrite <- all_fix_eq. reflexivity. Qed.

Lemma implements_rec o tr i fs :
  implements o tr (TRec i fs) =
  if negb (r_allowlisted i) then false
  else mem tr (derives_of o (TRec i fs)) || mem tr (manual o (TRec i fs)).
Proof. reflexivity. Qed.

Lemma implements_arr o tr e n :
  implements o tr (TArr e n) =
  if n =? 0 then match tr with Debug | Default => true | _ => false end
  else implements o tr e
       && match tr with Default => n <=? RUST_DERIVE_IN_ARRAY_LIMIT | _ => true end.
Proof. reflexivity. Qed.

(* ------------------------------------------------------------------------------------------ *)
(* joins                                                                                       *)

Lemma joinN_yes o a fs : joinN o a fs = Yes <-> (forall f, In f fs -> can o a f = Yes).
Proof.
  unfold Yes. induction fs as [|f fs IH].
  - split; [intros _ g []|reflexivity].
  - unfold joinN; simpl fold_right; fold (joinN o a fs). split.
    + intros H g [<-|Hin].
      * lia.
      * apply IH; [lia|exact Hin].
    + intros H.
      assert (H1 : can o a f = 0) by (apply H; left; reflexivity).
      assert (H2 : joinN o a fs = 0) by (apply IH; intros g Hg; apply H; right; exact Hg).
      lia.
Qed.

Lemma existsb_false_all {A} (p : A -> bool) l :
  (forall x, In x l -> p x = false) -> existsb p l = false.
Proof.
  intros H. destruct (existsb p l) eqn:E; [|reflexivity].
  apply existsb_exists in E. destruct E as [x [Hin Hx]]. rewrite (H x Hin) in Hx. discriminate.
Qed.

Lemma existsb_false_in {A} (p : A -> bool) l x :
  existsb p l = false -> In x l -> p x = false.
Proof.
  intros H Hin. destruct (p x) eqn:E; [|reflexivity].
  assert (existsb p l = true) by (apply existsb_exists; exists x; split; assumption). congruence.
Qed.

(* ------------------------------------------------------------------------------------------ *)
(* facts about [can] on a composite                                                            *)

Ltac break_ifs :=
  repeat match goal with
         | H : context [if ?b then _ else _] |- _ => destruct b eqn:?
         end.

Lemma can_rec_allowlisted o a i fs : can o a (TRec i fs) = Yes -> r_allowlisted i = true.
Proof.
  rewrite can_rec. unfold can_rec_body, Yes, No, Manually.
  destruct (r_allowlisted i); [reflexivity|]. simpl. discriminate.
Qed.

Lemma can_rec_joined o a i fs :
  o_untagged o = true -> r_opaque i = false ->
  can o a (TRec i fs) = Yes -> joinN o a fs = Yes.
Proof.
  intros Hu Hop. rewrite can_rec. unfold can_rec_body. rewrite Hu, Hop.
  unfold Yes, No, Manually. intros H.
  break_ifs; try discriminate; assumption.
Qed.

Lemma can_rec_not_excl o a i fs :
  can o a (TRec i fs) = Yes -> existsb (atrait_eqb a) (r_excl i) = false.
Proof.
  rewrite can_rec. unfold can_rec_body, Yes, No, Manually.
  destruct (existsb (atrait_eqb a) (r_excl i)); [|reflexivity].
  destruct (negb (r_allowlisted i)); simpl; discriminate.
Qed.

Lemma can_rec_union o a i fs :
  o_untagged o = true -> r_union i = true ->
  can o a (TRec i fs) = Yes -> a = ACopy.
Proof.
  intros Hu Hun. rewrite can_rec. unfold can_rec_body. rewrite Hu, Hun.
  unfold Yes, No, Manually. intros H.
  destruct a; try reflexivity; exfalso; simpl in H;
    break_ifs; discriminate.
Qed.

Lemma atrait_eqb_refl a : atrait_eqb a a = true.
Proof. destruct a; reflexivity. Qed.

Lemma trait_eqb_refl t : trait_eqb t t = true.
Proof. destruct t; reflexivity. Qed.

(* a member that cannot be derived blocks the composite *)
Lemma member_blocks o a i fs f :
  o_untagged o = true -> r_opaque i = false ->
  In f fs -> can o a f <> Yes -> yes (can o a (TRec i fs)) = false.
Proof.
  intros Hu Hop Hin Hf. unfold yes.
  destruct (can o a (TRec i fs) =? Yes) eqn:E; [|reflexivity].
  apply N.eqb_eq in E. exfalso. apply Hf.
  apply (proj1 (joinN_yes o a fs) (can_rec_joined o a i fs Hu Hop E)). exact Hin.
Qed.

(* ------------------------------------------------------------------------------------------ *)
(* membership in the derive list                                                               *)

Lemma mem_gen (tr : trait) (c b1 b2 b3 b4 b5 b6 b7 : bool) :
  mem tr ((if c then [Copy; Clone] else [])
          ++ (if b1 then [Debug] else [])
          ++ (if b2 then [Default] else [])
          ++ (if b3 then [Hash] else [])
          ++ (if b4 then [PartialOrd] else [])
          ++ (if b5 then [Ord] else [])
          ++ (if b6 then [PartialEq] else [])
          ++ (if b7 then [Eq] else []))
  = match tr with
    | Copy | Clone => c | Debug => b1 | Default => b2 | Hash => b3
    | PartialOrd => b4 | Ord => b5 | PartialEq => b6 | Eq => b7
    end.
Proof. destruct tr, c, b1, b2, b3, b4, b5, b6, b7; reflexivity. Qed.

Lemma mem_app tr l1 l2 : mem tr (l1 ++ l2) = mem tr l1 || mem tr l2.
Proof. unfold mem. apply existsb_app. Qed.

(* what puts [tr] into the derive list once the packed early return is passed *)
Definition sel (o : opts) (t : ty) (tr : trait) : bool :=
  match tr with
  | Copy | Clone => o_copy o && yes (can o ACopy t)
  | Debug => o_debug o && yes (can o ADebug t)
  | Default => o_default o && yes (can o ADefault t)
  | Hash => o_hash o && yes (can o AHash t)
  | PartialOrd => o_partialord o && yes (can o APartialEq t)
  | Ord => o_ord o && yes (can o APartialEq t) && negb (has_float t)
  | PartialEq => o_partialeq o && yes (can o APartialEq t)
  | Eq => o_eq o && yes (can o APartialEq t) && negb (has_float t)
  end.

Lemma mem_derives o i fs tr :
  r_fwd i = false ->
  mem tr (derives_of o (TRec i fs))
  = negb (negb (o_copy o && yes (can o ACopy (TRec i fs))) && r_packed i)
    && sel o (TRec i fs) tr.
Proof.
  intros Hf. unfold derives_of. rewrite Hf.
  destruct (negb (o_copy o && yes (can o ACopy (TRec i fs))) && r_packed i) eqn:E.
  - reflexivity.
  - rewrite mem_gen. destruct tr; reflexivity.
Qed.

(* the analysis that governs a trait, the option that enables it, and the float side condition *)
Definition gov (tr : trait) : atrait :=
  match tr with
  | Copy | Clone => ACopy | Debug => ADebug | Default => ADefault | Hash => AHash
  | PartialOrd | Ord | PartialEq | Eq => APartialEq
  end.
Definition opt_on (o : opts) (tr : trait) : bool :=
  match tr with
  | Copy | Clone => o_copy o | Debug => o_debug o | Default => o_default o | Hash => o_hash o
  | PartialOrd => o_partialord o | Ord => o_ord o | PartialEq => o_partialeq o | Eq => o_eq o
  end.
Definition needs_nofloat (tr : trait) : bool :=
  match tr with Ord | Eq => true | _ => false end.

Lemma sel_spec o t tr :
  sel o t tr = opt_on o tr && yes (can o (gov tr) t)
               && (if needs_nofloat tr then negb (has_float t) else true).
Proof. destruct tr; cbn [sel opt_on gov needs_nofloat]; rewrite ?andb_true_r; reflexivity. Qed.

Lemma yes_true n : yes n = true <-> n = Yes.
Proof. unfold yes. apply N.eqb_eq. Qed.

Lemma mem_derives_inv o i fs tr :
  r_fwd i = false ->
  mem tr (derives_of o (TRec i fs)) = true ->
  opt_on o tr = true /\ can o (gov tr) (TRec i fs) = Yes /\
  (needs_nofloat tr = true -> has_float (TRec i fs) = false).
Proof.
  intros Hf H. rewrite (mem_derives o i fs tr Hf), sel_spec in H.
  apply andb_true_iff in H. destruct H as [_ H].
  apply andb_true_iff in H. destruct H as [H H3].
  apply andb_true_iff in H. destruct H as [H1 H2].
  apply yes_true in H2. repeat split; try assumption.
  intros Hn. rewrite Hn in H3. apply negb_true_iff in H3. exact H3.
Qed.

(* ------------------------------------------------------------------------------------------ *)
(* SOUNDNESS                                                                                   *)

(* [wf] forgets that an array element cannot be a forward-declared composite either (C: an array
   of incomplete type is ill-formed); this is the missing half, through nested arrays *)
Fixpoint elems_complete (t : ty) : bool :=
  match t with
  | TArr e _ => elems_complete e && match e with TRec j _ => negb (r_fwd j) | _ => true end
  | _ => true
  end.

Lemma member_sound o tr f :
  o_untagged o = true ->
  elems_complete f = true ->
  no_packed_noncopy o f = true ->
  match f with TRec j _ => r_fwd j = false | _ => True end ->
  opt_on o tr = true ->
  can o (gov tr) f = Yes ->
  (needs_nofloat tr = true -> has_float f = false) ->
  implements o tr f = true.
Proof.
  intros Hu. induction f as [| | | |d|e IH n|j gs]; intros Hec Hnp Hfw Hopt Hcan Hnf.
  - reflexivity.
  - destruct tr; try reflexivity; simpl in *; try discriminate;
      specialize (Hnf eq_refl); discriminate.
  - reflexivity.
  - destruct tr; try reflexivity; simpl in *; discriminate.
  - destruct d, tr; try reflexivity; simpl in *; discriminate.
  - rewrite implements_arr. rewrite can_arr in Hcan.
    destruct (can o (gov tr) e =? Yes) eqn:Ee; [|simpl in Hcan; discriminate].
    apply N.eqb_eq in Ee. simpl negb in Hcan. cbv iota in Hcan.
    destruct (n =? 0) eqn:En.
    + destruct tr; try reflexivity; simpl in Hcan; discriminate.
    + simpl andb in Hcan. cbv iota in Hcan.
      simpl in Hec. apply andb_true_iff in Hec. destruct Hec as [Hec1 Hec2].
      rewrite IH; try assumption.
      * destruct tr; try reflexivity. simpl in Hcan. simpl.
        unfold RUST_DERIVE_IN_ARRAY_LIMIT in *.
        destruct (32 <? n) eqn:El; [discriminate|].
        apply N.ltb_ge in El. apply N.leb_le. exact El.
      * destruct e; try exact I. apply negb_true_iff in Hec2. exact Hec2.
  - rewrite implements_rec.
    rewrite (can_rec_allowlisted _ _ _ _ Hcan). simpl negb. cbv iota.
    apply orb_true_iff. left.
    rewrite (mem_derives o j gs tr Hfw), sel_spec.
    rewrite npn_rec in Hnp. apply andb_true_iff in Hnp. destruct Hnp as [Hnp _].
    rewrite Hopt. rewrite (proj2 (yes_true _) Hcan).
    assert (Hp : negb (negb (o_copy o && yes (can o ACopy (TRec j gs))) && r_packed j) = true).
    { destruct (r_packed j); [|rewrite andb_false_r; reflexivity].
      apply orb_true_iff in Hnp. destruct Hnp as [Hnp|Hnp]; [discriminate Hnp|].
      rewrite Hnp. reflexivity. }
    rewrite Hp, !andb_true_l.
    destruct (needs_nofloat tr) eqn:En; [|reflexivity].
    rewrite (Hnf eq_refl). reflexivity.
Qed.

Lemma derive_sound : forall o i fs tr,
  o_untagged o = true -> r_opaque i = false -> r_fwd i = false ->
  wf (TRec i fs) = true ->
  forallb elems_complete fs = true ->
  forallb (no_packed_noncopy o) fs = true ->
  mem tr (derives_of o (TRec i fs)) = true ->
  forallb (implements o tr) fs = true.
Proof.
  intros o i fs tr Hu Hop Hfw Hwf Hec Hnp Hmem.
  destruct (mem_derives_inv o i fs tr Hfw Hmem) as [Hopt [Hcan Hnf]].
  rewrite wf_rec in Hwf.
  apply forallb_forall. intros f Hin.
  pose proof (proj1 (forallb_forall _ _) Hwf f Hin) as Hwf_f.
  pose proof (proj1 (forallb_forall _ _) Hec f Hin) as Hec_f.
  pose proof (proj1 (forallb_forall _ _) Hnp f Hin) as Hnp_f.
  apply member_sound; try assumption.
  - unfold wf_member in Hwf_f. apply andb_true_iff in Hwf_f. destruct Hwf_f as [_ H].
    destruct f; try exact I. apply negb_true_iff in H. exact H.
  - apply (proj1 (joinN_yes o (gov tr) fs) (can_rec_joined _ _ _ _ Hu Hop Hcan)). exact Hin.
  - intros Hn. specialize (Hnf Hn). rewrite has_float_rec in Hnf.
    exact (existsb_false_in _ _ _ Hnf Hin).
Qed.

(* the statement as first written (without [elems_complete]) is false: an array of a
   forward-declared opaque composite *)
Definition plain_info : rinfo :=
  {| r_union := false; r_fwd := false; r_packed := false; r_allowlisted := true;
     r_opaque := false; r_big_unit := false; r_align := 4; r_excl := [] |}.
Definition all_opts : opts :=
  {| o_untagged := true; o_copy := true; o_debug := true; o_default := true; o_hash := true;
     o_partialord := true; o_ord := true; o_partialeq := true; o_eq := true;
     o_impl_debug := false |}.

Lemma derive_sound_needs_complete_elems : exists o i fs tr,
  o_untagged o = true /\ r_opaque i = false /\ r_fwd i = false /\ wf (TRec i fs) = true /\
  forallb (no_packed_noncopy o) fs = true /\
  mem tr (derives_of o (TRec i fs)) = true /\ forallb (implements o tr) fs = false.
Proof.
  exists all_opts, plain_info,
    [TArr (TRec {| r_union := false; r_fwd := true; r_packed := false; r_allowlisted := true;
                   r_opaque := true; r_big_unit := false; r_align := 4; r_excl := [] |} []) 1],
    Copy.
  repeat split; vm_compute; reflexivity.
Qed.

Lemma derive_sound_hole_refuted : exists o i fs tr,
  o_untagged o = true /\ r_opaque i = false /\ r_fwd i = false /\ wf (TRec i fs) = true /\
  mem tr (derives_of o (TRec i fs)) = true /\ forallb (implements o tr) fs = false.
Proof.
  exists {| o_untagged := true; o_copy := true; o_debug := true; o_default := false;
            o_hash := false; o_partialord := false; o_ord := false; o_partialeq := false;
            o_eq := false; o_impl_debug := false |},
    plain_info,
    [TRec {| r_union := false; r_fwd := false; r_packed := true; r_allowlisted := true;
             r_opaque := false; r_big_unit := false; r_align := 1; r_excl := [] |}
          [TInt; TArr TInt 0]],
    Debug.
  repeat split; vm_compute; reflexivity.
Qed.

(* ------------------------------------------------------------------------------------------ *)
(* supertraits                                                                                 *)

Definition opts_closed (o : opts) : Prop :=
  (o_ord o = true -> o_eq o = true /\ o_partialord o = true) /\
  (o_partialord o = true -> o_partialeq o = true) /\
  (o_eq o = true -> o_partialeq o = true).

Lemma supertraits_closed : forall o t, opts_closed o ->
  let d := derives_of o t in
  (mem Copy d = true -> mem Clone d = true) /\
  (mem Eq d = true -> mem PartialEq d = true) /\
  (mem PartialOrd d = true -> mem PartialEq d = true) /\
  (mem Ord d = true -> mem Eq d = true /\ mem PartialOrd d = true).
Proof.
  intros o t [Hord [Hpo Heq]] d. subst d.
  destruct t as [| | | |d0|e n|i fs]; try (simpl; repeat split; discriminate).
  destruct (r_fwd i) eqn:Hf.
  - unfold derives_of. rewrite Hf. simpl. repeat split; discriminate.
  - rewrite !(mem_derives o i fs _ Hf). cbn [sel].
    revert Hord Hpo Heq.
    generalize (negb (negb (o_copy o && yes (can o ACopy (TRec i fs))) && r_packed i)).
    generalize (o_copy o && yes (can o ACopy (TRec i fs))).
    generalize (yes (can o APartialEq (TRec i fs))), (has_float (TRec i fs)).
    generalize (o_ord o), (o_eq o), (o_partialord o), (o_partialeq o).
    intros b1 b2 b3 b4 y f c p.
    destruct b1, b2, b3, b4, y, f, c, p; cbn; intuition congruence.
Qed.

Lemma supertraits_open_refuted : exists o t,
  mem Ord (derives_of o t) = true /\ mem Eq (derives_of o t) = false /\
  (o_ord o = true /\ o_partialord o = true).
Proof.
  exists {| o_untagged := true; o_copy := true; o_debug := true; o_default := false;
            o_hash := false; o_partialord := true; o_ord := true; o_partialeq := false;
            o_eq := false; o_impl_debug := false |},
    (TRec plain_info [TInt]).
  repeat split; vm_compute; reflexivity.
Qed.

(* ------------------------------------------------------------------------------------------ *)
(* floats                                                                                      *)

Lemma hash_no_visible_float o t :
  o_untagged o = true -> can o AHash t = Yes -> visible_float t = false.
Proof.
  intros Hu. induction t as [| | | |d|e n IH|i fs IH] using ty_ind'; intros H;
    try reflexivity.
  - simpl in H. discriminate.
  - rewrite can_arr in H. simpl visible_float.
    destruct (can o AHash e =? Yes) eqn:E; [|simpl in H; discriminate].
    apply N.eqb_eq in E. exact (IH E).
  - rewrite visible_float_rec. destruct (r_opaque i) eqn:Hop; [reflexivity|]. simpl negb.
    simpl andb.
    pose proof (proj1 (joinN_yes o AHash fs) (can_rec_joined _ _ _ _ Hu Hop H)) as Hall.
    apply existsb_false_all. intros f Hin.
    rewrite Forall_forall in IH. exact (IH f Hin (Hall f Hin)).
Qed.

Lemma visible_float_le t : visible_float t = true -> has_float t = true.
Proof.
  induction t as [| | | |d|e n IH|i fs IH] using ty_ind'; intros H; try discriminate H;
    try reflexivity.
  - exact (IH H).
  - rewrite visible_float_rec in H. apply andb_true_iff in H. destruct H as [_ H].
    rewrite has_float_rec. apply existsb_exists in H. destruct H as [f [Hin Hf]].
    apply existsb_exists. exists f. split; [exact Hin|].
    rewrite Forall_forall in IH. exact (IH f Hin Hf).
Qed.

Lemma visible_float_no_opaque t : no_opaque t = true -> visible_float t = has_float t.
Proof.
  induction t as [| | | |d|e n IH|i fs IH] using ty_ind'; intros H; try reflexivity.
  - exact (IH H).
  - rewrite no_opaque_rec in H. apply andb_true_iff in H. destruct H as [H1 H2].
    rewrite visible_float_rec, has_float_rec, H1. simpl andb.
    rewrite Forall_forall in IH. pose proof (proj1 (forallb_forall _ _) H2) as Hall.
    clear H2. induction fs as [|f fs IHfs]; [reflexivity|].
    simpl existsb. rewrite (IH f (or_introl eq_refl) (Hall f (or_introl eq_refl))).
    f_equal. apply IHfs; intros g Hg; [apply IH|apply Hall]; right; exact Hg.
Qed.

Lemma eq_ord_hash_no_float : forall o i fs,
  o_untagged o = true -> r_opaque i = false ->
  let d := derives_of o (TRec i fs) in
  ((mem Eq d || mem Ord d) = true -> has_float (TRec i fs) = false) /\
  (mem Hash d = true -> visible_float (TRec i fs) = false).
Proof.
  intros o i fs Hu Hop d. subst d.
  destruct (r_fwd i) eqn:Hf.
  - unfold derives_of. rewrite Hf. simpl. split; discriminate.
  - split; intros H.
    + apply orb_true_iff in H. destruct H as [H|H].
      * destruct (mem_derives_inv o i fs Eq Hf H) as [_ [_ Hn]]. exact (Hn eq_refl).
      * destruct (mem_derives_inv o i fs Ord Hf H) as [_ [_ Hn]]. exact (Hn eq_refl).
    + destruct (mem_derives_inv o i fs Hash Hf H) as [_ [Hc _]].
      exact (hash_no_visible_float o _ Hu Hc).
Qed.

(* the statement as first written, for trees without opaque composites *)
Lemma eq_ord_hash_no_float_no_opaque : forall o i fs,
  o_untagged o = true -> no_opaque (TRec i fs) = true ->
  let d := derives_of o (TRec i fs) in
  (mem Eq d || mem Ord d || mem Hash d) = true -> has_float (TRec i fs) = false.
Proof.
  intros o i fs Hu Hno d H. subst d.
  assert (Hop : r_opaque i = false).
  { rewrite no_opaque_rec in Hno. apply andb_true_iff in Hno. destruct Hno as [Hno _].
    apply negb_true_iff in Hno. exact Hno. }
  destruct (eq_ord_hash_no_float o i fs Hu Hop) as [H1 H2].
  apply orb_true_iff in H. destruct H as [H|H]; [exact (H1 H)|].
  rewrite <- (visible_float_no_opaque _ Hno). exact (H2 H).
Qed.

(* ... and its failure with an opaque member: the blob hashes, the C type had a float *)
Lemma eq_ord_hash_no_float_opaque_refuted : exists o i fs,
  o_untagged o = true /\ r_opaque i = false /\
  (mem Eq (derives_of o (TRec i fs)) || mem Ord (derives_of o (TRec i fs))
   || mem Hash (derives_of o (TRec i fs))) = true /\
  has_float (TRec i fs) = true.
Proof.
  exists all_opts, plain_info,
    [TRec {| r_union := false; r_fwd := false; r_packed := false; r_allowlisted := true;
             r_opaque := true; r_big_unit := false; r_align := 8; r_excl := [] |} [TFloat]].
  repeat split; vm_compute; reflexivity.
Qed.

(* ------------------------------------------------------------------------------------------ *)
(* unions, packed                                                                              *)

Lemma union_only_copy : forall o i fs tr,
  o_untagged o = true -> r_union i = true -> r_fwd i = false ->
  mem tr (derives_of o (TRec i fs)) = true -> tr = Copy \/ tr = Clone.
Proof.
  intros o i fs tr Hu Hun Hf H.
  destruct (mem_derives_inv o i fs tr Hf H) as [_ [Hc _]].
  pose proof (can_rec_union o _ i fs Hu Hun Hc) as Hg.
  destruct tr; try discriminate Hg; auto.
Qed.

Lemma packed_needs_copy : forall o i fs,
  r_packed i = true -> r_fwd i = false ->
  derives_of o (TRec i fs) <> [] -> mem Copy (derives_of o (TRec i fs)) = true.
Proof.
  intros o i fs Hp Hf H. rewrite (mem_derives o i fs Copy Hf). cbn [sel].
  unfold derives_of in H. rewrite Hf, Hp in H. rewrite Hp.
  destruct (o_copy o && yes (can o ACopy (TRec i fs))); [reflexivity|].
  exfalso. apply H. reflexivity.
Qed.

(* ------------------------------------------------------------------------------------------ *)
(* blocking constituents                                                                       *)

Lemma can_blocklisted o a j gs : r_allowlisted j = false -> can o a (TRec j gs) = No.
Proof. intros H. rewrite can_rec. unfold can_rec_body. rewrite H. reflexivity. Qed.

Lemma blocklisted_member_blocks : forall o i fs j gs,
  o_untagged o = true -> r_opaque i = false -> r_fwd i = false ->
  In (TRec j gs) fs -> r_allowlisted j = false ->
  derives_of o (TRec i fs) = [].
Proof.
  intros o i fs j gs Hu Hop Hf Hin Hj.
  assert (Hall : forall a, yes (can o a (TRec i fs)) = false).
  { intros a. apply (member_blocks o a i fs (TRec j gs) Hu Hop Hin).
    rewrite (can_blocklisted o a j gs Hj). discriminate. }
  unfold derives_of. rewrite Hf, !Hall, !andb_false_r. simpl.
  destruct (r_packed i); reflexivity.
Qed.

Lemma excluded_by_name : forall o i fs a,
  In a (r_excl i) -> can o a (TRec i fs) = No.
Proof.
  intros o i fs a Hin. rewrite can_rec. unfold can_rec_body.
  assert (E : existsb (atrait_eqb a) (r_excl i) = true).
  { apply existsb_exists. exists a. split; [exact Hin|apply atrait_eqb_refl]. }
  rewrite E. destruct (negb (r_allowlisted i)); reflexivity.
Qed.

Lemma no_default_through_pointer_enum_or_long_array : forall o i fs f,
  o_untagged o = true -> r_opaque i = false -> r_fwd i = false -> In f fs ->
  (f = TPtr \/ f = TEnum \/ exists e n, f = TArr e n /\ RUST_DERIVE_IN_ARRAY_LIMIT < n) ->
  mem Default (derives_of o (TRec i fs)) = false.
Proof.
  intros o i fs f Hu Hop Hf Hin Hk.
  rewrite (mem_derives o i fs Default Hf). cbn [sel].
  assert (Hno : yes (can o ADefault (TRec i fs)) = false).
  { apply (member_blocks o ADefault i fs f Hu Hop Hin).
    destruct Hk as [->|[->|[e [n [-> Hn]]]]].
    - simpl. discriminate.
    - simpl. discriminate.
    - rewrite can_arr. apply N.ltb_lt in Hn. rewrite Hn.
      destruct (negb (can o ADefault e =? Yes)); [discriminate|].
      destruct ((n =? 0) && negb (incomplete_array_ok ADefault)); discriminate. }
  rewrite Hno, !andb_false_r. reflexivity.
Qed.

(* ------------------------------------------------------------------------------------------ *)
(* option gating                                                                               *)

Lemma option_gates : forall o i fs, r_fwd i = false ->
  let d := derives_of o (TRec i fs) in
  (o_copy o = false -> mem Copy d = false /\ mem Clone d = false) /\
  (o_debug o = false -> mem Debug d = false) /\
  (o_default o = false -> mem Default d = false) /\
  (o_hash o = false -> mem Hash d = false) /\
  (o_partialord o = false -> mem PartialOrd d = false) /\
  (o_ord o = false -> mem Ord d = false) /\
  (o_partialeq o = false -> mem PartialEq d = false) /\
  (o_eq o = false -> mem Eq d = false).
Proof.
  intros o i fs Hf d. subst d.
  rewrite !(mem_derives o i fs _ Hf). cbn [sel].
  repeat split; intros;
    match goal with H : _ o = false |- _ => rewrite H end;
    rewrite ?andb_false_l, ?andb_false_r; reflexivity.
Qed.

(* ------------------------------------------------------------------------------------------ *)
(* COMPLETENESS on plain data                                                                  *)

Lemma plain_rec_inv i fs :
  plain (TRec i fs) = true ->
  r_union i = false /\ r_fwd i = false /\ r_allowlisted i = true /\ r_opaque i = false /\
  r_big_unit i = false /\ (RUST_DERIVE_IN_ARRAY_LIMIT <? r_align i) = false /\ r_excl i = [] /\
  (forall f, In f fs -> plain f = true).
Proof.
  rewrite plain_rec. intros H. repeat rewrite andb_true_iff in H.
  destruct H as [[[[[[[H1 H2] H3] H4] H5] H6] H7] H8].
  rewrite negb_true_iff in H1, H2, H4, H5.
  repeat split; try assumption.
  - apply N.ltb_ge. apply N.leb_le. exact H6.
  - destruct (r_excl i); [reflexivity|discriminate].
  - apply forallb_forall. exact H8.
Qed.

Lemma plain_can o t :
  plain t = true -> (forall a, can o a t = Yes) /\ has_float t = false.
Proof.
  induction t as [| | | |d|e n IH|i fs IH] using ty_ind'; intros H; try discriminate H.
  - split; reflexivity.
  - simpl in H.
    apply andb_true_iff in H. destruct H as [H H3].
    apply andb_true_iff in H. destruct H as [H1 H2].
    destruct (IH H1) as [Hc Hfl]. split; [|exact Hfl].
    intros a. rewrite can_arr, Hc.
    apply N.ltb_lt in H2. apply N.leb_le in H3.
    unfold RUST_DERIVE_IN_ARRAY_LIMIT in *.
    assert (En : (n =? 0) = false) by (apply N.eqb_neq; lia).
    assert (El : (32 <? n) = false) by (apply N.ltb_ge; lia).
    rewrite En, El. destruct a; reflexivity.
  - destruct (plain_rec_inv i fs H) as [H1 [H2 [H3 [H4 [H5 [H6 [H7 Hpl]]]]]]].
    rewrite Forall_forall in IH.
    split.
    + intros a. rewrite can_rec. unfold can_rec_body.
      assert (Hj : joinN o a fs = Yes).
      { apply joinN_yes. intros f Hin. apply (IH f Hin (Hpl f Hin)). }
      rewrite Hj, H1, H2, H3, H4, H5, H6, H7, !andb_false_r. reflexivity.
    + rewrite has_float_rec.
      apply existsb_false_all. intros f Hin. apply (IH f Hin (Hpl f Hin)).
Qed.

Lemma plain_complete : forall o i fs tr,
  plain (TRec i fs) = true -> (r_packed i = false \/ o_copy o = true) ->
  (match tr with
   | Copy | Clone => o_copy o | Debug => o_debug o | Default => o_default o | Hash => o_hash o
   | PartialOrd => o_partialord o | Ord => o_ord o | PartialEq => o_partialeq o | Eq => o_eq o
   end) = true ->
  mem tr (derives_of o (TRec i fs)) = true.
Proof.
  intros o i fs tr Hpl Hpk Hopt.
  destruct (plain_can o _ Hpl) as [Hc Hfl].
  destruct (plain_rec_inv i fs Hpl) as [_ [Hf _]].
  rewrite (mem_derives o i fs tr Hf), sel_spec.
  fold (opt_on o tr) in Hopt.
  rewrite Hopt, !Hc, Hfl.
  assert (Hy : yes Yes = true) by reflexivity. rewrite Hy, andb_true_r.
  assert (Hn : (if needs_nofloat tr then negb false else true) = true)
    by (destruct (needs_nofloat tr); reflexivity).
  rewrite Hn.
  destruct Hpk as [Hp|Hp]; rewrite Hp; [rewrite andb_false_r|]; reflexivity.
Qed.

(* ------------------------------------------------------------------------------------------ *)
(* hand-written Default                                                                        *)

Lemma default_written_when_not_derived : forall o i fs,
  o_default o = true -> r_fwd i = false -> existsb (atrait_eqb ADefault) (r_excl i) = false ->
  mem Default (derives_of o (TRec i fs)) = false -> mem Default (manual o (TRec i fs)) = true.
Proof.
  intros o i fs Hd Hf Hx Hm. unfold manual. rewrite Hm, Hd, Hf, Hx. reflexivity.
Qed.

(* ------------------------------------------------------------------------------------------ *)
(* non-vacuity                                                                                 *)

(* a struct holding an int, a float array, a callback, an opaque composite, a flexible array and
   a nested union satisfies every hypothesis of [derive_sound] and derives something *)
Definition ex_opaque : rinfo :=
  {| r_union := false; r_fwd := false; r_packed := false; r_allowlisted := true;
     r_opaque := true; r_big_unit := false; r_align := 8; r_excl := [] |}.
Definition ex_union : rinfo :=
  {| r_union := true; r_fwd := false; r_packed := false; r_allowlisted := true;
     r_opaque := false; r_big_unit := false; r_align := 4; r_excl := [] |}.
Definition ex_fields : list ty :=
  [TInt; TArr TFloat 4; TFnPtr false; TRec ex_opaque [];
   TRec plain_info [TInt; TArr (TRec plain_info [TInt; TPtr]) 3];
   TRec ex_union [TInt; TFloat]].

Example derive_sound_nonvacuous :
  o_untagged all_opts = true /\ r_opaque plain_info = false /\ r_fwd plain_info = false /\
  wf (TRec plain_info ex_fields) = true /\
  forallb elems_complete ex_fields = true /\
  forallb (no_packed_noncopy all_opts) ex_fields = true /\
  derives_of all_opts (TRec plain_info ex_fields) = [Copy; Clone] /\
  forallb (implements all_opts Copy) ex_fields = true.
Proof. repeat split; vm_compute; reflexivity. Qed.

Example derive_sound_nonvacuous_many :
  let fs := [TInt; TArr TInt 0; TRec plain_info [TInt; TArr (TRec plain_info [TInt]) 3]] in
  wf (TRec plain_info fs) = true /\
  forallb elems_complete fs = true /\
  forallb (no_packed_noncopy all_opts) fs = true /\
  derives_of all_opts (TRec plain_info fs) = [Debug; Default] /\
  forallb (implements all_opts Debug) fs = true /\
  forallb (implements all_opts Default) fs = true.
Proof. repeat split; vm_compute; reflexivity. Qed.

Example derive_sound_instance :
  forallb (implements all_opts Clone) ex_fields = true.
Proof.
  apply (derive_sound all_opts plain_info ex_fields Clone); vm_compute; reflexivity.
Qed.

Example plain_complete_two_level :
  let t := TRec plain_info [TInt; TArr TInt 32; TRec plain_info [TInt; TArr (TArr TInt 2) 3]] in
  plain t = true /\
  derives_of all_opts t = [Copy; Clone; Debug; Default; Hash; PartialOrd; Ord; PartialEq; Eq].
Proof. repeat split; vm_compute; reflexivity. Qed.

Example plain_complete_instance :
  mem Ord (derives_of all_opts
             (TRec plain_info [TInt; TRec plain_info [TInt; TArr TInt 7]])) = true.
Proof. apply plain_complete; [vm_compute; reflexivity | left; reflexivity | reflexivity]. Qed.
