(* C08 — which traits a generated composite derives.  Definitions only.

   [can]        the documented per-kind rules and the join over members as a direct structural
                recursion over the type (CannotDerive::constrain_type / DeriveTrait::can_derive_*
                in ir/analysis/derive.rs; the analysis computes the same function as a fixed point
                over the item graph, which for by-value containment is a tree)
   [has_float]  ir/analysis/has_float.rs on the same tree
   [derives_of] codegen::derives_of_item + the forward-declaration rule of CompInfo::codegen +
                option gating (impl CanDerive* for T in ir/context.rs)
   [manual]     needs_default_impl / needs_debug_impl
   [implements] what the Rust type emitted for a member implements: rustc's built-in impls for
                primitives, raw pointers, Option<fn>, arrays, bindgen's own helper types, and — for
                a nested composite — exactly what bindgen derives or writes by hand for it *)
From Coq Require Import NArith List Bool.
Import ListNotations.
Open Scope N_scope.

Inductive trait := Copy | Clone | Debug | Default | Hash | PartialOrd | Ord | PartialEq | Eq.
Definition trait_eqb (a b : trait) : bool :=
  match a, b with
  | Copy, Copy | Clone, Clone | Debug, Debug | Default, Default | Hash, Hash
  | PartialOrd, PartialOrd | Ord, Ord | PartialEq, PartialEq | Eq, Eq => true
  | _, _ => false
  end.
Definition mem (t : trait) (l : list trait) : bool := existsb (trait_eqb t) l.

(* the five analyses; PartialEq stands for PartialEqOrPartialOrd *)
Inductive atrait := ACopy | ADebug | ADefault | AHash | APartialEq.
Definition atrait_eqb (a b : atrait) : bool :=
  match a, b with
  | ACopy, ACopy | ADebug, ADebug | ADefault, ADefault | AHash, AHash | APartialEq, APartialEq => true
  | _, _ => false
  end.

(* CanDerive: Yes < Manually < No, join = max *)
Definition Yes : N := 0. Definition Manually : N := 1. Definition No : N := 2.

Record rinfo := {
  r_union : bool;
  r_fwd : bool;              (* forward declaration only *)
  r_packed : bool;           (* CompInfo::is_packed *)
  r_allowlisted : bool;      (* false: blocklisted, nobody vouches *)
  r_opaque : bool;
  r_big_unit : bool;         (* has a bit-field allocation unit of more than 32 bytes *)
  r_align : N;               (* alignment of the type's layout *)
  r_excl : list atrait       (* --no-copy / --no-debug / --no-default / --no-hash / --no-partialeq by name *)
}.

Inductive ty :=
| TInt | TFloat | TEnum | TPtr
| TFnPtr (derivable : bool)         (* FunctionSig::function_pointers_can_derive: at most 12 arguments, C ABI *)
| TArr (elem : ty) (len : N)        (* len = 0: incomplete / flexible array *)
| TRec (i : rinfo) (fields : list ty).

Record opts := {
  o_untagged : bool;        (* Rust unions available (always, for supported targets) *)
  o_copy : bool; o_debug : bool; o_default : bool; o_hash : bool;
  o_partialord : bool; o_ord : bool; o_partialeq : bool; o_eq : bool;
  o_impl_debug : bool
}.

Definition RUST_DERIVE_IN_ARRAY_LIMIT : N := 32.

Definition can_fnptr (a : atrait) (derivable : bool) : N :=
  match a with
  | ACopy | ADefault => Yes
  | ADebug => if derivable then Yes else Manually
  | _ => if derivable then Yes else No
  end.

Definition incomplete_array_ok (a : atrait) : bool :=
  match a with ACopy | AHash | APartialEq => false | _ => true end.

Fixpoint can (o : opts) (a : atrait) (t : ty) : N :=
  match t with
  | TInt => Yes
  | TFloat => match a with AHash => No | _ => Yes end
  | TEnum | TPtr => match a with ADefault => No | _ => Yes end
  | TFnPtr d => can_fnptr a d
  | TArr e n =>
      if negb (can o a e =? Yes) then No
      else if (n =? 0) && negb (incomplete_array_ok a) then No
      else match a with
           | ADefault => if RUST_DERIVE_IN_ARRAY_LIMIT <? n then Manually else Yes
           | _ => Yes
           end
  | TRec i fs =>
      let joined := (fix join (l : list ty) : N :=
                       match l with [] => Yes | f :: l' => N.max (can o a f) (join l') end) fs in
      let r :=
        if negb (r_allowlisted i) then No
        else if existsb (atrait_eqb a) (r_excl i) then No
        else if r_opaque i then
          (if negb (atrait_eqb a ACopy) && r_union i && o_untagged o then No else Yes)
        else if r_fwd i && negb (atrait_eqb a ADebug) then No
        else if r_union i && negb (atrait_eqb a ACopy) then (if o_untagged o then No else Yes)
        else if atrait_eqb a ADefault && r_big_unit i then No
        else joined in
      if (r =? Yes) && atrait_eqb a ADefault && (RUST_DERIVE_IN_ARRAY_LIMIT <? r_align i) then Manually else r
  end.

Fixpoint has_float (t : ty) : bool :=
  match t with
  | TFloat => true
  | TArr e _ => has_float e
  | TRec i fs => (fix any (l : list ty) : bool := match l with [] => false | f :: l' => has_float f || any l' end) fs
  | _ => false
  end.

Definition yes (n : N) : bool := n =? Yes.

(* derives_of_item, for a composite *)
Definition derives_of (o : opts) (t : ty) : list trait :=
  match t with
  | TRec i fs =>
      if r_fwd i then [Debug]
      else
        let copy := o_copy o && yes (can o ACopy t) in
        if negb copy && r_packed i then []
        else
          (if copy then [Copy; Clone] else [])
          ++ (if o_debug o && yes (can o ADebug t) then [Debug] else [])
          ++ (if o_default o && yes (can o ADefault t) then [Default] else [])
          ++ (if o_hash o && yes (can o AHash t) then [Hash] else [])
          ++ (if o_partialord o && yes (can o APartialEq t) then [PartialOrd] else [])
          ++ (if o_ord o && yes (can o APartialEq t) && negb (has_float t) then [Ord] else [])
          ++ (if o_partialeq o && yes (can o APartialEq t) then [PartialEq] else [])
          ++ (if o_eq o && yes (can o APartialEq t) && negb (has_float t) then [Eq] else [])
  | _ => []
  end.

(* needs_default_impl / needs_debug_impl *)
Definition manual (o : opts) (t : ty) : list trait :=
  match t with
  | TRec i fs =>
      (if negb (mem Default (derives_of o t)) && o_default o && negb (r_fwd i)
          && negb (existsb (atrait_eqb ADefault) (r_excl i)) then [Default] else [])
      ++ (if negb (mem Debug (derives_of o t)) && o_debug o && o_impl_debug o
             && negb (existsb (atrait_eqb ADebug) (r_excl i)) then [Debug] else [])
  | _ => []
  end.

(* does the Rust type emitted for [t] (as a member) implement [tr]? *)
Fixpoint implements (o : opts) (tr : trait) (t : ty) : bool :=
  match t with
  | TInt | TEnum => true                        (* integers; enums are integer aliases / newtypes deriving everything *)
  | TFloat => match tr with Hash | Eq | Ord => false | _ => true end
  | TPtr => match tr with Default => false | _ => true end
  | TFnPtr d => d || match tr with Copy | Clone | Default => true | _ => false end   (* Option<unsafe extern "C" fn(..)> *)
  | TArr e n =>
      if n =? 0 then match tr with Debug | Default => true | _ => false end      (* __IncompleteArrayField<T> *)
      else implements o tr e && match tr with Default => n <=? RUST_DERIVE_IN_ARRAY_LIMIT | _ => true end
  | TRec i fs =>
      if negb (r_allowlisted i) then false        (* the user's type: nothing is known *)
      else mem tr (derives_of o t) || mem tr (manual o t)
  end.

(* well-formed member types: a forward-declared composite cannot be held by value, an array
   element is never itself an incomplete array *)
Fixpoint wf (t : ty) : bool :=
  match t with
  | TArr e n => wf e && match e with TArr _ 0 => false | _ => true end
  | TRec i fs => (fix all (l : list ty) : bool :=
                    match l with [] => true | f :: l' => wf f && match f with TRec j _ => negb (r_fwd j) | _ => true end && all l' end) fs
  | _ => true
  end.

(* the shape for which the rules are complete: integers, in-limit arrays, nested such structs *)
Fixpoint plain (t : ty) : bool :=
  match t with
  | TInt => true
  | TArr e n => plain e && (0 <? n) && (n <=? RUST_DERIVE_IN_ARRAY_LIMIT)
  | TRec i fs =>
      negb (r_union i) && negb (r_fwd i) && r_allowlisted i && negb (r_opaque i) && negb (r_big_unit i)
      && (r_align i <=? RUST_DERIVE_IN_ARRAY_LIMIT) && match r_excl i with [] => true | _ => false end
      && (fix all (l : list ty) : bool := match l with [] => true | f :: l' => plain f && all l' end) fs
  | _ => false
  end.

(* a nested composite that is packed yet cannot be Copy derives nothing (derives_of_item returns
   early): the known hole of [derive_sound] *)
Fixpoint no_packed_noncopy (o : opts) (t : ty) : bool :=
  match t with
  | TArr e _ => no_packed_noncopy o e
  | TRec i fs =>
      (negb (r_packed i) || (o_copy o && yes (can o ACopy t)))
      && (fix all (l : list ty) : bool := match l with [] => true | f :: l' => no_packed_noncopy o f && all l' end) fs
  | _ => true
  end.

(* the field an opaque composite consists of: __BindgenOpaqueArray<[T; N]> (or a bare integer /
   array); the helper type derives PartialEq, Eq, Copy, Clone, Debug, Hash and has a hand-written
   Default — not PartialOrd / Ord *)
Definition blob_implements (tr : trait) : bool :=
  match tr with PartialOrd | Ord => false | _ => true end.
