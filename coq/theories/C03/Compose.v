(* C03 — from the accessor arithmetic (Model.v) and the allocation of units (Alloc.v) to the fields of
   the C object: what the emitted accessor of the i-th bit-field of a run reads and writes, seen on the
   bytes of the whole C object.  Definitions only.

   The object is a list of bytes.  C's view of a bit-field that libclang reports at bit offset o with
   width w is the reference semantics of Model.v applied to the WHOLE object: bits o .. o+w-1 in the
   target's bit order ([bit be], first storage bit = most significant value bit on big-endian targets).
   The Rust view: the struct holds the unit as a byte array at some byte offset; the accessor calls
   get / set (or the *_const forms) on that array with the in-unit offset Alloc.run computed. *)
From Coq Require Import NArith List Bool.
From BG Require Import C03.Model C03.Alloc.
Import ListNotations.
Open Scope N_scope.

Definition slice (obj : list N) (k n : N) : list N :=
  firstn (N.to_nat n) (skipn (N.to_nat k) obj).

Definition splice (obj : list N) (k : N) (u : list N) : list N :=
  firstn (N.to_nat k) obj ++ u ++ skipn (N.to_nat k + length u) obj.

(* ---- Rust side: accessor i of the unit made from the run bs, the unit sitting at byte [at_byte] ---- *)
Definition rust_get (be packed : bool) (bs : list rawbf) (at_byte : N) (obj : list N) (i : nat) : option N :=
  let s := run packed bs in
  match nth_error (u_fields s) i with
  | Some (off, w) => Some (get be (slice obj at_byte (unit_bytes s)) off w)
  | None => None
  end.

Definition rust_get_const (Wsz : N) (be packed : bool) (bs : list rawbf) (at_byte : N) (obj : list N) (i : nat) : option N :=
  let s := run packed bs in
  match nth_error (u_fields s) i with
  | Some (off, w) => Some (get_const Wsz be (slice obj at_byte (unit_bytes s)) off w)
  | None => None
  end.

Definition rust_set (be packed : bool) (bs : list rawbf) (at_byte : N) (obj : list N) (i : nat) (val : N) : option (list N) :=
  let s := run packed bs in
  match nth_error (u_fields s) i with
  | Some (off, w) => Some (splice obj at_byte (set be (slice obj at_byte (unit_bytes s)) off w val))
  | None => None
  end.

(* ---- C side ---- *)
Definition c_get (be : bool) (obj : list N) (o w : N) : N := get_spec be obj o w.
Definition c_set (be : bool) (obj : list N) (o w val : N) : list N := set_spec be obj o w val.

(* ---- the hypotheses of Alloc's theorems, as one boolean ---- *)
Definition run_ok (packed : bool) (bs : list rawbf) : bool :=
  match known bs with
  | Some offs =>
      ends_monotone offs &&
      forallb (fun b => (0 <? bal b) && match boff b with Some o => c_placed packed b o | None => false end) bs
  | None => false
  end.
