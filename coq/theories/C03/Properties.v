(* C03 — property theorems.  This file contains nothing but statements closed
   by [exact <lemma from Proofs.v>], each followed by Print Assumptions. *)
From Coq Require Import NArith ZArith List Bool.
From BG Require Import C03.Model C03.Proofs.
Import ListNotations.
Open Scope N_scope.

Definition fits (st : list N) (off w : N) : Prop :=
  asserts_ok (N.of_nat (length st)) off w = true.

(* ---------- the reference semantics is what it claims to be ---------- *)

(* get_spec reads field bit j into value bit vpos j and nothing else *)
Theorem get_spec_bits : forall be st off w j,
  j < w -> N.testbit (get_spec be st off w) (vpos be w j) = bit be st (off + j).
Proof. exact Proofs.get_spec_bits. Qed.
Print Assumptions get_spec_bits.

Theorem get_spec_bound : forall be st off w, get_spec be st off w < 2 ^ w.
Proof. exact Proofs.get_spec_bound. Qed.
Print Assumptions get_spec_bound.

(* set_spec writes val's low w bits into the field ... *)
Theorem set_spec_field : forall be st off w val j,
  (off + w + 7) / 8 <= N.of_nat (length st) -> j < w ->
  bit be (set_spec be st off w val) (off + j) = N.testbit val (vpos be w j).
Proof. exact Proofs.set_spec_field. Qed.
Print Assumptions set_spec_field.

(* ... and leaves every other bit of the object, and its length, unchanged *)
Theorem set_spec_frame : forall be st off w val n,
  (n < off \/ off + w <= n) ->
  bit be (set_spec be st off w val) n = bit be st n.
Proof. exact Proofs.set_spec_frame. Qed.
Print Assumptions set_spec_frame.

Theorem set_spec_length : forall be st off w val,
  length (set_spec be st off w val) = length st.
Proof. exact Proofs.set_spec_length. Qed.
Print Assumptions set_spec_length.

Theorem set_spec_wf : forall be st off w val,
  wf_storage st = true -> wf_storage (set_spec be st off w val) = true.
Proof. exact Proofs.set_spec_wf. Qed.
Print Assumptions set_spec_wf.

(* two well-formed storages with the same bits are the same bytes *)
Theorem bits_ext : forall be st st',
  wf_storage st = true -> wf_storage st' = true -> length st = length st' ->
  (forall n, bit be st n = bit be st' n) -> st = st'.
Proof. exact Proofs.bits_ext. Qed.
Print Assumptions bits_ext.

(* ---------- the implementation's arithmetic meets the reference ---------- *)
(* Little- and big-endian, u64 path (get/raw_get/set/raw_set) and usize path
   (the four *_const entry points, usize::BITS = 32 or 64).  The guard
   [w + off mod 8 <= 64] is NOT one of the code's debug_assert!s: it is the
   hypothesis the proof forces, and get_refuted/set_refuted show it is needed. *)

Theorem get_correct_partial : forall be st off w,
  wf_storage st = true -> fits st off w -> w + off mod 8 <= 64 ->
  get be st off w = get_spec be st off w.
Proof. exact Proofs.get_correct. Qed.
Print Assumptions get_correct_partial.

Theorem get_const_correct_partial : forall Wsz be st off w,
  Wsz = 32 \/ Wsz = 64 ->
  wf_storage st = true -> fits st off w -> w + off mod 8 <= 64 ->
  get_const Wsz be st off w = get_spec be st off w.
Proof. exact Proofs.get_const_correct. Qed.
Print Assumptions get_const_correct_partial.

Theorem set_correct_partial : forall be st off w val,
  wf_storage st = true -> fits st off w -> w + off mod 8 <= 64 ->
  set be st off w val = set_spec be st off w val.
Proof. exact Proofs.set_correct. Qed.
Print Assumptions set_correct_partial.

Theorem set_const_correct_partial : forall Wsz be st off w val,
  Wsz = 32 \/ Wsz = 64 ->
  wf_storage st = true -> fits st off w -> w + off mod 8 <= 64 ->
  set_const Wsz be st off w val = set_spec be st off w val.
Proof. exact Proofs.set_const_correct. Qed.
Print Assumptions set_const_correct_partial.

(* The full-strength statements (no guard beyond the code's own assertions)
   are false of the faithful model: a 64-bit field at bit 4 of a 9-byte unit. *)
Theorem get_correct_refuted : exists be st off w,
  wf_storage st = true /\ fits st off w /\
  get be st off w <> get_spec be st off w.
Proof. exact Proofs.get_refuted. Qed.
Print Assumptions get_correct_refuted.

Theorem set_correct_refuted : exists be st off w val,
  wf_storage st = true /\ fits st off w /\
  set be st off w val <> set_spec be st off w val.
Proof. exact Proofs.set_refuted. Qed.
Print Assumptions set_correct_refuted.

(* a debug build runs to completion exactly on the guarded domain *)
Theorem dbg_ok_iff_guard : forall st off w,
  dbg_ok (N.of_nat (length st)) off w = true <->
  (fits st off w /\ (w = 0 \/ w + off mod 8 <= 64)).
Proof. exact Proofs.dbg_ok_iff_guard. Qed.
Print Assumptions dbg_ok_iff_guard.

(* ---------- consequences users rely on ---------- *)

Theorem get_set : forall be st off w val,
  wf_storage st = true -> fits st off w -> w + off mod 8 <= 64 ->
  get be (set be st off w val) off w = val mod 2 ^ w.
Proof. exact Proofs.get_set. Qed.
Print Assumptions get_set.

Theorem set_preserves_other_field : forall be st off w val off' w',
  wf_storage st = true -> fits st off w -> w + off mod 8 <= 64 ->
  fits st off' w' -> w' + off' mod 8 <= 64 ->
  (off' + w' <= off \/ off + w <= off') ->
  get be (set be st off w val) off' w' = get be st off' w'.
Proof. exact Proofs.set_preserves_other_field. Qed.
Print Assumptions set_preserves_other_field.

Theorem set_commute : forall be st off w val off' w' val',
  wf_storage st = true -> fits st off w -> w + off mod 8 <= 64 ->
  fits st off' w' -> w' + off' mod 8 <= 64 ->
  (off' + w' <= off \/ off + w <= off') ->
  set be (set be st off w val) off' w' val' =
  set be (set be st off' w' val') off w val.
Proof. exact Proofs.set_commute. Qed.
Print Assumptions set_commute.

(* ---------- accessor layer ---------- *)

Theorem getter_unsigned_correct : forall tybits w raw,
  w <= tybits -> raw < 2 ^ w ->
  getter_value tybits false raw = c_field_value w false raw.
Proof. exact Proofs.getter_unsigned_correct. Qed.
Print Assumptions getter_unsigned_correct.

Theorem getter_signed_correct_partial : forall tybits raw,
  0 < tybits -> raw < 2 ^ tybits ->
  getter_value tybits true raw = c_field_value tybits true raw.
Proof. exact Proofs.getter_signed_fullwidth. Qed.
Print Assumptions getter_signed_correct_partial.

(* the emitted getter zero-extends: a signed 3-bit field holding 0b111 is
   read as 7 where C reads -1 *)
Theorem getter_signed_refuted : exists tybits w raw,
  0 < w /\ w < tybits /\ raw < 2 ^ w /\
  getter_value tybits true raw <> c_field_value w true raw.
Proof. exact Proofs.getter_signed_refuted. Qed.
Print Assumptions getter_signed_refuted.

(* the setter path stores exactly the low w bits of the two's-complement value *)
Theorem setter_truncates : forall tybits w (val : Z),
  w <= tybits -> tybits <= 64 ->
  (setter_raw tybits val) mod 2 ^ w = Z.to_N (Z.modulo val (Z.pow 2 (Z.of_N w))).
Proof. exact Proofs.setter_truncates. Qed.
Print Assumptions setter_truncates.
