(* C03 — allocation units: property theorems (statements; proofs in AllocProofs.v) *)
From Coq Require Import NArith List Bool.
From BG Require Import C03.Alloc C03.AllocProofs.
Import ListNotations.
Open Scope N_scope.

(* with the offsets the C compiler reports, the rounding step never moves a field ... *)
Theorem placed_is_reported : forall packed s b o,
  boff b = Some o -> c_placed packed b o = true -> 0 < bal b -> placed packed s b = o.
Proof. exact C03.AllocProofs.placed_is_reported. Qed.
Print Assumptions placed_is_reported.

(* ... so every field of a struct's run sits, inside the unit, at its C distance from the first
   field of the run: unit start + offset in unit = the C bit offset (for all runs, any length) *)
Theorem fields_keep_their_c_offsets : forall packed bs offs,
  known bs = Some offs -> bs <> [] ->
  Forall (fun b => 0 < bal b) bs ->
  forallb (fun b => match boff b with Some o => c_placed packed b o | None => false end) bs = true ->
  ends_monotone offs = true ->
  let s := run packed bs in
  Forall2 (fun ow f => snd ow = 0 \/ u_start s + fst f = fst ow) offs (u_fields s).
Proof. exact C03.AllocProofs.fields_keep_their_c_offsets. Qed.
Print Assumptions fields_keep_their_c_offsets.

(* ... and the unit is long enough for every one of them *)
Theorem unit_covers_every_field : forall packed bs offs,
  known bs = Some offs -> bs <> [] ->
  Forall (fun b => 0 < bal b) bs ->
  forallb (fun b => match boff b with Some o => c_placed packed b o | None => false end) bs = true ->
  ends_monotone offs = true ->
  let s := run packed bs in
  Forall (fun f => fst f + snd f <= u_bits s) (u_fields s) /\ u_bits s <= 8 * unit_bytes s.
Proof. exact C03.AllocProofs.unit_covers_every_field. Qed.
Print Assumptions unit_covers_every_field.

(* in a UNION every bit-field starts at 0: the unit is sized by the LAST field, so an earlier, wider
   one does not fit (known finding) *)
Theorem union_unit_too_small_refuted : exists bs offs,
  known bs = Some offs /\ Forall (fun ow => fst ow = 0) offs /\
  ~ Forall (fun f => fst f + snd f <= u_bits (run false bs)) (u_fields (run false bs)).
Proof. exact C03.AllocProofs.union_unit_too_small_refuted. Qed.
Print Assumptions union_unit_too_small_refuted.
