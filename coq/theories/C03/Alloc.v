(* C03 — allocation units: ir/comp.rs bitfields_to_allocation_units, transcribed.  Definitions only.
   A run of consecutive bit-fields of a composite becomes ONE allocation unit: a byte array that
   starts where the first field of the run starts, and in which every field keeps its distance
   from that start.  [boff] is what libclang reports for the field (its bit offset in the composite). *)
From Coq Require Import NArith List Bool.
Import ListNotations.
Open Scope N_scope.

Record rawbf := { bw : N;            (* width in bits; 0 = separator *)
                  bal : N;           (* alignment of the declared type, bytes *)
                  bsz : N;           (* size of the declared type, bytes *)
                  boff : option N;   (* bit offset in the composite, when known *)
                  bnamed : bool }.

Record ustate := { u_start : N;                  (* start_offset_in_struct *)
                   u_bits : N;                   (* unit_size_in_bits *)
                   u_fields : list (N * N);      (* (offset in the unit, width) of every field so far, in order *)
                   u_maxal : N }.

Definition init : ustate := {| u_start := 0; u_bits := 0; u_fields := []; u_maxal := 0 |}.

Definition align_to (x a : N) : N := if a =? 0 then x else ((x + a - 1) / a) * a.

(* the offset the implementation finally uses for the field *)
Definition placed (packed : bool) (s : ustate) (b : rawbf) : N :=
  let off0 := match boff b with Some o => o | None => u_bits s end in
  if negb packed && negb (off0 =? 0)
     && ((bw b =? 0) || (bsz b * 8 <? off0 mod (bal b * 8) + bw b))
  then align_to off0 (bal b * 8) else off0.

Definition step (packed : bool) (s : ustate) (b : rawbf) : ustate :=
  let start := if u_bits s =? 0 then match boff b with Some o => o | None => 0 end else u_start s in
  let off := placed packed s b in
  {| u_start := start;
     u_bits := off - start + bw b;
     u_fields := u_fields s ++ [(off - start, bw b)];
     u_maxal := if bnamed b then N.max (u_maxal s) (bal b) else u_maxal s |}.

Definition run (packed : bool) (bs : list rawbf) : ustate := fold_left (step packed) bs init.
Definition unit_bytes (s : ustate) : N := align_to (u_bits s) 8 / 8.

(* ---------- the C side ---------- *)
(* what the C compiler guarantees about the offsets it reports (Itanium rule): unless the record is
   packed, a bit-field never straddles a boundary of its declared type's alignment unit in a way that
   exceeds the type's size, and a separator sits on such a boundary *)
Definition c_placed (packed : bool) (b : rawbf) (o : N) : bool :=
  packed || (o =? 0)
  || (if bw b =? 0 then o mod (bal b * 8) =? 0 else o mod (bal b * 8) + bw b <=? bsz b * 8).

(* struct: the fields of a run come in increasing position (each ends no later than the next one ends);
   in a union they all start at 0 *)
Fixpoint ends_monotone (offs : list (N * N)) : bool :=   (* (clang offset, width) *)
  match offs with
  | (o1, w1) :: (((o2, w2) :: _) as rest) => (o1 <=? o2) && (o1 + w1 <=? o2 + w2) && ends_monotone rest
  | _ => true
  end.

Definition known (bs : list rawbf) : option (list (N * N)) :=
  fold_right (fun b acc => match boff b, acc with Some o, Some l => Some ((o, bw b) :: l) | _, _ => None end) (Some []) bs.
