(* C03 — composition theorems: statements only, each closed by [exact <lemma of ComposeProofs.v>]. *)
From Coq Require Import NArith List Bool.
From BG Require Import C03.Model C03.Alloc C03.Compose C03.ComposeProofs.
Import ListNotations.
Open Scope N_scope.

(* The getter of the i-th bit-field of a run returns, on the bytes of the whole C object, exactly the bits C
   reads for that field -- for every run that satisfies the C placement rule (run_ok), whose first field starts
   on a byte boundary, whose unit lies inside the object at byte u_start/8, and for every field within the
   accessor's 64-bit window.  Little- and big-endian. *)
Theorem getter_reads_the_c_field : forall be packed bs obj i b o,
  run_ok packed bs = true ->
  u_start (run packed bs) mod 8 = 0 ->
  wf_storage obj = true ->
  u_start (run packed bs) / 8 + unit_bytes (run packed bs) <= N.of_nat (length obj) ->
  nth_error bs i = Some b -> boff b = Some o ->
  0 < bw b -> bw b <= 64 ->
  bw b + (o - u_start (run packed bs)) mod 8 <= 64 ->
  rust_get be packed bs (u_start (run packed bs) / 8) obj i = Some (c_get be obj o (bw b)).
Proof. exact C03.ComposeProofs.getter_reads_the_c_field. Qed.
Print Assumptions getter_reads_the_c_field.

(* the const fn accessors (usize arithmetic, 32- and 64-bit targets) read the same *)
Theorem const_getter_reads_the_c_field : forall Wsz be packed bs obj i b o,
  Wsz = 32 \/ Wsz = 64 ->
  run_ok packed bs = true ->
  u_start (run packed bs) mod 8 = 0 ->
  wf_storage obj = true ->
  u_start (run packed bs) / 8 + unit_bytes (run packed bs) <= N.of_nat (length obj) ->
  nth_error bs i = Some b -> boff b = Some o ->
  0 < bw b -> bw b <= 64 ->
  bw b + (o - u_start (run packed bs)) mod 8 <= 64 ->
  rust_get_const Wsz be packed bs (u_start (run packed bs) / 8) obj i = Some (c_get be obj o (bw b)).
Proof. exact C03.ComposeProofs.const_getter_reads_the_c_field. Qed.
Print Assumptions const_getter_reads_the_c_field.

(* The setter stores into the whole object exactly what a C assignment to the field stores: the field's bits
   become the low bits of the value, and NO other bit of the object changes (set_spec's frame property carries
   over: neighbouring fields, other members, padding). *)
Theorem setter_writes_the_c_field : forall be packed bs obj i b o val,
  run_ok packed bs = true ->
  u_start (run packed bs) mod 8 = 0 ->
  wf_storage obj = true ->
  u_start (run packed bs) / 8 + unit_bytes (run packed bs) <= N.of_nat (length obj) ->
  nth_error bs i = Some b -> boff b = Some o ->
  0 < bw b -> bw b <= 64 ->
  bw b + (o - u_start (run packed bs)) mod 8 <= 64 ->
  rust_set be packed bs (u_start (run packed bs) / 8) obj i val = Some (c_set be obj o (bw b) val).
Proof. exact C03.ComposeProofs.setter_writes_the_c_field. Qed.
Print Assumptions setter_writes_the_c_field.

(* consequence: writing one field through its Rust setter and reading another (or the same) through C *)
Theorem set_then_c_reads : forall be packed bs obj i b o val obj',
  run_ok packed bs = true ->
  u_start (run packed bs) mod 8 = 0 ->
  wf_storage obj = true ->
  u_start (run packed bs) / 8 + unit_bytes (run packed bs) <= N.of_nat (length obj) ->
  nth_error bs i = Some b -> boff b = Some o ->
  0 < bw b -> bw b <= 64 ->
  bw b + (o - u_start (run packed bs)) mod 8 <= 64 ->
  rust_set be packed bs (u_start (run packed bs) / 8) obj i val = Some obj' ->
  c_get be obj' o (bw b) = val mod 2 ^ bw b /\
  (forall n, n < o \/ o + bw b <= n -> bit be obj' n = bit be obj n) /\
  length obj' = length obj.
Proof. exact C03.ComposeProofs.set_then_c_reads. Qed.
Print Assumptions set_then_c_reads.

(* the unit must sit where the run starts: one byte off and the getter reads other bits (the shape of the known
   finding C03-unit-offset) *)
Theorem misplaced_unit_refuted : exists be packed bs obj i b o,
  run_ok packed bs = true /\ u_start (run packed bs) mod 8 = 0 /\ wf_storage obj = true /\
  nth_error bs i = Some b /\ boff b = Some o /\
  rust_get be packed bs (u_start (run packed bs) / 8 + 1) obj i <> Some (c_get be obj o (bw b)).
Proof. exact C03.ComposeProofs.misplaced_unit_refuted. Qed.
Print Assumptions misplaced_unit_refuted.

(* non-vacuity: a run starting at byte 4 of a 12-byte object, second field straddling a byte *)
Example compose_example :
  let bs := [ {| bw := 3; bal := 4; bsz := 4; boff := Some 32; bnamed := true |};
              {| bw := 9; bal := 4; bsz := 4; boff := Some 35; bnamed := true |} ] in
  let obj := [1; 2; 3; 4; 165; 90; 255; 0; 9; 9; 9; 9] in
  run_ok false bs = true /\ u_start (run false bs) = 32 /\ unit_bytes (run false bs) = 2 /\
  rust_get false false bs 4 obj 1 = Some (c_get false obj 35 9) /\
  rust_get true false bs 4 obj 1 = Some (c_get true obj 35 9).
Proof. vm_compute. repeat split; reflexivity. Qed.
