(* C03 — allocation units: proofs of the statements in AllocProperties.v.
   Stdlib only, no axioms.  The statements were first evaluated (vm_compute) on concrete runs and on an
   exhaustive small domain (all runs of 3 fields and of 4 fields with a separator, widths {0,3,9,17},
   alignments {1,2,4}, offsets {0,3,8,11,16,19,24,32}, packed and not): no counterexample. *)
From Coq Require Import NArith List Bool Lia.
From BG Require Import C03.Alloc.
Import ListNotations.
Open Scope N_scope.

(* ---------- align_to ---------- *)

Lemma align_to_exact : forall x a, 0 < a -> x mod a = 0 -> align_to x a = x.
Proof.
  intros x a Ha Hm. unfold align_to.
  destruct (a =? 0) eqn:E; [reflexivity|].
  assert (Hx : x = a * (x / a)).
  { pose proof (N.div_mod x a) as H. rewrite Hm, N.add_0_r in H. apply H. lia. }
  remember (x / a) as q eqn:Hq. clear Hq.
  assert (Hd : (x + a - 1) / a = q).
  { symmetry. apply N.div_unique with (r := a - 1); lia. }
  rewrite Hd. lia.
Qed.

Lemma unit_bytes_covers : forall s, u_bits s <= 8 * unit_bytes s.
Proof.
  intros s. unfold unit_bytes, align_to.
  change (8 =? 0) with false. cbv iota.
  rewrite N.div_mul by discriminate.
  pose proof (N.div_mod (u_bits s + 8 - 1) 8) as H.
  pose proof (N.mod_lt (u_bits s + 8 - 1) 8) as L.
  lia.
Qed.

(* ---------- placed ---------- *)

Lemma placed_is_reported : forall packed s b o,
  boff b = Some o -> c_placed packed b o = true -> 0 < bal b -> placed packed s b = o.
Proof.
  intros packed s b o Ho Hc Hal. unfold placed. rewrite Ho.
  unfold c_placed in Hc.
  destruct packed; [reflexivity|].
  destruct (o =? 0) eqn:Eo; [reflexivity|].
  cbn [negb andb orb] in *.
  destruct (bw b =? 0) eqn:Ew.
  - cbn [orb]. apply N.eqb_eq in Hc. apply align_to_exact; [lia | exact Hc].
  - cbn [orb]. apply N.leb_le in Hc.
    destruct (bsz b * 8 <? o mod (bal b * 8) + bw b) eqn:El; [|reflexivity].
    apply N.ltb_lt in El. lia.
Qed.

(* ---------- list helpers ---------- *)

Lemma Forall2_weaken {A B} (R1 R2 : A -> B -> Prop) :
  (forall a b, R1 a b -> R2 a b) -> forall l1 l2, Forall2 R1 l1 l2 -> Forall2 R2 l1 l2.
Proof. intros H l1 l2 F. induction F; constructor; auto. Qed.

Lemma Forall2_Forall_r {A B} (R : A -> B -> Prop) (P : B -> Prop) :
  (forall a b, R a b -> P b) -> forall l1 l2, Forall2 R l1 l2 -> Forall P l2.
Proof. intros H l1 l2 F. induction F; constructor; eauto. Qed.

Definition lst (offs : list (N * N)) : N * N := last offs (0, 0).

Lemma lst_snoc : forall offs x, lst (offs ++ [x]) = x.
Proof. intros. unfold lst. apply last_last. Qed.

Lemma lst_cons2 : forall x y l, lst (x :: y :: l) = lst (y :: l).
Proof. reflexivity. Qed.

Lemma known_snoc : forall bs b,
  known (bs ++ [b]) =
  match boff b, known bs with
  | Some o, Some l => Some (l ++ [(o, bw b)])
  | _, _ => None
  end.
Proof.
  induction bs as [|a bs IH]; intros b.
  - cbn [app known fold_right]. destruct (boff b); reflexivity.
  - change (known ((a :: bs) ++ [b])) with
      (match boff a, known (bs ++ [b]) with Some o, Some l => Some ((o, bw a) :: l) | _, _ => None end).
    change (known (a :: bs)) with
      (match boff a, known bs with Some o, Some l => Some ((o, bw a) :: l) | _, _ => None end).
    rewrite IH.
    destruct (boff b), (boff a), (known bs); reflexivity.
Qed.

Lemma ends_monotone_snoc : forall offs o w,
  ends_monotone (offs ++ [(o, w)]) = true ->
  ends_monotone offs = true /\
  (offs = [] \/ (fst (lst offs) <= o /\ fst (lst offs) + snd (lst offs) <= o + w)).
Proof.
  induction offs as [|[o1 w1] rest IH]; intros o w H.
  - split; [reflexivity | left; reflexivity].
  - destruct rest as [|[o2 w2] rest'].
    + cbn [app ends_monotone] in H.
      apply andb_prop in H. destruct H as [H _].
      apply andb_prop in H. destruct H as [H1 H2].
      apply N.leb_le in H1. apply N.leb_le in H2.
      split; [reflexivity|]. right. unfold lst. cbn [last fst snd]. split; assumption.
    + change (((o1, w1) :: (o2, w2) :: rest') ++ [(o, w)])
        with ((o1, w1) :: (o2, w2) :: (rest' ++ [(o, w)])) in H.
      cbn [ends_monotone] in H.
      apply andb_prop in H. destruct H as [H12 H].
      change ((o2, w2) :: rest' ++ [(o, w)]) with (((o2, w2) :: rest') ++ [(o, w)]) in H.
      apply IH in H. destruct H as [Hm Hl].
      split.
      * cbn [ends_monotone]. rewrite H12. exact Hm.
      * right. rewrite lst_cons2. destruct Hl as [Hl|Hl]; [discriminate|exact Hl].
Qed.

(* ---------- the invariant of the fold ---------- *)

(* [st], [bits]: u_start / u_bits of the state; [l]: the last (clang offset, width) consumed *)
Definition Rel (st bits : N) (l ow f : N * N) : Prop :=
  snd f = snd ow /\
  ((snd ow = 0 /\ fst f = 0) \/
   (0 < bits /\ st + fst f = fst ow /\ fst ow + snd ow <= fst l + snd l)).

Definition Inv (s : ustate) (offs : list (N * N)) : Prop :=
  Forall2 (Rel (u_start s) (u_bits s) (lst offs)) offs (u_fields s) /\
  (0 < u_bits s ->
     u_start s <= fst (lst offs) /\
     u_bits s = fst (lst offs) - u_start s + snd (lst offs) /\
     u_start s < fst (lst offs) + snd (lst offs)) /\
  (u_bits s = 0 -> Forall (fun ow => snd ow = 0) offs).

Lemma inv_init : Inv init [].
Proof.
  unfold Inv, init. cbn [u_start u_bits u_fields].
  split; [constructor|]. split; [lia|]. intros _. constructor.
Qed.

Lemma inv_step : forall packed s b o offs,
  Inv s offs -> boff b = Some o -> placed packed s b = o ->
  (offs = [] \/ (fst (lst offs) <= o /\ fst (lst offs) + snd (lst offs) <= o + bw b)) ->
  Inv (step packed s b) (offs ++ [(o, bw b)]).
Proof.
  intros packed s b o offs (HF & Hpos & Hzero) Ho Hp Hmono.
  unfold Inv, step. rewrite lst_snoc. cbn [u_start u_bits u_fields fst snd].
  rewrite Ho, Hp.
  destruct (u_bits s =? 0) eqn:E.
  - (* the unit is still empty: it (re)starts at this field *)
    apply N.eqb_eq in E. specialize (Hzero E).
    replace (o - o + bw b) with (bw b) by lia.
    split; [|split].
    + apply Forall2_app.
      * assert (HZ : Forall (fun ow => snd ow = 0) offs) by exact Hzero.
        clear - HF E.
        induction HF as [|ow f l1 l2 R HF IH]; constructor; [|exact IH].
        destruct R as [Rw [[Rz Rf]|[Rb _]]]; [|lia].
        unfold Rel; cbn [fst snd]. split; [exact Rw|]. left. split; assumption.
      * constructor; [|constructor]. unfold Rel. cbn [fst snd].
        split; [reflexivity|].
        destruct (N.eq_dec (bw b) 0) as [Z|NZ].
        -- left. split; [exact Z | lia].
        -- right. split; [lia|]. split; lia.
    + intros Pb. lia.
    + intros Z. apply Forall_app. split; [exact Hzero|]. constructor; [exact Z|constructor].
  - (* the unit already holds a field of positive width: its start is fixed *)
    apply N.eqb_neq in E. assert (P : 0 < u_bits s) by lia.
    destruct (Hpos P) as (H1 & H2 & H3).
    assert (M : fst (lst offs) <= o /\ fst (lst offs) + snd (lst offs) <= o + bw b).
    { destruct Hmono as [Hn|M]; [|exact M]. subst offs. unfold lst in H3. cbn [last fst snd] in H3. lia. }
    destruct M as [M1 M2].
    split; [|split].
    + apply Forall2_app.
      * clear - HF M1 M2 H1 H3.
        induction HF as [|ow f l1 l2 R HF IH]; constructor; [|exact IH].
        destruct R as [Rw [[Rz Rf]|[Rb [Re Rl]]]]; unfold Rel; cbn [fst snd].
        -- split; [exact Rw|]. left. split; assumption.
        -- split; [exact Rw|]. right. split; [lia|]. split; [exact Re|lia].
      * constructor; [|constructor]. unfold Rel. cbn [fst snd].
        split; [reflexivity|]. right. split; [lia|]. split; lia.
    + intros _. split; [lia|]. split; lia.
    + intros Z. lia.
Qed.

Lemma run_snoc : forall packed bs b, run packed (bs ++ [b]) = step packed (run packed bs) b.
Proof. intros. unfold run. rewrite fold_left_app. reflexivity. Qed.

Lemma run_inv : forall packed bs offs,
  known bs = Some offs ->
  Forall (fun b => 0 < bal b) bs ->
  forallb (fun b => match boff b with Some o => c_placed packed b o | None => false end) bs = true ->
  ends_monotone offs = true ->
  Inv (run packed bs) offs.
Proof.
  intros packed bs. induction bs as [|b bs IH] using rev_ind; intros offs Hk Hal Hc Hm.
  - cbn in Hk. injection Hk as <-. apply inv_init.
  - rewrite known_snoc in Hk.
    destruct (boff b) as [o|] eqn:Ho; [|discriminate].
    destruct (known bs) as [offs'|] eqn:Hk'; [|discriminate].
    injection Hk as <-.
    apply Forall_app in Hal. destruct Hal as [Hal Halb].
    rewrite forallb_app in Hc. apply andb_prop in Hc. destruct Hc as [Hc Hcb].
    cbn [forallb] in Hcb. rewrite Ho, andb_true_r in Hcb.
    apply ends_monotone_snoc in Hm. destruct Hm as [Hm Hl].
    rewrite run_snoc.
    apply inv_step; [apply IH; auto | exact Ho | | exact Hl].
    apply placed_is_reported; [exact Ho | exact Hcb | ].
    inversion Halb; assumption.
Qed.

(* ---------- the theorems ---------- *)

Lemma fields_keep_their_c_offsets : forall packed bs offs,
  known bs = Some offs -> bs <> [] ->
  Forall (fun b => 0 < bal b) bs ->
  forallb (fun b => match boff b with Some o => c_placed packed b o | None => false end) bs = true ->
  ends_monotone offs = true ->
  let s := run packed bs in
  Forall2 (fun ow f => snd ow = 0 \/ u_start s + fst f = fst ow) offs (u_fields s).
Proof.
  intros packed bs offs Hk _ Hal Hc Hm s.
  destruct (run_inv packed bs offs Hk Hal Hc Hm) as (HF & _ & _). fold s in HF.
  eapply Forall2_weaken; [|exact HF].
  intros ow f [_ [[Z _]|[_ [Eq _]]]]; [left; exact Z | right; exact Eq].
Qed.

Lemma unit_covers_every_field : forall packed bs offs,
  known bs = Some offs -> bs <> [] ->
  Forall (fun b => 0 < bal b) bs ->
  forallb (fun b => match boff b with Some o => c_placed packed b o | None => false end) bs = true ->
  ends_monotone offs = true ->
  let s := run packed bs in
  Forall (fun f => fst f + snd f <= u_bits s) (u_fields s) /\ u_bits s <= 8 * unit_bytes s.
Proof.
  intros packed bs offs Hk _ Hal Hc Hm s.
  split; [|apply unit_bytes_covers].
  destruct (run_inv packed bs offs Hk Hal Hc Hm) as (HF & Hpos & _). fold s in HF, Hpos.
  eapply Forall2_Forall_r; [|exact HF].
  intros ow f [Rw [[Z F0]|[P [Eq Le]]]].
  - rewrite Rw, Z, F0. lia.
  - destruct (Hpos P) as (H1 & H2 & H3). lia.
Qed.

Lemma union_unit_too_small_refuted : exists bs offs,
  known bs = Some offs /\ Forall (fun ow => fst ow = 0) offs /\
  ~ Forall (fun f => fst f + snd f <= u_bits (run false bs)) (u_fields (run false bs)).
Proof.
  exists [ {| bw := 20; bal := 4; bsz := 4; boff := Some 0; bnamed := true |};
           {| bw := 3;  bal := 4; bsz := 4; boff := Some 0; bnamed := true |} ].
  exists [(0, 20); (0, 3)].
  split; [reflexivity|]. split; [repeat constructor|].
  intros H. vm_compute in H. inversion H as [|x l Hx _]. apply Hx. reflexivity.
Qed.

(* ---------- non-vacuity ---------- *)

Definition bf (w al sz o : N) : rawbf :=
  {| bw := w; bal := al; bsz := sz; boff := Some o; bnamed := negb (w =? 0) |}.

(* struct { char c; unsigned char a:3; char :0; int b:5; } on x86-64: the run starts at bit 8 *)
Definition ex_run : list rawbf := [bf 3 1 1 8; bf 0 1 1 16; bf 5 4 4 16].

Definition hyps_hold (packed : bool) (bs : list rawbf) : bool :=
  match known bs with
  | Some offs =>
      negb (match bs with [] => true | _ => false end)
      && forallb (fun b => 0 <? bal b) bs
      && forallb (fun b => match boff b with Some o => c_placed packed b o | None => false end) bs
      && ends_monotone offs
  | None => false
  end.

Example ex_run_hyps : hyps_hold false ex_run = true.
Proof. vm_compute. reflexivity. Qed.

Example ex_run_state :
  run false ex_run =
  {| u_start := 8; u_bits := 13; u_fields := [(0, 3); (8, 0); (8, 5)]; u_maxal := 4 |}
  /\ unit_bytes (run false ex_run) = 2.
Proof. vm_compute. split; reflexivity. Qed.

(* the theorem applies to it, all hypotheses discharged, and gives the expected relation *)
Example ex_run_offsets :
  Forall2 (fun ow f => snd ow = 0 \/ 8 + fst f = fst ow)
          [(8, 3); (16, 0); (16, 5)] [(0, 3); (8, 0); (8, 5)].
Proof.
  assert (Hs : run false ex_run =
     {| u_start := 8; u_bits := 13; u_fields := [(0, 3); (8, 0); (8, 5)]; u_maxal := 4 |})
    by (vm_compute; reflexivity).
  pose proof (fields_keep_their_c_offsets false ex_run [(8, 3); (16, 0); (16, 5)]) as H.
  cbv zeta in H. rewrite Hs in H. cbn [u_start u_fields] in H.
  apply H.
  - reflexivity.
  - discriminate.
  - unfold ex_run, bf. repeat constructor.
  - vm_compute. reflexivity.
  - vm_compute. reflexivity.
Qed.

(* leading separator, later start; a 33-bit field in a 64-bit type; 13 bytes *)
Definition ex_run2 : list rawbf :=
  [bf 0 4 4 32; bf 7 1 1 32; bf 1 1 1 39; bf 16 2 2 48; bf 33 8 8 64].

Example ex_run2_ok :
  hyps_hold false ex_run2 = true
  /\ run false ex_run2 =
     {| u_start := 32; u_bits := 65;
        u_fields := [(0, 0); (0, 7); (7, 1); (16, 16); (32, 33)]; u_maxal := 8 |}
  /\ unit_bytes (run false ex_run2) = 9.
Proof. vm_compute. repeat split; reflexivity. Qed.

(* packed: arbitrary offsets, nothing is moved *)
Definition ex_run3 : list rawbf := [bf 7 4 4 3; bf 30 4 4 10; bf 0 4 4 41; bf 9 2 2 41].

Example ex_run3_ok :
  hyps_hold true ex_run3 = true
  /\ run true ex_run3 =
     {| u_start := 3; u_bits := 47; u_fields := [(0, 7); (7, 30); (38, 0); (38, 9)]; u_maxal := 4 |}
  /\ unit_bytes (run true ex_run3) = 6
  /\ hyps_hold false ex_run3 = false.   (* the same offsets are not a legal unpacked layout *)
Proof. vm_compute. repeat split; reflexivity. Qed.

(* the union run of the refutation: the hypotheses that fail are exactly [ends_monotone] *)
Example ex_union :
  let bs := [bf 20 4 4 0; bf 3 4 4 0] in
  u_bits (run false bs) = 3 /\ u_fields (run false bs) = [(0, 20); (0, 3)]
  /\ ends_monotone [(0, 20); (0, 3)] = false.
Proof. vm_compute. repeat split; reflexivity. Qed.
