(* C03 — proofs about the bit-field model.  Everything is done at the level of
   N.testbit: each primitive of Model.v gets a lemma describing its bits, and
   the theorems follow by N.bits_inj (values) or bits_ext (storages). *)
From Coq Require Import NArith ZArith List Bool Lia Znumtheory.
From BG Require Import C03.Model.
Import ListNotations.
Open Scope N_scope.

(* lia with div/mod by constants *)
Ltac dlia := zify; Z.to_euclidean_division_equations; lia.

(* case analysis on every N comparison in the goal *)
Ltac bdestruct :=
  repeat match goal with
  | |- context [N.ltb ?a ?b] => destruct (N.ltb_spec a b)
  | |- context [N.leb ?a ?b] => destruct (N.leb_spec a b)
  | |- context [N.eqb ?a ?b] => destruct (N.eqb_spec a b)
  end.

Ltac bsimpl := cbn [andb orb negb].

(* ---------- bits of the Rust integer primitives ---------- *)

Lemma testbit_wrapW W x n :
  N.testbit (wrapW W x) n = (n <? W) && N.testbit x n.
Proof.
  unfold wrapW. destruct (N.ltb_spec n W) as [Hlt|Hge]; bsimpl.
  - apply N.mod_pow2_bits_low; exact Hlt.
  - apply N.mod_pow2_bits_high; exact Hge.
Qed.

Lemma testbit_shiftl x s n :
  N.testbit (N.shiftl x s) n = (s <=? n) && N.testbit x (n - s).
Proof.
  destruct (N.leb_spec s n) as [Hle|Hlt]; bsimpl.
  - apply N.shiftl_spec_high'; exact Hle.
  - apply N.shiftl_spec_low; exact Hlt.
Qed.

Lemma testbit_shlW W x s n : s < W ->
  N.testbit (shlW W x s) n = (n <? W) && ((s <=? n) && N.testbit x (n - s)).
Proof.
  intros Hs. unfold shlW. rewrite testbit_wrapW, (N.mod_small s W Hs).
  rewrite testbit_shiftl. reflexivity.
Qed.

Lemma testbit_shrW W x s n : s < W ->
  N.testbit (shrW W x s) n = N.testbit x (n + s).
Proof.
  intros Hs. unfold shrW. rewrite (N.mod_small s W Hs). apply N.shiftr_spec'.
Qed.

Lemma testbit_ones w n : N.testbit (2 ^ w - 1) n = (n <? w).
Proof.
  rewrite <- N.pred_sub, <- N.ones_equiv.
  destruct (N.ltb_spec n w) as [Hlt|Hge].
  - apply N.ones_spec_low; exact Hlt.
  - apply N.ones_spec_high; exact Hge.
Qed.

Lemma testbit_onesW W n : N.testbit (onesW W) n = (n <? W).
Proof. apply testbit_ones. Qed.

Lemma testbit_cond_bit (c : bool) p n :
  N.testbit (if c then N.shiftl 1 p else 0) n = c && (p =? n).
Proof.
  destruct c; bsimpl.
  - rewrite N.shiftl_1_l. apply N.pow2_bits_eqb.
  - apply N.bits_0.
Qed.

Lemma lt_pow2_bits x k :
  x < 2 ^ k <-> (forall n, k <= n -> N.testbit x n = false).
Proof.
  split.
  - intros Hx n Hn. rewrite <- (N.mod_small x (2 ^ k) Hx).
    apply N.mod_pow2_bits_high; exact Hn.
  - intros Hb. assert (Heq : x = x mod 2 ^ k).
    { apply N.bits_inj; intros n.
      destruct (N.lt_ge_cases n k) as [Hlt|Hge].
      - rewrite N.mod_pow2_bits_low by exact Hlt. reflexivity.
      - rewrite N.mod_pow2_bits_high by exact Hge. apply Hb; exact Hge. }
    rewrite Heq. apply N.mod_lt. apply N.pow_nonzero. discriminate.
Qed.

Lemma byte_bits_high b n : b < 256 -> 8 <= n -> N.testbit b n = false.
Proof.
  intros Hb Hn. change 256 with (2 ^ 8) in Hb.
  exact (proj1 (lt_pow2_bits b 8) Hb n Hn).
Qed.

Lemma byte_lt_of_bits b :
  (forall n, 8 <= n -> N.testbit b n = false) -> b < 256.
Proof. intros H. change 256 with (2 ^ 8). apply lt_pow2_bits; exact H. Qed.

(* ---------- bit reversal ---------- *)

Lemma testbit_rev_bits_aux W x : forall k, N.of_nat k <= W -> forall n,
  N.testbit (rev_bits_aux k W x) n =
  (n <? W) && ((W - 1 - n <? N.of_nat k) && N.testbit x (W - 1 - n)).
Proof.
  induction k as [|k IH]; intros Hk n.
  - cbn [rev_bits_aux]. rewrite N.bits_0.
    destruct (n <? W); bsimpl; [|reflexivity].
    destruct (N.ltb_spec (W - 1 - n) (N.of_nat 0)) as [H|H]; [lia|reflexivity].
  - cbn [rev_bits_aux]. rewrite N.lor_spec, testbit_cond_bit.
    rewrite IH by lia.
    destruct (N.eqb_spec (W - 1 - N.of_nat k) n) as [He|Hne].
    + subst n.
      replace (W - 1 - (W - 1 - N.of_nat k)) with (N.of_nat k) by lia.
      bdestruct; bsimpl; try lia; destruct (N.testbit x (N.of_nat k)); reflexivity.
    + rewrite andb_false_r, orb_false_l.
      bdestruct; bsimpl; try lia; reflexivity.
Qed.

Lemma testbit_revW W x n :
  N.testbit (revW W x) n = (n <? W) && N.testbit x (W - 1 - n).
Proof.
  unfold revW. rewrite testbit_rev_bits_aux by lia.
  rewrite N2Nat.id. bdestruct; bsimpl; try lia; reflexivity.
Qed.

Lemma testbit_rev8 b n :
  N.testbit (rev8 b) n = (n <? 8) && N.testbit b (7 - n).
Proof. unfold rev8. rewrite testbit_revW. reflexivity. Qed.

Lemma revW_lt W x : revW W x < 2 ^ W.
Proof.
  apply lt_pow2_bits. intros n Hn. rewrite testbit_revW.
  destruct (N.ltb_spec n W) as [H|H]; [lia|reflexivity].
Qed.

Lemma rev8_lt b : rev8 b < 256.
Proof. exact (revW_lt 8 b). Qed.

(* ---------- storage ---------- *)

(* bit index inside a byte *)
Definition idx (be : bool) (t : N) : N := if be then 7 - t else t.
(* the byte as the loops see it *)
Definition lb (be : bool) (b : N) : N := if be then rev8 b else b.

Lemma bit_eq be st n :
  bit be st n = N.testbit (byte_at st (n / 8)) (idx be (n mod 8)).
Proof. reflexivity. Qed.

Lemma testbit_lb be b t : b < 256 ->
  N.testbit (lb be b) t = (t <? 8) && N.testbit b (idx be t).
Proof.
  intros Hb. destruct be; cbn [lb idx].
  - apply testbit_rev8.
  - destruct (N.ltb_spec t 8) as [H|H]; bsimpl; [reflexivity|].
    apply byte_bits_high; assumption.
Qed.

Lemma lb_lt be b : b < 256 -> lb be b < 256.
Proof. intros Hb. destruct be; cbn [lb]; [apply rev8_lt|exact Hb]. Qed.

Lemma idx_lt be t : t < 8 -> idx be t < 8.
Proof. intros Ht. destruct be; cbn [idx]; lia. Qed.

Lemma idx_invol be t : t < 8 -> idx be (idx be t) = t.
Proof. intros Ht. destruct be; cbn [idx]; lia. Qed.

Lemma idx_inj be t u : t < 8 -> u < 8 -> idx be t = idx be u -> t = u.
Proof. destruct be; cbn [idx]; lia. Qed.

Lemma byte_at_lt st i : wf_storage st = true -> byte_at st i < 256.
Proof.
  intros Hwf. unfold byte_at.
  destruct (Nat.lt_ge_cases (N.to_nat i) (length st)) as [Hlt|Hge].
  - unfold wf_storage in Hwf. rewrite forallb_forall in Hwf.
    apply N.ltb_lt. apply Hwf. apply nth_In; exact Hlt.
  - rewrite nth_overflow by exact Hge. reflexivity.
Qed.

Lemma length_upd : forall st i b, length (upd st i b) = length st.
Proof.
  induction st as [|h t IH]; intros i b; [reflexivity|].
  destruct i as [|i]; cbn [upd length]; [reflexivity|].
  rewrite IH; reflexivity.
Qed.

Lemma nth_upd : forall st i b j,
  nth j (upd st i b) 0 =
  if (Nat.eqb j i && Nat.ltb i (length st))%bool then b else nth j st 0.
Proof.
  induction st as [|h t IH]; intros i b j.
  - cbn [upd length]. rewrite andb_false_r. reflexivity.
  - destruct i as [|i]; destruct j as [|j]; cbn [upd nth length]; try reflexivity.
    rewrite IH. reflexivity.
Qed.

Lemma byte_at_upd st i b j :
  byte_at (upd st (N.to_nat i) b) j =
  if (j =? i) && (i <? N.of_nat (length st)) then b else byte_at st j.
Proof.
  unfold byte_at. rewrite nth_upd.
  assert (H1 : Nat.eqb (N.to_nat j) (N.to_nat i) = (j =? i)).
  { destruct (N.eqb_spec j i) as [He|Hne].
    - subst; apply Nat.eqb_refl.
    - apply Nat.eqb_neq. lia. }
  assert (H2 : Nat.ltb (N.to_nat i) (length st) = (i <? N.of_nat (length st))).
  { destruct (N.ltb_spec i (N.of_nat (length st))) as [H|H].
    - apply Nat.ltb_lt. lia.
    - apply Nat.ltb_ge. lia. }
  rewrite H1, H2. reflexivity.
Qed.

Lemma wf_upd : forall st i b,
  wf_storage st = true -> b < 256 -> wf_storage (upd st i b) = true.
Proof.
  unfold wf_storage.
  induction st as [|h t IH]; intros i b Hwf Hb; [reflexivity|].
  cbn [forallb] in Hwf. apply andb_true_iff in Hwf. destruct Hwf as [Hh Ht].
  destruct i as [|i]; cbn [upd forallb]; apply andb_true_iff; split.
  - apply N.ltb_lt; exact Hb.
  - exact Ht.
  - exact Hh.
  - apply IH; assumption.
Qed.

(* bit of an updated storage, in terms of the logical (loop) view of the byte *)
Lemma bit_upd be st i b n :
  bit be (upd st (N.to_nat i) b) n =
  if (n / 8 =? i) && (i <? N.of_nat (length st))
  then N.testbit b (idx be (n mod 8)) else bit be st n.
Proof.
  rewrite !bit_eq, byte_at_upd.
  destruct ((n / 8 =? i) && (i <? N.of_nat (length st))); reflexivity.
Qed.

Lemma bit_cons_low be a st n : n < 8 ->
  bit be (a :: st) n = N.testbit a (idx be n).
Proof.
  intros Hn. rewrite bit_eq.
  rewrite (N.div_small n 8 Hn), (N.mod_small n 8 Hn). reflexivity.
Qed.

Lemma bit_cons_high be a st n :
  bit be (a :: st) (n + 8) = bit be st n.
Proof.
  rewrite !bit_eq.
  replace ((n + 8) / 8) with (N.succ (n / 8)) by dlia.
  replace ((n + 8) mod 8) with (n mod 8) by dlia.
  unfold byte_at. rewrite N2Nat.inj_succ. reflexivity.
Qed.

Lemma bits_ext : forall be st st',
  wf_storage st = true -> wf_storage st' = true -> length st = length st' ->
  (forall n, bit be st n = bit be st' n) -> st = st'.
Proof.
  intros be. induction st as [|a st IH]; intros st' Hwf Hwf' Hlen Hbits.
  - destruct st'; [reflexivity|discriminate].
  - destruct st' as [|a' st']; [discriminate|].
    unfold wf_storage in Hwf, Hwf'. cbn [forallb] in Hwf, Hwf'.
    apply andb_true_iff in Hwf. destruct Hwf as [Ha Hwf].
    apply andb_true_iff in Hwf'. destruct Hwf' as [Ha' Hwf'].
    apply N.ltb_lt in Ha. apply N.ltb_lt in Ha'.
    f_equal.
    + apply N.bits_inj. intros t.
      destruct (N.lt_ge_cases t 8) as [Ht|Ht].
      * pose proof (Hbits (idx be t)) as Hb.
        rewrite !bit_cons_low in Hb by (apply idx_lt; exact Ht).
        rewrite idx_invol in Hb by exact Ht. exact Hb.
      * rewrite !byte_bits_high by assumption. reflexivity.
    + apply IH; try assumption.
      * cbn [length] in Hlen. lia.
      * intros n. pose proof (Hbits (n + 8)) as Hb.
        rewrite !bit_cons_high in Hb. exact Hb.
Qed.

(* ---------- reference semantics: get_spec ---------- *)

Lemma vpos_lt be w j : j < w -> vpos be w j < w.
Proof. unfold vpos. destruct be; lia. Qed.

Lemma vpos_invol be w j : j < w -> vpos be w (vpos be w j) = j.
Proof. unfold vpos. destruct be; lia. Qed.

Lemma testbit_get_spec_aux be st off w : forall k, N.of_nat k <= w -> forall n,
  N.testbit (get_spec_aux k be st off w) n =
  (n <? w) && ((vpos be w n <? N.of_nat k) && bit be st (off + vpos be w n)).
Proof.
  induction k as [|k IH]; intros Hk n.
  - cbn [get_spec_aux]. rewrite N.bits_0.
    destruct (n <? w); bsimpl; [|reflexivity].
    destruct (N.ltb_spec (vpos be w n) (N.of_nat 0)) as [H|H]; [lia|reflexivity].
  - cbn [get_spec_aux]. rewrite N.lor_spec, testbit_cond_bit.
    rewrite IH by lia.
    assert (Hkw : N.of_nat k < w) by lia.
    destruct (N.eqb_spec (vpos be w (N.of_nat k)) n) as [He|Hne].
    + subst n. rewrite (vpos_invol be w _ Hkw).
      pose proof (vpos_lt be w _ Hkw) as Hv.
      rewrite andb_true_r.
      bdestruct; bsimpl; try lia.
      destruct (bit be st (off + N.of_nat k)); reflexivity.
    + rewrite andb_false_r, orb_false_r.
      destruct (N.ltb_spec n w) as [Hn|Hn]; bsimpl; [|reflexivity].
      assert (Hv : vpos be w n <> N.of_nat k).
      { intros Hc. apply Hne. rewrite <- Hc. apply vpos_invol; exact Hn. }
      bdestruct; bsimpl; try lia; reflexivity.
Qed.

Lemma testbit_get_spec be st off w n :
  N.testbit (get_spec be st off w) n =
  (n <? w) && bit be st (off + vpos be w n).
Proof.
  unfold get_spec. rewrite testbit_get_spec_aux by lia. rewrite N2Nat.id.
  destruct (N.ltb_spec n w) as [Hn|Hn]; bsimpl; [|reflexivity].
  pose proof (vpos_lt be w n Hn) as Hv.
  destruct (N.ltb_spec (vpos be w n) w) as [H|H]; [reflexivity|lia].
Qed.

Lemma get_spec_bits : forall be st off w j,
  j < w -> N.testbit (get_spec be st off w) (vpos be w j) = bit be st (off + j).
Proof.
  intros be st off w j Hj. rewrite testbit_get_spec.
  rewrite (vpos_invol be w j Hj).
  pose proof (vpos_lt be w j Hj) as Hv.
  destruct (N.ltb_spec (vpos be w j) w) as [H|H]; [reflexivity|lia].
Qed.

Lemma get_spec_bound : forall be st off w, get_spec be st off w < 2 ^ w.
Proof.
  intros be st off w. apply lt_pow2_bits. intros n Hn.
  rewrite testbit_get_spec.
  destruct (N.ltb_spec n w) as [H|H]; [lia|reflexivity].
Qed.

(* ---------- reference semantics: set_spec ---------- *)

Lemma length_set_bit be st n v : length (set_bit be st n v) = length st.
Proof. unfold set_bit. apply length_upd. Qed.

Lemma bit_set_bit be st m v n :
  bit be (set_bit be st m v) n =
  if (n =? m) && (m / 8 <? N.of_nat (length st)) then v else bit be st n.
Proof.
  unfold set_bit. rewrite bit_upd.
  fold (idx be (m mod 8)).
  destruct (N.ltb_spec (m / 8) (N.of_nat (length st))) as [Hin|Hout];
    [|rewrite !andb_false_r; reflexivity].
  rewrite !andb_true_r.
  destruct (N.eqb_spec (n / 8) (m / 8)) as [Hd|Hd].
  - assert (Hn8 : n mod 8 < 8) by (apply N.mod_lt; discriminate).
    assert (Hm8 : m mod 8 < 8) by (apply N.mod_lt; discriminate).
    assert (Hii : (idx be (m mod 8) =? idx be (n mod 8)) = (n =? m)).
    { destruct (N.eqb_spec n m) as [He|Hne].
      - subst. apply N.eqb_refl.
      - apply N.eqb_neq. intros Hc. apply idx_inj in Hc; try assumption.
        apply Hne. dlia. }
    rewrite <- Hii, bit_eq, Hd.
    destruct v.
    + rewrite N.lor_spec, N.shiftl_1_l, N.pow2_bits_eqb.
      destruct (idx be (m mod 8) =? idx be (n mod 8)); bsimpl;
        [apply orb_true_r|apply orb_false_r].
    + rewrite N.ldiff_spec, N.shiftl_1_l, N.pow2_bits_eqb.
      destruct (idx be (m mod 8) =? idx be (n mod 8)); bsimpl;
        [apply andb_false_r|apply andb_true_r].
  - destruct (N.eqb_spec n m) as [He|Hne]; [subst; congruence|reflexivity].
Qed.

Lemma set_bit_wf be st m v :
  wf_storage st = true -> wf_storage (set_bit be st m v) = true.
Proof.
  intros Hwf. unfold set_bit. apply wf_upd; [exact Hwf|].
  pose proof (byte_at_lt st (m / 8) Hwf) as Hb.
  apply byte_lt_of_bits. intros n Hn.
  assert (Hi : (if be then 7 - m mod 8 else m mod 8) < 8).
  { assert (m mod 8 < 8) by (apply N.mod_lt; discriminate). destruct be; cbv iota; dlia. }
  destruct v.
  - rewrite N.lor_spec, N.shiftl_1_l, N.pow2_bits_eqb.
    rewrite (byte_bits_high _ n Hb Hn). bsimpl. apply N.eqb_neq. lia.
  - rewrite N.ldiff_spec, (byte_bits_high _ n Hb Hn). reflexivity.
Qed.

Lemma length_set_spec_aux be st off w val : forall k,
  length (set_spec_aux k be st off w val) = length st.
Proof.
  induction k as [|k IH]; cbn [set_spec_aux]; [reflexivity|].
  rewrite length_set_bit. exact IH.
Qed.

Lemma set_spec_length : forall be st off w val,
  length (set_spec be st off w val) = length st.
Proof. intros. unfold set_spec. apply length_set_spec_aux. Qed.

Lemma set_spec_aux_wf be st off w val : wf_storage st = true -> forall k,
  wf_storage (set_spec_aux k be st off w val) = true.
Proof.
  intros Hwf. induction k as [|k IH]; cbn [set_spec_aux]; [exact Hwf|].
  apply set_bit_wf. exact IH.
Qed.

Lemma set_spec_wf : forall be st off w val,
  wf_storage st = true -> wf_storage (set_spec be st off w val) = true.
Proof. intros. unfold set_spec. apply set_spec_aux_wf. assumption. Qed.

Lemma bit_set_spec_aux be st off w val : forall k n,
  bit be (set_spec_aux k be st off w val) n =
  if (off <=? n) && ((n <? off + N.of_nat k) && (n / 8 <? N.of_nat (length st)))
  then N.testbit val (vpos be w (n - off)) else bit be st n.
Proof.
  induction k as [|k IH]; intros n.
  - cbn [set_spec_aux]. bdestruct; bsimpl; try lia; reflexivity.
  - cbn [set_spec_aux]. rewrite bit_set_bit, length_set_spec_aux, IH.
    destruct (N.eqb_spec n (off + N.of_nat k)) as [He|Hne].
    + subst n. replace (off + N.of_nat k - off) with (N.of_nat k) by lia.
      bdestruct; bsimpl; try lia; reflexivity.
    + bsimpl. bdestruct; bsimpl; try lia; reflexivity.
Qed.

Lemma bit_set_spec be st off w val n :
  bit be (set_spec be st off w val) n =
  if (off <=? n) && ((n <? off + w) && (n / 8 <? N.of_nat (length st)))
  then N.testbit val (vpos be w (n - off)) else bit be st n.
Proof. unfold set_spec. rewrite bit_set_spec_aux, N2Nat.id. reflexivity. Qed.

Lemma set_spec_field : forall be st off w val j,
  (off + w + 7) / 8 <= N.of_nat (length st) -> j < w ->
  bit be (set_spec be st off w val) (off + j) = N.testbit val (vpos be w j).
Proof.
  intros be st off w val j Hlen Hj. rewrite bit_set_spec.
  replace (off + j - off) with j by lia.
  assert (Hin : (off + j) / 8 < N.of_nat (length st)) by dlia.
  bdestruct; bsimpl; try lia; reflexivity.
Qed.

Lemma set_spec_frame : forall be st off w val n,
  (n < off \/ off + w <= n) ->
  bit be (set_spec be st off w val) n = bit be st n.
Proof.
  intros be st off w val n Hn. rewrite bit_set_spec.
  bdestruct; bsimpl; try lia; reflexivity.
Qed.

(* ---------- implementation: get ---------- *)

Lemma testbit_gather W be st start : wf_storage st = true ->
  forall k, 8 * N.of_nat k <= W -> forall n,
  N.testbit (gather k W be st start) n =
  (n <? 8 * N.of_nat k) && bit be st (8 * start + n).
Proof.
  intros Hwf. induction k as [|k IH]; intros Hk n.
  - cbn [gather]. rewrite N.bits_0.
    destruct (N.ltb_spec n (8 * N.of_nat 0)) as [H|H]; [lia|reflexivity].
  - cbn [gather]. fold (lb be (byte_at st (start + N.of_nat k))).
    rewrite N.lor_spec, IH by lia.
    rewrite testbit_shlW by lia.
    rewrite testbit_lb by (apply byte_at_lt; exact Hwf).
    destruct (N.ltb_spec (n - N.of_nat k * 8) 8) as [Hlo|Hhi];
    destruct (N.leb_spec (N.of_nat k * 8) n) as [Hge|Hlt]; bsimpl.
    + (* the new byte *)
      rewrite bit_eq.
      replace ((8 * start + n) / 8) with (start + N.of_nat k) by dlia.
      replace ((8 * start + n) mod 8) with (n - N.of_nat k * 8) by dlia.
      bdestruct; bsimpl; try lia; reflexivity.
    + rewrite !andb_false_r, orb_false_r.
      bdestruct; bsimpl; try lia; reflexivity.
    + rewrite !andb_false_r, orb_false_r.
      bdestruct; bsimpl; try lia; reflexivity.
    + lia.
Qed.

(* the value before the big-endian reversal *)
Lemma testbit_get_core_pre W be st off w :
  wf_storage st = true -> W = 32 \/ W = 64 -> w + off mod 8 <= W ->
  forall n,
  N.testbit
    (let v := shrW W (gather (N.to_nat (bytes_needed off w)) W be st
                             (start_byte off)) (bit_shift off) in
     if w <? W then N.land v (2 ^ w - 1) else v) n =
  (n <? w) && bit be st (off + n).
Proof.
  intros Hwf HW Hg n. cbv zeta.
  unfold bytes_needed, start_byte, bit_shift.
  assert (Hk : 8 * N.of_nat (N.to_nat ((w + off mod 8 + 7) / 8)) <= W).
  { rewrite N2Nat.id. dlia. }
  assert (Hoff : 8 * (off / 8) + (n + off mod 8) = off + n) by dlia.
  destruct (N.ltb_spec w W) as [Hw|Hw].
  - rewrite N.land_spec, testbit_ones, testbit_shrW by dlia.
    rewrite testbit_gather by assumption. rewrite Hoff, N2Nat.id.
    destruct (N.ltb_spec n w) as [Hn|Hn]; [|apply andb_false_r].
    rewrite andb_true_r. bsimpl.
    destruct (N.ltb_spec (n + off mod 8) (8 * ((w + off mod 8 + 7) / 8)))
      as [H|H]; [reflexivity|dlia].
  - rewrite testbit_shrW by dlia.
    rewrite testbit_gather by assumption. rewrite Hoff, N2Nat.id.
    destruct (N.ltb_spec n w) as [Hn|Hn];
    destruct (N.ltb_spec (n + off mod 8) (8 * ((w + off mod 8 + 7) / 8)))
      as [H|H]; bsimpl; try reflexivity; dlia.
Qed.

Lemma get_core_correct W be st off w :
  wf_storage st = true -> W = 32 \/ W = 64 -> 0 < w -> w + off mod 8 <= W ->
  get_core W be st off w = get_spec be st off w.
Proof.
  intros Hwf HW Hw0 Hg. apply N.bits_inj. intros n.
  rewrite testbit_get_spec. unfold get_core.
  pose proof (testbit_get_core_pre W be st off w Hwf HW Hg) as Hpre.
  cbv zeta in Hpre |- *.
  assert (HwW : w <= W) by dlia.
  destruct be.
  - rewrite testbit_shrW by lia. rewrite testbit_revW, Hpre.
    unfold vpos.
    destruct (N.ltb_spec n w) as [Hn|Hn].
    + replace (W - 1 - (n + (W - w))) with (w - 1 - n) by lia.
      bdestruct; bsimpl; try lia; reflexivity.
    + bdestruct; bsimpl; try lia; reflexivity.
  - rewrite Hpre. reflexivity.
Qed.

Lemma get_correct : forall be st off w,
  wf_storage st = true ->
  asserts_ok (N.of_nat (length st)) off w = true -> w + off mod 8 <= 64 ->
  get be st off w = get_spec be st off w.
Proof.
  intros be st off w Hwf _ Hg. unfold get.
  destruct (N.eqb_spec w 0) as [Hw|Hw].
  - subst w. reflexivity.
  - apply get_core_correct; try assumption; [right; reflexivity|lia].
Qed.

Lemma get_const_correct : forall Wsz be st off w,
  Wsz = 32 \/ Wsz = 64 ->
  wf_storage st = true ->
  asserts_ok (N.of_nat (length st)) off w = true -> w + off mod 8 <= 64 ->
  get_const Wsz be st off w = get_spec be st off w.
Proof.
  intros Wsz be st off w HW Hwf _ Hg. unfold get_const, bit_shift.
  destruct (N.eqb_spec w 0) as [Hw|Hw].
  - subst w. reflexivity.
  - destruct (N.leb_spec (w + off mod 8) Wsz) as [Hfit|Hnofit].
    + apply get_core_correct; try assumption. lia.
    + apply get_core_correct; try assumption; [right; reflexivity|lia].
Qed.

(* ---------- implementation: set ---------- *)

Lemma testbit_mod256 x t : N.testbit (x mod 256) t = (t <? 8) && N.testbit x t.
Proof. exact (testbit_wrapW 8 x t). Qed.

Lemma mod256_lt x : x mod 256 < 256.
Proof. apply N.mod_lt. discriminate. Qed.

Lemma testbit_255_sub bm t : bm < 256 ->
  N.testbit (255 - bm) t = (t <? 8) && negb (N.testbit bm t).
Proof.
  intros Hbm.
  assert (H255 : forall n, N.testbit 255 n = (n <? 8)).
  { intros n. exact (testbit_ones 8 n). }
  rewrite N.sub_nocarry_ldiff.
  - rewrite N.ldiff_spec, H255. reflexivity.
  - apply N.bits_inj. intros n. rewrite N.ldiff_spec, H255, N.bits_0.
    destruct (N.ltb_spec n 8) as [H|H]; bsimpl.
    + apply andb_false_r.
    + rewrite (byte_bits_high bm n Hbm H). reflexivity.
Qed.

(* the byte written by one iteration of the set loop *)
Definition new_byte (be : bool) (b bv bm : N) : N :=
  if be then rev8 (N.lor (N.land (rev8 b) (255 - bm)) (N.land bv bm))
  else N.lor (N.land b (255 - bm)) (N.land bv bm).

Lemma new_byte_bit be b bv bm t : bm < 256 -> t < 8 ->
  N.testbit (new_byte be b bv bm) (idx be t) =
  if N.testbit bm t then N.testbit bv t else N.testbit b (idx be t).
Proof.
  intros Hbm Ht. unfold new_byte. destruct be; cbn [idx].
  - rewrite testbit_rev8. replace (7 - (7 - t)) with t by lia.
    rewrite N.lor_spec, !N.land_spec, testbit_255_sub, testbit_rev8 by exact Hbm.
    destruct (N.ltb_spec (7 - t) 8) as [H1|H1]; [|lia].
    destruct (N.ltb_spec t 8) as [H2|H2]; [|lia].
    bsimpl.
    destruct (N.testbit bm t), (N.testbit bv t), (N.testbit b (7 - t)); reflexivity.
  - rewrite N.lor_spec, !N.land_spec, testbit_255_sub by exact Hbm.
    destruct (N.ltb_spec t 8) as [H2|H2]; [|lia].
    bsimpl.
    destruct (N.testbit bm t), (N.testbit bv t), (N.testbit b t); reflexivity.
Qed.

Lemma new_byte_lt be b bv bm : b < 256 -> bm < 256 -> new_byte be b bv bm < 256.
Proof.
  intros Hb Hbm. unfold new_byte. destruct be; [apply rev8_lt|].
  apply byte_lt_of_bits. intros n Hn.
  rewrite N.lor_spec, !N.land_spec.
  rewrite (byte_bits_high b n Hb Hn), (byte_bits_high bm n Hbm Hn).
  rewrite andb_false_r. reflexivity.
Qed.

Lemma scatter_S k W be st start v mask :
  scatter (S k) W be st start v mask =
  let st' := scatter k W be st start v mask in
  let i := N.of_nat k in
  upd st' (N.to_nat (start + i))
      (new_byte be (byte_at st' (start + i))
                (shrW W v (i * 8) mod 256) (shrW W mask (i * 8) mod 256)).
Proof. reflexivity. Qed.

Lemma length_scatter W be st start v mask : forall k,
  length (scatter k W be st start v mask) = length st.
Proof.
  induction k as [|k IH]; [reflexivity|].
  rewrite scatter_S. cbv zeta. rewrite length_upd. exact IH.
Qed.

Lemma scatter_wf W be st start v mask : wf_storage st = true -> forall k,
  wf_storage (scatter k W be st start v mask) = true.
Proof.
  intros Hwf. induction k as [|k IH]; [exact Hwf|].
  rewrite scatter_S. cbv zeta. apply wf_upd; [exact IH|].
  apply new_byte_lt; [apply byte_at_lt; exact IH|apply mod256_lt].
Qed.

Lemma bit_scatter W be st start v mask :
  forall k, 8 * N.of_nat k <= W ->
  start + N.of_nat k <= N.of_nat (length st) -> forall n,
  bit be (scatter k W be st start v mask) n =
  if (8 * start <=? n) && ((n <? 8 * (start + N.of_nat k)) &&
                           N.testbit mask (n - 8 * start))
  then N.testbit v (n - 8 * start) else bit be st n.
Proof.
  induction k as [|k IH]; intros Hk Hlen n.
  - cbn [scatter]. bdestruct; bsimpl; try lia; reflexivity.
  - rewrite scatter_S. cbv zeta.
    rewrite bit_upd, length_scatter.
    assert (Ht : n mod 8 < 8) by (apply N.mod_lt; discriminate).
    rewrite new_byte_bit by (try apply mod256_lt; exact Ht).
    rewrite !testbit_mod256, !testbit_shrW by lia.
    destruct (N.eqb_spec (n / 8) (start + N.of_nat k)) as [Hd|Hd].
    + assert (Hb : N.testbit (byte_at (scatter k W be st start v mask)
                                      (start + N.of_nat k)) (idx be (n mod 8))
                   = bit be (scatter k W be st start v mask) n)
        by (rewrite bit_eq, Hd; reflexivity).
      rewrite Hb, IH by lia.
      replace (n mod 8 + N.of_nat k * 8) with (n - 8 * start) by dlia.
      assert (H1 : 8 * start <= n) by dlia.
      assert (H2 : n < 8 * (start + N.of_nat (S k))) by dlia.
      assert (H3 : 8 * (start + N.of_nat k) <= n) by dlia.
      bdestruct; bsimpl; try lia;
        destruct (N.testbit mask (n - 8 * start)); reflexivity.
    + bsimpl. rewrite IH by lia.
      assert (H1 : n < 8 * (start + N.of_nat (S k)) <->
                   n < 8 * (start + N.of_nat k)) by dlia.
      bdestruct; bsimpl; try lia; reflexivity.
Qed.

(* the value and mask handed to the set loop *)
Lemma testbit_set_val W (be : bool) w val : W = 32 \/ W = 64 -> 0 < w -> w <= W ->
  forall m,
  N.testbit
    (let v := wrapW W val in
     let v := if w <? W then N.land v (2 ^ w - 1) else v in
     if be then shrW W (revW W v) (W - w) else v) m =
  (m <? w) && N.testbit val (vpos be w m).
Proof.
  intros HW Hw0 HwW m. cbv zeta.
  assert (Hv1 : forall j,
    N.testbit (if w <? W then N.land (wrapW W val) (2 ^ w - 1) else wrapW W val) j
    = (j <? w) && N.testbit val j).
  { intros j. destruct (N.ltb_spec w W) as [Hw|Hw].
    - rewrite N.land_spec, testbit_ones, testbit_wrapW.
      bdestruct; bsimpl; try lia; try reflexivity. apply andb_true_r.
    - rewrite testbit_wrapW. bdestruct; bsimpl; try lia; reflexivity. }
  unfold vpos. destruct be.
  - rewrite testbit_shrW by lia. rewrite testbit_revW, Hv1.
    destruct (N.ltb_spec m w) as [Hm|Hm].
    + replace (W - 1 - (m + (W - w))) with (w - 1 - m) by lia.
      bdestruct; bsimpl; try lia; reflexivity.
    + bdestruct; bsimpl; try lia; reflexivity.
  - apply Hv1.
Qed.

Lemma testbit_set_mask W w sh : w + sh <= W -> 0 < w -> forall m,
  N.testbit (if W <=? w + sh then shlW W (onesW W) sh
             else shlW W (2 ^ w - 1) sh) m =
  (sh <=? m) && (m <? w + sh).
Proof.
  intros Hg Hw0 m.
  destruct (N.leb_spec W (w + sh)) as [H|H];
    rewrite testbit_shlW by lia;
    [rewrite testbit_onesW|rewrite testbit_ones];
    bdestruct; bsimpl; try lia; reflexivity.
Qed.

Lemma bit_set_core W be st off w val :
  W = 32 \/ W = 64 -> 0 < w -> w + off mod 8 <= W ->
  (off + w + 7) / 8 <= N.of_nat (length st) -> forall n,
  bit be (set_core W be st off w val) n =
  if (off <=? n) && (n <? off + w)
  then N.testbit val (vpos be w (n - off)) else bit be st n.
Proof.
  intros HW Hw0 Hg Hlen n. unfold set_core. cbv zeta.
  unfold bytes_needed, start_byte, bit_shift.
  assert (HwW : w <= W) by dlia.
  assert (Hsh : off mod 8 < 8) by (apply N.mod_lt; discriminate).
  rewrite bit_scatter; rewrite ?N2Nat.id; try dlia.
  rewrite testbit_set_mask by assumption.
  rewrite testbit_shlW by lia.
  pose proof (testbit_set_val W be w val HW Hw0 HwW) as Hval.
  cbv zeta in Hval. rewrite Hval. clear Hval.
  destruct (N.leb_spec off n) as [Hon|Hon].
  - destruct (N.ltb_spec n (off + w)) as [Hnw|Hnw]; bsimpl.
    + replace (n - 8 * (off / 8) - off mod 8) with (n - off) by dlia.
      assert (H1 : 8 * (off / 8) <= n) by dlia.
      assert (H2 : n < 8 * (off / 8 + (w + off mod 8 + 7) / 8)) by dlia.
      assert (H3 : off mod 8 <= n - 8 * (off / 8)) by dlia.
      assert (H4 : n - 8 * (off / 8) < w + off mod 8) by dlia.
      assert (H5 : n - off < w) by lia.
      bdestruct; bsimpl; try lia; reflexivity.
    + assert (H4 : ~ n - 8 * (off / 8) < w + off mod 8) by dlia.
      bdestruct; bsimpl; try lia; reflexivity.
  - bsimpl.
    assert (H4 : 8 * (off / 8) <= n -> ~ off mod 8 <= n - 8 * (off / 8)) by dlia.
    bdestruct; bsimpl; try lia; reflexivity.
Qed.

Lemma set_core_correct W be st off w val :
  wf_storage st = true -> W = 32 \/ W = 64 -> 0 < w -> w <= 64 ->
  w + off mod 8 <= W ->
  (off + w + 7) / 8 <= N.of_nat (length st) ->
  set_core W be st off w (wrapW 64 val) = set_spec be st off w val.
Proof.
  intros Hwf HW Hw0 Hw64 Hg Hlen.
  apply (bits_ext be).
  - unfold set_core. apply scatter_wf. exact Hwf.
  - apply set_spec_wf. exact Hwf.
  - unfold set_core. rewrite length_scatter, set_spec_length. reflexivity.
  - intros n. rewrite bit_set_core by assumption. rewrite bit_set_spec.
    destruct (N.leb_spec off n) as [Hon|Hon]; bsimpl; [|reflexivity].
    destruct (N.ltb_spec n (off + w)) as [Hnw|Hnw]; bsimpl; [|reflexivity].
    assert (Hin : n / 8 < N.of_nat (length st)) by dlia.
    destruct (N.ltb_spec (n / 8) (N.of_nat (length st))) as [H|H]; [|lia].
    rewrite testbit_wrapW.
    assert (Hv : vpos be w (n - off) < w) by (apply vpos_lt; lia).
    destruct (N.ltb_spec (vpos be w (n - off)) 64) as [H6|H6]; [reflexivity|lia].
Qed.

Lemma fits_len len off w : asserts_ok len off w = true ->
  w <= 64 /\ (off + w + 7) / 8 <= len.
Proof.
  unfold asserts_ok. intros H.
  apply andb_true_iff in H. destruct H as [H H3].
  apply andb_true_iff in H. destruct H as [H1 H2].
  apply N.leb_le in H1. apply N.leb_le in H3. split; assumption.
Qed.

Lemma set_correct : forall be st off w val,
  wf_storage st = true ->
  asserts_ok (N.of_nat (length st)) off w = true -> w + off mod 8 <= 64 ->
  set be st off w val = set_spec be st off w val.
Proof.
  intros be st off w val Hwf Hfits Hg. unfold set.
  apply fits_len in Hfits. destruct Hfits as [Hw64 Hlen].
  destruct (N.eqb_spec w 0) as [Hw|Hw].
  - subst w. reflexivity.
  - apply set_core_correct; try assumption; [right; reflexivity|lia].
Qed.

Lemma set_const_correct : forall Wsz be st off w val,
  Wsz = 32 \/ Wsz = 64 ->
  wf_storage st = true ->
  asserts_ok (N.of_nat (length st)) off w = true -> w + off mod 8 <= 64 ->
  set_const Wsz be st off w val = set_spec be st off w val.
Proof.
  intros Wsz be st off w val HW Hwf Hfits Hg. unfold set_const, bit_shift.
  apply fits_len in Hfits. destruct Hfits as [Hw64 Hlen].
  destruct (N.eqb_spec w 0) as [Hw|Hw].
  - subst w. reflexivity.
  - destruct (N.leb_spec (w + off mod 8) Wsz) as [Hfit|Hnofit].
    + apply set_core_correct; try assumption. lia.
    + apply set_core_correct; try assumption; [right; reflexivity|lia].
Qed.

(* ---------- the guard is necessary ---------- *)

Lemma get_refuted : exists be st off w,
  wf_storage st = true /\ asserts_ok (N.of_nat (length st)) off w = true /\
  get be st off w <> get_spec be st off w.
Proof.
  exists false, [31; 0; 0; 0; 0; 0; 0; 0; 248], 4, 64.
  split; [reflexivity|]. split; [reflexivity|].
  vm_compute. discriminate.
Qed.

Lemma set_refuted : exists be st off w val,
  wf_storage st = true /\ asserts_ok (N.of_nat (length st)) off w = true /\
  set be st off w val <> set_spec be st off w val.
Proof.
  exists false, [31; 0; 0; 0; 0; 0; 0; 0; 248], 4, 64, 0.
  split; [reflexivity|]. split; [reflexivity|].
  vm_compute. discriminate.
Qed.

Lemma dbg_ok_iff_guard : forall (st : list N) off w,
  dbg_ok (N.of_nat (length st)) off w = true <->
  (asserts_ok (N.of_nat (length st)) off w = true /\
   (w = 0 \/ w + off mod 8 <= 64)).
Proof.
  intros st off w. unfold dbg_ok, bit_shift.
  rewrite andb_true_iff, orb_true_iff, N.eqb_eq, N.leb_le. reflexivity.
Qed.

(* ---------- consequences ---------- *)

Lemma get_set : forall be st off w val,
  wf_storage st = true ->
  asserts_ok (N.of_nat (length st)) off w = true -> w + off mod 8 <= 64 ->
  get be (set be st off w val) off w = val mod 2 ^ w.
Proof.
  intros be st off w val Hwf Hfits Hg.
  rewrite set_correct by assumption.
  rewrite get_correct;
    [|apply set_spec_wf; exact Hwf|rewrite set_spec_length; exact Hfits|exact Hg].
  destruct (fits_len _ _ _ Hfits) as [_ Hlen].
  apply N.bits_inj. intros n.
  rewrite testbit_get_spec. fold (wrapW w val). rewrite testbit_wrapW.
  destruct (N.ltb_spec n w) as [Hn|Hn]; bsimpl; [|reflexivity].
  pose proof (vpos_lt be w n Hn) as Hv.
  rewrite (set_spec_field be st off w val _ Hlen Hv).
  rewrite (vpos_invol be w n Hn). reflexivity.
Qed.

Lemma set_preserves_other_field : forall be st off w val off' w',
  wf_storage st = true ->
  asserts_ok (N.of_nat (length st)) off w = true -> w + off mod 8 <= 64 ->
  asserts_ok (N.of_nat (length st)) off' w' = true -> w' + off' mod 8 <= 64 ->
  (off' + w' <= off \/ off + w <= off') ->
  get be (set be st off w val) off' w' = get be st off' w'.
Proof.
  intros be st off w val off' w' Hwf Hfits Hg Hfits' Hg' Hdisj.
  rewrite set_correct by assumption.
  rewrite (get_correct be st off' w') by assumption.
  rewrite get_correct;
    [|apply set_spec_wf; exact Hwf|rewrite set_spec_length; exact Hfits'|exact Hg'].
  apply N.bits_inj. intros n. rewrite !testbit_get_spec.
  destruct (N.ltb_spec n w') as [Hn|Hn]; bsimpl; [|reflexivity].
  pose proof (vpos_lt be w' n Hn) as Hv.
  apply set_spec_frame. lia.
Qed.

Lemma set_commute : forall be st off w val off' w' val',
  wf_storage st = true ->
  asserts_ok (N.of_nat (length st)) off w = true -> w + off mod 8 <= 64 ->
  asserts_ok (N.of_nat (length st)) off' w' = true -> w' + off' mod 8 <= 64 ->
  (off' + w' <= off \/ off + w <= off') ->
  set be (set be st off w val) off' w' val' =
  set be (set be st off' w' val') off w val.
Proof.
  intros be st off w val off' w' val' Hwf Hfits Hg Hfits' Hg' Hdisj.
  rewrite (set_correct be st off w val) by assumption.
  rewrite (set_correct be st off' w' val') by assumption.
  rewrite (set_correct be (set_spec be st off w val) off' w' val');
    [|apply set_spec_wf; exact Hwf|rewrite set_spec_length; exact Hfits'|exact Hg'].
  rewrite (set_correct be (set_spec be st off' w' val') off w val);
    [|apply set_spec_wf; exact Hwf|rewrite set_spec_length; exact Hfits|exact Hg].
  apply (bits_ext be).
  - apply set_spec_wf, set_spec_wf; exact Hwf.
  - apply set_spec_wf, set_spec_wf; exact Hwf.
  - rewrite !set_spec_length. reflexivity.
  - intros n. rewrite !bit_set_spec, !set_spec_length.
    bdestruct; bsimpl; try lia; reflexivity.
Qed.

(* ---------- accessor layer ---------- *)

Lemma getter_unsigned_correct : forall tybits w raw,
  w <= tybits -> raw < 2 ^ w ->
  getter_value tybits false raw = c_field_value w false raw.
Proof.
  intros tybits w raw Hw Hraw. unfold getter_value, c_field_value.
  assert (Hpow : 2 ^ w <= 2 ^ tybits) by (apply N.pow_le_mono_r; [discriminate|exact Hw]).
  rewrite N.mod_small by lia. reflexivity.
Qed.

Lemma getter_signed_fullwidth : forall tybits raw,
  0 < tybits -> raw < 2 ^ tybits ->
  getter_value tybits true raw = c_field_value tybits true raw.
Proof.
  intros tybits raw _ Hraw. unfold getter_value, c_field_value.
  rewrite N.mod_small by exact Hraw. reflexivity.
Qed.

Lemma getter_signed_refuted : exists tybits w raw,
  0 < w /\ w < tybits /\ raw < 2 ^ w /\
  getter_value tybits true raw <> c_field_value w true raw.
Proof.
  exists 32, 3, 7.
  split; [reflexivity|]. split; [reflexivity|]. split; [reflexivity|].
  vm_compute. discriminate.
Qed.

Lemma setter_truncates : forall tybits w (val : Z),
  w <= tybits -> tybits <= 64 ->
  (setter_raw tybits val) mod 2 ^ w = Z.to_N (Z.modulo val (Z.pow 2 (Z.of_N w))).
Proof.
  intros tybits w val Hw _. unfold setter_raw.
  assert (Hpw : (0 < 2 ^ Z.of_N w)%Z) by (apply Z.pow_pos_nonneg; lia).
  assert (Hpt : (0 < 2 ^ Z.of_N tybits)%Z) by (apply Z.pow_pos_nonneg; lia).
  assert (H2w : 2 ^ w = Z.to_N (2 ^ Z.of_N w)).
  { rewrite Z2N.inj_pow by lia. rewrite N2Z.id. reflexivity. }
  pose proof (Z.mod_pos_bound val _ Hpt) as Hb.
  rewrite H2w, <- Z2N.inj_mod by lia.
  f_equal. symmetry. apply Zmod_div_mod; try assumption.
  exists (2 ^ (Z.of_N tybits - Z.of_N w))%Z.
  rewrite <- Z.pow_add_r by lia. f_equal. lia.
Qed.

(* ---------- the hypotheses of the main theorems are satisfiable ---------- *)

Example get_correct_nonvacuous :
  let st := [165; 60; 255; 18] in
  wf_storage st = true /\
  asserts_ok (N.of_nat (length st)) 3 17 = true /\
  17 + 3 mod 8 <= 64 /\
  get false st 3 17 = 124820 /\ get_spec false st 3 17 = 124820 /\
  get true st 3 17 = 21455 /\ get_spec true st 3 17 = 21455.
Proof. vm_compute. repeat split; try reflexivity; discriminate. Qed.

Example set_correct_nonvacuous :
  let st := [165; 60; 255; 18] in
  wf_storage st = true /\
  asserts_ok (N.of_nat (length st)) 3 17 = true /\
  17 + 3 mod 8 <= 64 /\
  set false st 3 17 43690 = set_spec false st 3 17 43690 /\
  set false st 3 17 43690 <> st /\
  set true st 3 17 43690 = set_spec true st 3 17 43690 /\
  set true st 3 17 43690 <> st.
Proof. vm_compute. repeat split; try reflexivity; discriminate. Qed.

(* a field that straddles the usize = 32 boundary takes the u64 fallback *)
Example get_const_nonvacuous :
  let st := [165; 60; 255; 18; 77; 200] in
  wf_storage st = true /\
  asserts_ok (N.of_nat (length st)) 5 30 = true /\
  30 + 5 mod 8 <= 64 /\
  get_const 32 false st 5 30 = get_spec false st 5 30 /\
  get_const 32 true st 5 30 = get_spec true st 5 30 /\
  get_spec false st 5 30 <> 0.
Proof. vm_compute. repeat split; try reflexivity; discriminate. Qed.
