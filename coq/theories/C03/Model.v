(* C03 — executable model of bindgen/codegen/bitfield_unit.rs
   (__BindgenBitfieldUnit::{get,set,raw_get,raw_set} and the *_const forms).

   Definitions only (this file is what gets extracted and run against the
   implementation); proofs live in Proofs.v, property theorems in Properties.v.

   Storage is a list of bytes (each an N below 256).  Rust's fixed-width
   integer semantics is written out explicitly:
     - values of type uW are kept reduced modulo 2^W,
     - in a *release* build  x << n  and  x >> n  use n mod W (wrapping_shl),
     - in a *debug* build they panic when n >= W; [dbg_ok] says when no such
       panic (and no debug_assert!) fires.
   W = 64 is the u64 path; the *_const entry points use usize arithmetic
   (W = usize::BITS, 64 on the host, 32 on i686) when the field fits. *)
From Coq Require Import NArith ZArith List Bool.
Import ListNotations.
Open Scope N_scope.

(* ---- Rust integer primitives ---- *)
Definition wrapW (W x : N) : N := x mod 2 ^ W.
Definition shlW (W x n : N) : N := wrapW W (N.shiftl x (n mod W)).
Definition shrW (W x n : N) : N := N.shiftr x (n mod W).
Definition onesW (W : N) : N := 2 ^ W - 1.

(* bit reversal of a W-bit value: bit j goes to bit W-1-j *)
Fixpoint rev_bits_aux (k : nat) (W x : N) : N :=
  match k with
  | O => 0
  | S k' =>
      let j := N.of_nat k' in
      N.lor (if N.testbit x j then N.shiftl 1 (W - 1 - j) else 0)
            (rev_bits_aux k' W x)
  end.
Definition revW (W x : N) : N := rev_bits_aux (N.to_nat W) W x.
Definition rev8 (b : N) : N := revW 8 b.

(* ---- storage ---- *)
Definition byte_at (st : list N) (i : N) : N := nth (N.to_nat i) st 0.

Fixpoint upd (st : list N) (i : nat) (b : N) : list N :=
  match st, i with
  | [], _ => []
  | _ :: t, O => b :: t
  | h :: t, S i' => h :: upd t i' b
  end.

Definition wf_storage (st : list N) : bool := forallb (fun b => b <? 256) st.

(* ---- the shared prologue ---- *)
Definition start_byte (off : N) := off / 8.
Definition bit_shift (off : N) := off mod 8.
Definition bytes_needed (off w : N) := (w + bit_shift off + 7) / 8.

(* debug_assert!s common to every entry point *)
Definition asserts_ok (len off w : N) : bool :=
  (w <=? 64) && (off / 8 <? len) && ((off + w + 7) / 8 <=? len).

(* ---- get ---- *)
Fixpoint gather (k : nat) (W : N) (be : bool) (st : list N) (start : N) : N :=
  match k with
  | O => 0
  | S k' =>
      let i := N.of_nat k' in
      let b := byte_at st (start + i) in
      N.lor (gather k' W be st start)
            (shlW W (if be then rev8 b else b) (i * 8))
  end.

Definition get_core (W : N) (be : bool) (st : list N) (off w : N) : N :=
  let acc := gather (N.to_nat (bytes_needed off w)) W be st (start_byte off) in
  let v := shrW W acc (bit_shift off) in
  let v := if w <? W then N.land v (2 ^ w - 1) else v in
  if be then shrW W (revW W v) (W - w) else v.

(* get / raw_get : always the u64 path *)
Definition get (be : bool) (st : list N) (off w : N) : N :=
  if w =? 0 then 0 else get_core 64 be st off w.

(* get_const / raw_get_const : usize path when the field fits *)
Definition get_const (Wsz : N) (be : bool) (st : list N) (off w : N) : N :=
  if w =? 0 then 0
  else if w + bit_shift off <=? Wsz then get_core Wsz be st off w
       else get_core 64 be st off w.

(* ---- set ---- *)
Fixpoint scatter (k : nat) (W : N) (be : bool) (st : list N) (start v mask : N)
  : list N :=
  match k with
  | O => st
  | S k' =>
      let st' := scatter k' W be st start v mask in
      let i := N.of_nat k' in
      let bv := (shrW W v (i * 8)) mod 256 in
      let bm := (shrW W mask (i * 8)) mod 256 in
      let b := byte_at st' (start + i) in
      let nb :=
        if be then
          rev8 (N.lor (N.land (rev8 b) (255 - bm)) (N.land bv bm))
        else N.lor (N.land b (255 - bm)) (N.land bv bm) in
      upd st' (N.to_nat (start + i)) nb
  end.

Definition set_core (W : N) (be : bool) (st : list N) (off w val : N) : list N :=
  let v := wrapW W val in
  let v := if w <? W then N.land v (2 ^ w - 1) else v in
  let v := if be then shrW W (revW W v) (W - w) else v in
  let sh := bit_shift off in
  let v := shlW W v sh in
  let mask :=
    if W <=? w + sh then shlW W (onesW W) sh
    else shlW W (2 ^ w - 1) sh in
  scatter (N.to_nat (bytes_needed off w)) W be st (start_byte off) v mask.

Definition set (be : bool) (st : list N) (off w val : N) : list N :=
  if w =? 0 then st else set_core 64 be st off w (wrapW 64 val).

Definition set_const (Wsz : N) (be : bool) (st : list N) (off w val : N)
  : list N :=
  if w =? 0 then st
  else if w + bit_shift off <=? Wsz then set_core Wsz be st off w (wrapW 64 val)
       else set_core 64 be st off w (wrapW 64 val).

(* ---- when does a debug build run to completion? ----
   The only overflow checks that can fire are the shifts by i*8 inside the
   loops: with the u64 path they need 8 * (bytes_needed - 1) < 64. *)
Definition dbg_ok (len off w : N) : bool :=
  asserts_ok len off w && ((w =? 0) || (w + bit_shift off <=? 64)).

(* ---- reference semantics: the object as a flat vector of bits ----
   Bit n of the storage, exactly as get_bit/extract_bit read it. *)
Definition bit (be : bool) (st : list N) (n : N) : bool :=
  N.testbit (byte_at st (n / 8)) (if be then 7 - n mod 8 else n mod 8).

(* position of field bit j (counted from the field's first storage bit)
   inside the value *)
Definition vpos (be : bool) (w j : N) : N := if be then w - 1 - j else j.

Fixpoint get_spec_aux (k : nat) (be : bool) (st : list N) (off w : N) : N :=
  match k with
  | O => 0
  | S k' =>
      let j := N.of_nat k' in
      N.lor (get_spec_aux k' be st off w)
            (if bit be st (off + j) then N.shiftl 1 (vpos be w j) else 0)
  end.
Definition get_spec (be : bool) (st : list N) (off w : N) : N :=
  get_spec_aux (N.to_nat w) be st off w.

(* bit-by-bit store, exactly as set_bit/change_bit write *)
Definition set_bit (be : bool) (st : list N) (n : N) (v : bool) : list N :=
  let b := byte_at st (n / 8) in
  let idx := if be then 7 - n mod 8 else n mod 8 in
  let nb := if v then N.lor b (N.shiftl 1 idx) else N.ldiff b (N.shiftl 1 idx) in
  upd st (N.to_nat (n / 8)) nb.

Fixpoint set_spec_aux (k : nat) (be : bool) (st : list N) (off w val : N)
  : list N :=
  match k with
  | O => st
  | S k' =>
      let j := N.of_nat k' in
      set_bit be (set_spec_aux k' be st off w val) (off + j)
              (N.testbit val (vpos be w j))
  end.
Definition set_spec (be : bool) (st : list N) (off w val : N) : list N :=
  set_spec_aux (N.to_nat w) be st off w val.

(* ---- accessor layer (codegen/mod.rs, impl FieldCodegen for Bitfield) ----
   getter:  transmute::<uN, T>( unit.get(off, w) as uN )   N = bit size of T
   setter:  unit.set(off, w, transmute::<T, uN>(val) as u64)
   For a signed T of S bits the C value of a w-bit field is the sign
   extension of its w bits; the emitted getter zero-extends. *)
Definition to_signed (bits v : N) : Z :=
  if N.testbit v (bits - 1) then (Z.of_N v - Z.pow 2 (Z.of_N bits))%Z else Z.of_N v.

Definition getter_value (tybits : N) (signed : bool) (raw : N) : Z :=
  let t := raw mod 2 ^ tybits in
  if signed then to_signed tybits t else Z.of_N t.

Definition c_field_value (w : N) (signed : bool) (raw : N) : Z :=
  if signed then to_signed w raw else Z.of_N raw.

Definition setter_raw (tybits : N) (val : Z) : N :=
  Z.to_N (Z.modulo val (Z.pow 2 (Z.of_N tybits))).

(* ctor: new_bitfield_N(a, b, ...) = fold of set_const over a zeroed unit *)
Definition ctor (Wsz : N) (be : bool) (len : nat) (fields : list (N * N * N))
  : list N :=
  fold_left (fun st '(off, w, v) => set_const Wsz be st off w v) fields
            (repeat 0 len).
