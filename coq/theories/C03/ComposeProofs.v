(* C03 — composition: proofs of the statements in ComposeProperties.v.
   Stdlib only, no axioms.  The statements were first evaluated (vm_compute) on concrete runs (little- and
   big-endian; runs starting at a non-zero byte; fields straddling bytes; packed runs; 64-bit fields on a byte
   boundary; leading and inner separators) and on an exhaustive small domain (all runs of 3 fields, widths
   {0,3,9,17}, alignments {1,4}, offsets {8,11,16,24,29,32}, packed and not, both endiannesses: 52806
   instances satisfy every hypothesis): no counterexample.

   Plan: [slice] and [splice] commute with the reference semantics (get_spec / set_spec of Model.v) when the
   window is byte-aligned; Alloc's invariant gives, for the i-th field, its in-unit offset and the fact that
   the unit covers it; Proofs.get_correct / set_correct do the rest on the slice. *)
From Coq Require Import NArith ZArith List Bool Lia.
From BG Require Import C03.Model C03.Proofs C03.Alloc C03.AllocProofs C03.Compose.
Import ListNotations.
Open Scope N_scope.

(* ---------- lists ---------- *)

Lemma nth_firstn_lt : forall (l : list N) n i,
  (i < n)%nat -> nth i (firstn n l) 0 = nth i l 0.
Proof.
  induction l as [|a l IH]; intros n i H.
  - rewrite firstn_nil. reflexivity.
  - destruct n as [|n]; [lia|].
    destruct i as [|i]; cbn [firstn nth]; [reflexivity|].
    apply IH. lia.
Qed.

Lemma nth_skipn_add : forall k (l : list N) i,
  nth i (skipn k l) 0 = nth (k + i) l 0.
Proof.
  induction k as [|k IH]; intros l i; [reflexivity|].
  destruct l as [|a l].
  - cbn [skipn]. destruct i; reflexivity.
  - cbn [skipn]. change (S k + i)%nat with (S (k + i)). cbn [nth]. apply IH.
Qed.

Lemma Forall2_nth_error {A B} (R : A -> B -> Prop) : forall l1 l2,
  Forall2 R l1 l2 -> forall i a, nth_error l1 i = Some a ->
  exists b, nth_error l2 i = Some b /\ R a b.
Proof.
  intros l1 l2 F. induction F as [|x y l1 l2 Rxy F IH]; intros i a H.
  - destruct i; discriminate.
  - destruct i as [|i]; cbn [nth_error] in *.
    + injection H as <-. exists y. split; [reflexivity|assumption].
    + apply IH; assumption.
Qed.

(* ---------- well-formedness of pieces ---------- *)

Lemma wf_firstn n st : wf_storage st = true -> wf_storage (firstn n st) = true.
Proof.
  intros H. unfold wf_storage in *.
  rewrite <- (firstn_skipn n st), forallb_app in H.
  apply andb_true_iff in H. apply H.
Qed.

Lemma wf_skipn n st : wf_storage st = true -> wf_storage (skipn n st) = true.
Proof.
  intros H. unfold wf_storage in *.
  rewrite <- (firstn_skipn n st), forallb_app in H.
  apply andb_true_iff in H. apply H.
Qed.

Lemma wf_app a b :
  wf_storage a = true -> wf_storage b = true -> wf_storage (a ++ b) = true.
Proof.
  unfold wf_storage. intros Ha Hb. rewrite forallb_app, Ha, Hb. reflexivity.
Qed.

(* ---------- slice ---------- *)

Lemma byte_at_slice obj k n i :
  i < n -> byte_at (slice obj k n) i = byte_at obj (k + i).
Proof.
  intros H. unfold byte_at, slice.
  rewrite nth_firstn_lt by lia.
  rewrite nth_skipn_add, N2Nat.inj_add. reflexivity.
Qed.

(* bits are numbered byte by byte, so a byte-aligned window shifts bit numbers by 8*k, whatever the
   bit order inside a byte *)
Lemma bit_slice be obj k n j :
  j < 8 * n -> bit be (slice obj k n) j = bit be obj (8 * k + j).
Proof.
  intros H. rewrite !bit_eq.
  rewrite byte_at_slice by dlia.
  replace ((8 * k + j) / 8) with (k + j / 8) by dlia.
  replace ((8 * k + j) mod 8) with (j mod 8) by dlia.
  reflexivity.
Qed.

Lemma length_slice obj k n :
  k + n <= N.of_nat (length obj) -> N.of_nat (length (slice obj k n)) = n.
Proof.
  intros H. unfold slice. rewrite firstn_length, skipn_length. lia.
Qed.

Lemma wf_slice obj k n : wf_storage obj = true -> wf_storage (slice obj k n) = true.
Proof. intros H. unfold slice. apply wf_firstn, wf_skipn, H. Qed.

Lemma get_spec_slice be obj k n off w :
  off + w <= 8 * n ->
  get_spec be (slice obj k n) off w = get_spec be obj (8 * k + off) w.
Proof.
  intros H. apply N.bits_inj. intros m. rewrite !testbit_get_spec.
  destruct (N.ltb_spec m w) as [Hm|Hm]; bsimpl; [|reflexivity].
  pose proof (vpos_lt be w m Hm) as Hv.
  rewrite bit_slice by lia. rewrite N.add_assoc. reflexivity.
Qed.

Lemma fits_slice obj k n off w :
  k + n <= N.of_nat (length obj) -> 0 < w -> w <= 64 -> off + w <= 8 * n ->
  asserts_ok (N.of_nat (length (slice obj k n))) off w = true.
Proof.
  intros Hl Hw Hw64 Hfit. rewrite length_slice by exact Hl.
  unfold asserts_ok.
  apply andb_true_intro; split; [apply andb_true_intro; split|].
  - apply N.leb_le. exact Hw64.
  - apply N.ltb_lt. dlia.
  - apply N.leb_le. dlia.
Qed.

(* ---------- splice ---------- *)

Lemma byte_at_splice obj k u i :
  k <= N.of_nat (length obj) ->
  byte_at (splice obj k u) i =
  if i <? k then byte_at obj i
  else if i <? k + N.of_nat (length u) then byte_at u (i - k)
  else byte_at obj i.
Proof.
  intros Hk. unfold byte_at, splice.
  assert (HL : length (firstn (N.to_nat k) obj) = N.to_nat k)
    by (rewrite firstn_length; lia).
  destruct (N.ltb_spec i k) as [H1|H1].
  - rewrite app_nth1 by (rewrite HL; lia). apply nth_firstn_lt. lia.
  - rewrite app_nth2 by (rewrite HL; lia). rewrite HL.
    destruct (N.ltb_spec i (k + N.of_nat (length u))) as [H2|H2].
    + rewrite app_nth1 by lia. f_equal. lia.
    + rewrite app_nth2 by lia. rewrite nth_skipn_add. f_equal. lia.
Qed.

Lemma bit_splice be obj k u m :
  k <= N.of_nat (length obj) ->
  bit be (splice obj k u) m =
  if m <? 8 * k then bit be obj m
  else if m <? 8 * (k + N.of_nat (length u)) then bit be u (m - 8 * k)
  else bit be obj m.
Proof.
  intros Hk. rewrite (bit_eq be (splice obj k u)), byte_at_splice by exact Hk.
  destruct (N.ltb_spec (m / 8) k) as [H1|H1];
    destruct (N.ltb_spec m (8 * k)) as [H1'|H1']; try (exfalso; dlia).
  - reflexivity.
  - destruct (N.ltb_spec (m / 8) (k + N.of_nat (length u))) as [H2|H2];
      destruct (N.ltb_spec m (8 * (k + N.of_nat (length u)))) as [H2'|H2'];
      try (exfalso; dlia).
    + rewrite bit_eq.
      replace ((m - 8 * k) / 8) with (m / 8 - k) by dlia.
      replace ((m - 8 * k) mod 8) with (m mod 8) by dlia.
      reflexivity.
    + reflexivity.
Qed.

Lemma length_splice obj k u :
  k + N.of_nat (length u) <= N.of_nat (length obj) ->
  length (splice obj k u) = length obj.
Proof.
  intros H. unfold splice.
  rewrite !app_length, firstn_length, skipn_length. lia.
Qed.

(* storing into the window and putting the window back = storing into the object *)
Lemma splice_set_spec be obj k n off w val :
  wf_storage obj = true -> k + n <= N.of_nat (length obj) -> off + w <= 8 * n ->
  splice obj k (set_spec be (slice obj k n) off w val) =
  set_spec be obj (8 * k + off) w val.
Proof.
  intros Hwf Hlen Hfit.
  pose proof (length_slice obj k n Hlen) as Hls.
  assert (Hlu : N.of_nat (length (set_spec be (slice obj k n) off w val)) = n)
    by (rewrite set_spec_length; exact Hls).
  apply (bits_ext be).
  - unfold splice. apply wf_app; [apply wf_firstn; exact Hwf|].
    apply wf_app; [|apply wf_skipn; exact Hwf].
    apply set_spec_wf, wf_slice, Hwf.
  - apply set_spec_wf, Hwf.
  - rewrite set_spec_length. apply length_splice. lia.
  - intros m. rewrite bit_splice by lia. rewrite Hlu.
    rewrite (bit_set_spec be obj).
    destruct (N.ltb_spec m (8 * k)) as [H1|H1].
    + bdestruct; bsimpl; try lia; reflexivity.
    + destruct (N.ltb_spec m (8 * (k + n))) as [H2|H2].
      * rewrite bit_set_spec, Hls.
        rewrite bit_slice by lia.
        replace (8 * k + (m - 8 * k)) with m by lia.
        replace (m - 8 * k - off) with (m - (8 * k + off)) by lia.
        bdestruct; bsimpl; try reflexivity; exfalso; dlia.
      * bdestruct; bsimpl; try lia; reflexivity.
Qed.

(* ---------- from run_ok to the facts about field i ---------- *)

Lemma run_ok_facts packed bs : run_ok packed bs = true ->
  exists offs, known bs = Some offs /\ ends_monotone offs = true /\
    Forall (fun b => 0 < bal b) bs /\
    forallb (fun b => match boff b with Some o => c_placed packed b o | None => false end) bs = true.
Proof.
  unfold run_ok. destruct (known bs) as [offs|]; [|discriminate].
  intros H. apply andb_true_iff in H. destruct H as [Hm Hf].
  exists offs. split; [reflexivity|]. split; [exact Hm|].
  rewrite forallb_forall in Hf. split.
  - apply Forall_forall. intros b Hb. specialize (Hf b Hb).
    apply andb_true_iff in Hf. destruct Hf as [H0 _]. apply N.ltb_lt. exact H0.
  - apply forallb_forall. intros b Hb. specialize (Hf b Hb).
    apply andb_true_iff in Hf. apply Hf.
Qed.

Lemma known_Forall2 : forall bs offs, known bs = Some offs ->
  Forall2 (fun b ow => boff b = Some (fst ow) /\ snd ow = bw b) bs offs.
Proof.
  induction bs as [|a bs IH]; intros offs H.
  - cbn in H. injection H as <-. constructor.
  - change (known (a :: bs)) with
      (match boff a, known bs with Some o, Some l => Some ((o, bw a) :: l) | _, _ => None end) in H.
    destruct (boff a) as [o|] eqn:Ho; [|discriminate].
    destruct (known bs) as [l|] eqn:Hk; [|discriminate].
    injection H as <-. constructor.
    + split; [exact Ho|reflexivity].
    + apply IH. reflexivity.
Qed.

(* field i of the run: recorded with its own width, at its C distance from the unit's start, inside the unit *)
Lemma field_facts packed bs i b o :
  run_ok packed bs = true -> nth_error bs i = Some b -> boff b = Some o -> 0 < bw b ->
  exists off, nth_error (u_fields (run packed bs)) i = Some (off, bw b) /\
              u_start (run packed bs) + off = o /\
              off + bw b <= 8 * unit_bytes (run packed bs).
Proof.
  intros Hok Hn Ho Hw.
  destruct (run_ok_facts _ _ Hok) as (offs & Hk & Hm & Hal & Hc).
  assert (Hne : bs <> []) by (intros ->; destruct i; discriminate).
  destruct (run_inv packed bs offs Hk Hal Hc Hm) as (HF & _ & _).
  pose proof (unit_covers_every_field packed bs offs Hk Hne Hal Hc Hm) as Hu.
  cbv zeta in Hu. destruct Hu as [Hcov Hub].
  destruct (Forall2_nth_error _ _ _ (known_Forall2 bs offs Hk) i b Hn) as (ow & Hnow & Hbo & Hsw).
  destruct (Forall2_nth_error _ _ _ HF i ow Hnow) as (f & Hnf & Hsf & Hrel).
  rewrite Ho in Hbo. injection Hbo as Hbo.
  destruct f as [off w']. destruct ow as [o' w'']. unfold Rel in Hrel. cbn [fst snd] in *.
  subst o' w'' w'.
  exists off. split; [exact Hnf|]. split.
  - destruct Hrel as [[Z _]|(_ & E & _)]; lia.
  - rewrite Forall_forall in Hcov.
    pose proof (Hcov _ (nth_error_In _ _ Hnf)) as Hc1. cbn [fst snd] in Hc1. lia.
Qed.

(* the same, in the form the theorems use: the unit sits at byte u_start/8 *)
Lemma field_setup packed bs i b o :
  run_ok packed bs = true ->
  u_start (run packed bs) mod 8 = 0 ->
  nth_error bs i = Some b -> boff b = Some o -> 0 < bw b ->
  bw b + (o - u_start (run packed bs)) mod 8 <= 64 ->
  exists off, nth_error (u_fields (run packed bs)) i = Some (off, bw b) /\
              8 * (u_start (run packed bs) / 8) + off = o /\
              off + bw b <= 8 * unit_bytes (run packed bs) /\
              bw b + off mod 8 <= 64.
Proof.
  intros Hok Hal Hn Ho Hw Hg.
  destruct (field_facts packed bs i b o Hok Hn Ho Hw) as (off & Hnf & Hst & Hcov).
  exists off. split; [exact Hnf|].
  replace (o - u_start (run packed bs)) with off in Hg by lia.
  split; [|split; assumption].
  pose proof (N.div_mod (u_start (run packed bs)) 8) as Hd. lia.
Qed.

(* ---------- the theorems ---------- *)

Lemma getter_reads_the_c_field : forall be packed bs obj i b o,
  run_ok packed bs = true ->
  u_start (run packed bs) mod 8 = 0 ->
  wf_storage obj = true ->
  u_start (run packed bs) / 8 + unit_bytes (run packed bs) <= N.of_nat (length obj) ->
  nth_error bs i = Some b -> boff b = Some o ->
  0 < bw b -> bw b <= 64 ->
  bw b + (o - u_start (run packed bs)) mod 8 <= 64 ->
  rust_get be packed bs (u_start (run packed bs) / 8) obj i = Some (c_get be obj o (bw b)).
Proof.
  intros be packed bs obj i b o Hok Hal Hwf Hlen Hn Ho Hw Hw64 Hg.
  destruct (field_setup packed bs i b o Hok Hal Hn Ho Hw Hg) as (off & Hnf & Ho8 & Hcov & Hg').
  unfold rust_get. cbv zeta. rewrite Hnf. f_equal. unfold c_get.
  rewrite get_correct;
    [| apply wf_slice; exact Hwf | apply fits_slice; assumption | exact Hg'].
  rewrite get_spec_slice by exact Hcov. rewrite Ho8. reflexivity.
Qed.

Lemma const_getter_reads_the_c_field : forall Wsz be packed bs obj i b o,
  Wsz = 32 \/ Wsz = 64 ->
  run_ok packed bs = true ->
  u_start (run packed bs) mod 8 = 0 ->
  wf_storage obj = true ->
  u_start (run packed bs) / 8 + unit_bytes (run packed bs) <= N.of_nat (length obj) ->
  nth_error bs i = Some b -> boff b = Some o ->
  0 < bw b -> bw b <= 64 ->
  bw b + (o - u_start (run packed bs)) mod 8 <= 64 ->
  rust_get_const Wsz be packed bs (u_start (run packed bs) / 8) obj i = Some (c_get be obj o (bw b)).
Proof.
  intros Wsz be packed bs obj i b o HW Hok Hal Hwf Hlen Hn Ho Hw Hw64 Hg.
  destruct (field_setup packed bs i b o Hok Hal Hn Ho Hw Hg) as (off & Hnf & Ho8 & Hcov & Hg').
  unfold rust_get_const. cbv zeta. rewrite Hnf. f_equal. unfold c_get.
  rewrite get_const_correct;
    [| exact HW | apply wf_slice; exact Hwf | apply fits_slice; assumption | exact Hg'].
  rewrite get_spec_slice by exact Hcov. rewrite Ho8. reflexivity.
Qed.

Lemma setter_writes_the_c_field : forall be packed bs obj i b o val,
  run_ok packed bs = true ->
  u_start (run packed bs) mod 8 = 0 ->
  wf_storage obj = true ->
  u_start (run packed bs) / 8 + unit_bytes (run packed bs) <= N.of_nat (length obj) ->
  nth_error bs i = Some b -> boff b = Some o ->
  0 < bw b -> bw b <= 64 ->
  bw b + (o - u_start (run packed bs)) mod 8 <= 64 ->
  rust_set be packed bs (u_start (run packed bs) / 8) obj i val = Some (c_set be obj o (bw b) val).
Proof.
  intros be packed bs obj i b o val Hok Hal Hwf Hlen Hn Ho Hw Hw64 Hg.
  destruct (field_setup packed bs i b o Hok Hal Hn Ho Hw Hg) as (off & Hnf & Ho8 & Hcov & Hg').
  unfold rust_set. cbv zeta. rewrite Hnf. f_equal. unfold c_set.
  rewrite set_correct;
    [| apply wf_slice; exact Hwf | apply fits_slice; assumption | exact Hg'].
  rewrite splice_set_spec by assumption. rewrite Ho8. reflexivity.
Qed.

Lemma set_then_c_reads : forall be packed bs obj i b o val obj',
  run_ok packed bs = true ->
  u_start (run packed bs) mod 8 = 0 ->
  wf_storage obj = true ->
  u_start (run packed bs) / 8 + unit_bytes (run packed bs) <= N.of_nat (length obj) ->
  nth_error bs i = Some b -> boff b = Some o ->
  0 < bw b -> bw b <= 64 ->
  bw b + (o - u_start (run packed bs)) mod 8 <= 64 ->
  rust_set be packed bs (u_start (run packed bs) / 8) obj i val = Some obj' ->
  c_get be obj' o (bw b) = val mod 2 ^ bw b /\
  (forall n, n < o \/ o + bw b <= n -> bit be obj' n = bit be obj n) /\
  length obj' = length obj.
Proof.
  intros be packed bs obj i b o val obj' Hok Hal Hwf Hlen Hn Ho Hw Hw64 Hg Hset.
  rewrite (setter_writes_the_c_field be packed bs obj i b o val Hok Hal Hwf Hlen Hn Ho Hw Hw64 Hg) in Hset.
  injection Hset as <-.
  destruct (field_setup packed bs i b o Hok Hal Hn Ho Hw Hg) as (off & _ & Ho8 & Hcov & _).
  assert (Hin : (o + bw b + 7) / 8 <= N.of_nat (length obj)) by dlia.
  unfold c_get, c_set. split; [|split].
  - apply N.bits_inj. intros n.
    rewrite testbit_get_spec. fold (wrapW (bw b) val). rewrite testbit_wrapW.
    destruct (N.ltb_spec n (bw b)) as [Hlt|Hge]; bsimpl; [|reflexivity].
    pose proof (vpos_lt be (bw b) n Hlt) as Hv.
    rewrite (set_spec_field be obj o (bw b) val _ Hin Hv).
    rewrite (vpos_invol be (bw b) n Hlt). reflexivity.
  - intros n Hout. apply set_spec_frame. exact Hout.
  - apply set_spec_length.
Qed.

Lemma misplaced_unit_refuted : exists be packed bs obj i b o,
  run_ok packed bs = true /\ u_start (run packed bs) mod 8 = 0 /\ wf_storage obj = true /\
  nth_error bs i = Some b /\ boff b = Some o /\
  rust_get be packed bs (u_start (run packed bs) / 8 + 1) obj i <> Some (c_get be obj o (bw b)).
Proof.
  exists false, false,
    [ {| bw := 3; bal := 4; bsz := 4; boff := Some 32; bnamed := true |};
      {| bw := 9; bal := 4; bsz := 4; boff := Some 35; bnamed := true |} ],
    [1; 2; 3; 4; 165; 90; 255; 0; 9; 9; 9; 9], 1%nat,
    {| bw := 9; bal := 4; bsz := 4; boff := Some 35; bnamed := true |}, 35.
  repeat (split; [vm_compute; reflexivity|]).
  vm_compute. discriminate.
Qed.
