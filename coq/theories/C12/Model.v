(* C12 — model of the logic that DECIDES the outcome of a generation
   (Builder::generate / Bindings::generate / parse() in bindgen/lib.rs) and of the
   numeric part of RustTarget::from_str (bindgen/features.rs).  Definitions only.
   Panic-freedom of the 33 kLoC in between is not modelled: it is sampled. *)
From Coq Require Import NArith List Bool.
Import ListNotations.
Open Scope N_scope.

(* std::fs::metadata(last input header) *)
Inductive path_state := Missing | Directory | Unreadable | Readable.

Inductive outcome :=
| ErrUnsupportedEdition
| ErrNotExist | ErrFolderAsHeader | ErrInsufficientPermissions
| ErrClangDiagnostic (messages : list N)   (* the formatted diagnostics of severity >= Error *)
| ErrCodegen
| Bindings.

(* one clang diagnostic: (severity, message id); CXDiagnostic_Error = 3 *)
Definition diag := (N * N)%type.
Definition error_messages (ds : list diag) : list N :=
  map snd (filter (fun d => 3 <=? fst d) ds).

Definition generate (edition_given edition_available : bool)
           (last_header : option path_state) (ds : list diag) (codegen_ok : bool) : outcome :=
  if edition_given && negb edition_available then ErrUnsupportedEdition
  else match last_header with
       | Some Missing => ErrNotExist
       | Some Directory => ErrFolderAsHeader
       | Some Unreadable => ErrInsufficientPermissions
       | _ =>
           match error_messages ds with
           | [] => if codegen_ok then Bindings else ErrCodegen
           | msgs => ErrClangDiagnostic msgs
           end
       end.

(* ---- RustTarget::from_str after the textual split: minor, patch, pre-release tag ---- *)
Inductive prerelease := Stable | Beta | NightlyTag.
Inductive target := TStable (minor patch : N) | TNightly.

Definition U64MAX : N := 18446744073709551615.

(* current code: checked_sub *)
Definition target_of_parts (earliest : N) (minor patch : N) (pre : prerelease) : option target :=
  match pre with
  | NightlyTag =>
      if minor =? 0 then None
      else if minor - 1 <? earliest then None else Some (TStable (minor - 1) U64MAX)
  | _ => if minor <? earliest then None else Some (TStable minor patch)
  end.

(* the code before the fix: `minor -= 1` on a u64 — in a release build it wraps, in a
   debug build it panics (None') *)
Inductive old_result := OldOk (t : option target) | OldPanic.
Definition old_target_of_parts (debug : bool) (earliest minor patch : N) (pre : prerelease) : old_result :=
  match pre with
  | NightlyTag =>
      if minor =? 0 then
        if debug then OldPanic else OldOk (Some (TStable U64MAX U64MAX))
      else OldOk (if minor - 1 <? earliest then None else Some (TStable (minor - 1) U64MAX))
  | _ => OldOk (if minor <? earliest then None else Some (TStable minor patch))
  end.

(* ---- ItemResolver::resolve: follow type references / aliases with a seen-set ---- *)
(* next n = Some m when item n is a reference / alias to m that the resolver follows *)
Fixpoint resolve (fuel : nat) (next : N -> option N) (seen : list N) (n : N) : option N :=
  match fuel with
  | O => None
  | S f =>
      if existsb (N.eqb n) seen then Some n     (* cycle detected: stop here *)
      else match next n with
           | Some m => resolve f next (n :: seen) m
           | None => Some n
           end
  end.
