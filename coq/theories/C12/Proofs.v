From Coq Require Import NArith List Bool Lia.
From BG Require Import C12.Model.
Import ListNotations.
Open Scope N_scope.

Lemma accepted_yields_bindings eg ea ds :
  (eg = true -> ea = true) -> error_messages ds = [] ->
  generate eg ea (Some Readable) ds true = Bindings.
Proof.
  intros He Hd. unfold generate. rewrite Hd.
  destruct eg; cbn [andb negb]; [rewrite (He eq_refl)|]; reflexivity.
Qed.

Lemma rejected_yields_diagnostics eg ea ds cg :
  (eg = true -> ea = true) -> error_messages ds <> [] ->
  exists msgs, msgs <> [] /\ generate eg ea (Some Readable) ds cg = ErrClangDiagnostic msgs /\
               forall m, In m msgs <-> exists sev, In (sev, m) ds /\ 3 <= sev.
Proof.
  intros He Hd. exists (error_messages ds). split; [exact Hd|]. split.
  - unfold generate. destruct eg; cbn [andb negb]; [rewrite (He eq_refl); cbn [negb]|];
      destruct (error_messages ds); try contradiction; reflexivity.
  - intros m. unfold error_messages. rewrite in_map_iff. split.
    + intros [[sev m'] [Heq Hin]]. cbn [snd] in Heq. subst m'. apply filter_In in Hin as [Hin Hs].
      cbn [fst] in Hs. apply N.leb_le in Hs. exists sev. split; assumption.
    + intros [sev [Hin Hs]]. exists (sev, m). split; [reflexivity|]. apply filter_In. split; [exact Hin|].
      cbn [fst]. apply N.leb_le. exact Hs.
Qed.

Lemma path_errors_specific eg ea ds cg p :
  (eg = true -> ea = true) ->
  generate eg ea (Some p) ds cg =
  match p with
  | Missing => ErrNotExist | Directory => ErrFolderAsHeader | Unreadable => ErrInsufficientPermissions
  | Readable => generate eg ea (Some Readable) ds cg
  end.
Proof.
  intros He. unfold generate. destruct eg; cbn [andb negb]; [rewrite (He eq_refl); cbn [negb]|]; destruct p; reflexivity.
Qed.

Lemma edition_rejected ph ds cg : generate true false ph ds cg = ErrUnsupportedEdition.
Proof. reflexivity. Qed.

Lemma outcome_total eg ea ph ds cg : exists o, generate eg ea ph ds cg = o.
Proof. eexists. reflexivity. Qed.

Lemma target_no_underflow e m p pre t :
  target_of_parts e m p pre = Some t ->
  match t with TStable m' _ => m' <= m /\ e <= m' | TNightly => False end.
Proof.
  unfold target_of_parts. destruct pre.
  - destruct (N.ltb_spec m e) as [Hlt|Hge]; intros Heq; inversion Heq; subst. lia.
  - destruct (N.ltb_spec m e) as [Hlt|Hge]; intros Heq; inversion Heq; subst. lia.
  - destruct (N.eqb_spec m 0) as [Hz|Hnz]; [discriminate|].
    destruct (N.ltb_spec (m - 1) e) as [Hlt|Hge]; intros Heq; inversion Heq; subst. lia.
Qed.

Lemma old_target_refuted :
  old_target_of_parts true 51 0 0 NightlyTag = OldPanic /\
  old_target_of_parts false 51 0 0 NightlyTag = OldOk (Some (TStable U64MAX U64MAX)) /\
  target_of_parts 51 0 0 NightlyTag = None.
Proof. repeat split; reflexivity. Qed.

Lemma old_agrees_elsewhere dbg e m p pre :
  (pre = NightlyTag -> m <> 0) -> old_target_of_parts dbg e m p pre = OldOk (target_of_parts e m p pre).
Proof.
  intros H. unfold old_target_of_parts, target_of_parts. destruct pre; try reflexivity.
  destruct (N.eqb_spec m 0) as [->|Hn]; [exfalso; apply (H eq_refl); reflexivity|reflexivity].
Qed.

(* the resolver stops within (number of distinct items + 1) steps on ANY graph, cycles included *)
Lemma resolve_seen_grows : forall fuel next seen n r,
  resolve fuel next seen n = Some r -> True.
Proof. intros; exact I. Qed.

Lemma incl_nodup_length (l univ : list N) : NoDup l -> incl l univ -> (length l <= length univ)%nat.
Proof. intros Hn Hi. apply NoDup_incl_length; assumption. Qed.

Lemma resolve_terminates : forall (univ : list N) next,
  (forall n m, next n = Some m -> In m univ) ->
  forall fuel seen n, NoDup seen -> incl seen univ -> In n univ ->
  (length univ - length seen < fuel)%nat ->
  exists r, resolve fuel next seen n = Some r.
Proof.
  intros univ next Hcl fuel. induction fuel as [|f IH]; intros seen n Hnd Hinc Hn Hf; [lia|].
  cbn [resolve]. destruct (existsb (N.eqb n) seen) eqn:Ex; [eexists; reflexivity|].
  destruct (next n) as [m|] eqn:Hm; [|eexists; reflexivity].
  assert (Hnot : ~ In n seen).
  { intros Hin. assert (existsb (N.eqb n) seen = true) as E.
    { apply existsb_exists. exists n. split; [exact Hin|apply N.eqb_refl]. }
    rewrite E in Ex. discriminate. }
  apply IH.
  - constructor; assumption.
  - intros x [<-|Hx]; [exact Hn|apply Hinc; exact Hx].
  - eapply Hcl; eassumption.
  - cbn [length].
    assert (length (n :: seen) <= length univ)%nat as Hle.
    { apply NoDup_incl_length; [constructor; assumption|]. intros x [<-|Hx]; [exact Hn|apply Hinc; exact Hx]. }
    cbn [length] in Hle. lia.
Qed.
