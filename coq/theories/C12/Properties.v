(* C12 — property theorems about the outcome decision logic. *)
From Coq Require Import NArith List Bool.
From BG Require Import C12.Model C12.Proofs.
Import ListNotations.
Open Scope N_scope.

(* the outcome function is total: every combination ends in bindings or an error value *)
Theorem outcome_total : forall eg ea ph ds cg, exists o, generate eg ea ph ds cg = o.
Proof. exact Proofs.outcome_total. Qed.
Print Assumptions outcome_total.

(* a header clang accepts (no diagnostic of severity Error or above) yields bindings *)
Theorem accepted_yields_bindings : forall eg ea ds,
  (eg = true -> ea = true) -> error_messages ds = [] ->
  generate eg ea (Some Readable) ds true = Bindings.
Proof. exact Proofs.accepted_yields_bindings. Qed.
Print Assumptions accepted_yields_bindings.

(* a header clang rejects yields an error carrying exactly clang's error diagnostics, never bindings *)
Theorem rejected_yields_diagnostics : forall eg ea ds cg,
  (eg = true -> ea = true) -> error_messages ds <> [] ->
  exists msgs, msgs <> [] /\ generate eg ea (Some Readable) ds cg = ErrClangDiagnostic msgs /\
               forall m, In m msgs <-> exists sev, In (sev, m) ds /\ 3 <= sev.
Proof. exact Proofs.rejected_yields_diagnostics. Qed.
Print Assumptions rejected_yields_diagnostics.

(* missing path / directory / unreadable file give their specific errors *)
Theorem path_errors_specific : forall eg ea ds cg p,
  (eg = true -> ea = true) ->
  generate eg ea (Some p) ds cg =
  match p with
  | Missing => ErrNotExist | Directory => ErrFolderAsHeader | Unreadable => ErrInsufficientPermissions
  | Readable => generate eg ea (Some Readable) ds cg
  end.
Proof. exact Proofs.path_errors_specific. Qed.
Print Assumptions path_errors_specific.

Theorem edition_rejected : forall ph ds cg, generate true false ph ds cg = ErrUnsupportedEdition.
Proof. exact Proofs.edition_rejected. Qed.
Print Assumptions edition_rejected.

(* target-string arithmetic never underflows and never goes below the earliest supported release *)
Theorem target_no_underflow : forall e m p pre t,
  target_of_parts e m p pre = Some t ->
  match t with TStable m' _ => m' <= m /\ e <= m' | TNightly => False end.
Proof. exact Proofs.target_no_underflow. Qed.
Print Assumptions target_no_underflow.

(* the code before the fix: "1.0-nightly" panics (debug) or becomes the newest target (release) *)
Theorem old_target_refuted :
  old_target_of_parts true 51 0 0 NightlyTag = OldPanic /\
  old_target_of_parts false 51 0 0 NightlyTag = OldOk (Some (TStable U64MAX U64MAX)) /\
  target_of_parts 51 0 0 NightlyTag = None.
Proof. exact Proofs.old_target_refuted. Qed.
Print Assumptions old_target_refuted.

(* reference resolution terminates on every item graph, cycles included *)
Theorem resolve_terminates : forall (univ : list N) next,
  (forall n m, next n = Some m -> In m univ) ->
  forall fuel seen n, NoDup seen -> incl seen univ -> In n univ ->
  (length univ - length seen < fuel)%nat ->
  exists r, resolve fuel next seen n = Some r.
Proof. exact Proofs.resolve_terminates. Qed.
Print Assumptions resolve_terminates.

Example resolve_cycle_nonvacuous :
  resolve 4 (fun n => if n =? 1 then Some 2 else if n =? 2 then Some 3 else if n =? 3 then Some 1 else None) [] 1 = Some 1.
Proof. reflexivity. Qed.
