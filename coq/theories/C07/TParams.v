(* C07/TParams — executable model of the sixth analysis, UsedTemplateParameters
   (ir/analysis/template_params.rs): which template parameters every item uses.
   Definitions only.  Facts are finite sets of item ids (lists, compared as sets);
   the lattice is (P(ids), subset), join = union.

   constrain(id):   used[id] := used[id] ∪ F(used, id)   with
     TypeParam                              F = {id}
     TemplateInstantiation, def allowlisted F = ∪ { used[resolve a] | (a, p) in zip(args, self_params def),
                                                                     p ∈ used[def], resolve a <> id }
     TemplateInstantiation, def not allowl. F = ∪ { used[resolve a] | a in args, resolve a <> id }
     anything else                          F = ∪ { used[s] | (s, k) in trace(id), s <> id, consider_edge k }
   `resolve` = ItemResolver through_type_refs().through_type_aliases() (cycle check by a seen set).

   Totalisation, stated: where the implementation would panic (`expect` on a missing
   or taken `used` entry — an instantiation whose definition is itself) the model
   contributes nothing; the tie only compares runs in which bindgen returned. *)
From Coq Require Import NArith List Bool.
From BG Require Import C07.Model.
Import ListNotations.
Open Scope N_scope.

Definition sets := N -> list N.
Definition empty : sets := fun _ => [].

(* elements of b that a lacks, once each *)
Definition fresh (a b : list N) : list N :=
  nodup N.eq_dec (filter (fun x => negb (mem x a)) b).
Definition nunion (a b : list N) : list N := a ++ fresh a b.

Definition upds (st : sets) (n : N) (v : list N) : sets := fun m => if m =? n then v else st m.

Record ctx := {
  cg : ir;
  c_consider : N -> bool;      (* UsedTemplateParameters::consider_edge, regenerated from the source *)
  c_selfp : N -> list N;       (* CompInfo::self_template_params per composite (from the IR dump) *)
  c_allow : list N;            (* ctx.allowlisted_items() *)
  c_fuel : nat                 (* bound for the resolver / typeref chains: number of items *)
}.

Definition kind_of (g : ir) (n : N) : option tkind :=
  match i_kind (get g n) with IType k => Some k | _ => None end.

(* ItemResolver::resolve with both flags on *)
Fixpoint resolve (fuel : nat) (g : ir) (seen : list N) (n : N) : N :=
  match fuel with
  | O => n
  | S f =>
      if mem n seen then n else
      match kind_of g n with
      | Some (KResolvedTypeRef t) => resolve f g (n :: seen) t
      | Some (KAlias t) => resolve f g (n :: seen) t
      | _ => n
      end
  end.

(* impl TemplateParameters for TypeKind :: self_template_params *)
Fixpoint self_params (fuel : nat) (g : ir) (comp_self : N -> list N) (n : N) : list N :=
  match fuel with
  | O => []
  | S f =>
      match kind_of g n with
      | Some (KResolvedTypeRef t) => self_params f g comp_self t
      | Some (KComp _) => comp_self n
      | Some (KTemplateAlias _ ps) => ps
      | _ => []
      end
  end.

Definition res (c : ctx) (n : N) : N := resolve (c_fuel c) (cg c) [] n.
Definition params_of (c : ctx) (def : N) : list N := self_params (c_fuel c) (cg c) (c_selfp c) def.

(* ---------- what constrain(id) reads ---------- *)
Definition reads_join (c : ctx) (n : N) : list N :=
  flat_map (fun e => if negb (fst e =? n) && c_consider c (snd e) then [fst e] else [])
           (trace (get (cg c) n)).

Definition arg_reads (c : ctx) (n : N) (args : list N) : list N :=
  flat_map (fun a => let r := res c a in if r =? n then [] else [r]) args.

Definition reads (c : ctx) (n : N) : list N :=
  match kind_of (cg c) n with
  | Some KTypeParam => []
  | Some (KInst def args) =>
      if mem def (c_allow c)
      then (if def =? n then [] else def :: arg_reads c n (map fst (combine args (params_of c def))))
      else arg_reads c n args
  | _ => reads_join c n
  end.

(* ---------- the contribution F ---------- *)
Definition F_join (c : ctx) (st : sets) (n : N) : list N := flat_map st (reads_join c n).

Definition F_inst (c : ctx) (st : sets) (n def : N) (args : list N) : list N :=
  if def =? n then [] else
  flat_map (fun ap =>
              if mem (snd ap) (st def)
              then (let r := res c (fst ap) in if r =? n then [] else st r)
              else [])
           (combine args (params_of c def)).

Definition F_blk (c : ctx) (st : sets) (n : N) (args : list N) : list N :=
  flat_map (fun a => let r := res c a in if r =? n then [] else st r) args.

Definition F (c : ctx) (st : sets) (n : N) : list N :=
  match kind_of (cg c) n with
  | Some KTypeParam => [n]
  | Some (KInst def args) =>
      if mem def (c_allow c) then F_inst c st n def args else F_blk c st n args
  | _ => F_join c st n
  end.

Definition constrain (c : ctx) (st : sets) (n : N) : list N := nunion (st n) (F c st n).

(* ---------- the work-list solver (analysis/mod.rs analyze), any schedule ----------
   `wl` is popped from its head; `deps n` are re-queued when n's set grows
   (ConstrainResult::Changed <=> the length grew <=> `fresh` is non-empty). *)
Fixpoint run (fuel : nat) (c : ctx) (deps : N -> list N) (wl : list N) (st : sets) : option sets :=
  match wl with
  | [] => Some st
  | n :: rest =>
      match fuel with
      | O => None
      | S f =>
          match fresh (st n) (F c st n) with
          | [] => run f c deps rest st
          | add => run f c deps (rev (deps n) ++ rest) (upds st n (st n ++ add))
          end
      end
  end.

(* ---------- the implementation's schedule ---------- *)
(* allowlisted items and everything they trace to *)
Definition domain (c : ctx) : list N :=
  nodup N.eq_dec (flat_map (fun i => i :: map fst (trace (get (cg c) i))) (c_allow c)).

Definition initial_worklist (c : ctx) : list N :=
  rev (flat_map (fun i => i :: map fst (trace (get (cg c) i))) (c_allow c)).

(* dependencies[n]: every domain item with an edge (of any kind) to n, and, for an instantiation
   in the domain, resolved parameter <- resolved argument *)
Definition impl_deps (c : ctx) (n : N) : list N :=
  flat_map (fun item =>
     flat_map (fun e => if fst e =? n then [item] else []) (trace (get (cg c) item))
     ++ match kind_of (cg c) item with
        | Some (KInst def args) =>
            flat_map (fun ap => if res c (fst ap) =? n then [res c (snd ap)] else [])
                     (combine args (params_of c def))
        | _ => []
        end)
   (domain c).

Definition analyze (fuel : nat) (c : ctx) : option sets :=
  run fuel c (impl_deps c) (initial_worklist c) empty.

(* ---------- specification side ---------- *)
Definition below (s t : sets) : Prop := forall n, incl (s n) (t n).
Definition same (s t : sets) : Prop := forall n, incl (s n) (t n) /\ incl (t n) (s n).
(* re-applying the rule at n adds nothing *)
Definition stable (c : ctx) (st : sets) (n : N) : Prop := incl (F c st n) (st n).
Definition stable_on (c : ctx) (D : N -> Prop) (st : sets) : Prop := forall n, D n -> stable c st n.
(* every read is subscribed: a change of n re-queues every D-node that reads n *)
Definition subscribed (c : ctx) (D : N -> Prop) (deps : N -> list N) : Prop :=
  forall m n, D m -> In n (reads c m) -> In m (deps n).
Definition within (D : N -> Prop) (l : list N) : Prop := forall x, In x l -> D x.

(* ---------- executable tests used by the correspondence ---------- *)
Definition subset_b (a b : list N) : bool := forallb (fun x => mem x b) a.
Definition unstable_nodes (c : ctx) (st : sets) (nodes : list N) : list N :=
  filter (fun n => negb (subset_b (F c st n) (st n))) nodes.
Definition unsubscribed_reads (c : ctx) (deps : N -> list N) (nodes : list N) : list (N * N) :=
  flat_map (fun m => flat_map (fun n => if mem m (deps n) then [] else [(m, n)]) (reads c m)) nodes.
Definition result_mismatches (c : ctx) (fuel : nat) (impl : sets) (nodes : list N) : option (list N) :=
  match analyze fuel c with
  | Some st => Some (filter (fun n => negb (subset_b (st n) (impl n) && subset_b (impl n) (st n))) nodes)
  | None => None
  end.
