(* C07 — executable helpers for the correspondence run on IR dumps (no proofs). *)
From Coq Require Import NArith List Bool.
From BG Require Import C07.Model.
Import ListNotations.
Open Scope N_scope.

Definition mk_ir (l : list (N * item)) : ir :=
  fun n => option_map snd (find (fun p => fst p =? n) l).

Definition mk_state (l : list (N * N)) : N -> N :=
  fun n => match find (fun p => fst p =? n) l with Some p => snd p | None => 0 end.

Fixpoint edges_eqb (a b : list (N * N)) : bool :=
  match a, b with
  | [], [] => true
  | (x, k) :: a', (y, j) :: b' => (x =? y) && (k =? j) && edges_eqb a' b'
  | _, _ => false
  end.

(* items whose modelled trace differs from the edges the implementation reported *)
Definition trace_mismatches (items : list (N * item)) (dumped : list (N * list (N * N))) : list N :=
  flat_map (fun p =>
    let real := match find (fun q => fst q =? fst p) dumped with Some q => snd q | None => [] end in
    if edges_eqb (trace (snd p)) real then [] else [fst p]) items.

(* nodes where the model's least fixed point differs from the implementation's answer *)
Definition result_mismatches (g : ir) (a : analysis) (allow : list N) (impl : N -> N) : option (list N) :=
  match analyze (fuel_for g allow) g a allow with
  | Some st => Some (filter (fun n => negb (st n =? impl n)) allow)
  | None => None
  end.

Record report := {
  r_trace : list N;
  r_result : option (list N);
  r_unstable : list N;          (* the implementation's answer is not a fixed point of the modelled rule here *)
  r_unsubscribed : list (N * N) (* (reader, read) pairs with no subscription edge *)
}.

Definition check (items : list (N * item)) (allow : list N) (a : analysis) (impl : list (N * N))
  : list N * list N * list (N * N) :=
  let g := mk_ir items in
  (match result_mismatches g a allow (mk_state impl) with Some l => l | None => [0] end,
   unstable_nodes g a allow (mk_state impl),
   unsubscribed_reads g a allow).
