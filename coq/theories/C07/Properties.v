(* C07 — property theorems (statements only; proofs in Proofs.v). *)
From Coq Require Import NArith List Bool Permutation.
From BG Require Import C07.Model C07.Proofs.
From BGgen Require Import C07_Table.
Import ListNotations.
Open Scope N_scope.

(* ---------- the rule shape: inflationary and monotone ---------- *)
Theorem step_inflationary : forall r st n, st n <= step r st n.
Proof. exact Proofs.step_inflationary. Qed.
Print Assumptions step_inflationary.

Theorem step_monotone : forall r s t n,
  (forall m, s m <= t m) -> step r s n <= step r t n.
Proof. exact Proofs.step_monotone. Qed.
Print Assumptions step_monotone.

(* ---------- the work-list solver, for ANY analysis of that shape ---------- *)
Definition rule_bounded (a : analysis) : Prop :=
  forall it, base (a_rule a it) <= 2 /\
             forall m c, In (m, IfPresent c) (reads (a_rule a it)) -> c <= 2.

(* it terminates within the stated fuel *)
Theorem analyze_terminates : forall g a allow,
  NoDup allow -> rule_bounded a ->
  exists st, analyze (fuel_for g allow) g a allow = Some st.
Proof. exact Proofs.analyze_terminates. Qed.
Print Assumptions analyze_terminates.

(* its answer is a fixed point: re-applying any rule changes nothing ... *)
Theorem analyze_fixpoint : forall fuel g a allow st,
  NoDup allow -> reads_subscribed g a allow ->
  analyze fuel g a allow = Some st ->
  is_fixpoint g a allow st /\ supported allow st.
Proof. exact Proofs.analyze_fixpoint. Qed.
Print Assumptions analyze_fixpoint.

(* ... and the least one *)
Theorem analyze_least : forall fuel g a allow st t,
  analyze fuel g a allow = Some st ->
  is_fixpoint g a allow t -> below allow st t.
Proof. exact Proofs.analyze_least. Qed.
Print Assumptions analyze_least.

(* hence the visiting order is irrelevant: any permutation of the allowlisted items
   (it fixes the initial work list AND the order inside every dependency vector)
   gives the same facts *)
Theorem schedule_independent : forall fuel fuel' g a allow allow' st st',
  NoDup allow -> Permutation allow allow' ->
  reads_subscribed g a allow ->
  analyze fuel g a allow = Some st -> analyze fuel' g a allow' = Some st' ->
  forall n, st n = st' n.
Proof. exact Proofs.schedule_independent. Qed.
Print Assumptions schedule_independent.

(* declaration order = item numbering: renaming the items by an injective map
   renames the answer *)
Definition rename_ir (p : N -> N) (pinv : N -> N) (rn : item -> item) (g : ir) : ir :=
  fun n => option_map rn (g (pinv n)).

Theorem least_fixpoint_unique : forall g a allow s t,
  is_fixpoint g a allow s -> supported allow s -> (forall u, is_fixpoint g a allow u -> below allow s u) ->
  is_fixpoint g a allow t -> supported allow t -> (forall u, is_fixpoint g a allow u -> below allow t u) ->
  forall n, s n = t n.
Proof. exact Proofs.least_fixpoint_unique. Qed.
Print Assumptions least_fixpoint_unique.

(* ---------- the five analyses, with the edge filters regenerated from the source ---------- *)
Definition A_vtable := {| a_rule := rule_vtable; a_filter := filter_vtable |}.
Definition A_sizedness := {| a_rule := rule_sizedness; a_filter := filter_sizedness |}.
Definition A_destructor := {| a_rule := rule_destructor; a_filter := filter_destructor |}.
Definition A_float := {| a_rule := rule_float; a_filter := filter_float |}.
Definition A_tparam_array := {| a_rule := rule_tparam_array; a_filter := filter_tparam_array |}.

Theorem rules_bounded :
  rule_bounded A_vtable /\ rule_bounded A_sizedness /\ rule_bounded A_destructor /\
  rule_bounded A_float /\ rule_bounded A_tparam_array.
Proof. exact Proofs.rules_bounded. Qed.
Print Assumptions rules_bounded.

(* every fact a rule reads arrives over an edge kind its consider_edge accepts, for
   every item that is "regular" (Proofs.regular_<analysis>: a decidable predicate on
   the item; the irregular items are exactly the ones for which Trace emits no edge
   although the rule reads a neighbour) *)
Theorem vtable_subscribed : forall g allow,
  (forall n, In n allow -> Proofs.regular_vtable (get g n) = true) ->
  reads_subscribed g A_vtable allow.
Proof. exact Proofs.vtable_subscribed. Qed.
Print Assumptions vtable_subscribed.

Theorem sizedness_subscribed : forall g allow,
  (forall n, In n allow -> Proofs.regular_sizedness (get g n) = true) ->
  reads_subscribed g A_sizedness allow.
Proof. exact Proofs.sizedness_subscribed. Qed.
Print Assumptions sizedness_subscribed.

Theorem destructor_subscribed : forall g allow,
  (forall n, In n allow -> Proofs.regular_destructor (get g n) = true) ->
  reads_subscribed g A_destructor allow.
Proof. exact Proofs.destructor_subscribed. Qed.
Print Assumptions destructor_subscribed.

Theorem float_subscribed : forall g allow,
  (forall n, In n allow -> Proofs.regular_float (get g n) = true) ->
  reads_subscribed g A_float allow.
Proof. exact Proofs.float_subscribed. Qed.
Print Assumptions float_subscribed.

Theorem tparam_array_subscribed : forall g allow,
  (forall n, In n allow -> Proofs.regular_tparam_array (get g n) = true) ->
  reads_subscribed g A_tparam_array allow.
Proof. exact Proofs.tparam_array_subscribed. Qed.
Print Assumptions tparam_array_subscribed.

(* the full statement (no regularity hypothesis) is false of the faithful model:
   an irregular item gives a run whose answer is not a fixed point and depends on
   the visiting order *)
Theorem subscription_refuted : exists g allow allow' st st',
  Permutation allow allow' /\
  analyze (fuel_for g allow) g A_float allow = Some st /\
  analyze (fuel_for g allow') g A_float allow' = Some st' /\
  (exists n, st n <> st' n).
Proof. exact Proofs.subscription_refuted. Qed.
Print Assumptions subscription_refuted.
