(* C07/TParams — executable helpers of the correspondence run on IR dumps (no proofs). *)
From Coq Require Import NArith List Bool.
From BG Require Import C07.Model C07.Exec C07.TParams.
Import ListNotations.
Open Scope N_scope.

Definition mk_sets (l : list (N * list N)) : sets :=
  fun n => match find (fun p => fst p =? n) l with Some p => snd p | None => [] end.

(* [ nodes where the model's least fixed point and the implementation's answer differ as sets ;
     nodes where re-applying the modelled rule to the implementation's answer adds something ;
     readers / read nodes of unsubscribed reads ; size of the domain ] *)
Definition check_tp (items : list (N * item)) (allow : list N) (consider : N -> bool)
           (selfp impl : list (N * list N)) (fuel : N) : list (list N) :=
  let c := {| cg := mk_ir items; c_consider := consider; c_selfp := mk_sets selfp;
              c_allow := allow; c_fuel := S (length items) |} in
  let dom := domain c in
  let st := mk_sets impl in
  let un := unsubscribed_reads c (impl_deps c) dom in
  [ match result_mismatches c (N.to_nat fuel) st dom with Some l => l | None => [0] end ;
    unstable_nodes c st dom ;
    map fst un ; map snd un ; [N.of_nat (length dom)] ].
