(* C07/TParamsProofs — proofs of the property theorems of the UsedTemplateParameters model
   (statements in TParamsProperties.v). Standard library only, no axioms. *)
From Coq Require Import NArith List Bool Lia.
From BG Require Import C07.Model C07.TParams.
Import ListNotations.
Open Scope N_scope.

(* ---------- list / set helpers ---------- *)
Lemma mem_In : forall x l, mem x l = true <-> In x l.
Proof.
  intros x l. unfold mem. rewrite existsb_exists. split.
  - intros [y [Hy He]]. apply N.eqb_eq in He. subst. exact Hy.
  - intros H. exists x. split; [exact H | apply N.eqb_refl].
Qed.

Lemma fresh_In : forall a b x, In x (fresh a b) <-> In x b /\ ~ In x a.
Proof.
  intros a b x. unfold fresh. rewrite nodup_In, filter_In.
  split; intros [H1 H2]; split; auto.
  - intro H. apply mem_In in H. rewrite H in H2. discriminate.
  - destruct (mem x a) eqn:E; auto. apply mem_In in E. contradiction.
Qed.

Lemma fresh_nil_iff : forall a b, fresh a b = [] <-> incl b a.
Proof.
  intros a b. split.
  - intros H x Hx. destruct (in_dec N.eq_dec x a) as [Hi|Hn]; auto.
    assert (Hf : In x (fresh a b)) by (apply fresh_In; split; auto).
    rewrite H in Hf. destruct Hf.
  - intros H. destruct (fresh a b) as [|y l] eqn:E; auto.
    assert (Hf : In y (fresh a b)) by (rewrite E; left; auto).
    apply fresh_In in Hf. destruct Hf as [Hb Ha]. exfalso. apply Ha. apply H. exact Hb.
Qed.

Lemma nunion_spec : forall a b x, In x (nunion a b) <-> In x a \/ In x b.
Proof.
  intros a b x. unfold nunion. rewrite in_app_iff, fresh_In. split.
  - intros [H|[H _]]; auto.
  - intros [H|H]; auto. destruct (in_dec N.eq_dec x a); auto.
Qed.

Lemma changed_iff_length : forall a b, length (nunion a b) = length a <-> incl b a.
Proof.
  intros a b. unfold nunion. rewrite app_length, <- fresh_nil_iff. split.
  - intros H. apply length_zero_iff_nil. lia.
  - intros H. rewrite H. cbn [length]. lia.
Qed.

Lemma flat_map_incl : forall (A : Type) (f g : A -> list N) (l : list A),
  (forall x, In x l -> incl (f x) (g x)) -> incl (flat_map f l) (flat_map g l).
Proof.
  intros A f g l H y Hy. apply in_flat_map in Hy. destruct Hy as [x [Hx Hy]].
  apply in_flat_map. exists x. split; auto. apply (H x Hx). exact Hy.
Qed.

Lemma flat_map_ext_in' : forall (A B : Type) (f g : A -> list B) (l : list A),
  (forall x, In x l -> f x = g x) -> flat_map f l = flat_map g l.
Proof.
  intros A B f g l. induction l as [|x l IH]; intros H; cbn [flat_map]; auto.
  rewrite (H x (or_introl eq_refl)). rewrite IH; auto. intros y Hy. apply H. right. exact Hy.
Qed.

Lemma flat_map_nil : forall (A B : Type) (f : A -> list B) (l : list A),
  flat_map f l = [] -> forall x, In x l -> f x = [].
Proof.
  intros A B f l. induction l as [|y l IH]; intros H x Hx; [destruct Hx|].
  cbn [flat_map] in H. apply app_eq_nil in H. destruct H as [H1 H2].
  destruct Hx as [<-|Hx]; auto.
Qed.

Lemma filter_nil_iff : forall (A : Type) (f : A -> bool) (l : list A),
  filter f l = [] <-> (forall x, In x l -> f x = false).
Proof.
  intros A f l. induction l as [|y l IH]; cbn [filter].
  - split; auto. intros _ x [].
  - destruct (f y) eqn:E; split.
    + discriminate.
    + intros H. rewrite (H y (or_introl eq_refl)) in E. discriminate.
    + intros H x [<-|Hx]; auto. apply IH; auto.
    + intros H. apply IH. intros x Hx. apply H. right. exact Hx.
Qed.

Lemma subset_b_incl : forall a b, subset_b a b = true <-> incl a b.
Proof.
  intros a b. unfold subset_b. rewrite forallb_forall. split.
  - intros H x Hx. apply mem_In. apply H. exact Hx.
  - intros H x Hx. apply mem_In. apply H. exact Hx.
Qed.

(* ---------- monotonicity ---------- *)
Lemma F_join_mono : forall c s t n, below s t -> incl (F_join c s n) (F_join c t n).
Proof.
  intros c s t n H. unfold F_join. apply flat_map_incl. intros x _. apply H.
Qed.

Lemma F_inst_mono : forall c s t n def args, below s t ->
  incl (F_inst c s n def args) (F_inst c t n def args).
Proof.
  intros c s t n def args H. unfold F_inst. destruct (def =? n); [apply incl_refl|].
  apply flat_map_incl. intros ap _.
  destruct (mem (snd ap) (s def)) eqn:E; [|apply incl_nil_l].
  assert (E' : mem (snd ap) (t def) = true).
  { apply mem_In. apply (H def). apply mem_In. exact E. }
  rewrite E'. cbv zeta. destruct (res c (fst ap) =? n); [apply incl_refl | apply H].
Qed.

Lemma F_blk_mono : forall c s t n args, below s t ->
  incl (F_blk c s n args) (F_blk c t n args).
Proof.
  intros c s t n args H. unfold F_blk. apply flat_map_incl. intros a _.
  cbv zeta. destruct (res c a =? n); [apply incl_refl | apply H].
Qed.

Lemma F_monotone : forall c s t n, below s t -> incl (F c s n) (F c t n).
Proof.
  intros c s t n H. unfold F.
  destruct (kind_of (cg c) n) as [k|]; [destruct k|];
    try (apply F_join_mono; exact H); try apply incl_refl.
  destruct (mem def (c_allow c)); [apply F_inst_mono | apply F_blk_mono]; exact H.
Qed.

(* ---------- locality ---------- *)
Lemma F_join_local : forall c s t n,
  (forall r, In r (reads_join c n) -> s r = t r) -> F_join c s n = F_join c t n.
Proof.
  intros c s t n H. unfold F_join. apply flat_map_ext_in'. exact H.
Qed.

Lemma F_blk_local : forall c s t n args,
  (forall r, In r (arg_reads c n args) -> s r = t r) -> F_blk c s n args = F_blk c t n args.
Proof.
  intros c s t n args H. unfold F_blk. apply flat_map_ext_in'. intros a Ha. cbv zeta.
  destruct (res c a =? n) eqn:E; auto. apply H. unfold arg_reads. apply in_flat_map.
  exists a. split; auto. cbv zeta. rewrite E. left. reflexivity.
Qed.

Lemma F_inst_local : forall c s t n def args,
  (forall r, In r (if def =? n then [] else def :: arg_reads c n (map fst (combine args (params_of c def)))) -> s r = t r) ->
  F_inst c s n def args = F_inst c t n def args.
Proof.
  intros c s t n def args H. unfold F_inst. destruct (def =? n); auto.
  apply flat_map_ext_in'. intros ap Hap.
  rewrite (H def (or_introl eq_refl)).
  destruct (mem (snd ap) (t def)); auto. cbv zeta.
  destruct (res c (fst ap) =? n) eqn:E; auto. apply H. right.
  unfold arg_reads. apply in_flat_map. exists (fst ap). split.
  - apply in_map. exact Hap.
  - cbv zeta. rewrite E. left. reflexivity.
Qed.

Lemma F_local : forall c s t n,
  (forall r, In r (reads c n) -> s r = t r) -> F c s n = F c t n.
Proof.
  intros c s t n. unfold F, reads.
  destruct (kind_of (cg c) n) as [k|]; [destruct k|]; intros H;
    try (apply F_join_local; exact H); try reflexivity.
  destruct (mem def (c_allow c)); [apply F_inst_local | apply F_blk_local]; exact H.
Qed.

Lemma reads_join_not_self : forall c n, ~ In n (reads_join c n).
Proof.
  intros c n H. unfold reads_join in H. apply in_flat_map in H. destruct H as [e [_ H]].
  destruct (fst e =? n) eqn:E; cbn [negb andb] in H; [destruct H|].
  destruct (c_consider c (snd e)); [|destruct H].
  destruct H as [H|[]]. apply N.eqb_neq in E. contradiction.
Qed.

Lemma arg_reads_not_self : forall c n args, ~ In n (arg_reads c n args).
Proof.
  intros c n args H. unfold arg_reads in H. apply in_flat_map in H. destruct H as [a [_ H]].
  cbv zeta in H. destruct (res c a =? n) eqn:E; [destruct H|].
  destruct H as [H|[]]. apply N.eqb_neq in E. contradiction.
Qed.

Lemma reads_not_self : forall c n, ~ In n (reads c n).
Proof.
  intros c n. unfold reads.
  destruct (kind_of (cg c) n) as [k|]; [destruct k|];
    try apply reads_join_not_self; try (intros []).
  destruct (mem def (c_allow c)); [|apply arg_reads_not_self].
  destruct (def =? n) eqn:E; [intros []|].
  intros [H|H].
  - apply N.eqb_neq in E. contradiction.
  - revert H. apply arg_reads_not_self.
Qed.

(* ---------- the solver ---------- *)
Lemma run_least : forall fuel c deps wl st r (D : N -> Prop) t,
  run fuel c deps wl st = Some r ->
  within D wl -> (forall n, within D (deps n)) ->
  below st t -> stable_on c D t ->
  below r t.
Proof.
  induction fuel as [|f IH]; intros c deps wl st r D t Hrun Hwl Hdeps Hb Hst.
  - destruct wl; cbn [run] in Hrun; [|discriminate]. inversion Hrun; subst; auto.
  - destruct wl as [|n rest]; cbn [run] in Hrun.
    + inversion Hrun; subst; auto.
    + destruct (fresh (st n) (F c st n)) as [|a add] eqn:Hf.
      * eapply IH; eauto. intros x Hx. apply Hwl. right; auto.
      * eapply IH; [exact Hrun | | exact Hdeps | | exact Hst].
        -- intros x Hx. apply in_app_iff in Hx. destruct Hx as [Hx|Hx].
           ++ apply (Hdeps n). apply in_rev. exact Hx.
           ++ apply Hwl. right; auto.
        -- intros m. unfold upds. destruct (m =? n) eqn:E; [|apply Hb].
           apply N.eqb_eq in E. subst m. intros x Hx.
           apply in_app_iff in Hx. destruct Hx as [Hx|Hx].
           ++ apply Hb; auto.
           ++ rewrite <- Hf in Hx. apply fresh_In in Hx. destruct Hx as [Hx _].
              apply (Hst n).
              ** apply Hwl; left; auto.
              ** apply (F_monotone c st t n Hb). exact Hx.
Qed.

Lemma run_stable : forall fuel c deps wl st r (D : N -> Prop),
  run fuel c deps wl st = Some r ->
  subscribed c D deps ->
  (forall m, D m -> ~ In m wl -> stable c st m) ->
  stable_on c D r.
Proof.
  induction fuel as [|f IH]; intros c deps wl st r D Hrun Hsub Hinv.
  - destruct wl; cbn [run] in Hrun; [|discriminate].
    inversion Hrun; subst. intros m Hm. apply Hinv; auto.
  - destruct wl as [|n rest]; cbn [run] in Hrun.
    + inversion Hrun; subst. intros m Hm. apply Hinv; auto.
    + destruct (fresh (st n) (F c st n)) as [|a add] eqn:Hf.
      * eapply IH; eauto. intros m Hm Hnin.
        destruct (N.eq_dec m n) as [->|Hne].
        -- apply fresh_nil_iff in Hf. exact Hf.
        -- apply Hinv; auto. intros [H|H]; [congruence | contradiction].
      * eapply IH; [exact Hrun | exact Hsub |].
        intros m Hm Hnin.
        assert (Hnr : ~ In n (reads c m)).
        { intros Hr. apply Hnin. apply in_app_iff. left. apply -> in_rev.
          apply (Hsub m n Hm Hr). }
        assert (HF : F c (upds st n (st n ++ a :: add)) m = F c st m).
        { apply F_local. intros r0 Hr. unfold upds. destruct (r0 =? n) eqn:E; auto.
          apply N.eqb_eq in E. subst r0. contradiction. }
        unfold stable. rewrite HF. unfold upds.
        destruct (m =? n) eqn:E.
        -- apply N.eqb_eq in E. subst m. rewrite <- Hf. intros x Hx.
           apply in_app_iff. destruct (in_dec N.eq_dec x (st n)) as [Hi|Hni]; auto.
           right. apply fresh_In. split; auto.
        -- apply N.eqb_neq in E. apply Hinv; auto.
           intros [H|H]; [congruence|]. apply Hnin. apply in_app_iff. right. exact H.
Qed.

Lemma run_inflationary : forall fuel c deps wl st r,
  run fuel c deps wl st = Some r -> below st r.
Proof.
  induction fuel as [|f IH]; intros c deps wl st r Hrun.
  - destruct wl; cbn [run] in Hrun; [|discriminate].
    inversion Hrun; subst. intros n. apply incl_refl.
  - destruct wl as [|n rest]; cbn [run] in Hrun.
    + inversion Hrun; subst. intros m. apply incl_refl.
    + destruct (fresh (st n) (F c st n)) as [|a add] eqn:Hf.
      * eapply IH; eauto.
      * apply IH in Hrun. intros m x Hx. apply (Hrun m). unfold upds.
        destruct (m =? n) eqn:E; auto. apply N.eqb_eq in E. subst m.
        apply in_app_iff. left. exact Hx.
Qed.

Lemma schedule_independent : forall f1 f2 c d1 d2 w1 w2 r1 r2 (D : N -> Prop),
  run f1 c d1 w1 empty = Some r1 -> run f2 c d2 w2 empty = Some r2 ->
  within D w1 -> within D w2 -> (forall n, within D (d1 n)) -> (forall n, within D (d2 n)) ->
  stable_on c D r1 -> stable_on c D r2 ->
  same r1 r2.
Proof.
  intros f1 f2 c d1 d2 w1 w2 r1 r2 D H1 H2 Hw1 Hw2 Hd1 Hd2 Hs1 Hs2.
  assert (Hb : forall t, below empty t) by (intros t n x []).
  intros n. split.
  - apply (run_least f1 c d1 w1 empty r1 D r2 H1 Hw1 Hd1 (Hb r2) Hs2).
  - apply (run_least f2 c d2 w2 empty r2 D r1 H2 Hw2 Hd2 (Hb r1) Hs1).
Qed.

(* ---------- the executable tests ---------- *)
Lemma unstable_nodes_spec : forall c st nodes,
  unstable_nodes c st nodes = [] <-> (forall n, In n nodes -> stable c st n).
Proof.
  intros c st nodes. unfold unstable_nodes, stable. rewrite filter_nil_iff. split.
  - intros H n Hn. apply subset_b_incl. specialize (H n Hn).
    apply negb_false_iff in H. exact H.
  - intros H n Hn. apply negb_false_iff. apply subset_b_incl. apply H. exact Hn.
Qed.

Lemma unsubscribed_reads_spec : forall c deps nodes,
  unsubscribed_reads c deps nodes = [] -> subscribed c (fun m => In m nodes) deps.
Proof.
  intros c deps nodes H m n Hm Hr. unfold unsubscribed_reads in H.
  pose proof (flat_map_nil _ _ _ _ H m Hm) as H1. cbv beta in H1.
  pose proof (flat_map_nil _ _ _ _ H1 n Hr) as H2. cbv beta in H2.
  destruct (mem m (deps n)) eqn:E; [|discriminate]. apply mem_In. exact E.
Qed.

(* ---------- concrete instances ---------- *)
Definition ex_it (k : tkind) : item :=
  {| i_kind := IType k; i_opaque := false; i_stdint := false; i_vtable_ptr := false; i_layout_size := None |}.

Definition ex_comp (fields : list field) (tps : list N) : comp :=
  {| c_union := false; c_own_virtual := false; c_own_dtor := false; c_bases := [];
     c_fields := fields; c_all_tparams := tps; c_inner_types := []; c_inner_vars := [];
     c_methods := []; c_dtor := None; c_ctors := [] |}.

Definition ex_items : list (N * item) :=
 [(1, ex_it KTypeParam); (2, ex_it KTypeParam);
  (3, ex_it (KComp (ex_comp [FData 1] [1;2])));
  (4, ex_it KInt); (5, ex_it KFloat); (6, ex_it (KInst 3 [4;5]));
  (8, ex_it KTypeParam); (9, ex_it (KInst 3 [8;4]));
  (7, ex_it (KComp (ex_comp [FData 9] [8])))].

Definition ex_ir (items : list (N * item)) : ir :=
  fun n => option_map snd (find (fun p => fst p =? n) items).

Definition ex_consider (k : N) : bool := existsb (N.eqb k) [3;4;5;9;10;13;11;12;14].
Definition ex_selfp (n : N) : list N := if n =? 3 then [1;2] else if n =? 7 then [8] else [].

Definition ex_ctx : ctx :=
  {| cg := ex_ir ex_items; c_consider := ex_consider; c_selfp := ex_selfp;
     c_allow := [3;6;7;9]; c_fuel := 20 |}.

(* the same program plus  using A = T';  S<A, int> y;  (10 = A, 11 = S<A, int>) *)
Definition gap_ctx : ctx :=
  {| cg := ex_ir (ex_items ++ [(10, ex_it (KAlias 8)); (11, ex_it (KInst 3 [10;4]))]);
     c_consider := ex_consider; c_selfp := ex_selfp;
     c_allow := [3;6;7;9;11]; c_fuel := 20 |}.

Lemma example_run : exists c r,
  analyze 100 c = Some r /\ r 3 = [1] /\ r 6 = [] /\ r 9 = [8] /\ r 7 = [8] /\
  unstable_nodes c r (domain c) = [] /\ unsubscribed_reads c (impl_deps c) (domain c) = [].
Proof.
  exists ex_ctx.
  exists (match analyze 100 ex_ctx with Some r => r | None => empty end).
  repeat split; vm_compute; reflexivity.
Qed.

Lemma subscription_gap : exists c, unsubscribed_reads c (impl_deps c) (domain c) <> [].
Proof.
  exists gap_ctx. vm_compute. discriminate.
Qed.

(* ---------- termination, closedness, duplicate-freedom ---------- *)
From Coq Require Import PeanoNat.
Lemma NoDup_app_disj : forall (a l : list N),
  NoDup a -> NoDup l -> (forall x, In x a -> ~ In x l) -> NoDup (a ++ l).
Proof.
  induction a as [|y a IH]; intros l Ha Hl Hd; cbn [app]; auto.
  inversion Ha; subst. constructor.
  - intro H. apply in_app_iff in H. destruct H as [H|H]; [contradiction|].
    apply (Hd y); [left; auto | auto].
  - apply IH; auto. intros x Hx. apply Hd. right; auto.
Qed.

Lemma NoDup_app_fresh : forall a b, NoDup a -> NoDup (a ++ fresh a b).
Proof.
  intros a b Ha. apply NoDup_app_disj; auto.
  - unfold fresh. apply NoDup_nodup.
  - intros x Hx Hf. apply fresh_In in Hf. destruct Hf as [_ Hn]. contradiction.
Qed.

Fixpoint mu (u : nat) (st : sets) (Dl : list N) : nat :=
  match Dl with
  | [] => O
  | x :: t => ((u - length (st x)) + mu u st t)%nat
  end.

Lemma mu_le : forall u st Dl, (mu u st Dl <= length Dl * u)%nat.
Proof.
  induction Dl as [|x t IH]; cbn [mu length]; [lia|].
  change (S (length t) * u)%nat with (u + length t * u)%nat. lia.
Qed.

Lemma mu_mono : forall u (st st' : sets) Dl,
  (forall x, (length (st x) <= length (st' x))%nat) -> (mu u st' Dl <= mu u st Dl)%nat.
Proof.
  intros u st st' Dl H. induction Dl as [|x t IH]; cbn [mu]; [lia|].
  specialize (H x). lia.
Qed.

Lemma mu_dec : forall u (st st' : sets) Dl n,
  (forall x, (length (st x) <= length (st' x))%nat) ->
  In n Dl -> (length (st n) < length (st' n))%nat -> (length (st' n) <= u)%nat ->
  (mu u st' Dl + 1 <= mu u st Dl)%nat.
Proof.
  intros u st st' Dl n H. induction Dl as [|x t IH]; intros Hin Hlt Hle; [destruct Hin|].
  cbn [mu]. destruct (N.eq_dec x n) as [->|Hne].
  - pose proof (mu_mono u st st' t H). lia.
  - destruct Hin as [Hx|Hin]; [contradiction|].
    specialize (IH Hin Hlt Hle). specialize (H x). lia.
Qed.

Lemma run_terminates_gen : forall c deps (Dl U : list N) (k : nat),
  (forall n x, In x (deps n) -> In x Dl) ->
  (forall n, (length (deps n) <= k)%nat) ->
  (forall s n, In n Dl -> (forall m, incl (s m) U) -> incl (F c s n) U) ->
  forall fuel wl st,
  (forall x, In x wl -> In x Dl) ->
  (forall n, NoDup (st n) /\ incl (st n) U) ->
  (length wl + mu (length U) st Dl * (k + 1) <= fuel)%nat ->
  exists r, run fuel c deps wl st = Some r.
Proof.
  intros c deps Dl U k Hdeps Hk HF.
  induction fuel as [|f IH]; intros wl st Hwl Hinv Hb.
  - destruct wl as [|n rest]; [exists st; reflexivity|]. cbn [length] in Hb. lia.
  - destruct wl as [|n rest]; [exists st; reflexivity|]. cbn [run].
    destruct (fresh (st n) (F c st n)) as [|a add] eqn:Hf.
    + apply IH; auto.
      * intros x Hx. apply Hwl. right; auto.
      * cbn [length] in Hb. lia.
    + assert (HnD : In n Dl) by (apply Hwl; left; auto).
      assert (Hinv' : forall m, NoDup (upds st n (st n ++ a :: add) m) /\
                                incl (upds st n (st n ++ a :: add) m) U).
      { intros m. unfold upds. destruct (m =? n) eqn:E; [|apply Hinv].
        rewrite <- Hf. split.
        - apply NoDup_app_fresh. apply Hinv.
        - apply incl_app; [apply Hinv|].
          intros x Hx. apply fresh_In in Hx. destruct Hx as [Hx _].
          apply (HF st n HnD); auto. intros m0. apply Hinv. }
      assert (Hmu : (mu (length U) (upds st n (st n ++ a :: add)) Dl + 1
                     <= mu (length U) st Dl)%nat).
      { apply mu_dec with (n := n); auto.
        - intros x. unfold upds. destruct (x =? n) eqn:E; [|lia].
          apply N.eqb_eq in E. subst x. rewrite app_length. lia.
        - unfold upds. rewrite N.eqb_refl. rewrite app_length. cbn [length]. lia.
        - apply NoDup_incl_length; apply Hinv'. }
      apply IH; auto.
      * intros x Hx. apply in_app_iff in Hx. destruct Hx as [Hx|Hx].
        -- apply (Hdeps n). apply in_rev. exact Hx.
        -- apply Hwl. right; auto.
      * rewrite app_length, rev_length. cbn [length] in Hb.
        specialize (Hk n).
        set (m' := mu (length U) (upds st n (st n ++ a :: add)) Dl) in *.
        set (m0 := mu (length U) st Dl) in *.
        assert (Hm : ((m' + 1) * (k + 1) <= m0 * (k + 1))%nat)
          by (apply Nat.mul_le_mono_r; exact Hmu).
        lia.
Qed.

Lemma run_terminates : forall c deps (Dl U : list N) (k : nat) wl st fuel,
  (forall x, In x wl -> In x Dl) -> (forall n x, In x (deps n) -> In x Dl) ->
  (forall n, (length (deps n) <= k)%nat) ->
  (forall n, NoDup (st n) /\ incl (st n) U) ->
  (forall s n, In n Dl -> (forall m, incl (s m) U) -> incl (F c s n) U) ->
  (length wl + length Dl * length U * (k + 1) <= fuel)%nat ->
  exists r, run fuel c deps wl st = Some r.
Proof.
  intros c deps Dl U k wl st fuel Hwl Hdeps Hk Hinv HF Hb.
  apply (run_terminates_gen c deps Dl U k Hdeps Hk HF); auto.
  pose proof (mu_le (length U) st Dl) as Hm.
  assert (Hm2 : (mu (length U) st Dl * (k + 1) <= length Dl * length U * (k + 1))%nat)
    by (apply Nat.mul_le_mono_r; exact Hm).
  lia.
Qed.

Lemma F_join_closed : forall c (s : sets) n (U : list N),
  (forall m, incl (s m) U) -> incl (F_join c s n) U.
Proof.
  intros c s n U H x Hx. unfold F_join in Hx. apply in_flat_map in Hx.
  destruct Hx as [r [_ Hx]]. apply (H r). exact Hx.
Qed.

Lemma F_blk_closed : forall c (s : sets) n args (U : list N),
  (forall m, incl (s m) U) -> incl (F_blk c s n args) U.
Proof.
  intros c s n args U H x Hx. unfold F_blk in Hx. apply in_flat_map in Hx.
  destruct Hx as [a [_ Hx]]. cbv zeta in Hx.
  destruct (res c a =? n); [destruct Hx|]. apply (H (res c a)). exact Hx.
Qed.

Lemma F_inst_closed : forall c (s : sets) n def args (U : list N),
  (forall m, incl (s m) U) -> incl (F_inst c s n def args) U.
Proof.
  intros c s n def args U H x Hx. unfold F_inst in Hx.
  destruct (def =? n); [destruct Hx|]. apply in_flat_map in Hx.
  destruct Hx as [ap [_ Hx]]. cbv zeta in Hx.
  destruct (mem (snd ap) (s def)); [|destruct Hx].
  destruct (res c (fst ap) =? n); [destruct Hx|]. apply (H (res c (fst ap))). exact Hx.
Qed.

Lemma F_closed_typeparams : forall c (Dl U : list N),
  (forall n, In n Dl -> kind_of (cg c) n = Some KTypeParam -> In n U) ->
  forall s n, In n Dl -> (forall m, incl (s m) U) -> incl (F c s n) U.
Proof.
  intros c Dl U HT s n Hn Hs. unfold F.
  destruct (kind_of (cg c) n) as [k|] eqn:K; [destruct k|];
    try (apply F_join_closed; exact Hs).
  - intros x [<-|[]]. apply HT; auto.
  - destruct (mem def (c_allow c)); [apply F_inst_closed | apply F_blk_closed]; exact Hs.
Qed.

Lemma run_nodup : forall fuel c deps wl st r,
  run fuel c deps wl st = Some r -> (forall n, NoDup (st n)) -> forall n, NoDup (r n).
Proof.
  induction fuel as [|f IH]; intros c deps wl st r Hrun Hnd.
  - destruct wl; cbn [run] in Hrun; [|discriminate]. inversion Hrun; subst; auto.
  - destruct wl as [|n rest]; cbn [run] in Hrun.
    + inversion Hrun; subst; auto.
    + destruct (fresh (st n) (F c st n)) as [|a add] eqn:Hf.
      * eapply IH; eauto.
      * eapply IH; [exact Hrun|]. intros m. unfold upds.
        destruct (m =? n) eqn:E; [|apply Hnd].
        rewrite <- Hf. apply NoDup_app_fresh. apply Hnd.
Qed.
