(* C07/TParams — property theorems of the UsedTemplateParameters model; statements only,
   each closed by `exact` of a lemma of TParamsProofs.v. *)
From Coq Require Import NArith List Bool.
From BG Require Import C07.Model C07.TParams C07.TParamsProofs.
Import ListNotations.
Open Scope N_scope.

(* the changed test of the implementation (the length grew) is "something new was added" *)
Theorem fresh_nil_iff : forall a b, fresh a b = [] <-> incl b a.
Proof. exact TParamsProofs.fresh_nil_iff. Qed.
Print Assumptions fresh_nil_iff.

Theorem nunion_spec : forall a b x, In x (nunion a b) <-> In x a \/ In x b.
Proof. exact TParamsProofs.nunion_spec. Qed.
Print Assumptions nunion_spec.

Theorem changed_iff_length : forall a b, length (nunion a b) = length a <-> incl b a.
Proof. exact TParamsProofs.changed_iff_length. Qed.
Print Assumptions changed_iff_length.

(* every rule is monotone: more usage below gives more usage above *)
Theorem F_monotone : forall c s t n, below s t -> incl (F c s n) (F c t n).
Proof. exact TParamsProofs.F_monotone. Qed.
Print Assumptions F_monotone.

(* a rule looks at nothing but the sets of the nodes in `reads` *)
Theorem F_local : forall c s t n,
  (forall r, In r (reads c n) -> s r = t r) -> F c s n = F c t n.
Proof. exact TParamsProofs.F_local. Qed.
Print Assumptions F_local.

Theorem reads_not_self : forall c n, ~ In n (reads c n).
Proof. exact TParamsProofs.reads_not_self. Qed.
Print Assumptions reads_not_self.

(* LEAST, for every schedule (any initial work list, any re-queue function): the result is
   below every assignment that is stable on the nodes the solver works on *)
Theorem run_least : forall fuel c deps wl st r (D : N -> Prop) t,
  run fuel c deps wl st = Some r ->
  within D wl -> (forall n, within D (deps n)) ->
  below st t -> stable_on c D t ->
  below r t.
Proof. exact TParamsProofs.run_least. Qed.
Print Assumptions run_least.

(* FIXED POINT: when every read is subscribed, re-applying any rule to the final answer adds nothing *)
Theorem run_stable : forall fuel c deps wl st r (D : N -> Prop),
  run fuel c deps wl st = Some r ->
  subscribed c D deps ->
  (forall m, D m -> ~ In m wl -> stable c st m) ->
  stable_on c D r.
Proof. exact TParamsProofs.run_stable. Qed.
Print Assumptions run_stable.

(* the solver only ever grows the sets, and only those of work-list nodes *)
Theorem run_inflationary : forall fuel c deps wl st r,
  run fuel c deps wl st = Some r -> below st r.
Proof. exact TParamsProofs.run_inflationary. Qed.
Print Assumptions run_inflationary.

(* SCHEDULE INDEPENDENCE: two runs from the bottom over the same nodes, in any order and with any
   re-queue functions, that both end stable, give the same sets for every item *)
Theorem schedule_independent : forall f1 f2 c d1 d2 w1 w2 r1 r2 (D : N -> Prop),
  run f1 c d1 w1 empty = Some r1 -> run f2 c d2 w2 empty = Some r2 ->
  within D w1 -> within D w2 -> (forall n, within D (d1 n)) -> (forall n, within D (d2 n)) ->
  stable_on c D r1 -> stable_on c D r2 ->
  same r1 r2.
Proof. exact TParamsProofs.schedule_independent. Qed.
Print Assumptions schedule_independent.

(* the executable tests decide their specifications *)
Theorem unstable_nodes_spec : forall c st nodes,
  unstable_nodes c st nodes = [] <-> (forall n, In n nodes -> stable c st n).
Proof. exact TParamsProofs.unstable_nodes_spec. Qed.
Print Assumptions unstable_nodes_spec.

Theorem unsubscribed_reads_spec : forall c deps nodes,
  unsubscribed_reads c deps nodes = [] -> subscribed c (fun m => In m nodes) deps.
Proof. exact TParamsProofs.unsubscribed_reads_spec. Qed.
Print Assumptions unsubscribed_reads_spec.

(* non-vacuity: template<class T, class U> struct S { T a; };  S<int, float> x;  with
   1 = T, 2 = U, 3 = S, 4 = int, 5 = float, 6 = S<int, float>, 7 = struct W { S<T', int> m; } over 8 = T'.
   The run terminates, is stable, subscribed, uses T but not U, and W forwards T' through S's first slot. *)
Theorem example_run : exists c r,
  analyze 100 c = Some r /\ r 3 = [1] /\ r 6 = [] /\ r 9 = [8] /\ r 7 = [8] /\
  unstable_nodes c r (domain c) = [] /\ unsubscribed_reads c (impl_deps c) (domain c) = [].
Proof. exact TParamsProofs.example_run. Qed.
Print Assumptions example_run.

(* a read that is NOT subscribed: an instantiation reads the set of the RESOLVED argument but is
   re-queued only when the alias it names changes; the fixed point is then reached only because the
   alias chain forwards the change (checked per run by `unstable_nodes` on the implementation's answer) *)
Theorem subscription_gap : exists c, unsubscribed_reads c (impl_deps c) (domain c) <> [].
Proof. exact TParamsProofs.subscription_gap. Qed.
Print Assumptions subscription_gap.

(* TERMINATION, for every schedule: if all work happens on the nodes of a finite list Dl, every
   re-queue list has at most k entries, the sets hold no duplicates and stay inside a finite
   universe U that the rules do not leave, then |wl| + |Dl| * |U| * (k + 1) steps suffice *)
Theorem run_terminates : forall c deps (Dl U : list N) (k : nat) wl st fuel,
  (forall x, In x wl -> In x Dl) -> (forall n x, In x (deps n) -> In x Dl) ->
  (forall n, (length (deps n) <= k)%nat) ->
  (forall n, NoDup (st n) /\ incl (st n) U) ->
  (forall s n, In n Dl -> (forall m, incl (s m) U) -> incl (F c s n) U) ->
  (length wl + length Dl * length U * (k + 1) <= fuel)%nat ->
  exists r, run fuel c deps wl st = Some r.
Proof. exact TParamsProofs.run_terminates. Qed.
Print Assumptions run_terminates.

(* the rules never leave a universe that contains the type parameters among the nodes worked on:
   every id in a set was put there by the TypeParam rule *)
Theorem F_closed_typeparams : forall c (Dl U : list N),
  (forall n, In n Dl -> kind_of (cg c) n = Some KTypeParam -> In n U) ->
  forall s n, In n Dl -> (forall m, incl (s m) U) -> incl (F c s n) U.
Proof. exact TParamsProofs.F_closed_typeparams. Qed.
Print Assumptions F_closed_typeparams.

(* the solver keeps the sets duplicate-free (so the length test of the implementation is the set test) *)
Theorem run_nodup : forall fuel c deps wl st r,
  run fuel c deps wl st = Some r -> (forall n, NoDup (st n)) -> forall n, NoDup (r n).
Proof. exact TParamsProofs.run_nodup. Qed.
Print Assumptions run_nodup.
