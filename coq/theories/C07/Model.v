(* C07 — executable model of the IR graph, of `Trace`, of the work-list solver
   (ir/analysis/mod.rs: analyze + generate_dependencies) and of the constrain rules
   of five analyses (has_vtable, sizedness, has_destructor, has_float,
   has_type_param_in_array).  Definitions only.

   Facts live in the chain 0 < 1 < 2 (join = max):
     has_vtable : 0 No, 1 SelfHasVtable, 2 BaseHasVtable
     sizedness  : 0 ZeroSized, 1 DependsOnTypeParam, 2 NonZeroSized
     set-valued analyses : 0 absent, 1 present
   Every constrain rule of these analyses has the shape
        new(n) = max (old n) (max (base n) (max over (m, tr) in reads n of tr (old m)))
   with tr either "copy" or "if non-bottom then c". *)
From Coq Require Import NArith List Bool.
Import ListNotations.
Open Scope N_scope.

(* ---------- IR ---------- *)
Inductive field := FData (ty : N) | FUnit (bitfield_tys : list N).

Record comp := {
  c_union : bool;
  c_own_virtual : bool;
  c_own_dtor : bool;
  c_bases : list N;
  c_fields : list field;
  c_all_tparams : list N;     (* item.all_template_params *)
  c_inner_types : list N;
  c_inner_vars : list N;
  c_methods : list N;         (* signatures *)
  c_dtor : option N;
  c_ctors : list N
}.

Inductive tkind :=
| KVoid | KNullPtr | KOpaque | KInt | KFloat | KComplex | KTypeParam
| KObjCInterface | KObjCId | KObjCSel | KUnresolved
| KAlias (t : N) | KTemplateAlias (t : N) (params : list N)
| KVector (t : N) | KArray (t : N) (len : N) (inner_canon_tparam : bool)
| KPointer (t : N) | KBlockPointer (t : N) | KReference (t : N)
| KResolvedTypeRef (t : N)
| KFunction (ret : N) (args : list N)
| KEnum (repr : option N)
| KInst (def : N) (args : list N)
| KComp (c : comp).

Inductive ikind :=
| IModule
| IType (k : tkind)
| IFunction (sig : N)
| IVar (ty : N).

Record item := {
  i_kind : ikind;
  i_opaque : bool;         (* Item::is_opaque *)
  i_stdint : bool;         (* type named like a <stdint.h> type: Type::trace returns early *)
  i_vtable_ptr : bool;     (* has_vtable_ptr, known once has_vtable has run *)
  i_layout_size : option N (* ty.layout().size, for opaque sizedness *)
}.

Definition ir := N -> option item.

(* EdgeKind *)
Definition E_Generic := 0. Definition E_TemplateParameterDefinition := 1.
Definition E_TemplateDeclaration := 2. Definition E_TemplateArgument := 3.
Definition E_BaseMember := 4. Definition E_Field := 5. Definition E_InnerType := 6.
Definition E_InnerVar := 7. Definition E_Method := 8. Definition E_Constructor := 9.
Definition E_Destructor := 10. Definition E_FunctionReturn := 11.
Definition E_FunctionParameter := 12. Definition E_VarType := 13.

Definition opt_list {A} (o : option A) : list A := match o with Some x => [x] | None => [] end.

(* impl Trace for Field / CompFields::After *)
Definition trace_field (f : field) : list (N * N) :=
  match f with
  | FData ty => [(ty, E_Field)]
  | FUnit tys => map (fun t => (t, E_Field)) tys
  end.

(* impl Trace for CompInfo *)
Definition trace_comp (c : comp) (opaque : bool) : list (N * N) :=
  map (fun p => (p, E_TemplateParameterDefinition)) (c_all_tparams c)
  ++ map (fun t => (t, E_InnerType)) (c_inner_types c)
  ++ map (fun v => (v, E_InnerVar)) (c_inner_vars c)
  ++ map (fun m => (m, E_Method)) (c_methods c)
  ++ map (fun d => (d, E_Destructor)) (opt_list (c_dtor c))
  ++ map (fun x => (x, E_Constructor)) (c_ctors c)
  ++ (if opaque then []
      else map (fun b => (b, E_BaseMember)) (c_bases c) ++ flat_map trace_field (c_fields c)).

Definition E_TypeReference := 14.

(* impl Trace for Type *)
Definition trace_type' (k : tkind) (stdint opaque : bool) : list (N * N) :=
  if stdint then [] else
  match k with
  | KPointer t | KReference t | KArray t _ _ | KVector t | KBlockPointer t
  | KAlias t | KResolvedTypeRef t => [(t, E_TypeReference)]
  | KTemplateAlias t ps =>
      (t, E_TypeReference) :: map (fun p => (p, E_TemplateParameterDefinition)) ps
  | KInst d args => (d, E_TemplateDeclaration) :: map (fun a => (a, E_TemplateArgument)) args
  | KComp c => trace_comp c opaque
  | KFunction r args => (r, E_FunctionReturn) :: map (fun a => (a, E_FunctionParameter)) args
  | KEnum (Some r) => [(r, E_Generic)]
  | _ => []
  end.

Definition traced_unconditionally (k : tkind) : bool :=
  match k with
  | KComp _ | KFunction _ _ | KPointer _ | KArray _ _ _ | KReference _ | KInst _ _
  | KResolvedTypeRef _ => true
  | _ => false
  end.

(* impl Trace for Item *)
Definition trace (it : item) : list (N * N) :=
  match i_kind it with
  | IType k =>
      if traced_unconditionally k || negb (i_opaque it)
      then trace_type' k (i_stdint it) (i_opaque it) else []
  | IFunction sig => [(sig, E_Generic)]
  | IVar ty => [(ty, E_VarType)]
  | IModule => []
  end.

(* ---------- rules ---------- *)
Inductive transfer := Copy | IfPresent (c : N).
Definition apply_tr (tr : transfer) (v : N) : N :=
  match tr with Copy => v | IfPresent c => if v =? 0 then 0 else c end.

Record rule := { base : N; reads : list (N * transfer) }.
Definition no_rule : rule := {| base := 0; reads := [] |}.

Definition step (r : rule) (st : N -> N) (n : N) : N :=
  N.max (st n)
        (N.max (base r)
               (fold_right (fun mt acc => N.max (apply_tr (snd mt) (st (fst mt))) acc) 0 (reads r))).

Definition present (l : list N) : list (N * transfer) := map (fun m => (m, IfPresent 1)) l.
Definition field_data_tys (fs : list field) : list N :=
  flat_map (fun f => match f with FData t => [t] | FUnit _ => [] end) fs.
Definition field_all_tys (fs : list field) : list N :=
  flat_map (fun f => match f with FData t => [t] | FUnit ts => ts end) fs.

(* has_vtable.rs *)
Definition rule_vtable (it : item) : rule :=
  match i_kind it with
  | IType (KTemplateAlias t _) | IType (KAlias t) | IType (KResolvedTypeRef t) | IType (KReference t) =>
      {| base := 0; reads := [(t, Copy)] |}
  | IType (KComp c) =>
      {| base := if c_own_virtual c then 1 else 0;
         reads := map (fun b => (b, IfPresent 2)) (c_bases c) |}
  | IType (KInst d _) => {| base := 0; reads := [(d, Copy)] |}
  | _ => no_rule
  end.

(* has_destructor.rs *)
Definition rule_destructor (it : item) : rule :=
  match i_kind it with
  | IType (KTemplateAlias t _) | IType (KAlias t) | IType (KResolvedTypeRef t) =>
      {| base := 0; reads := present [t] |}
  | IType (KComp c) =>
      if c_own_dtor c then {| base := 1; reads := [] |}
      else if c_union c then no_rule
      else {| base := 0; reads := present (c_bases c ++ field_data_tys (c_fields c)) |}
  | IType (KInst d args) => {| base := 0; reads := present (d :: args) |}
  | _ => no_rule
  end.

(* has_float.rs *)
Definition rule_float (it : item) : rule :=
  match i_kind it with
  | IType KFloat | IType KComplex => {| base := 1; reads := [] |}
  | IType (KArray t _ _) | IType (KVector t) => {| base := 0; reads := present [t] |}
  | IType (KResolvedTypeRef t) | IType (KTemplateAlias t _) | IType (KAlias t)
  | IType (KBlockPointer t) => {| base := 0; reads := present [t] |}
  | IType (KComp c) => {| base := 0; reads := present (c_bases c ++ field_all_tys (c_fields c)) |}
  | IType (KInst d args) => {| base := 0; reads := present (args ++ [d]) |}
  | _ => no_rule
  end.

(* has_type_param_in_array.rs *)
Definition rule_tparam_array (it : item) : rule :=
  match i_kind it with
  | IType (KArray _ _ canon_tparam) => {| base := if canon_tparam then 1 else 0; reads := [] |}
  | IType (KResolvedTypeRef t) | IType (KTemplateAlias t _) | IType (KAlias t)
  | IType (KBlockPointer t) => {| base := 0; reads := present [t] |}
  | IType (KComp c) => {| base := 0; reads := present (c_bases c ++ field_data_tys (c_fields c)) |}
  | IType (KInst d args) => {| base := 0; reads := present (args ++ [d]) |}
  | _ => no_rule
  end.

(* sizedness.rs *)
Definition rule_sizedness (it : item) : rule :=
  match i_kind it with
  | IType k =>
      if i_vtable_ptr it then {| base := 2; reads := [] |}
      else if i_opaque it then
        {| base := match i_layout_size it with Some 0 => 0 | Some _ => 2 | None => 0 end; reads := [] |}
      else
      match k with
      | KVoid => no_rule
      | KTypeParam => {| base := 1; reads := [] |}
      | KInt | KFloat | KComplex | KFunction _ _ | KEnum _ | KReference _ | KNullPtr
      | KObjCId | KObjCSel | KPointer _ | KObjCInterface => {| base := 2; reads := [] |}
      | KTemplateAlias t _ | KAlias t | KBlockPointer t | KResolvedTypeRef t =>
          {| base := 0; reads := [(t, Copy)] |}
      | KInst d _ => {| base := 0; reads := [(d, Copy)] |}
      | KArray _ len _ => {| base := if len =? 0 then 0 else 2; reads := [] |}
      | KVector _ => {| base := 2; reads := [] |}
      | KComp c =>
          match c_fields c with
          | _ :: _ => {| base := 2; reads := [] |}
          | [] => {| base := 0; reads := map (fun b => (b, Copy)) (c_bases c) |}
          end
      | KOpaque | KUnresolved => no_rule   (* unreachable!() in the code: opaque handled above *)
      end
  | _ => no_rule
  end.

(* consider_edge filters are regenerated from the source (BGgen.C07_Table); an
   analysis is a rule function plus a filter over edge kinds *)
Record analysis := { a_rule : item -> rule; a_filter : N -> bool }.

(* ---------- generate_dependencies + analyze ---------- *)
Definition get (g : ir) (n : N) : item :=
  match g n with Some it => it
  | None => {| i_kind := IModule; i_opaque := false; i_stdint := false; i_vtable_ptr := false; i_layout_size := None |} end.

Definition mem (n : N) (l : list N) : bool := existsb (N.eqb n) l.

(* dependencies[sub] = every allowlisted item that has a considered edge to the
   allowlisted sub, in allowlist order *)
Definition deps_of (g : ir) (allow : list N) (filt : N -> bool) (sub : N) : list N :=
  flat_map (fun n => flat_map (fun e => if (fst e =? sub) && filt (snd e) then [n] else [])
                              (trace (get g n)))
           allow.

Definition upd (st : N -> N) (n v : N) : N -> N := fun m => if m =? n then v else st m.

(* while let Some(node) = worklist.pop(): LIFO, duplicates allowed *)
Fixpoint run (fuel : nat) (g : ir) (a : analysis) (allow : list N)
         (wl : list N) (st : N -> N) : option (N -> N) :=
  match wl with
  | [] => Some st
  | n :: rest =>
    match fuel with
    | O => None
    | S fuel' =>
        let v := step (a_rule a (get g n)) st n in
        if v =? st n then run fuel' g a allow rest st
        else
          (* each_depending_on pushes in order; the last pushed is popped first *)
          run fuel' g a allow
              (rev (if mem n allow then deps_of g allow (a_filter a) n else []) ++ rest)
              (upd st n v)
    end
  end.

Definition bottom : N -> N := fun _ => 0.

(* initial_worklist = allowlisted items in order; Vec::pop takes from the back *)
Definition analyze (fuel : nat) (g : ir) (a : analysis) (allow : list N) : option (N -> N) :=
  run fuel g a allow (rev allow) bottom.

(* enough fuel: every item can change at most twice, each change requeues at most |allow|*maxdeg *)
Definition fuel_for (g : ir) (allow : list N) : nat :=
  let n := length allow in
  let deg := fold_right (fun x acc => (length (trace (get g x)) + acc)%nat) 0%nat allow in
  (n + 2 * n * (deg + 1) + 1)%nat.

(* ---------- specification side ---------- *)
Definition is_fixpoint (g : ir) (a : analysis) (allow : list N) (st : N -> N) : Prop :=
  forall n, In n allow -> step (a_rule a (get g n)) st n = st n.

Definition below (allow : list N) (s t : N -> N) : Prop := forall n, In n allow -> s n <= t n.

(* every fact a rule reads comes with a subscription edge (what consider_edge must guarantee) *)
Definition reads_subscribed (g : ir) (a : analysis) (allow : list N) : Prop :=
  forall n m tr, In n allow -> In (m, tr) (reads (a_rule a (get g n))) -> In m allow ->
                 In n (deps_of g allow (a_filter a) m).

(* items outside the allowlist keep the bottom fact *)
Definition supported (allow : list N) (st : N -> N) : Prop := forall n, ~ In n allow -> st n = 0.

(* boolean versions for checking dumps *)
Definition is_fixpoint_b (g : ir) (a : analysis) (allow : list N) (st : N -> N) : bool :=
  forallb (fun n => step (a_rule a (get g n)) st n =? st n) allow.
Definition unstable_nodes (g : ir) (a : analysis) (allow : list N) (st : N -> N) : list N :=
  filter (fun n => negb (step (a_rule a (get g n)) st n =? st n)) allow.
Definition unsubscribed_reads (g : ir) (a : analysis) (allow : list N) : list (N * N) :=
  flat_map (fun n => flat_map (fun mt =>
      if mem (fst mt) allow && negb (mem n (deps_of g allow (a_filter a) (fst mt)))
      then [(n, fst mt)] else []) (reads (a_rule a (get g n)))) allow.
