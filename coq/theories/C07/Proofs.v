(* C07 — proofs of the statements in Properties.v.  Stdlib only, no axioms, no
   functional extensionality (states are only ever compared pointwise). *)
From Coq Require Import NArith PeanoNat List Bool Permutation Lia.
From BG Require Import C07.Model.
From BGgen Require Import C07_Table.
Import ListNotations.
Open Scope N_scope.

(* ------------------------------------------------------------------ *)
(* the rule shape                                                       *)
(* ------------------------------------------------------------------ *)

(* the "max over reads" part of [step] *)
Definition rd (st : N -> N) (l : list (N * transfer)) : N :=
  fold_right (fun mt acc => N.max (apply_tr (snd mt) (st (fst mt))) acc) 0 l.

Lemma step_unfold : forall r st n,
  step r st n = N.max (st n) (N.max (base r) (rd st (reads r))).
Proof. reflexivity. Qed.

Lemma apply_tr_mono : forall tr u v, u <= v -> apply_tr tr u <= apply_tr tr v.
Proof.
  intros [|c] u v Huv; cbn [apply_tr]; [exact Huv|].
  destruct (N.eqb_spec u 0) as [Hu|Hu]; destruct (N.eqb_spec v 0) as [Hv|Hv]; lia.
Qed.

Lemma rd_mono : forall s t l, (forall m, s m <= t m) -> rd s l <= rd t l.
Proof.
  intros s t l Hst. induction l as [|[m tr] l IH]; cbn [rd fold_right fst snd]; [lia|].
  fold (rd s l). fold (rd t l).
  pose proof (apply_tr_mono tr _ _ (Hst m)) as Hm. lia.
Qed.

Lemma rd_ext : forall s t l,
  (forall m tr, In (m, tr) l -> s m = t m) -> rd s l = rd t l.
Proof.
  intros s t l Hst. induction l as [|[m tr] l IH]; cbn [rd fold_right fst snd]; [reflexivity|].
  fold (rd s l). fold (rd t l).
  rewrite (Hst m tr (or_introl eq_refl)), IH; [reflexivity|].
  intros m' tr' Hin. apply (Hst m' tr'). right. exact Hin.
Qed.

Lemma rd_bound : forall st l,
  (forall m, st m <= 2) ->
  (forall m c, In (m, IfPresent c) l -> c <= 2) -> rd st l <= 2.
Proof.
  intros st l Hst Hl. induction l as [|[m tr] l IH]; cbn [rd fold_right fst snd]; [lia|].
  fold (rd st l).
  assert (Hrest : rd st l <= 2).
  { apply IH. intros m' c Hin. apply (Hl m' c). right. exact Hin. }
  assert (Hhd : apply_tr tr (st m) <= 2).
  { destruct tr as [|c]; cbn [apply_tr]; [apply Hst|].
    pose proof (Hl m c (or_introl eq_refl)) as Hc.
    destruct (st m =? 0); lia. }
  lia.
Qed.

Lemma step_inflationary : forall r st n, st n <= step r st n.
Proof. intros r st n. rewrite step_unfold. lia. Qed.

Lemma step_monotone : forall r s t n,
  (forall m, s m <= t m) -> step r s n <= step r t n.
Proof.
  intros r s t n Hst. rewrite !step_unfold.
  pose proof (rd_mono s t (reads r) Hst) as Hrd. pose proof (Hst n) as Hn. lia.
Qed.

Lemma step_bound : forall r st n,
  (forall m, st m <= 2) -> base r <= 2 ->
  (forall m c, In (m, IfPresent c) (reads r) -> c <= 2) -> step r st n <= 2.
Proof.
  intros r st n Hst Hb Hr. rewrite step_unfold.
  pose proof (rd_bound st (reads r) Hst Hr) as Hrd. pose proof (Hst n) as Hn. lia.
Qed.

Lemma upd_same : forall st n v, upd st n v n = v.
Proof. intros st n v. unfold upd. rewrite N.eqb_refl. reflexivity. Qed.

Lemma upd_other : forall st n v m, m <> n -> upd st n v m = st m.
Proof.
  intros st n v m Hmn. unfold upd. destruct (N.eqb_spec m n) as [E|E]; [contradiction|reflexivity].
Qed.

(* a rule that does not read its own node is idempotent at that node *)
Lemma step_upd_self : forall r st n,
  ~ In n (map fst (reads r)) -> step r (upd st n (step r st n)) n = step r st n.
Proof.
  intros r st n Hnr. rewrite (step_unfold r (upd st n (step r st n)) n), upd_same.
  rewrite (rd_ext (upd st n (step r st n)) st (reads r)).
  - rewrite step_unfold. lia.
  - intros m tr Hin. apply upd_other. intros ->. apply Hnr.
    apply in_map_iff. exists (n, tr). split; [reflexivity|exact Hin].
Qed.

(* a rule that does not read [n] does not see an update of [n] *)
Lemma step_upd_other : forall r st n v n',
  n' <> n -> ~ In n (map fst (reads r)) -> step r (upd st n v) n' = step r st n'.
Proof.
  intros r st n v n' Hne Hnr. rewrite !step_unfold, (upd_other st n v n' Hne).
  rewrite (rd_ext (upd st n v) st (reads r)); [reflexivity|].
  intros m tr Hin. apply upd_other. intros ->. apply Hnr.
  apply in_map_iff. exists (n, tr). split; [reflexivity|exact Hin].
Qed.

(* ------------------------------------------------------------------ *)
(* dependency lists                                                     *)
(* ------------------------------------------------------------------ *)

Lemma In_deps_of : forall g allow filt m n,
  In n (deps_of g allow filt m) <->
  In n allow /\ exists e, In e (trace (get g n)) /\ fst e = m /\ filt (snd e) = true.
Proof.
  intros g allow filt m n. unfold deps_of. rewrite in_flat_map. split.
  - intros [x [Hx Hin]]. apply in_flat_map in Hin. destruct Hin as [e [He Hin]].
    destruct ((fst e =? m) && filt (snd e)) eqn:E; [|destruct Hin].
    destruct Hin as [<-|[]]. apply andb_true_iff in E. destruct E as [E1 E2].
    apply N.eqb_eq in E1. split; [exact Hx|]. exists e. auto.
  - intros [Hn [e [He [E1 E2]]]]. exists n. split; [exact Hn|].
    apply in_flat_map. exists e. split; [exact He|].
    subst m. rewrite N.eqb_refl, E2. left. reflexivity.
Qed.

Lemma deps_subset : forall g allow filt m n, In n (deps_of g allow filt m) -> In n allow.
Proof. intros g allow filt m n Hin. apply In_deps_of in Hin. tauto. Qed.

Lemma mem_true : forall n l, In n l -> mem n l = true.
Proof.
  intros n l Hin. unfold mem. apply existsb_exists. exists n. split; [exact Hin|apply N.eqb_refl].
Qed.

Lemma deps_length : forall g allow filt m,
  (length (deps_of g allow filt m) <=
   fold_right (fun x acc => length (trace (get g x)) + acc) 0 allow)%nat.
Proof.
  intros g allow filt m. unfold deps_of.
  induction allow as [|x allow IH]; cbn [flat_map fold_right length]; [lia|].
  rewrite app_length.
  assert (Hx : forall l : list (N * N),
    (length (flat_map (fun e : N * N => if ((fst e =? m)%N && filt (snd e))%bool then [x] else []) l) <= length l)%nat).
  { induction l as [|e l IHl]; cbn [flat_map length]; [lia|].
    rewrite app_length. destruct ((fst e =? m) && filt (snd e)); cbn [length]; lia. }
  specialize (Hx (trace (get g x))). lia.
Qed.

Lemma reads_subscribed_perm : forall g a allow allow',
  Permutation allow allow' -> reads_subscribed g a allow -> reads_subscribed g a allow'.
Proof.
  intros g a allow allow' Hp Hs n m tr Hn Hr Hm.
  apply In_deps_of. split; [exact Hn|].
  assert (Hn' : In n allow) by (apply (Permutation_in _ (Permutation_sym Hp)); exact Hn).
  assert (Hm' : In m allow) by (apply (Permutation_in _ (Permutation_sym Hp)); exact Hm).
  pose proof (Hs n m tr Hn' Hr Hm') as Hd. apply In_deps_of in Hd. tauto.
Qed.

Lemma is_fixpoint_perm : forall g a allow allow' st,
  Permutation allow allow' -> is_fixpoint g a allow st -> is_fixpoint g a allow' st.
Proof.
  intros g a allow allow' st Hp Hf n Hn. apply Hf.
  apply (Permutation_in _ (Permutation_sym Hp)). exact Hn.
Qed.

(* ------------------------------------------------------------------ *)
(* the work-list loop: invariants                                       *)
(* ------------------------------------------------------------------ *)

Definition pushed (g : ir) (a : analysis) (allow : list N) (n : N) : list N :=
  rev (if mem n allow then deps_of g allow (a_filter a) n else []).

Lemma run_inv : forall g a allow (P : list N -> (N -> N) -> Prop),
  (forall n rest st, P (n :: rest) st ->
     step (a_rule a (get g n)) st n = st n -> P rest st) ->
  (forall n rest st, P (n :: rest) st ->
     step (a_rule a (get g n)) st n <> st n ->
     P (pushed g a allow n ++ rest) (upd st n (step (a_rule a (get g n)) st n))) ->
  forall fuel wl st st', P wl st -> run fuel g a allow wl st = Some st' -> P [] st'.
Proof.
  intros g a allow P Hskip Hpush fuel.
  induction fuel as [|fuel IH]; intros wl st st' HP Hrun.
  - destruct wl as [|n rest]; cbn [run] in Hrun; [|discriminate].
    inversion Hrun; subst. exact HP.
  - destruct wl as [|n rest]; cbn [run] in Hrun.
    + inversion Hrun; subst. exact HP.
    + destruct (N.eqb_spec (step (a_rule a (get g n)) st n) (st n)) as [E|E].
      * apply (IH rest st st'); [|exact Hrun]. apply (Hskip n); assumption.
      * apply (IH _ _ st' (Hpush n rest st HP E)). exact Hrun.
Qed.

(* P1: the work list stays inside the allowlist, non-allowlisted facts stay bottom *)
Definition P1 (allow wl : list N) (st : N -> N) : Prop :=
  (forall x, In x wl -> In x allow) /\ supported allow st.

Lemma P1_skip : forall allow n rest st, P1 allow (n :: rest) st -> P1 allow rest st.
Proof.
  intros allow n rest st [Hwl Hsup]. split; [|exact Hsup].
  intros x Hx. apply Hwl. right. exact Hx.
Qed.

Lemma P1_push : forall g a allow n rest st v,
  P1 allow (n :: rest) st -> P1 allow (pushed g a allow n ++ rest) (upd st n v).
Proof.
  intros g a allow n rest st v [Hwl Hsup]. split.
  - intros x Hx. apply in_app_or in Hx. destruct Hx as [Hx|Hx].
    + unfold pushed in Hx. apply in_rev in Hx.
      destruct (mem n allow); [|destruct Hx]. apply deps_subset in Hx. exact Hx.
    + apply Hwl. right. exact Hx.
  - intros x Hx. rewrite upd_other; [apply Hsup; exact Hx|].
    intros ->. apply Hx. apply Hwl. left. reflexivity.
Qed.

Lemma P1_init : forall allow, P1 allow (rev allow) bottom.
Proof.
  intros allow. split; [intros x Hx; apply in_rev; exact Hx|intros x _; reflexivity].
Qed.

Lemma run_supported : forall fuel g a allow st,
  analyze fuel g a allow = Some st -> supported allow st.
Proof.
  intros fuel g a allow st Hrun. unfold analyze in Hrun.
  refine (proj2 (run_inv g a allow (P1 allow) _ _ fuel _ _ _ (P1_init allow) Hrun)).
  - intros n rest st0 HP _. apply (P1_skip _ n). exact HP.
  - intros n rest st0 HP _. apply P1_push. exact HP.
Qed.

(* P2: below every fixed point *)
Lemma analyze_least : forall fuel g a allow st t,
  analyze fuel g a allow = Some st ->
  is_fixpoint g a allow t -> below allow st t.
Proof.
  intros fuel g a allow st t Hrun Hfix. unfold analyze in Hrun.
  set (P := fun wl s => P1 allow wl s /\ forall m, s m <= t m).
  assert (HP : P [] st).
  { refine (run_inv g a allow P _ _ fuel _ _ _ _ Hrun).
    - intros n rest s [H1 H2] _. split; [apply (P1_skip _ n); exact H1|exact H2].
    - intros n rest s [H1 H2] _. split; [apply P1_push; exact H1|].
      intros m. destruct (N.eq_dec m n) as [->|Hne].
      + rewrite upd_same. rewrite <- (Hfix n).
        * apply step_monotone. exact H2.
        * apply (proj1 H1). left. reflexivity.
      + rewrite upd_other by exact Hne. apply H2.
    - split; [apply P1_init|]. intros m. unfold bottom. lia. }
  intros n _. apply (proj2 HP).
Qed.

(* P3: every allowlisted node whose rule is not satisfied is on the work list *)
Lemma analyze_fixpoint : forall fuel g a allow st,
  NoDup allow -> reads_subscribed g a allow ->
  analyze fuel g a allow = Some st ->
  is_fixpoint g a allow st /\ supported allow st.
Proof.
  intros fuel g a allow st _ Hsub Hrun.
  split; [|apply (run_supported fuel g a); exact Hrun].
  unfold analyze in Hrun.
  set (P := fun wl s => P1 allow wl s /\
              forall n, In n allow -> step (a_rule a (get g n)) s n <> s n -> In n wl).
  assert (HP : P [] st).
  { refine (run_inv g a allow P _ _ fuel _ _ _ _ Hrun).
    - intros n rest s [H1 H3] Hsat. split; [apply (P1_skip _ n); exact H1|].
      intros n' Hn' Hun. destruct (H3 n' Hn' Hun) as [E|Hin]; [|exact Hin].
      subst n'. contradiction.
    - intros n rest s [H1 H3] Hch. split; [apply P1_push; exact H1|].
      assert (Hn : In n allow) by (apply (proj1 H1); left; reflexivity).
      intros n' Hn' Hun. apply in_or_app.
      destruct (in_dec N.eq_dec n (map fst (reads (a_rule a (get g n'))))) as [Hr|Hnr].
      + left. apply in_map_iff in Hr. destruct Hr as [[m tr] [Hm Hr]]. cbn [fst] in Hm. subst m.
        unfold pushed. rewrite (mem_true n allow Hn). apply -> in_rev.
        apply (Hsub n' n tr Hn' Hr Hn).
      + right. destruct (N.eq_dec n' n) as [->|Hne].
        * exfalso. apply Hun. rewrite upd_same. apply step_upd_self. exact Hnr.
        * rewrite (step_upd_other _ _ _ _ _ Hne Hnr), (upd_other _ _ _ _ Hne) in Hun.
          destruct (H3 n' Hn' Hun) as [E|Hin]; [congruence|exact Hin].
    - split; [apply P1_init|]. intros n Hn _. apply -> in_rev. exact Hn. }
  intros n Hn.
  destruct (N.eq_dec (step (a_rule a (get g n)) st n) (st n)) as [E|E]; [exact E|].
  destruct (proj2 HP n Hn E).
Qed.

(* ------------------------------------------------------------------ *)
(* termination                                                          *)
(* ------------------------------------------------------------------ *)

Definition rule_bounded (a : analysis) : Prop :=
  forall it, base (a_rule a it) <= 2 /\
             forall m c, In (m, IfPresent c) (reads (a_rule a it)) -> c <= 2.

Definition pot (st : N -> N) (l : list N) : nat :=
  fold_right (fun x acc => ((2 - N.to_nat (st x)) + acc)%nat) 0%nat l.

Definition deg (g : ir) (allow : list N) : nat :=
  fold_right (fun x acc => (length (trace (get g x)) + acc)%nat) 0%nat allow.

Lemma pot_upd_le : forall st n v l, st n <= v -> (pot (upd st n v) l <= pot st l)%nat.
Proof.
  intros st n v l Hv. induction l as [|x l IH]; cbn [pot fold_right]; [lia|].
  fold (pot (upd st n v) l). fold (pot st l).
  unfold upd at 1. destruct (N.eqb_spec x n) as [->|Hne]; lia.
Qed.

Lemma pot_upd_lt : forall st n v l,
  In n l -> st n < v -> v <= 2 -> (pot (upd st n v) l + 1 <= pot st l)%nat.
Proof.
  intros st n v l Hin Hlt Hv. induction l as [|x l IH]; [destruct Hin|].
  cbn [pot fold_right]. fold (pot (upd st n v) l). fold (pot st l).
  destruct (N.eq_dec x n) as [->|Hne].
  - rewrite upd_same. pose proof (pot_upd_le st n v l (N.lt_le_incl _ _ Hlt)) as Hle. lia.
  - rewrite (upd_other st n v x Hne).
    destruct Hin as [E|Hin]; [contradiction|]. specialize (IH Hin). lia.
Qed.

Lemma pot_bottom : forall l, pot bottom l = (2 * length l)%nat.
Proof.
  induction l as [|x l IH]; cbn [pot fold_right length]; [reflexivity|].
  fold (pot bottom l). rewrite IH. unfold bottom. cbn [N.to_nat]. lia.
Qed.

Lemma run_terminates : forall g a allow, rule_bounded a ->
  forall fuel wl st,
  (forall x, In x wl -> In x allow) -> (forall m, st m <= 2) ->
  (length wl + deg g allow * pot st allow <= fuel)%nat ->
  exists st', run fuel g a allow wl st = Some st'.
Proof.
  intros g a allow Hb fuel.
  induction fuel as [|fuel IH]; intros wl st Hwl Hst Hm.
  - destruct wl as [|n rest]; [exists st; reflexivity|]. cbn [length] in Hm. lia.
  - destruct wl as [|n rest]; [exists st; reflexivity|]. cbn [run].
    set (v := step (a_rule a (get g n)) st n).
    assert (Hv2 : v <= 2).
    { destruct (Hb (get g n)) as [Hb1 Hb2]. apply step_bound; assumption. }
    assert (Hvge : st n <= v) by apply step_inflationary.
    cbn [length] in Hm.
    destruct (N.eqb_spec v (st n)) as [E|E].
    + apply IH; [intros x Hx; apply Hwl; right; exact Hx|exact Hst|lia].
    + assert (Hn : In n allow) by (apply Hwl; left; reflexivity).
      apply IH.
      * intros x Hx. apply in_app_or in Hx. destruct Hx as [Hx|Hx].
        -- apply in_rev in Hx. destruct (mem n allow); [|destruct Hx].
           apply deps_subset in Hx. exact Hx.
        -- apply Hwl. right. exact Hx.
      * intros m. destruct (N.eq_dec m n) as [->|Hne];
          [rewrite upd_same; exact Hv2|rewrite upd_other by exact Hne; apply Hst].
      * rewrite app_length, rev_length, (mem_true n allow Hn).
        pose proof (deps_length g allow (a_filter a) n) as Hd. fold (deg g allow) in Hd.
        assert (Hlt : st n < v) by lia.
        pose proof (pot_upd_lt st n v allow Hn Hlt Hv2) as Hp.
        assert (Hmul : (deg g allow * (pot (upd st n v) allow + 1) <= deg g allow * pot st allow)%nat)
          by (apply Nat.mul_le_mono_l; exact Hp).
        rewrite Nat.mul_add_distr_l, Nat.mul_1_r in Hmul. lia.
Qed.

Lemma analyze_terminates : forall g a allow,
  NoDup allow -> rule_bounded a ->
  exists st, analyze (fuel_for g allow) g a allow = Some st.
Proof.
  intros g a allow _ Hb. unfold analyze. apply (run_terminates g a allow Hb).
  - intros x Hx. apply in_rev. exact Hx.
  - intros m. unfold bottom. lia.
  - rewrite rev_length, pot_bottom. unfold fuel_for. fold (deg g allow).
    set (n := length allow). set (d := deg g allow).
    rewrite (Nat.mul_comm d (2 * n)), Nat.mul_add_distr_l. lia.
Qed.

(* ------------------------------------------------------------------ *)
(* uniqueness of the least fixed point, schedule independence          *)
(* ------------------------------------------------------------------ *)

Lemma least_fixpoint_unique : forall g a allow s t,
  is_fixpoint g a allow s -> supported allow s -> (forall u, is_fixpoint g a allow u -> below allow s u) ->
  is_fixpoint g a allow t -> supported allow t -> (forall u, is_fixpoint g a allow u -> below allow t u) ->
  forall n, s n = t n.
Proof.
  intros g a allow s t Hfs Hss Hls Hft Hst Hlt n.
  destruct (in_dec N.eq_dec n allow) as [Hin|Hout].
  - pose proof (Hls t Hft n Hin) as H1. pose proof (Hlt s Hfs n Hin) as H2. lia.
  - rewrite (Hss n Hout), (Hst n Hout). reflexivity.
Qed.

Lemma schedule_independent : forall fuel fuel' g a allow allow' st st',
  NoDup allow -> Permutation allow allow' ->
  reads_subscribed g a allow ->
  analyze fuel g a allow = Some st -> analyze fuel' g a allow' = Some st' ->
  forall n, st n = st' n.
Proof.
  intros fuel fuel' g a allow allow' st st' Hnd Hp Hsub Hrun Hrun'.
  assert (Hnd' : NoDup allow') by (apply (Permutation_NoDup Hp); exact Hnd).
  pose proof (reads_subscribed_perm g a allow allow' Hp Hsub) as Hsub'.
  destruct (analyze_fixpoint fuel g a allow st Hnd Hsub Hrun) as [Hf Hs].
  destruct (analyze_fixpoint fuel' g a allow' st' Hnd' Hsub' Hrun') as [Hf' Hs'].
  apply (least_fixpoint_unique g a allow).
  - exact Hf.
  - exact Hs.
  - intros u Hu. apply (analyze_least fuel g a allow st u Hrun Hu).
  - apply (is_fixpoint_perm g a allow' allow st' (Permutation_sym Hp) Hf').
  - intros x Hx. apply Hs'. intros Hin. apply Hx.
    apply (Permutation_in _ (Permutation_sym Hp)). exact Hin.
  - intros u Hu x Hx.
    apply (analyze_least fuel' g a allow' st' u Hrun').
    + apply (is_fixpoint_perm g a allow allow' u Hp Hu).
    + apply (Permutation_in _ Hp). exact Hx.
Qed.

(* ------------------------------------------------------------------ *)
(* the five analyses: bounded rules                                     *)
(* ------------------------------------------------------------------ *)

Definition A_vtable := {| a_rule := rule_vtable; a_filter := filter_vtable |}.
Definition A_sizedness := {| a_rule := rule_sizedness; a_filter := filter_sizedness |}.
Definition A_destructor := {| a_rule := rule_destructor; a_filter := filter_destructor |}.
Definition A_float := {| a_rule := rule_float; a_filter := filter_float |}.
Definition A_tparam_array := {| a_rule := rule_tparam_array; a_filter := filter_tparam_array |}.

Definition rb (r : rule) : Prop :=
  base r <= 2 /\ forall m c, In (m, IfPresent c) (reads r) -> c <= 2.

Lemma rb_no_rule : rb no_rule.
Proof. split; cbn [no_rule base reads]; [lia|intros m c []]. Qed.

Lemma rb_base : forall b, b <= 2 -> rb {| base := b; reads := [] |}.
Proof. intros b Hb. split; cbn [base reads]; [exact Hb|intros m c []]. Qed.

Lemma rb_present : forall b l, b <= 2 -> rb {| base := b; reads := present l |}.
Proof.
  intros b l Hb. split; cbn [base reads]; [exact Hb|].
  intros m c Hin. unfold present in Hin. apply in_map_iff in Hin.
  destruct Hin as [x [E _]]. inversion E; subst. lia.
Qed.

Lemma rb_map_if : forall b k l, b <= 2 -> k <= 2 ->
  rb {| base := b; reads := map (fun x => (x, IfPresent k)) l |}.
Proof.
  intros b k l Hb Hk. split; cbn [base reads]; [exact Hb|].
  intros m c Hin. apply in_map_iff in Hin.
  destruct Hin as [x [E _]]. inversion E; subst. exact Hk.
Qed.

Lemma rb_map_copy : forall b l, b <= 2 ->
  rb {| base := b; reads := map (fun x => (x, Copy)) l |}.
Proof.
  intros b l Hb. split; cbn [base reads]; [exact Hb|].
  intros m c Hin. apply in_map_iff in Hin.
  destruct Hin as [x [E _]]. inversion E.
Qed.

Lemma rb_copy1 : forall b t, b <= 2 -> rb {| base := b; reads := [(t, Copy)] |}.
Proof. intros b t Hb. apply (rb_map_copy b [t] Hb). Qed.

(* destruct every [if]/[match] scrutinee left in the goal, then close with the rb_ lemmas *)
Ltac rb_split :=
  repeat match goal with
         | |- context [if ?b then _ else _] => destruct b
         | |- context [match ?x with _ => _ end] => destruct x
         end.

Ltac rb_close :=
  first [ apply rb_no_rule
        | apply rb_base; lia
        | apply rb_present; lia
        | apply rb_copy1; lia
        | apply rb_map_copy; lia
        | apply rb_map_if; lia ].

Ltac rb_tac rule :=
  intros it; change (rb (rule it)); unfold rule;
  destruct (i_kind it) as [|tk|sig|ty]; [|destruct tk|..];
  rb_split; rb_close.

Lemma rules_bounded :
  rule_bounded A_vtable /\ rule_bounded A_sizedness /\ rule_bounded A_destructor /\
  rule_bounded A_float /\ rule_bounded A_tparam_array.
Proof.
  split; [|split; [|split; [|split]]].
  - rb_tac rule_vtable.
  - rb_tac rule_sizedness.
  - rb_tac rule_destructor.
  - rb_tac rule_float.
  - rb_tac rule_tparam_array.
Qed.

(* ------------------------------------------------------------------ *)
(* subscription: every read arrives over an accepted edge               *)
(* ------------------------------------------------------------------ *)

(* regular: every (m, tr) the rule reads has an edge (m, k) in [trace it] whose kind
   the analysis' consider_edge accepts.  This is the weakest item-local condition:
   it is literally the per-item content of [reads_subscribed]. *)
Definition regular_gen (rl : item -> rule) (filt : N -> bool) (it : item) : bool :=
  forallb (fun mt => existsb (fun e => (fst e =? fst mt) && filt (snd e)) (trace it))
          (reads (rl it)).

Definition regular_vtable := regular_gen rule_vtable filter_vtable.
Definition regular_sizedness := regular_gen rule_sizedness filter_sizedness.
Definition regular_destructor := regular_gen rule_destructor filter_destructor.
Definition regular_float := regular_gen rule_float filter_float.
Definition regular_tparam_array := regular_gen rule_tparam_array filter_tparam_array.

Lemma regular_gen_spec : forall rl filt it,
  regular_gen rl filt it = true <->
  forall m tr, In (m, tr) (reads (rl it)) ->
               exists k, In (m, k) (trace it) /\ filt k = true.
Proof.
  intros rl filt it. unfold regular_gen. rewrite forallb_forall. split.
  - intros H m tr Hin. specialize (H (m, tr) Hin). cbn [fst] in H.
    apply existsb_exists in H. destruct H as [[m' k] [He E]]. cbn [fst snd] in E.
    apply andb_true_iff in E. destruct E as [E1 E2]. apply N.eqb_eq in E1. subst m'.
    exists k. split; assumption.
  - intros H [m tr] Hin. destruct (H m tr Hin) as [k [Hk Hf]].
    apply existsb_exists. exists (m, k). split; [exact Hk|].
    cbn [fst snd]. rewrite N.eqb_refl, Hf. reflexivity.
Qed.

Lemma gen_subscribed : forall rl filt g allow,
  (forall n, In n allow -> regular_gen rl filt (get g n) = true) ->
  reads_subscribed g {| a_rule := rl; a_filter := filt |} allow.
Proof.
  intros rl filt g allow Hreg n m tr Hn Hr _. cbn [a_rule a_filter] in *.
  apply In_deps_of. split; [exact Hn|].
  pose proof (Hreg n Hn) as H. rewrite regular_gen_spec in H.
  destruct (H m tr Hr) as [k [Hk Hf]]. exists (m, k). auto.
Qed.

(* the converse direction, for documentation: an irregular item breaks
   reads_subscribed in SOME graph (the one where its unsubscribed neighbour is
   allowlisted), so no weaker item-local predicate would do *)
Lemma gen_subscribed_conv : forall rl filt g allow,
  reads_subscribed g {| a_rule := rl; a_filter := filt |} allow ->
  forall n, In n allow ->
  (forall m tr, In (m, tr) (reads (rl (get g n))) -> In m allow) ->
  regular_gen rl filt (get g n) = true.
Proof.
  intros rl filt g allow Hsub n Hn Hclosed. apply regular_gen_spec. intros m tr Hr.
  pose proof (Hsub n m tr Hn Hr (Hclosed m tr Hr)) as Hd.
  apply In_deps_of in Hd. destruct Hd as [_ [[m' k] [He [E1 E2]]]].
  cbn [fst snd] in E1, E2. subst m'. exists k. auto.
Qed.

Lemma vtable_subscribed : forall g allow,
  (forall n, In n allow -> regular_vtable (get g n) = true) ->
  reads_subscribed g A_vtable allow.
Proof. intros g allow. apply gen_subscribed. Qed.

Lemma sizedness_subscribed : forall g allow,
  (forall n, In n allow -> regular_sizedness (get g n) = true) ->
  reads_subscribed g A_sizedness allow.
Proof. intros g allow. apply gen_subscribed. Qed.

Lemma destructor_subscribed : forall g allow,
  (forall n, In n allow -> regular_destructor (get g n) = true) ->
  reads_subscribed g A_destructor allow.
Proof. intros g allow. apply gen_subscribed. Qed.

Lemma float_subscribed : forall g allow,
  (forall n, In n allow -> regular_float (get g n) = true) ->
  reads_subscribed g A_float allow.
Proof. intros g allow. apply gen_subscribed. Qed.

Lemma tparam_array_subscribed : forall g allow,
  (forall n, In n allow -> regular_tparam_array (get g n) = true) ->
  reads_subscribed g A_tparam_array allow.
Proof. intros g allow. apply gen_subscribed. Qed.

(* ---------- structural sufficient condition ---------- *)

Lemma in_present : forall m tr l, In (m, tr) (present l) -> In m l.
Proof.
  intros m tr l Hin. unfold present in Hin. apply in_map_iff in Hin.
  destruct Hin as [x [E Hx]]. inversion E; subst. exact Hx.
Qed.

Lemma in_map_pair : forall (tr0 : transfer) m tr l,
  In (m, tr) (map (fun x : N => (x, tr0)) l) -> In m l.
Proof.
  intros tr0 m tr l Hin. apply in_map_iff in Hin.
  destruct Hin as [x [E Hx]]. inversion E; subst. exact Hx.
Qed.

Lemma data_tys_field : forall m fs,
  In m (field_data_tys fs) -> In (m, E_Field) (flat_map trace_field fs).
Proof.
  intros m fs Hin. unfold field_data_tys in Hin. apply in_flat_map in Hin.
  destruct Hin as [f [Hf Hm]]. apply in_flat_map. exists f. split; [exact Hf|].
  destruct f as [t|ts]; cbn [trace_field]; [|destruct Hm].
  destruct Hm as [->|[]]. left. reflexivity.
Qed.

Lemma all_tys_field : forall m fs,
  In m (field_all_tys fs) -> In (m, E_Field) (flat_map trace_field fs).
Proof.
  intros m fs Hin. unfold field_all_tys in Hin. apply in_flat_map in Hin.
  destruct Hin as [f [Hf Hm]]. apply in_flat_map. exists f. split; [exact Hf|].
  destruct f as [t|ts]; cbn [trace_field].
  - destruct Hm as [->|[]]. left. reflexivity.
  - apply (in_map (fun t => (t, E_Field))). exact Hm.
Qed.

Lemma in_trace_comp_base : forall c b,
  In b (c_bases c) -> In (b, E_BaseMember) (trace_comp c false).
Proof.
  intros c b Hb. unfold trace_comp. do 6 (apply in_or_app; right).
  apply in_or_app. left. apply (in_map (fun b => (b, E_BaseMember))). exact Hb.
Qed.

Lemma in_trace_comp_field : forall c m,
  In (m, E_Field) (flat_map trace_field (c_fields c)) -> In (m, E_Field) (trace_comp c false).
Proof.
  intros c m Hm. unfold trace_comp. do 6 (apply in_or_app; right).
  apply in_or_app. right. exact Hm.
Qed.

Lemma in_tail_map : forall (k : N) (hd : N * N) m l,
  In m l -> In (m, k) (hd :: map (fun x => (x, k)) l).
Proof. intros k hd m l Hm. right. apply (in_map (fun x => (x, k))). exact Hm. Qed.

(* decompose a hypothesis  In (m, tr) (reads ...)  into membership facts *)
Ltac inv_reads H :=
  repeat match type of H with
  | False => destruct H
  | In _ [] => destruct H
  | In (_, _) (present _) => apply in_present in H
  | In (_, _) (map _ _) => apply in_map_pair in H
  | In _ (_ ++ _) => apply in_app_or in H; destruct H as [H|H]
  | In _ (_ :: _) => destruct H as [H|H]
  | _ \/ _ => destruct H as [H|H]
  | _ = _ => inversion H; subst; try clear H
  end.

(* exhibit the accepted edge *)
Ltac find_edge :=
  first
  [ eexists; split; [left; reflexivity|reflexivity]
  | eexists; split; [apply in_tail_map; eassumption|reflexivity]
  | exists E_BaseMember; split; [apply in_trace_comp_base; assumption|reflexivity]
  | exists E_Field; split;
      [apply in_trace_comp_field; first [apply data_tys_field; assumption|apply all_tys_field; assumption]
      |reflexivity] ].

Ltac sufficient_tac :=
  intros it Hs Ho; apply regular_gen_spec; intros m tr Hr;
  destruct it as [k o s vp ls]; cbn [i_stdint i_opaque] in Hs, Ho; subst o s;
  destruct k as [|tk|sig|ty]; [|destruct tk|..];
  cbn -[present] in Hr;
  repeat match type of Hr with
         | context [if ?b then _ else _] => destruct b; cbn -[present] in Hr
         | context [match ?x with _ => _ end] => destruct x; cbn -[present] in Hr
         end;
  inv_reads Hr; cbn -[trace_comp]; find_edge.

Lemma regular_vtable_sufficient : forall it,
  i_stdint it = false -> i_opaque it = false -> regular_vtable it = true.
Proof. sufficient_tac. Qed.

Lemma regular_sizedness_sufficient : forall it,
  i_stdint it = false -> i_opaque it = false -> regular_sizedness it = true.
Proof. sufficient_tac. Qed.

Lemma regular_destructor_sufficient : forall it,
  i_stdint it = false -> i_opaque it = false -> regular_destructor it = true.
Proof. sufficient_tac. Qed.

Lemma regular_float_sufficient : forall it,
  i_stdint it = false -> i_opaque it = false -> regular_float it = true.
Proof. sufficient_tac. Qed.

Lemma regular_tparam_array_sufficient : forall it,
  i_stdint it = false -> i_opaque it = false -> regular_tparam_array it = true.
Proof. sufficient_tac. Qed.

(* sizedness handles opaque items before looking at the kind, so only the stdint
   early return can starve it *)
Lemma regular_sizedness_sufficient' : forall it,
  i_stdint it = false -> regular_sizedness it = true.
Proof.
  intros it Hs. destruct (i_opaque it) eqn:Ho; [|apply regular_sizedness_sufficient; assumption].
  apply regular_gen_spec. intros m tr Hr. exfalso.
  unfold rule_sizedness in Hr. rewrite Ho in Hr.
  destruct (i_kind it); try destruct (i_vtable_ptr it); exact Hr.
Qed.

(* an opaque item is still regular when its kind is traced unconditionally and it is
   not a composite (trace_comp drops base and field edges of opaque composites) *)
Definition opaque_ok (it : item) : bool :=
  negb (i_opaque it) ||
  match i_kind it with
  | IType (KComp _) => false
  | IType k => traced_unconditionally k
  | _ => true
  end.

Ltac sufficient_opaque_tac :=
  intros it Hs Ho; apply regular_gen_spec; intros m tr Hr;
  destruct it as [k o s vp ls]; cbn [i_stdint] in Hs; subst s;
  destruct k as [|tk|sig|ty]; [|destruct tk|..]; destruct o;
  cbn in Ho; try discriminate Ho;
  cbn -[present] in Hr;
  repeat match type of Hr with
         | context [if ?b then _ else _] => destruct b; cbn -[present] in Hr
         | context [match ?x with _ => _ end] => destruct x; cbn -[present] in Hr
         end;
  inv_reads Hr; cbn -[trace_comp]; find_edge.

Lemma regular_vtable_sufficient' : forall it,
  i_stdint it = false -> opaque_ok it = true -> regular_vtable it = true.
Proof. sufficient_opaque_tac. Qed.

Lemma regular_destructor_sufficient' : forall it,
  i_stdint it = false -> opaque_ok it = true -> regular_destructor it = true.
Proof. sufficient_opaque_tac. Qed.

Lemma regular_float_sufficient' : forall it,
  i_stdint it = false -> opaque_ok it = true -> regular_float it = true.
Proof. sufficient_opaque_tac. Qed.

Lemma regular_tparam_array_sufficient' : forall it,
  i_stdint it = false -> opaque_ok it = true -> regular_tparam_array it = true.
Proof. sufficient_opaque_tac. Qed.

(* ------------------------------------------------------------------ *)
(* concrete items and graphs                                            *)
(* ------------------------------------------------------------------ *)

Definition mk (k : ikind) : item :=
  {| i_kind := k; i_opaque := false; i_stdint := false; i_vtable_ptr := false;
     i_layout_size := None |}.

Definition mkcomp (bases : list N) (fields : list field) (virt dtor : bool) : comp :=
  {| c_union := false; c_own_virtual := virt; c_own_dtor := dtor; c_bases := bases;
     c_fields := fields; c_all_tparams := []; c_inner_types := []; c_inner_vars := [];
     c_methods := []; c_dtor := None; c_ctors := [] |}.

Definition of_list (l : list (N * item)) : ir :=
  fun n => option_map snd (find (fun p => fst p =? n) l).

(* ---------- irregular items ---------- *)

(* typedef float int32_t-like: the name is a <stdint.h> name, Type::trace returns early *)
Definition stdint_alias (t : N) : item :=
  {| i_kind := IType (KAlias t); i_opaque := false; i_stdint := true; i_vtable_ptr := false;
     i_layout_size := None |}.

(* opaque struct { float f; } : trace_comp omits the field edge, has_float still reads it *)
Definition opaque_struct (bases : list N) (fields : list field) : item :=
  {| i_kind := IType (KComp (mkcomp bases fields false false)); i_opaque := true;
     i_stdint := false; i_vtable_ptr := false; i_layout_size := Some 4 |}.

(* opaque typedef: not traced_unconditionally, the whole trace is skipped *)
Definition opaque_alias (t : N) : item :=
  {| i_kind := IType (KAlias t); i_opaque := true; i_stdint := false; i_vtable_ptr := false;
     i_layout_size := Some 4 |}.

Example irregular_float_stdint_alias : regular_float (stdint_alias 2) = false.
Proof. vm_compute. reflexivity. Qed.

Example irregular_float_opaque_struct : regular_float (opaque_struct [] [FData 2]) = false.
Proof. vm_compute. reflexivity. Qed.

Example irregular_float_opaque_bitfield : regular_float (opaque_struct [] [FUnit [2]]) = false.
Proof. vm_compute. reflexivity. Qed.

Example irregular_float_opaque_alias : regular_float (opaque_alias 2) = false.
Proof. vm_compute. reflexivity. Qed.

Example irregular_vtable_stdint_alias : regular_vtable (stdint_alias 2) = false.
Proof. vm_compute. reflexivity. Qed.

Example irregular_vtable_opaque_base : regular_vtable (opaque_struct [2] []) = false.
Proof. vm_compute. reflexivity. Qed.

Example irregular_sizedness_stdint_alias : regular_sizedness (stdint_alias 2) = false.
Proof. vm_compute. reflexivity. Qed.

Example regular_sizedness_opaque_struct : regular_sizedness (opaque_struct [2] [FData 3]) = true.
Proof. vm_compute. reflexivity. Qed.

Example irregular_destructor_stdint_alias : regular_destructor (stdint_alias 2) = false.
Proof. vm_compute. reflexivity. Qed.

Example irregular_destructor_opaque_struct : regular_destructor (opaque_struct [2] [FData 3]) = false.
Proof. vm_compute. reflexivity. Qed.

Example irregular_tparam_array_stdint_alias : regular_tparam_array (stdint_alias 2) = false.
Proof. vm_compute. reflexivity. Qed.

Example irregular_tparam_array_opaque_struct :
  regular_tparam_array (opaque_struct [] [FData 2]) = false.
Proof. vm_compute. reflexivity. Qed.

(* ---------- the unconditional subscription statement is false ---------- *)

(* 1 : typedef float <stdint-like name>;   2 : float *)
Definition refute_g : ir := of_list [ (1, stdint_alias 2); (2, mk (IType KFloat)) ].

Example refute_unsubscribed : unsubscribed_reads refute_g A_float [1; 2] = [(1, 2)].
Proof. vm_compute. reflexivity. Qed.

(* initial work list = rev allow.  allow = [1;2]: 2 is popped first, then 1 sees it *)
Example refute_order_12 :
  option_map (fun st => map st [1; 2]) (analyze (fuel_for refute_g [1; 2]) refute_g A_float [1; 2])
  = Some [1; 1].
Proof. vm_compute. reflexivity. Qed.

(* allow = [2;1]: 1 is popped first (sees bottom), 2 changes but nobody is requeued *)
Example refute_order_21 :
  option_map (fun st => map st [1; 2]) (analyze (fuel_for refute_g [2; 1]) refute_g A_float [2; 1])
  = Some [0; 1].
Proof. vm_compute. reflexivity. Qed.

Example refute_not_fixpoint :
  option_map (fun st => (is_fixpoint_b refute_g A_float [2; 1] st, unstable_nodes refute_g A_float [2; 1] st))
             (analyze (fuel_for refute_g [2; 1]) refute_g A_float [2; 1])
  = Some (false, [1]).
Proof. vm_compute. reflexivity. Qed.

Lemma subscription_refuted : exists g allow allow' st st',
  Permutation allow allow' /\
  analyze (fuel_for g allow) g A_float allow = Some st /\
  analyze (fuel_for g allow') g A_float allow' = Some st' /\
  (exists n, st n <> st' n).
Proof.
  exists refute_g, [1; 2], [2; 1]. eexists. eexists.
  split; [apply perm_swap|].
  split; [vm_compute; reflexivity|].
  split; [vm_compute; reflexivity|].
  exists 1. vm_compute. discriminate.
Qed.

(* ---------- non-vacuity: a regular graph ---------- *)

(* 1 : struct S : B { F3 f; T[4] a; }     2 : struct B { virtual ~B(); }  (has a vtable ptr)
   3 : typedef F4 F3;   4 : typedef float F4;   5 : float
   6 : S<float>  (instantiation of 1)      7 : T (type parameter)   8 : T[4] *)
Definition ex_g : ir := of_list
  [ (1, mk (IType (KComp (mkcomp [2] [FData 3; FData 8] false false))));
    (2, {| i_kind := IType (KComp (mkcomp [] [] true true)); i_opaque := false;
           i_stdint := false; i_vtable_ptr := true; i_layout_size := None |});
    (3, mk (IType (KAlias 4)));
    (4, mk (IType (KAlias 5)));
    (5, mk (IType KFloat));
    (6, mk (IType (KInst 1 [5])));
    (7, mk (IType KTypeParam));
    (8, mk (IType (KArray 7 4 true))) ].
Definition ex_allow : list N := [1; 2; 3; 4; 5; 6; 7; 8].
Definition ex_show (o : option (N -> N)) : option (list N) :=
  option_map (fun st => map st ex_allow) o.

Example ex_nodup_nonvacuous : NoDup ex_allow.
Proof. repeat constructor; cbn [In]; intros H; repeat (destruct H as [H|H]; [discriminate H|]); exact H. Qed.

Ltac ex_regular :=
  intros n Hn; cbn [ex_allow In] in Hn;
  repeat (destruct Hn as [<-|Hn]; [vm_compute; reflexivity|]); destruct Hn.

Example ex_vtable_subscribed_nonvacuous : reads_subscribed ex_g A_vtable ex_allow.
Proof. apply vtable_subscribed. ex_regular. Qed.
Example ex_sizedness_subscribed_nonvacuous : reads_subscribed ex_g A_sizedness ex_allow.
Proof. apply sizedness_subscribed. ex_regular. Qed.
Example ex_destructor_subscribed_nonvacuous : reads_subscribed ex_g A_destructor ex_allow.
Proof. apply destructor_subscribed. ex_regular. Qed.
Example ex_float_subscribed_nonvacuous : reads_subscribed ex_g A_float ex_allow.
Proof. apply float_subscribed. ex_regular. Qed.
Example ex_tparam_array_subscribed_nonvacuous : reads_subscribed ex_g A_tparam_array ex_allow.
Proof. apply tparam_array_subscribed. ex_regular. Qed.

Example ex_vtable_nonvacuous :
  ex_show (analyze (fuel_for ex_g ex_allow) ex_g A_vtable ex_allow) = Some [2; 1; 0; 0; 0; 2; 0; 0].
Proof. vm_compute. reflexivity. Qed.
Example ex_sizedness_nonvacuous :
  ex_show (analyze (fuel_for ex_g ex_allow) ex_g A_sizedness ex_allow) = Some [2; 2; 2; 2; 2; 2; 1; 2].
Proof. vm_compute. reflexivity. Qed.
Example ex_destructor_nonvacuous :
  ex_show (analyze (fuel_for ex_g ex_allow) ex_g A_destructor ex_allow) = Some [1; 1; 0; 0; 0; 1; 0; 0].
Proof. vm_compute. reflexivity. Qed.
Example ex_float_nonvacuous :
  ex_show (analyze (fuel_for ex_g ex_allow) ex_g A_float ex_allow) = Some [1; 0; 1; 1; 1; 1; 0; 0].
Proof. vm_compute. reflexivity. Qed.
Example ex_tparam_array_nonvacuous :
  ex_show (analyze (fuel_for ex_g ex_allow) ex_g A_tparam_array ex_allow) = Some [1; 0; 0; 0; 0; 1; 0; 1].
Proof. vm_compute. reflexivity. Qed.

(* the reversed schedule gives the same facts, and the answer passes the boolean
   fixed-point check used on real dumps *)
Example ex_float_reversed_nonvacuous :
  ex_show (analyze (fuel_for ex_g (rev ex_allow)) ex_g A_float (rev ex_allow))
  = Some [1; 0; 1; 1; 1; 1; 0; 0].
Proof. vm_compute. reflexivity. Qed.
Example ex_float_fixpoint_b_nonvacuous :
  option_map (is_fixpoint_b ex_g A_float ex_allow) (analyze (fuel_for ex_g ex_allow) ex_g A_float ex_allow)
  = Some true.
Proof. vm_compute. reflexivity. Qed.

(* the fuel bound is not wildly loose nor tight by accident: 153 here *)
Example ex_fuel_nonvacuous : fuel_for ex_g ex_allow = 153%nat.
Proof. vm_compute. reflexivity. Qed.
