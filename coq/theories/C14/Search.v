(* C14 — witness search used by the check when an obligation about the shipped
   table breaks: list every (feature, minor, edition) the table enables although
   the specification does not allow it.  Executable definitions only. *)
From Coq Require Import NArith List Bool String.
From BG Require Import C14.Model C14.Spec.
Import ListNotations.
Open Scope N_scope.

Definition minors_upto (n : nat) : list N := map N.of_nat (seq 0 n).

Definition violations (T : table) (maxminor : nat) : list (string * N * N) :=
  flat_map (fun f =>
    flat_map (fun e =>
      flat_map (fun m =>
        if enabled T (Stable m 0) e f && negb (spec_allows stabilised_in f (Stable m 0) e)
        then [(f, m, e)] else [])
        (minors_upto maxminor))
      (map fst (editions T)))
    (feature_names T).

Definition nightly_violations (T : table) : list (string * N) :=
  flat_map (fun f =>
    flat_map (fun e =>
        if enabled T Nightly e f && negb (spec_allows stabilised_in f Nightly e)
        then [(f, e)] else [])
      (map fst (editions T)))
    (feature_names T).

Definition edition_violations (T : table) (maxminor : nat) : list (N * N) :=
  flat_map (fun e =>
    flat_map (fun m =>
      if edition_available T e (Stable m 0)
         && negb (match edition_released_in e with Some r => r <=? m | None => false end)
      then [(e, m)] else [])
      (minors_upto maxminor))
    (map fst (editions T)).
