(* C14/Parse — executable model of `impl FromStr for RustTarget` and `impl Display for RustTarget`
   (bindgen/features.rs): how a `--rust-target` string selects the target whose features are used.
   Definitions only.  A pre-release `1.N.P-nightly` names the last stable release BEFORE 1.N
   (minor N-1, patch u64::MAX): nothing stabilised in 1.N may be used for it. *)
From Coq Require Import NArith List Bool String Ascii Decimal DecimalString.
From BG Require Import C14.Model.
Import ListNotations.
Open Scope N_scope.
Open Scope string_scope.

(* str::split_once(char) *)
Fixpoint split_once (c : ascii) (s : string) : option (string * string) :=
  match s with
  | EmptyString => None
  | String a rest =>
      if Ascii.eqb a c then Some (EmptyString, rest)
      else match split_once c rest with
           | Some (x, y) => Some (String a x, y)
           | None => None
           end
  end.

Definition u64_max : N := 18446744073709551615.

(* <u64 as FromStr>::from_str: an optional leading '+', at least one ASCII digit, no overflow *)
Definition parse_u64 (s : string) : option N :=
  let body := match s with String "+" r => r | _ => s end in
  match body with
  | EmptyString => None
  | _ => match NilEmpty.uint_of_string body with
         | Some d => let n := N.of_uint d in if N.leb n u64_max then Some n else None
         | None => None
         end
  end.

Definition pre_release_ok (pre : string) : bool :=
  String.eqb pre "" || String.eqb pre "beta" || prefix "beta." pre || String.eqb pre "nightly".

Definition parse_version (tail : string) : option (N * N) :=
  match split_once "." tail with
  | Some (mi, pa) =>
      match parse_u64 mi, parse_u64 pa with
      | Some m, Some p => Some (m, p)
      | _, _ => None
      end
  | None => match parse_u64 tail with Some m => Some (m, 0) | None => None end
  end.

(* RustTarget::from_str; None = Err(InvalidInput) *)
Definition parse_target (T : table) (s : string) : option target :=
  if String.eqb s "nightly" then Some Nightly else
  let vp := match split_once "-" s with Some p => p | None => (s, "") end in
  if negb (pre_release_ok (snd vp)) then None else
  match split_once "." (fst vp) with
  | None => None
  | Some (major, tail) =>
      if negb (String.eqb major "1") then None else
      match parse_version tail with
      | None => None
      | Some (m, p) =>
          if String.eqb (snd vp) "nightly"
          then (if N.eqb m 0 then None else mk_stable T (N.sub m 1) u64_max)
          else mk_stable T m p
      end
  end.

Definition dec (n : N) : string := NilEmpty.string_of_uint (N.to_uint n).

(* Display *)
Definition print_target (t : target) : string :=
  match t with
  | Stable m p => "1." ++ dec m ++ "." ++ dec p
  | Nightly => "nightly"
  end.

Fixpoint has_char (c : ascii) (s : string) : bool :=
  match s with EmptyString => false | String a r => Ascii.eqb a c || has_char c r end.

(* ---------- correspondence helper: indices of the strings on which model and implementation differ;
   the implementation's answer is the Display form of the parsed target, or "ERR" *)
Definition answer (T : table) (s : string) : string :=
  match parse_target T s with Some t => print_target t | None => "ERR" end.
Fixpoint mismatches (T : table) (i : N) (l : list (string * string)) : list N :=
  match l with
  | [] => []
  | (s, impl) :: r => (if String.eqb (answer T s) impl then [] else [i]) ++ mismatches T (i + 1) r
  end.
