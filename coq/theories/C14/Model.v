(* C14 — model of bindgen/features.rs: RustTarget::is_compatible,
   RustEdition::is_available, RustFeatures::new, latest_edition,
   LATEST_STABLE_RUST / EARLIEST_STABLE_RUST, and the edition check of
   Builder::generate.  Parametric in the feature table, which the translator
   regenerates from define_rust_targets! / define_rust_editions! on every run
   (coq/gen/C14_Table.v).  Definitions only. *)
From Coq Require Import NArith List Bool String.
Import ListNotations.
Open Scope N_scope.

Inductive target := Stable (minor patch : N) | Nightly.

(* RustTarget::is_compatible(self, other) *)
Definition is_compatible (a b : target) : bool :=
  match a, b with
  | Stable m _, Stable m' _ => m' <=? m
  | Nightly, _ => true
  | Stable _ _, Nightly => false
  end.

(* one feature of a row: name and the editions it is restricted to ([] = all) *)
Definition feat := (string * list N)%type.

Record table := {
  editions : list (N * N);            (* (edition value, first minor that has it), in declaration order *)
  nightly_feats : list feat;
  stable_rows : list (N * list feat)  (* (minor, features), in declaration order *)
}.

Definition edition_ok (eds : list N) (e : N) : bool :=
  match eds with [] => true | _ => existsb (N.eqb e) eds end.

Definition row_enables (fs : list feat) (e : N) (f : string) : bool :=
  existsb (fun fe => String.eqb (fst fe) f && edition_ok (snd fe) e) fs.

(* features.<f> after RustFeatures::new(t, e) *)
Definition enabled (T : table) (t : target) (e : N) (f : string) : bool :=
  (is_compatible t Nightly && row_enables (nightly_feats T) e f)
  || existsb (fun r => is_compatible t (Stable (fst r) 0) && row_enables (snd r) e f)
             (stable_rows T).

Definition feature_names (T : table) : list string :=
  flat_map (fun r => map fst (snd r)) (stable_rows T) ++ map fst (nightly_feats T).

(* RustFeatures::new as the (name, flag) list in struct-field order *)
Definition features_new (T : table) (t : target) (e : N) : list (string * bool) :=
  map (fun f => (f, enabled T t e f)) (feature_names T).

(* RustEdition::is_available *)
Definition edition_minor (T : table) (e : N) : option N :=
  option_map snd (find (fun p => N.eqb (fst p) e) (editions T)).

Definition edition_available (T : table) (e : N) (t : target) : bool :=
  match t with
  | Nightly => true
  | Stable m _ =>
      match edition_minor T e with Some em => em <=? m | None => false end
  end.

(* RustTarget::latest_edition : last declared edition that is available *)
Definition latest_edition (T : table) (t : target) : option N :=
  option_map fst
    (find (fun p => edition_available T (fst p) t) (rev (editions T))).

(* LATEST_STABLE_RUST: first row with the strictly greatest minor (0 if none) *)
Definition latest_minor (T : table) : N :=
  fold_left (fun acc r => if acc <? fst r then fst r else acc) (stable_rows T) 0.
Definition earliest_minor (T : table) : N :=
  fold_left (fun acc r => if fst r <? acc then fst r else acc) (stable_rows T)
            (latest_minor T).

(* RustTarget::stable *)
Definition mk_stable (T : table) (minor patch : N) : option target :=
  if minor <? earliest_minor T then None else Some (Stable minor patch).

(* Builder::generate's first step: None = Err(UnsupportedEdition) *)
Definition generate_features (T : table) (t : target) (oe : option N)
  : option (list (string * bool)) :=
  match oe with
  | Some e => if edition_available T e t then Some (features_new T t e) else None
  | None => match latest_edition T t with
            | Some e => Some (features_new T t e)
            | None => None (* .expect("bindgen should always support at least one edition") *)
            end
  end.

Definition default_target (T : table) : target := Stable (latest_minor T) 0.

(* ---- specification side: when did Rust stabilise each construct? ---- *)
Inductive since := SinceStable (minor : N) (min_edition : N) | NightlyOnly.

Definition spec_allows (spec : string -> option since) (f : string) (t : target) (e : N) : bool :=
  match spec f, t with
  | Some (SinceStable s me), Stable m _ => (s <=? m) && (me <=? e)
  | Some (SinceStable s me), Nightly => me <=? e
  | Some NightlyOnly, Nightly => true
  | Some NightlyOnly, Stable _ _ => false
  | None, _ => false
  end.

Definition eds_respect (me : N) (eds : list N) : bool :=
  match eds with [] => me =? 0 | _ => forallb (fun e => me <=? e) eds end.

(* a table row never enables a feature earlier / in an older edition than the spec *)
Definition feat_respects (spec : string -> option since) (row : option N) (fe : feat) : bool :=
  match spec (fst fe), row with
  | Some (SinceStable s me), Some m =>
      (s <=? m) && eds_respect me (snd fe)
  | Some (SinceStable s me), None => eds_respect me (snd fe)
  | Some NightlyOnly, None => true
  | Some NightlyOnly, Some _ => false
  | None, _ => false
  end.

Definition table_respects (spec : string -> option since) (T : table) : bool :=
  forallb (feat_respects spec None) (nightly_feats T)
  && forallb (fun r => forallb (feat_respects spec (Some (fst r))) (snd r)) (stable_rows T).

(* the editions table agrees with the releases that introduced each edition *)
Definition editions_respect (espec : N -> option N) (T : table) : bool :=
  forallb (fun p => match espec (fst p) with Some m => m <=? snd p | None => false end)
          (editions T).

(* well-formedness the generic theorems need *)
Definition table_wf (T : table) : bool :=
  negb (match editions T with [] => true | _ => false end)
  && negb (match stable_rows T with [] => true | _ => false end)
  && existsb (fun p => snd p <=? earliest_minor T) (editions T).
