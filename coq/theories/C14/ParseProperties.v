(* C14/Parse — property theorems of the `--rust-target` string model; statements only. *)
From Coq Require Import NArith List Bool String Ascii.
From BG Require Import C14.Model C14.Parse C14.ParseProofs.
Import ListNotations.
Open Scope N_scope.
Open Scope string_scope.

(* whatever is accepted is a supported release with u64 components *)
Theorem parse_in_range : forall T s m p,
  parse_target T s = Some (Stable m p) ->
  earliest_minor T <= m /\ m <= u64_max /\ p <= u64_max.
Proof. exact ParseProofs.parse_in_range. Qed.
Print Assumptions parse_in_range.

(* Display then FromStr is the identity on supported releases (and rejects unsupported ones) *)
Theorem parse_print : forall T m p, m <= u64_max -> p <= u64_max ->
  parse_target T (print_target (Stable m p)) = mk_stable T m p.
Proof. exact ParseProofs.parse_print. Qed.
Print Assumptions parse_print.

Theorem parse_print_nightly : forall T, parse_target T (print_target Nightly) = Some Nightly.
Proof. exact ParseProofs.parse_print_nightly. Qed.
Print Assumptions parse_print_nightly.

(* THE PRE-RELEASE RULE: `<v>-nightly` is accepted only as the maximally patched stable release
   just before <v>; no release compatible with <v> itself is compatible with it, so nothing
   stabilised in <v> is enabled (Model.enabled goes through is_compatible) *)
Theorem nightly_is_previous_release : forall T v t,
  has_char "-" v = false ->
  parse_target T (v ++ "-nightly") = Some t ->
  exists m p, t = Stable m u64_max /\ parse_target T v = Some (Stable (m + 1) p)
              /\ is_compatible t (Stable (m + 1) 0) = false.
Proof. exact ParseProofs.nightly_is_previous_release. Qed.
Print Assumptions nightly_is_previous_release.

(* the oldest supported release has no `-nightly` pre-release that is supported *)
Theorem nightly_of_earliest_rejected : forall T v p,
  has_char "-" v = false ->
  parse_target T v = Some (Stable (earliest_minor T) p) ->
  parse_target T (v ++ "-nightly") = None.
Proof. exact ParseProofs.nightly_of_earliest_rejected. Qed.
Print Assumptions nightly_of_earliest_rejected.

(* a beta is identified with the release it leads to *)
Theorem beta_is_release : forall T v,
  has_char "-" v = false -> v <> "nightly" ->
  parse_target T (v ++ "-beta") = parse_target T v.
Proof. exact ParseProofs.beta_is_release. Qed.
Print Assumptions beta_is_release.

(* any other pre-release tag, and any major version other than 1, is rejected *)
Theorem other_pre_release_rejected : forall T v pre,
  has_char "-" v = false -> pre_release_ok pre = false ->
  parse_target T (v ++ "-" ++ pre) = None.
Proof. exact ParseProofs.other_pre_release_rejected. Qed.
Print Assumptions other_pre_release_rejected.

Theorem other_major_rejected : forall T major rest,
  has_char "-" major = false -> has_char "." major = false -> major <> "1" ->
  has_char "-" rest = false ->
  parse_target T (major ++ "." ++ rest) = None.
Proof. exact ParseProofs.other_major_rejected. Qed.
Print Assumptions other_major_rejected.

(* non-vacuity on a three-row table (earliest 1.40) *)
Theorem parse_examples : exists T,
  earliest_minor T = 40 /\
  parse_target T "1.82.0-nightly" = Some (Stable 81 u64_max) /\
  parse_target T "1.82" = Some (Stable 82 0) /\
  parse_target T "1.82.1-beta.2" = Some (Stable 82 1) /\
  parse_target T "1.+77.007" = Some (Stable 77 7) /\
  parse_target T "1.40.0-nightly" = None /\
  parse_target T "1.39" = None /\
  parse_target T "1.0.0-nightly" = None /\
  parse_target T "1.82-" = Some (Stable 82 0) /\
  parse_target T "1.18446744073709551616" = None /\
  parse_target T "nightly" = Some Nightly.
Proof. exact ParseProofs.parse_examples. Qed.
Print Assumptions parse_examples.
