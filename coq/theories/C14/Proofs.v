From Coq Require Import NArith List Bool String Lia.
From BG Require Import C14.Model.
Import ListNotations.
Open Scope N_scope.

Lemma compat_mono m p m' p' b :
  m <= m' -> is_compatible (Stable m p) b = true -> is_compatible (Stable m' p') b = true.
Proof.
  intros Hle; destruct b as [bm bp|]; cbn [is_compatible]; intros H; [|discriminate].
  apply N.leb_le in H. apply N.leb_le. lia.
Qed.

Lemma compat_nightly t b : is_compatible t b = true -> is_compatible Nightly b = true.
Proof. reflexivity. Qed.

Lemma existsb_impl {A} (f g : A -> bool) l :
  (forall x, In x l -> f x = true -> g x = true) -> existsb f l = true -> existsb g l = true.
Proof.
  intros H Hex. apply existsb_exists in Hex as [x [Hin Hf]].
  apply existsb_exists. exists x. split; [assumption|]. apply H; assumption.
Qed.

Lemma monotone T e f m p m' p' :
  m <= m' -> enabled T (Stable m p) e f = true -> enabled T (Stable m' p') e f = true.
Proof.
  intros Hle. unfold enabled. cbn [is_compatible andb orb].
  apply existsb_impl. intros r _ Hr.
  apply andb_true_iff in Hr as [Hc Hrow]. apply andb_true_iff. split; [|assumption].
  apply N.leb_le in Hc. apply N.leb_le. lia.
Qed.

Lemma nightly_top T t e f : enabled T t e f = true -> enabled T Nightly e f = true.
Proof.
  unfold enabled. intros H. apply orb_true_iff in H as [H|H]; apply orb_true_iff.
  - left. apply andb_true_iff in H as [_ H]. cbn [is_compatible andb]. assumption.
  - right. revert H. apply existsb_impl. intros r _ Hr.
    apply andb_true_iff in Hr as [_ Hrow]. cbn [is_compatible andb]. assumption.
Qed.

(* enabled on a stable target comes from a row that is not newer than the target *)
Lemma enabled_stable_inv T m p e f :
  enabled T (Stable m p) e f = true ->
  exists r, In r (stable_rows T) /\ fst r <= m /\ row_enables (snd r) e f = true.
Proof.
  unfold enabled. cbn [is_compatible andb orb]. intros H.
  apply existsb_exists in H as [r [Hin Hr]]. apply andb_true_iff in Hr as [Hc Hrow].
  exists r. repeat split; try assumption. apply N.leb_le in Hc. assumption.
Qed.

Lemma enabled_nightly_inv T e f :
  enabled T Nightly e f = true ->
  row_enables (nightly_feats T) e f = true \/
  exists r, In r (stable_rows T) /\ row_enables (snd r) e f = true.
Proof.
  unfold enabled. cbn [is_compatible andb]. intros H.
  apply orb_true_iff in H as [H|H]; [left; assumption|right].
  apply existsb_exists in H as [r [Hin Hr]]. exists r. split; assumption.
Qed.

Lemma edition_ok_forall eds e me :
  eds_respect me eds = true ->
  edition_ok eds e = true -> me <= e.
Proof.
  unfold eds_respect. destruct eds as [|a eds'].
  - intros H _. apply N.eqb_eq in H. lia.
  - intros Hall Hok. unfold edition_ok in Hok.
    apply existsb_exists in Hok as [x [Hin Hx]]. apply N.eqb_eq in Hx. subst x.
    rewrite forallb_forall in Hall. specialize (Hall _ Hin). apply N.leb_le in Hall. assumption.
Qed.

Lemma row_respects spec row fs e f :
  forallb (feat_respects spec row) fs = true -> row_enables fs e f = true ->
  match spec f, row with
  | Some (SinceStable s me), Some m => s <= m /\ me <= e
  | Some (SinceStable s me), None => me <= e
  | Some NightlyOnly, None => True
  | _, _ => False
  end.
Proof.
  intros Hall Hen. unfold row_enables in Hen.
  apply existsb_exists in Hen as [fe [Hin Hfe]]. apply andb_true_iff in Hfe as [Hname Hed].
  apply String.eqb_eq in Hname. subst f.
  rewrite forallb_forall in Hall. specialize (Hall _ Hin). unfold feat_respects in Hall.
  destruct (spec (fst fe)) as [[s me|]|]; destruct row as [m|]; try discriminate; try exact I.
  - apply andb_true_iff in Hall as [Hs Hm]. apply N.leb_le in Hs. split; [assumption|].
    eapply edition_ok_forall; eassumption.
  - eapply edition_ok_forall; eassumption.
Qed.

Lemma not_too_early spec T t e f :
  table_respects spec T = true -> enabled T t e f = true -> spec_allows spec f t e = true.
Proof.
  unfold table_respects. intros Hwf Hen. apply andb_true_iff in Hwf as [Hn Hs].
  rewrite forallb_forall in Hs.
  destruct t as [m p|].
  - apply enabled_stable_inv in Hen as [r [Hin [Hle Hrow]]].
    specialize (Hs _ Hin). pose proof (row_respects _ _ _ _ _ Hs Hrow) as H.
    unfold spec_allows. destruct (spec f) as [[s me|]|]; try contradiction.
    destruct H as [H1 H2]. apply andb_true_iff. split; apply N.leb_le; lia.
  - apply enabled_nightly_inv in Hen as [Hrow|[r [Hin Hrow]]].
    + pose proof (row_respects _ _ _ _ _ Hn Hrow) as H.
      unfold spec_allows. destruct (spec f) as [[s me|]|]; try contradiction; [|reflexivity].
      apply N.leb_le. assumption.
    + specialize (Hs _ Hin). pose proof (row_respects _ _ _ _ _ Hs Hrow) as H.
      unfold spec_allows. destruct (spec f) as [[s me|]|]; try contradiction.
      destruct H as [_ H2]. apply N.leb_le. assumption.
Qed.

Lemma edition_monotone T e m p m' p' :
  m <= m' -> edition_available T e (Stable m p) = true -> edition_available T e (Stable m' p') = true.
Proof.
  intros Hle. unfold edition_available. destruct (edition_minor T e) as [em|]; [|discriminate].
  intros H. apply N.leb_le in H. apply N.leb_le. lia.
Qed.

Lemma edition_nightly T e : edition_available T e Nightly = true.
Proof. reflexivity. Qed.

Lemma edition_not_too_early espec T e m p :
  editions_respect espec T = true -> edition_available T e (Stable m p) = true ->
  exists r, espec e = Some r /\ r <= m.
Proof.
  unfold editions_respect, edition_available, edition_minor. intros Hall H.
  destruct (find (fun p0 => fst p0 =? e) (editions T)) as [[ev em]|] eqn:Hf; [|discriminate].
  cbn [option_map snd] in H. apply N.leb_le in H.
  apply find_some in Hf as [Hin Heq]. cbn [fst] in Heq. apply N.eqb_eq in Heq. subst ev.
  rewrite forallb_forall in Hall. specialize (Hall _ Hin). cbn [fst snd] in Hall.
  destruct (espec e) as [r|]; [|discriminate]. apply N.leb_le in Hall.
  exists r. split; [reflexivity|lia].
Qed.

Lemma generate_rejects_iff T t e :
  generate_features T t (Some e) = None <-> edition_available T e t = false.
Proof.
  cbn [generate_features]. destruct (edition_available T e t); split; intros H; try discriminate; reflexivity.
Qed.

Lemma generate_accepts T t e :
  edition_available T e t = true -> generate_features T t (Some e) = Some (features_new T t e).
Proof. cbn [generate_features]. intros ->. reflexivity. Qed.

(* find on the reversed list returns the LAST element of the list satisfying the test *)
Lemma find_rev_last {A} (P : A -> bool) l x :
  find P (rev l) = Some x ->
  exists l1 l2, l = l1 ++ x :: l2 /\ P x = true /\ forallb (fun y => negb (P y)) l2 = true.
Proof.
  induction l as [|a l IH] using rev_ind.
  - discriminate.
  - rewrite rev_app_distr. cbn [rev app find]. destruct (P a) eqn:Pa.
    + intros H. injection H as <-. exists l, []. repeat split; assumption || reflexivity.
    + intros H. apply IH in H as [l1 [l2 [-> [Px Hall]]]].
      exists l1, (l2 ++ [a]). rewrite <- app_assoc. cbn [app]. repeat split; try assumption.
      rewrite forallb_app. rewrite Hall. cbn [forallb]. rewrite Pa. reflexivity.
Qed.

Lemma latest_edition_is_last_available T t e :
  latest_edition T t = Some e ->
  edition_available T e t = true /\
  exists l1 m l2, editions T = l1 ++ (e, m) :: l2 /\
                  forallb (fun q => negb (edition_available T (fst q) t)) l2 = true.
Proof.
  unfold latest_edition. destruct (find _ (rev (editions T))) as [[e' m]|] eqn:Hf; [|discriminate].
  cbn [option_map fst]. intros H. injection H as <-.
  apply find_rev_last in Hf as [l1 [l2 [Heq [Hp Hall]]]]. cbn [fst] in Hp.
  split; [assumption|]. exists l1, m, l2. split; assumption.
Qed.

Lemma fold_max_ge (rows : list (N * list feat)) acc :
  acc <= fold_left (fun acc r => if acc <? fst r then fst r else acc) rows acc /\
  forall r, In r rows -> fst r <= fold_left (fun acc r => if acc <? fst r then fst r else acc) rows acc.
Proof.
  revert acc. induction rows as [|a rows IH]; intros acc; cbn [fold_left].
  - split; [lia|]. intros r [].
  - destruct (N.ltb_spec acc (fst a)) as [Hlt|Hge].
    + destruct (IH (fst a)) as [H1 H2]. split; [lia|]. intros r [<-|Hin]; [assumption|]. apply H2; assumption.
    + destruct (IH acc) as [H1 H2]. split; [assumption|]. intros r [<-|Hin]; [lia|]. apply H2; assumption.
Qed.

Lemma latest_minor_ge T r : In r (stable_rows T) -> fst r <= latest_minor T.
Proof. intros Hin. unfold latest_minor. apply (proj2 (fold_max_ge (stable_rows T) 0)). assumption. Qed.

Lemma fold_max_in (rows : list (N * list feat)) acc :
  let v := fold_left (fun acc r => if acc <? fst r then fst r else acc) rows acc in
  v = acc \/ exists r, In r rows /\ fst r = v.
Proof.
  revert acc. induction rows as [|a rows IH]; intros acc; cbn [fold_left]; [left; reflexivity|].
  destruct (N.ltb_spec acc (fst a)) as [Hlt|Hge].
  - destruct (IH (fst a)) as [H|[r [Hin Hr]]].
    + right. exists a. split; [left; reflexivity|]. cbn zeta in H. symmetry. exact H.
    + right. exists r. split; [right; assumption|assumption].
  - destruct (IH acc) as [H|[r [Hin Hr]]]; [left; assumption|].
    right. exists r. split; [right; assumption|assumption].
Qed.

Lemma latest_minor_attained T :
  stable_rows T <> [] -> exists r, In r (stable_rows T) /\ fst r = latest_minor T.
Proof.
  intros Hne. unfold latest_minor. destruct (fold_max_in (stable_rows T) 0) as [H|H]; [|assumption].
  cbn zeta in H. destruct (stable_rows T) as [|a rows] eqn:E; [contradiction|].
  exists a. split; [left; reflexivity|].
  pose proof (proj2 (fold_max_ge (a :: rows) 0) a (or_introl eq_refl)) as Hle. lia.
Qed.

(* with no target given every stable construct of the table is enabled (subject to its edition) *)
Lemma default_enables_all_stable T r e f :
  In r (stable_rows T) -> row_enables (snd r) e f = true ->
  enabled T (default_target T) e f = true.
Proof.
  intros Hin Hrow. unfold enabled, default_target. cbn [is_compatible andb orb].
  apply existsb_exists. exists r. split; [assumption|]. apply andb_true_iff. split; [|assumption].
  apply N.leb_le. apply latest_minor_ge. assumption.
Qed.

Lemma features_new_spec T t e f b :
  In (f, b) (features_new T t e) -> b = enabled T t e f.
Proof.
  unfold features_new. intros H. apply in_map_iff in H as [x [Heq _]]. injection Heq as -> <-. reflexivity.
Qed.
