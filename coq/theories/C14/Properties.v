(* C14 — property theorems: generic over any feature table, then instantiated
   with the table regenerated from /repo/bindgen/features.rs (BGgen.C14_Table). *)
From Coq Require Import NArith List Bool String.
From BG Require Import C14.Model C14.Spec C14.Proofs.
From BGgen Require Import C14_Table.
Import ListNotations.
Open Scope N_scope.

(* every construct a target enables is enabled by all later targets ... *)
Theorem monotone : forall T e f m p m' p',
  m <= m' -> enabled T (Stable m p) e f = true -> enabled T (Stable m' p') e f = true.
Proof. exact Proofs.monotone. Qed.
Print Assumptions monotone.

(* ... and by nightly *)
Theorem nightly_top : forall T t e f,
  enabled T t e f = true -> enabled T Nightly e f = true.
Proof. exact Proofs.nightly_top. Qed.
Print Assumptions nightly_top.

(* no construct is enabled for a target/edition older than its stabilisation *)
Theorem not_too_early : forall spec T t e f,
  table_respects spec T = true -> enabled T t e f = true -> spec_allows spec f t e = true.
Proof. exact Proofs.not_too_early. Qed.
Print Assumptions not_too_early.

Theorem edition_monotone : forall T e m p m' p',
  m <= m' -> edition_available T e (Stable m p) = true ->
  edition_available T e (Stable m' p') = true.
Proof. exact Proofs.edition_monotone. Qed.
Print Assumptions edition_monotone.

Theorem edition_not_too_early : forall espec T e m p,
  editions_respect espec T = true -> edition_available T e (Stable m p) = true ->
  exists r, espec e = Some r /\ r <= m.
Proof. exact Proofs.edition_not_too_early. Qed.
Print Assumptions edition_not_too_early.

(* an edition the target does not support is rejected, and only then *)
Theorem generate_rejects_iff : forall T t e,
  generate_features T t (Some e) = None <-> edition_available T e t = false.
Proof. exact Proofs.generate_rejects_iff. Qed.
Print Assumptions generate_rejects_iff.

(* with no edition given the newest edition the target supports is assumed *)
Theorem latest_edition_is_last_available : forall T t e,
  latest_edition T t = Some e ->
  edition_available T e t = true /\
  exists l1 m l2, editions T = app l1 ((e, m) :: l2) /\
                  forallb (fun q => negb (edition_available T (fst q) t)) l2 = true.
Proof. exact Proofs.latest_edition_is_last_available. Qed.
Print Assumptions latest_edition_is_last_available.

(* with no target given the newest known stable release is assumed *)
Theorem default_is_latest : forall T,
  (forall r, In r (stable_rows T) -> fst r <= latest_minor T) /\
  (stable_rows T <> [] -> exists r, In r (stable_rows T) /\ fst r = latest_minor T) /\
  (forall r e f, In r (stable_rows T) -> row_enables (snd r) e f = true ->
                 enabled T (default_target T) e f = true).
Proof.
  exact (fun T => conj (Proofs.latest_minor_ge T)
                  (conj (Proofs.latest_minor_attained T) (Proofs.default_enables_all_stable T))).
Qed.
Print Assumptions default_is_latest.

(* ---- the table bindgen ships today (regenerated on every run) ---- *)

Theorem shipped_table_ok :
  table_respects stabilised_in T = true /\
  editions_respect edition_released_in T = true /\
  table_wf T = true.
Proof. vm_compute. repeat split; reflexivity. Qed.
Print Assumptions shipped_table_ok.

Theorem bindgen_not_too_early : forall t e f,
  enabled T t e f = true -> spec_allows stabilised_in f t e = true.
Proof. exact (fun t e f => Proofs.not_too_early stabilised_in T t e f (proj1 shipped_table_ok)). Qed.
Print Assumptions bindgen_not_too_early.

Theorem bindgen_edition_not_too_early : forall e m p,
  edition_available T e (Stable m p) = true ->
  exists r, edition_released_in e = Some r /\ r <= m.
Proof.
  exact (fun e m p => Proofs.edition_not_too_early edition_released_in T e m p
                        (proj1 (proj2 shipped_table_ok))).
Qed.
Print Assumptions bindgen_edition_not_too_early.

(* non-vacuity: the hypotheses are met by concrete, non-trivial instances *)
Example monotone_nonvacuous :
  enabled T (Stable 77 0) 2021 "literal_cstr" = true /\
  enabled T (Stable 77 0) 2018 "literal_cstr" = false /\
  enabled T (Stable 76 9) 2021 "offset_of" = false /\
  enabled T Nightly 2018 "ptr_metadata" = true /\
  generate_features T (Stable 80 0) (Some 2024) = None /\
  latest_edition T (Stable 84 0) = Some 2021 /\
  default_target T = Stable 82 0.
Proof. vm_compute. repeat split; reflexivity. Qed.
