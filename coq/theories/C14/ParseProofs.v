(* C14/Parse — proofs of the property theorems of the `--rust-target` string model. *)
From Coq Require Import NArith List Bool String Ascii Decimal DecimalString DecimalN DecimalFacts Lia.
From BG Require Import C14.Model C14.Parse.
Import ListNotations.
Open Scope N_scope.
Open Scope string_scope.

(* ---------- strings ---------- *)

Lemma has_char_app : forall c a b, has_char c (a ++ b) = has_char c a || has_char c b.
Proof.
  induction a as [|x a IH]; intros b; cbn [append has_char]; [reflexivity|].
  rewrite IH, orb_assoc. reflexivity.
Qed.

Lemma split_once_app : forall c v r,
  has_char c v = false -> split_once c (v ++ String c r) = Some (v, r).
Proof.
  induction v as [|x v IH]; intros r H; cbn [append split_once].
  - rewrite Ascii.eqb_refl. reflexivity.
  - cbn [has_char] in H. apply orb_false_iff in H. destruct H as [Hx Hv].
    rewrite Hx, (IH r Hv). reflexivity.
Qed.

Lemma split_once_none : forall c s, has_char c s = false -> split_once c s = None.
Proof.
  induction s as [|x s IH]; intros H; cbn [split_once]; [reflexivity|].
  cbn [has_char] in H. apply orb_false_iff in H. destruct H as [Hx Hs].
  rewrite Hx, (IH Hs). reflexivity.
Qed.

Lemma split_once_some : forall c s x y,
  split_once c s = Some (x, y) -> s = x ++ String c y /\ has_char c x = false.
Proof.
  induction s as [|a s IH]; intros x y H; cbn [split_once] in H; [discriminate|].
  destruct (Ascii.eqb a c) eqn:E.
  - apply Ascii.eqb_eq in E. inversion H; subst. split; reflexivity.
  - destruct (split_once c s) as [[x' y']|] eqn:E'; [|discriminate].
    inversion H; subst. destruct (IH x' y eq_refl) as [-> Hx].
    split; [reflexivity|]. cbn [has_char]. rewrite E, Hx. reflexivity.
Qed.

Lemma has_char_neq : forall c a b, has_char c a = true -> has_char c b = false -> String.eqb a b = false.
Proof.
  intros c a b Ha Hb. apply String.eqb_neq. intros ->. congruence.
Qed.

(* ---------- decimal numerals ---------- *)

Lemma digits_no_char : forall c d,
  (forall x, In x ["0";"1";"2";"3";"4";"5";"6";"7";"8";"9"]%char -> Ascii.eqb x c = false) ->
  has_char c (NilEmpty.string_of_uint d) = false.
Proof.
  intros c d H. induction d; cbn [NilEmpty.string_of_uint has_char]; [reflexivity|..];
    rewrite IHd, orb_false_r; apply H; cbn; tauto.
Qed.

Lemma all_digits_neq : forall c,
  Ascii.eqb "0" c = false -> Ascii.eqb "1" c = false -> Ascii.eqb "2" c = false ->
  Ascii.eqb "3" c = false -> Ascii.eqb "4" c = false -> Ascii.eqb "5" c = false ->
  Ascii.eqb "6" c = false -> Ascii.eqb "7" c = false -> Ascii.eqb "8" c = false ->
  Ascii.eqb "9" c = false ->
  forall x, In x ["0";"1";"2";"3";"4";"5";"6";"7";"8";"9"]%char -> Ascii.eqb x c = false.
Proof.
  intros c H0 H1 H2 H3 H4 H5 H6 H7 H8 H9 x Hx. cbn in Hx.
  repeat (destruct Hx as [<-|Hx]; [assumption|]). contradiction.
Qed.

Lemma dec_no_dot : forall n, has_char "." (dec n) = false.
Proof. intros n. apply digits_no_char. apply all_digits_neq; reflexivity. Qed.
Lemma dec_no_dash : forall n, has_char "-" (dec n) = false.
Proof. intros n. apply digits_no_char. apply all_digits_neq; reflexivity. Qed.
Lemma dec_no_plus : forall n, has_char "+" (dec n) = false.
Proof. intros n. apply digits_no_char. apply all_digits_neq; reflexivity. Qed.

Lemma dec_nonempty : forall n, dec n <> "".
Proof.
  intros n H. unfold dec in H.
  assert (N.to_uint n = Nil) as E by (destruct (N.to_uint n); cbn in H; try discriminate; reflexivity).
  pose proof (Unsigned.of_to n) as Hn. rewrite E in Hn. cbn in Hn. subst n. discriminate E.
Qed.

Lemma plus_body : forall a r,
  match String a r with String "+" r' => r' | _ => String a r end
  = if Ascii.eqb a "+" then r else String a r.
Proof.
  intros [[] [] [] [] [] [] [] []] r; reflexivity.
Qed.

Lemma parse_u64_le : forall s n, parse_u64 s = Some n -> n <= u64_max.
Proof.
  intros s n. unfold parse_u64.
  generalize (match s with String "+" r => r | _ => s end). intros body.
  destruct body as [|a r]; [discriminate|].
  destruct (NilEmpty.uint_of_string (String a r)) as [d|]; [|discriminate].
  cbv zeta. destruct (N.leb (N.of_uint d) u64_max) eqn:E; [|discriminate].
  intros H. inversion H; subst. apply N.leb_le. exact E.
Qed.

Lemma parse_u64_dec : forall n, n <= u64_max -> parse_u64 (dec n) = Some n.
Proof.
  intros n Hn. pose proof (dec_nonempty n) as Hne. pose proof (dec_no_plus n) as Hp.
  unfold parse_u64.
  assert (NilEmpty.uint_of_string (dec n) = Some (N.to_uint n)) as Hu by apply NilEmpty.usu.
  destruct (dec n) as [|a r] eqn:E; [congruence|].
  rewrite plus_body. cbn [has_char] in Hp. apply orb_false_iff in Hp. destruct Hp as [Ha _].
  rewrite Ha, Hu. cbv zeta. rewrite Unsigned.of_to.
  apply N.leb_le in Hn. rewrite Hn. reflexivity.
Qed.

Lemma parse_version_dec : forall m p, m <= u64_max -> p <= u64_max ->
  parse_version (dec m ++ "." ++ dec p) = Some (m, p).
Proof.
  intros m p Hm Hp. unfold parse_version.
  change (dec m ++ "." ++ dec p) with (dec m ++ String "." (dec p)).
  rewrite (split_once_app "." (dec m) (dec p) (dec_no_dot m)).
  rewrite (parse_u64_dec m Hm), (parse_u64_dec p Hp). reflexivity.
Qed.

Lemma parse_version_le : forall tail m p, parse_version tail = Some (m, p) ->
  m <= u64_max /\ p <= u64_max.
Proof.
  intros tail m p. unfold parse_version.
  destruct (split_once "." tail) as [[mi pa]|].
  - destruct (parse_u64 mi) as [m'|] eqn:E1; [|discriminate].
    destruct (parse_u64 pa) as [p'|] eqn:E2; [|discriminate].
    intros H; inversion H; subst. split; eapply parse_u64_le; eassumption.
  - destruct (parse_u64 tail) as [m'|] eqn:E1; [|discriminate].
    intros H; inversion H; subst. split; [eapply parse_u64_le; eassumption|].
    unfold u64_max. lia.
Qed.

Lemma mk_stable_some : forall T m p t, mk_stable T m p = Some t ->
  t = Stable m p /\ earliest_minor T <= m.
Proof.
  intros T m p t. unfold mk_stable. destruct (N.ltb m (earliest_minor T)) eqn:E; [discriminate|].
  intros H; inversion H; subst. split; [reflexivity|]. apply N.ltb_ge. exact E.
Qed.

(* ---------- the shape of parse_target on strings without / with one '-' ---------- *)

Definition core (T : table) (v pre : string) : option target :=
  if negb (pre_release_ok pre) then None else
  match split_once "." v with
  | None => None
  | Some (major, tail) =>
      if negb (String.eqb major "1") then None else
      match parse_version tail with
      | None => None
      | Some (m, p) =>
          if String.eqb pre "nightly"
          then (if N.eqb m 0 then None else mk_stable T (N.sub m 1) u64_max)
          else mk_stable T m p
      end
  end.

Lemma parse_target_nodash : forall T v,
  has_char "-" v = false -> String.eqb v "nightly" = false ->
  parse_target T v = core T v "".
Proof.
  intros T v Hd Hn. unfold parse_target, core.
  rewrite Hn, (split_once_none "-" v Hd). reflexivity.
Qed.

Lemma parse_target_dash : forall T v pre,
  has_char "-" v = false ->
  parse_target T (v ++ "-" ++ pre) = core T v pre.
Proof.
  intros T v pre Hd. unfold parse_target, core.
  change (v ++ "-" ++ pre) with (v ++ String "-" pre).
  assert (String.eqb (v ++ String "-" pre) "nightly" = false) as Hn.
  { apply (has_char_neq "-"); [|reflexivity].
    rewrite has_char_app. cbn [has_char]. rewrite Ascii.eqb_refl, orb_true_r. reflexivity. }
  rewrite Hn, (split_once_app "-" v pre Hd). reflexivity.
Qed.

Lemma core_some : forall T v pre t, core T v pre = Some t ->
  exists tail m p,
    pre_release_ok pre = true /\
    split_once "." v = Some ("1", tail) /\ parse_version tail = Some (m, p) /\
    (if String.eqb pre "nightly"
     then (if N.eqb m 0 then None else mk_stable T (N.sub m 1) u64_max)
     else mk_stable T m p) = Some t.
Proof.
  intros T v pre t. unfold core.
  destruct (pre_release_ok pre); [|discriminate]. cbn [negb].
  destruct (split_once "." v) as [[major tail]|]; [|discriminate].
  destruct (String.eqb major "1") eqn:E1; [|discriminate]. cbn [negb].
  apply String.eqb_eq in E1. subst major.
  destruct (parse_version tail) as [[m p]|] eqn:E2; [|discriminate].
  intros H. exists tail, m, p. repeat split; assumption.
Qed.

Lemma not_nightly_of_dot : forall v x, split_once "." v = Some x -> String.eqb v "nightly" = false.
Proof.
  intros v x H. apply String.eqb_neq. intros ->. vm_compute in H. discriminate.
Qed.

(* ---------- the theorems ---------- *)

Theorem parse_in_range : forall T s m p,
  parse_target T s = Some (Stable m p) ->
  earliest_minor T <= m /\ m <= u64_max /\ p <= u64_max.
Proof.
  intros T s m p. unfold parse_target.
  destruct (String.eqb s "nightly"); [discriminate|].
  generalize (match split_once "-" s with Some p => p | None => (s, "") end). intros vp.
  destruct (negb (pre_release_ok (snd vp))); [discriminate|].
  destruct (split_once "." (fst vp)) as [[major tail]|]; [|discriminate].
  destruct (negb (String.eqb major "1")); [discriminate|].
  destruct (parse_version tail) as [[m' p']|] eqn:E; [|discriminate].
  apply parse_version_le in E. destruct E as [Hm Hp].
  destruct (String.eqb (snd vp) "nightly").
  - destruct (N.eqb m' 0) eqn:E0; [discriminate|]. intros H.
    apply mk_stable_some in H. destruct H as [H He]. inversion H; subst.
    repeat split; try assumption; unfold u64_max in *; lia.
  - intros H. apply mk_stable_some in H. destruct H as [H He]. inversion H; subst.
    repeat split; assumption.
Qed.

Theorem parse_print : forall T m p, m <= u64_max -> p <= u64_max ->
  parse_target T (print_target (Stable m p)) = mk_stable T m p.
Proof.
  intros T m p Hm Hp. cbn [print_target].
  rewrite parse_target_nodash.
  - unfold core. change (pre_release_ok "") with true. cbn [negb].
    change ("1." ++ dec m ++ "." ++ dec p) with (String "1" (String "." (dec m ++ "." ++ dec p))).
    cbn [split_once]. change (Ascii.eqb "1" ".") with false. change (Ascii.eqb "." ".") with true.
    cbv iota. change (String.eqb "1" "1") with true. cbn [negb].
    rewrite (parse_version_dec m p Hm Hp). change (String.eqb "" "nightly") with false.
    reflexivity.
  - change ("1." ++ dec m ++ "." ++ dec p) with (String "1" (String "." (dec m ++ String "." (dec p)))).
    cbn [has_char]. rewrite has_char_app. cbn [has_char].
    rewrite dec_no_dash, dec_no_dash. reflexivity.
  - reflexivity.
Qed.

Theorem parse_print_nightly : forall T, parse_target T (print_target Nightly) = Some Nightly.
Proof. intros T. reflexivity. Qed.

Theorem nightly_is_previous_release : forall T v t,
  has_char "-" v = false ->
  parse_target T (v ++ "-nightly") = Some t ->
  exists m p, t = Stable m u64_max /\ parse_target T v = Some (Stable (m + 1) p)
              /\ is_compatible t (Stable (m + 1) 0) = false.
Proof.
  intros T v t Hd H.
  change (v ++ "-nightly") with (v ++ "-" ++ "nightly") in H.
  rewrite (parse_target_dash T v "nightly" Hd) in H.
  apply core_some in H. destruct H as (tail & m' & p & _ & Hs & Hv & H).
  change (String.eqb "nightly" "nightly") with true in H. cbv iota in H.
  destruct (N.eqb m' 0) eqn:E0; [discriminate|]. apply N.eqb_neq in E0.
  apply mk_stable_some in H. destruct H as [-> He].
  exists (m' - 1), p. split; [reflexivity|].
  replace (m' - 1 + 1) with m' by lia. split.
  - rewrite (parse_target_nodash T v Hd (not_nightly_of_dot _ _ Hs)).
    unfold core. change (pre_release_ok "") with true. cbn [negb].
    rewrite Hs. change (String.eqb "1" "1") with true. cbn [negb]. rewrite Hv.
    change (String.eqb "" "nightly") with false. cbv iota.
    unfold mk_stable. replace (N.ltb m' (earliest_minor T)) with false; [reflexivity|].
    symmetry. apply N.ltb_ge. lia.
  - cbn [is_compatible]. apply N.leb_gt. lia.
Qed.

Theorem nightly_of_earliest_rejected : forall T v p,
  has_char "-" v = false ->
  parse_target T v = Some (Stable (earliest_minor T) p) ->
  parse_target T (v ++ "-nightly") = None.
Proof.
  intros T v p Hd H.
  assert (String.eqb v "nightly" = false) as Hn.
  { apply String.eqb_neq. intros ->. cbn in H. discriminate. }
  rewrite (parse_target_nodash T v Hd Hn) in H.
  apply core_some in H. destruct H as (tail & m & p' & _ & Hs & Hv & H).
  change (String.eqb "" "nightly") with false in H. cbv iota in H.
  apply mk_stable_some in H. destruct H as [H _]. inversion H; subst m p'.
  change (v ++ "-nightly") with (v ++ "-" ++ "nightly").
  rewrite (parse_target_dash T v "nightly" Hd). unfold core.
  change (pre_release_ok "nightly") with true. cbn [negb].
  rewrite Hs. change (String.eqb "1" "1") with true. cbn [negb]. rewrite Hv.
  change (String.eqb "nightly" "nightly") with true. cbv iota.
  destruct (N.eqb (earliest_minor T) 0) eqn:E0; [reflexivity|]. apply N.eqb_neq in E0.
  unfold mk_stable. replace (N.ltb (earliest_minor T - 1) (earliest_minor T)) with true; [reflexivity|].
  symmetry. apply N.ltb_lt. lia.
Qed.

Theorem beta_is_release : forall T v,
  has_char "-" v = false -> v <> "nightly" ->
  parse_target T (v ++ "-beta") = parse_target T v.
Proof.
  intros T v Hd Hn. apply String.eqb_neq in Hn.
  change (v ++ "-beta") with (v ++ "-" ++ "beta").
  rewrite (parse_target_dash T v "beta" Hd), (parse_target_nodash T v Hd Hn).
  reflexivity.
Qed.

Theorem other_pre_release_rejected : forall T v pre,
  has_char "-" v = false -> pre_release_ok pre = false ->
  parse_target T (v ++ "-" ++ pre) = None.
Proof.
  intros T v pre Hd Hp. rewrite (parse_target_dash T v pre Hd). unfold core.
  rewrite Hp. reflexivity.
Qed.

Theorem other_major_rejected : forall T major rest,
  has_char "-" major = false -> has_char "." major = false -> major <> "1" ->
  has_char "-" rest = false ->
  parse_target T (major ++ "." ++ rest) = None.
Proof.
  intros T major rest Hd Hdot Hne Hr.
  change (major ++ "." ++ rest) with (major ++ String "." rest).
  rewrite parse_target_nodash.
  - unfold core. change (pre_release_ok "") with true. cbn [negb].
    rewrite (split_once_app "." major rest Hdot).
    apply String.eqb_neq in Hne. rewrite Hne. reflexivity.
  - rewrite has_char_app. cbn [has_char]. rewrite Hd, Hr. reflexivity.
  - apply (has_char_neq "."); [|reflexivity].
    rewrite has_char_app. cbn [has_char]. rewrite Ascii.eqb_refl, orb_true_r. reflexivity.
Qed.

Theorem parse_examples : exists T,
  earliest_minor T = 40 /\
  parse_target T "1.82.0-nightly" = Some (Stable 81 u64_max) /\
  parse_target T "1.82" = Some (Stable 82 0) /\
  parse_target T "1.82.1-beta.2" = Some (Stable 82 1) /\
  parse_target T "1.+77.007" = Some (Stable 77 7) /\
  parse_target T "1.40.0-nightly" = None /\
  parse_target T "1.39" = None /\
  parse_target T "1.0.0-nightly" = None /\
  parse_target T "1.82-" = Some (Stable 82 0) /\
  parse_target T "1.18446744073709551616" = None /\
  parse_target T "nightly" = Some Nightly.
Proof.
  exists {| editions := [(2018, 31); (2021, 56)]; nightly_feats := [];
            stable_rows := [(82, []); (77, []); (40, [])] |}.
  vm_compute. repeat split; reflexivity.
Qed.

Print Assumptions parse_in_range.
Print Assumptions parse_print.
Print Assumptions parse_print_nightly.
Print Assumptions nightly_is_previous_release.
Print Assumptions nightly_of_earliest_rejected.
Print Assumptions beta_is_release.
Print Assumptions other_pre_release_rejected.
Print Assumptions other_major_rejected.
Print Assumptions parse_examples.
