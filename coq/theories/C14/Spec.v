(* C14 — the specification side, written from the Rust release notes, NOT from
   bindgen: which stable release (and which edition) first accepts each gated
   construct.  Hand-maintained; a feature the table gains without an entry here
   fails the regenerated obligation (it is then not shown to be safe). *)
From Coq Require Import NArith List Bool String.
From BG Require Import C14.Model.
Open Scope N_scope.
Open Scope string_scope.

Definition stabilised_in (f : string) : option since :=
  if String.eqb f "unsafe_extern_blocks" then Some (SinceStable 82 0)   (* Rust 1.82 *)
  else if String.eqb f "offset_of" then Some (SinceStable 77 0)         (* core::mem::offset_of!, 1.77 *)
  else if String.eqb f "literal_cstr" then Some (SinceStable 77 2021)   (* c"..." literals: 1.77, edition >= 2021 *)
  else if String.eqb f "thiscall_abi" then Some (SinceStable 73 0)      (* extern "thiscall", 1.73 *)
  else if String.eqb f "c_unwind_abi" then Some (SinceStable 71 0)      (* extern "C-unwind", 1.71 *)
  else if String.eqb f "abi_efiapi" then Some (SinceStable 68 0)        (* extern "efiapi", 1.68 *)
  else if String.eqb f "core_ffi_c" then Some (SinceStable 64 0)        (* core::ffi::c_int &c, 1.64 *)
  else if String.eqb f "const_cstr" then Some (SinceStable 59 0)        (* const CStr::from_bytes_with_nul_unchecked, 1.59 *)
  (* library items the generated text may name (not rows of bindgen's table; used by the CLI token scan) *)
  else if String.eqb f "lib_core_ffi_cstr" then Some (SinceStable 64 0) (* core::ffi::CStr, 1.64 (std::ffi::CStr: 1.0) *)
  else if String.eqb f "vectorcall_abi" then Some NightlyOnly
  else if String.eqb f "ptr_metadata" then Some NightlyOnly
  else if String.eqb f "layout_for_ptr" then Some NightlyOnly
  else None.

Definition edition_released_in (e : N) : option N :=
  if N.eqb e 2015 then Some 0
  else if N.eqb e 2018 then Some 31
  else if N.eqb e 2021 then Some 56
  else if N.eqb e 2024 then Some 85
  else None.
