(* C06 — which layout assertions accompany a composite / a template instantiation
   (the layout_tests block of `impl CodeGenerator for CompInfo` and
   `impl CodeGenerator for TemplateInstantiation` in bindgen/codegen/mod.rs).
   Definitions only.  Names are identified by numbers (field index). *)
From Coq Require Import NArith List Bool.
Import ListNotations.
Open Scope N_scope.

Inductive assertion := ASize (n : N) | AAlign (n : N) | AOffset (field : N) (bytes : N).

Record cfield := {
  f_id : N;                 (* identity of the member *)
  f_named : bool;           (* field.name() is Some *)
  f_bitfield : bool;        (* lives in a bit-field allocation unit (Field::Bitfields) *)
  f_offset_bits : option N  (* field.offset() *)
}.

Record comp := {
  c_forward_decl : bool;
  c_has_template_params : bool;  (* !all_template_params.is_empty() *)
  c_opaque : bool;
  c_layout : option (N * N);     (* ty.layout(ctx): size, align *)
  c_fields : list cfield
}.

Definition field_assertions (c : comp) : list assertion :=
  flat_map (fun f =>
              if negb (f_bitfield f) && f_named f then
                match f_offset_bits f with
                | Some o => [AOffset (f_id f) (o / 8)]
                | None => []
                end
              else []) (c_fields c).

Definition comp_assertions (layout_tests : bool) (c : comp) : list assertion :=
  if c_has_template_params c then []
  else if layout_tests && negb (c_forward_decl c) then
    match c_layout c with
    | Some (s, a) => [ASize s; AAlign a] ++ (if c_opaque c then [] else field_assertions c)
    | None => []
    end
  else [].

Record inst := {
  i_opaque : bool;
  i_uses_template_params : bool;  (* ctx.uses_any_template_parameters(item) *)
  i_layout : option (N * N)
}.

Definition inst_assertions (layout_tests : bool) (i : inst) : list assertion :=
  if negb layout_tests || i_opaque i then []
  else if i_uses_template_params i then []
  else match i_layout i with Some (s, a) => [ASize s; AAlign a] | None => [] end.

(* the property's side: a concrete composite with a known layout *)
Definition concrete (c : comp) : bool :=
  negb (c_forward_decl c) && negb (c_has_template_params c).
