From Coq Require Import NArith List Bool.
From BG Require Import C06.Model.
Import ListNotations.
Open Scope N_scope.

Lemma complete c s a :
  concrete c = true -> c_layout c = Some (s, a) ->
  In (ASize s) (comp_assertions true c) /\ In (AAlign a) (comp_assertions true c) /\
  (c_opaque c = false ->
   forall f o, In f (c_fields c) -> f_named f = true -> f_bitfield f = false -> f_offset_bits f = Some o ->
               In (AOffset (f_id f) (o / 8)) (comp_assertions true c)).
Proof.
  intros Hc Hl. unfold concrete in Hc. apply andb_true_iff in Hc as [Hf Ht].
  apply negb_true_iff in Hf. apply negb_true_iff in Ht.
  unfold comp_assertions. rewrite Ht, Hf, Hl. cbn [andb negb].
  split; [left; reflexivity|]. split; [right; left; reflexivity|].
  intros Ho f o Hin Hn Hb Hoff. rewrite Ho. right. right.
  unfold field_assertions. apply in_flat_map. exists f. split; [exact Hin|].
  rewrite Hb, Hn, Hoff. cbn [negb andb]. left. reflexivity.
Qed.

Lemma sound c x :
  In x (comp_assertions true c) ->
  concrete c = true /\
  exists s a, c_layout c = Some (s, a) /\
    (x = ASize s \/ x = AAlign a \/
     exists f o, In f (c_fields c) /\ f_named f = true /\ f_bitfield f = false /\
                 f_offset_bits f = Some o /\ x = AOffset (f_id f) (o / 8)).
Proof.
  unfold comp_assertions, concrete. destruct (c_has_template_params c); [intros []|].
  destruct (c_forward_decl c); cbn [andb negb]; [intros []|].
  destruct (c_layout c) as [[s a]|]; [|intros []].
  intros Hin. split; [reflexivity|]. exists s, a. split; [reflexivity|].
  destruct Hin as [<-|[<-|Hin]]; [left; reflexivity|right; left; reflexivity|].
  right. right. destruct (c_opaque c); [destruct Hin|].
  unfold field_assertions in Hin. apply in_flat_map in Hin as [f [Hf Hx]].
  destruct (f_bitfield f) eqn:Hb; cbn [negb andb] in Hx; [destruct Hx|].
  destruct (f_named f) eqn:Hn; [|destruct Hx].
  destruct (f_offset_bits f) as [o|] eqn:Ho; [|destruct Hx].
  destruct Hx as [<-|[]]. exists f, o. repeat split; assumption.
Qed.

Lemma off_means_none c : comp_assertions false c = [].
Proof. unfold comp_assertions. destruct (c_has_template_params c); reflexivity. Qed.

Lemma inst_complete i s a :
  i_opaque i = false -> i_uses_template_params i = false -> i_layout i = Some (s, a) ->
  inst_assertions true i = [ASize s; AAlign a].
Proof. intros Ho Hu Hl. unfold inst_assertions. rewrite Ho, Hu, Hl. reflexivity. Qed.

Lemma inst_off i : inst_assertions false i = [].
Proof. reflexivity. Qed.
