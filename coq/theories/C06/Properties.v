(* C06 — property theorems. *)
From Coq Require Import NArith List Bool.
From BG Require Import C06.Model C06.Proofs.
Import ListNotations.
Open Scope N_scope.

(* every concrete composite with a known layout is accompanied by its size, its alignment and
   the offset of every named non-bit-field member (unless it is emitted as an opaque blob) *)
Theorem complete : forall c s a,
  concrete c = true -> c_layout c = Some (s, a) ->
  In (ASize s) (comp_assertions true c) /\ In (AAlign a) (comp_assertions true c) /\
  (c_opaque c = false ->
   forall f o, In f (c_fields c) -> f_named f = true -> f_bitfield f = false -> f_offset_bits f = Some o ->
               In (AOffset (f_id f) (o / 8)) (comp_assertions true c)).
Proof. exact Proofs.complete. Qed.
Print Assumptions complete.

(* nothing else is asserted: every assertion states one of those numbers *)
Theorem sound : forall c x,
  In x (comp_assertions true c) ->
  concrete c = true /\
  exists s a, c_layout c = Some (s, a) /\
    (x = ASize s \/ x = AAlign a \/
     exists f o, In f (c_fields c) /\ f_named f = true /\ f_bitfield f = false /\
                 f_offset_bits f = Some o /\ x = AOffset (f_id f) (o / 8)).
Proof. exact Proofs.sound. Qed.
Print Assumptions sound.

(* with layout tests disabled no assertion is emitted *)
Theorem off_means_none : forall c i, comp_assertions false c = [] /\ inst_assertions false i = [].
Proof. exact (fun c i => conj (Proofs.off_means_none c) (Proofs.inst_off i)). Qed.
Print Assumptions off_means_none.

(* every template instantiation with concrete arguments gets a size and an alignment assertion *)
Theorem instantiation_complete : forall i s a,
  i_opaque i = false -> i_uses_template_params i = false -> i_layout i = Some (s, a) ->
  inst_assertions true i = [ASize s; AAlign a].
Proof. exact Proofs.inst_complete. Qed.
Print Assumptions instantiation_complete.

Example complete_nonvacuous :
  comp_assertions true {| c_forward_decl := false; c_has_template_params := false; c_opaque := false; c_layout := Some (16, 8);
     c_fields := [ {| f_id := 0; f_named := true; f_bitfield := false; f_offset_bits := Some 0 |};
                   {| f_id := 1; f_named := true; f_bitfield := true; f_offset_bits := Some 32 |};
                   {| f_id := 2; f_named := false; f_bitfield := false; f_offset_bits := Some 64 |};
                   {| f_id := 3; f_named := true; f_bitfield := false; f_offset_bits := Some 64 |} ] |}
  = [ASize 16; AAlign 8; AOffset 0 0; AOffset 3 8].
Proof. reflexivity. Qed.
