(* C09 — proofs for the allowlist traversal model. *)
From Coq Require Import NArith List Bool Lia Permutation.
From BG Require Import C07.Model C09.Model.
Import ListNotations.
Open Scope N_scope.

(* ---------- membership / dedup ---------- *)
Lemma mem_In : forall n l, mem n l = true <-> In n l.
Proof.
  intros n l. unfold mem. rewrite existsb_exists. split.
  - intros [x [Hin Heq]]. apply N.eqb_eq in Heq. subst x. exact Hin.
  - intros Hin. exists n. split; [exact Hin | apply N.eqb_refl].
Qed.

Lemma mem_false_not_In : forall n l, mem n l = false -> ~ In n l.
Proof.
  intros n l Hm Hin. apply mem_In in Hin. rewrite Hin in Hm. discriminate Hm.
Qed.

Lemma dedup_In : forall l s x, In x (dedup l s) <-> In x l /\ ~ In x s.
Proof.
  induction l as [|a t IH]; intros s x; cbn [dedup In].
  - tauto.
  - destruct (mem a s) eqn:Hm.
    + apply mem_In in Hm. rewrite IH. split.
      * intros [Ht Hs]. tauto.
      * intros [[Ha | Ht] Hs]; [subst a; contradiction | tauto].
    + apply mem_false_not_In in Hm. cbn [In]. rewrite IH. cbn [In]. split.
      * intros [Ha | [Ht Hs]]; [subst a; tauto | tauto].
      * intros [[Ha | Ht] Hs]; [tauto |].
        destruct (N.eq_dec a x) as [Heq | Hne]; [tauto | right; tauto].
Qed.

Lemma dedup_NoDup : forall l s, NoDup (dedup l s).
Proof.
  induction l as [|a t IH]; intros s; cbn [dedup].
  - constructor.
  - destruct (mem a s) eqn:Hm.
    + apply IH.
    + constructor; [| apply IH].
      intros Hin. apply dedup_In in Hin. destruct Hin as [_ Hn]. apply Hn. left. reflexivity.
Qed.

(* ---------- push_new ---------- *)
Lemma push_new_spec : forall pred edges seen queue seen' queue',
  push_new pred edges seen queue = (seen', queue') ->
  exists added,
    seen' = added ++ seen /\ queue' = added ++ queue /\
    (NoDup seen -> NoDup seen') /\
    (forall x, In x added -> exists e, In e edges /\ pred e = true /\ fst e = x) /\
    (forall e, In e edges -> pred e = true -> In (fst e) seen').
Proof.
  intros pred. induction edges as [|e rest IH]; intros seen queue seen' queue' H; cbn [push_new] in H.
  - inversion H; subst seen' queue'. exists []. cbn [app In].
    repeat split; tauto.
  - destruct (pred e && negb (mem (fst e) seen)) eqn:Hc.
    + apply andb_true_iff in Hc. destruct Hc as [Hp Hm]. apply negb_true_iff in Hm.
      apply mem_false_not_In in Hm.
      apply IH in H. destruct H as (added & Hs & Hq & Hnd & Hsrc & Hcov).
      exists (added ++ [fst e]). rewrite <- !app_assoc. cbn [app].
      split; [exact Hs|]. split; [exact Hq|]. split; [|split].
      * intros Hns. apply Hnd. constructor; assumption.
      * intros x Hx. apply in_app_or in Hx. destruct Hx as [Hx | Hx].
        -- destruct (Hsrc x Hx) as (e' & He' & Hp' & Hf'). exists e'. cbn [In]. tauto.
        -- cbn [In] in Hx. destruct Hx as [Hx | []]. exists e. cbn [In]. tauto.
      * intros e' He' Hp'. cbn [In] in He'. destruct He' as [He' | He'].
        -- subst e'. rewrite Hs. apply in_or_app. right. left. reflexivity.
        -- apply Hcov; assumption.
    + apply IH in H. destruct H as (added & Hs & Hq & Hnd & Hsrc & Hcov).
      exists added. split; [exact Hs|]. split; [exact Hq|]. split; [exact Hnd|]. split.
      * intros x Hx. destruct (Hsrc x Hx) as (e' & He' & Hp' & Hf'). exists e'. cbn [In]. tauto.
      * intros e' He' Hp'. cbn [In] in He'. destruct He' as [He' | He'].
        -- subst e'. rewrite Hp' in Hc. cbn [andb] in Hc. apply negb_false_iff in Hc.
           apply mem_In in Hc. rewrite Hs. apply in_or_app. right. exact Hc.
        -- apply Hcov; assumption.
Qed.

(* ---------- the loop invariant ---------- *)
Lemma loop_spec : forall g pred (P : N -> Prop),
  (forall n e, P n -> In e (trace (get g n)) -> pred e = true -> P (fst e)) ->
  forall fuel seen queue acc res,
  traverse_loop fuel g pred seen queue acc = Some res ->
  NoDup seen ->
  Permutation (queue ++ acc) seen ->
  (forall n, In n acc -> forall e, In e (trace (get g n)) -> pred e = true -> In (fst e) seen) ->
  (forall x, In x seen -> P x) ->
  NoDup res /\
  (forall x, In x seen -> In x res) /\
  (forall x, In x res -> P x) /\
  (forall n, In n res -> forall e, In e (trace (get g n)) -> pred e = true -> In (fst e) res).
Proof.
  intros g pred P HP.
  induction fuel as [|fuel IH]; intros seen queue acc res Hrun Hnd Hperm Hclosed HPs;
    destruct queue as [|n rest]; cbn [traverse_loop] in Hrun; try discriminate Hrun.
  - (* fuel 0, queue empty *)
    inversion Hrun; subst res. cbn [app] in Hperm.
    assert (Hpr : Permutation seen (rev acc)).
    { eapply perm_trans; [apply Permutation_sym; exact Hperm | apply Permutation_rev]. }
    split; [eapply Permutation_NoDup; eassumption|].
    split; [intros x Hx; eapply Permutation_in; eassumption|].
    split.
    + intros x Hx. apply HPs. eapply Permutation_in; [apply Permutation_sym; exact Hpr | exact Hx].
    + intros m Hm e He Hp. eapply Permutation_in; [exact Hpr|].
      apply (Hclosed m); [apply in_rev; exact Hm | exact He | exact Hp].
  - (* fuel S, queue empty *)
    inversion Hrun; subst res. cbn [app] in Hperm.
    assert (Hpr : Permutation seen (rev acc)).
    { eapply perm_trans; [apply Permutation_sym; exact Hperm | apply Permutation_rev]. }
    split; [eapply Permutation_NoDup; eassumption|].
    split; [intros x Hx; eapply Permutation_in; eassumption|].
    split.
    + intros x Hx. apply HPs. eapply Permutation_in; [apply Permutation_sym; exact Hpr | exact Hx].
    + intros m Hm e He Hp. eapply Permutation_in; [exact Hpr|].
      apply (Hclosed m); [apply in_rev; exact Hm | exact He | exact Hp].
  - (* a real step *)
    destruct (push_new pred (trace (get g n)) seen rest) as [seen' queue'] eqn:Hpn.
    apply push_new_spec in Hpn. destruct Hpn as (added & Hs & Hq & Hnd' & Hsrc & Hcov).
    assert (Hn_seen : In n seen).
    { eapply Permutation_in; [exact Hperm|]. cbn [app]. left. reflexivity. }
    assert (Hincl : forall x, In x seen -> In x seen').
    { intros x Hx. rewrite Hs. apply in_or_app. right. exact Hx. }
    specialize (IH seen' queue' (n :: acc) res Hrun (Hnd' Hnd)).
    destruct IH as (R1 & R2 & R3 & R4).
    + rewrite Hs, Hq, <- app_assoc. apply Permutation_app_head.
      eapply perm_trans; [apply Permutation_sym; apply Permutation_middle|]. exact Hperm.
    + intros m Hm e He Hp. cbn [In] in Hm. destruct Hm as [Hm | Hm].
      * subst m. apply Hcov; assumption.
      * apply Hincl. apply (Hclosed m); assumption.
    + intros x Hx. rewrite Hs in Hx. apply in_app_or in Hx. destruct Hx as [Hx | Hx].
      * destruct (Hsrc x Hx) as (e & He & Hp & Hf). subst x.
        apply (HP n); [apply HPs; exact Hn_seen | exact He | exact Hp].
      * apply HPs. exact Hx.
    + split; [exact R1|]. split; [intros x Hx; apply R2; apply Hincl; exact Hx|].
      split; [exact R3 | exact R4].
Qed.

Lemma traverse_spec : forall fuel g pred roots res,
  traverse fuel g pred roots = Some res ->
  NoDup res /\
  (forall r, In r roots -> In r res) /\
  (forall x, In x res -> reachable g pred roots x) /\
  (forall n, In n res -> forall e, In e (trace (get g n)) -> pred e = true -> In (fst e) res).
Proof.
  intros fuel g pred roots res H. unfold traverse in H.
  apply (loop_spec g pred (reachable g pred roots)) in H.
  - destruct H as (R1 & R2 & R3 & R4). split; [exact R1|]. split; [|split; assumption].
    intros r Hr. apply R2. apply dedup_In. split; [exact Hr | intros []].
  - intros n e Hn He Hp. eapply reach_step; eassumption.
  - apply dedup_NoDup.
  - rewrite app_nil_r. apply Permutation_sym. apply Permutation_rev.
  - intros n [].
  - intros x Hx. apply dedup_In in Hx. apply reach_root. tauto.
Qed.

(* ---------- the theorems ---------- *)
Lemma traversal_is_reachability : forall fuel g pred roots res,
  traverse fuel g pred roots = Some res ->
  forall n, In n res <-> reachable g pred roots n.
Proof.
  intros fuel g pred roots res H n. apply traverse_spec in H. destruct H as (_ & Hroots & Hreach & Hclosed).
  split; [apply Hreach|].
  intros Hr. induction Hr as [r Hr | m e Hm IH He Hp].
  - apply Hroots. exact Hr.
  - apply (Hclosed m); assumption.
Qed.

Lemma traversal_no_duplicates : forall fuel g pred roots res,
  traverse fuel g pred roots = Some res -> NoDup res.
Proof.
  intros fuel g pred roots res H. apply traverse_spec in H. tauto.
Qed.

Lemma loop_terminates : forall g pred universe,
  (forall n e, In n universe -> In e (trace (get g n)) -> In (fst e) universe) ->
  forall fuel seen queue acc,
  NoDup seen -> (forall x, In x seen -> In x universe) ->
  Permutation (queue ++ acc) seen ->
  (length universe <= fuel + length acc)%nat ->
  exists res, traverse_loop fuel g pred seen queue acc = Some res.
Proof.
  intros g pred universe Hcl.
  induction fuel as [|fuel IH]; intros seen queue acc Hnd Hincl Hperm Hlen;
    destruct queue as [|n rest]; cbn [traverse_loop]; try (eexists; reflexivity).
  - exfalso.
    assert (Hl1 : (length seen <= length universe)%nat).
    { apply NoDup_incl_length; [exact Hnd | exact Hincl]. }
    apply Permutation_length in Hperm. cbn [app length] in Hperm. rewrite app_length in Hperm.
    cbn [plus] in Hlen. lia.
  - destruct (push_new pred (trace (get g n)) seen rest) as [seen' queue'] eqn:Hpn.
    apply push_new_spec in Hpn. destruct Hpn as (added & Hs & Hq & Hnd' & Hsrc & Hcov).
    assert (Hn_seen : In n seen).
    { eapply Permutation_in; [exact Hperm|]. cbn [app]. left. reflexivity. }
    apply IH.
    + apply Hnd'. exact Hnd.
    + intros x Hx. rewrite Hs in Hx. apply in_app_or in Hx. destruct Hx as [Hx | Hx].
      * destruct (Hsrc x Hx) as (e & He & Hp & Hf). subst x.
        apply (Hcl n); [apply Hincl; exact Hn_seen | exact He].
      * apply Hincl. exact Hx.
    + rewrite Hs, Hq, <- app_assoc. apply Permutation_app_head.
      eapply perm_trans; [apply Permutation_sym; apply Permutation_middle|]. exact Hperm.
    + cbn [length]. lia.
Qed.

Lemma traversal_terminates : forall g pred roots universe,
  (forall r, In r roots -> In r universe) ->
  (forall n e, In n universe -> In e (trace (get g n)) -> In (fst e) universe) ->
  exists res, traverse (universe_bound g universe) g pred roots = Some res.
Proof.
  intros g pred roots universe Hroots Hcl. unfold traverse, universe_bound.
  apply (loop_terminates g pred universe Hcl).
  - apply dedup_NoDup.
  - intros x Hx. apply dedup_In in Hx. apply Hroots. tauto.
  - rewrite app_nil_r. apply Permutation_sym. apply Permutation_rev.
  - cbn [length]. lia.
Qed.

Lemma allowlisted_inv : forall fuel g pred bl roots res,
  allowlisted fuel g pred bl roots = Some res ->
  exists res0, traverse fuel g pred roots = Some res0 /\
               forall n, In n res <-> In n res0 /\ bl n = false.
Proof.
  intros fuel g pred bl roots res H. unfold allowlisted in H.
  destruct (traverse fuel g pred roots) as [res0|]; cbn [option_map] in H; [|discriminate H].
  inversion H; subst res. exists res0. split; [reflexivity|].
  intros n. rewrite filter_In. rewrite negb_true_iff. tauto.
Qed.

Lemma closure : forall fuel g pred bl roots res,
  allowlisted fuel g pred bl roots = Some res ->
  forall n e, In n res -> In e (trace (get g n)) -> pred e = true ->
              In (fst e) res \/ bl (fst e) = true.
Proof.
  intros fuel g pred bl roots res H n e Hn He Hp.
  apply allowlisted_inv in H. destruct H as (res0 & Ht & Hres).
  apply traverse_spec in Ht. destruct Ht as (_ & _ & _ & Hclosed).
  apply Hres in Hn. destruct Hn as [Hn _].
  destruct (bl (fst e)) eqn:Hb; [right; reflexivity|].
  left. apply Hres. split; [apply (Hclosed n); assumption | exact Hb].
Qed.

Lemma minimal : forall fuel g pred bl roots res,
  allowlisted fuel g pred bl roots = Some res ->
  forall n, In n res -> reachable g pred roots n /\ bl n = false.
Proof.
  intros fuel g pred bl roots res H n Hn.
  apply allowlisted_inv in H. destruct H as (res0 & Ht & Hres).
  apply Hres in Hn. destruct Hn as [Hn Hb]. split; [|exact Hb].
  apply (traversal_is_reachability _ _ _ _ _ Ht). exact Hn.
Qed.

Lemma block_beats_allow : forall fuel g pred bl roots res n,
  allowlisted fuel g pred bl roots = Some res -> bl n = true -> ~ In n res.
Proof.
  intros fuel g pred bl roots res n H Hb Hn.
  apply allowlisted_inv in H. destruct H as (res0 & _ & Hres).
  apply Hres in Hn. destruct Hn as [_ Hb']. rewrite Hb in Hb'. discriminate Hb'.
Qed.

(* fewer accepted edges, fewer reachable items *)
Lemma reachable_mono : forall g (pred1 pred2 : edge_pred) roots,
  (forall e, pred1 e = true -> pred2 e = true) ->
  forall n, reachable g pred1 roots n -> reachable g pred2 roots n.
Proof.
  intros g pred1 pred2 roots Hle n Hr. induction Hr as [r Hr | m e Hm IH He Hp].
  - apply reach_root. exact Hr.
  - eapply reach_step; [exact IH | exact He | apply Hle; exact Hp].
Qed.

Lemma codegen_edges_le_all : forall cc en e, codegen_edges cc en e = true -> all_edges e = true.
Proof. intros cc en e _. reflexivity. Qed.

Lemma allowlisted_mono : forall fuel1 fuel2 g (pred1 pred2 : edge_pred) bl roots res1 res2,
  (forall e, pred1 e = true -> pred2 e = true) ->
  allowlisted fuel1 g pred1 bl roots = Some res1 ->
  allowlisted fuel2 g pred2 bl roots = Some res2 ->
  forall n, In n res1 -> In n res2.
Proof.
  intros fuel1 fuel2 g pred1 pred2 bl roots res1 res2 Hle H1 H2 n Hn.
  destruct (minimal _ _ _ _ _ _ H1 n Hn) as [Hr Hb].
  apply allowlisted_inv in H2. destruct H2 as (res0 & Ht & Hres).
  apply Hres. split; [|exact Hb].
  apply (traversal_is_reachability _ _ _ _ _ Ht).
  eapply reachable_mono; eassumption.
Qed.

Lemma codegen_subset : forall fuel g cc en bl roots al cg,
  compute fuel g true cc en bl roots = Some (al, cg) -> forall n, In n cg -> In n al.
Proof.
  intros fuel g cc en bl roots al cg H n Hn. unfold compute in H.
  destruct (allowlisted fuel g all_edges bl roots) as [al'|] eqn:Hal; [|discriminate H].
  destruct (allowlisted fuel g (codegen_edges cc en) bl roots) as [cg'|] eqn:Hcg; [|discriminate H].
  inversion H; subst al' cg'.
  eapply (allowlisted_mono fuel fuel g (codegen_edges cc en) all_edges);
    [apply codegen_edges_le_all | exact Hcg | exact Hal | exact Hn].
Qed.

Lemma roots_spec : forall q,
  (q_enabled q = false -> is_root q = false) /\
  (q_enabled q = true -> q_no_allowlists q = true -> is_root q = true) /\
  (q_enabled q = true -> q_kind_match q = true -> q_kind q <> RModule -> is_root q = true) /\
  (is_root q = true -> q_no_allowlists q = false -> q_replaces q = false -> q_file_match q = false ->
   q_item_match q = false -> q_kind_match q = false ->
   match q_kind q with
   | RModule => True
   | RType builtin ev => (q_recursive q = false /\ (builtin = true \/ q_stdint q = true)) \/ ev = true
   | _ => False
   end).
Proof.
  intros [en na rp fm im km rc sd k]. unfold is_root.
  cbn [q_enabled q_no_allowlists q_replaces q_file_match q_item_match q_kind_match q_recursive q_stdint q_kind].
  split; [|split; [|split]].
  - intros He. subst en. reflexivity.
  - intros He Hn. subst en na. reflexivity.
  - intros He Hk Hne. subst en km.
    destruct k as [| | | b ev]; [contradiction Hne; reflexivity | | |];
      destruct na, rp, fm, im; reflexivity.
  - intros Hr Hna Hrp Hfm Him Hkm. subst na rp fm im km.
    destruct k as [| | | b ev]; [exact I | | |];
      destruct en; cbn [andb orb] in Hr; try discriminate Hr.
    destruct ev; [right; reflexivity|].
    destruct rc; cbn [negb andb orb] in Hr; [discriminate Hr|].
    left. split; [reflexivity|].
    destruct b; [left; reflexivity|]. cbn [orb] in Hr. right.
    rewrite orb_false_r in Hr. exact Hr.
Qed.

(* ---------- concrete graphs ---------- *)
Definition mk_comp (inner meths bases : list N) : item :=
  {| i_kind := IType (KComp {| c_union := false; c_own_virtual := false; c_own_dtor := false;
        c_bases := bases; c_fields := []; c_all_tparams := []; c_inner_types := inner;
        c_inner_vars := []; c_methods := meths; c_dtor := None; c_ctors := [] |});
     i_opaque := false; i_stdint := false; i_vtable_ptr := false; i_layout_size := None |}.
Definition mk_int : item :=
  {| i_kind := IType KInt; i_opaque := false; i_stdint := false; i_vtable_ptr := false; i_layout_size := None |}.
Fixpoint mk_ir (l : list (N * item)) : ir := fun n =>
  match l with [] => None | (k, it) :: t => if n =? k then Some it else mk_ir t n end.

(* 1 -> 2 -> 3 -> 4 with 2 blocklisted: 3 and 4 are only reachable through the blocklisted 2,
   and are emitted all the same *)
Definition chain4 : ir :=
  mk_ir [(1, mk_comp [] [] [2]); (2, mk_comp [] [] [3]); (3, mk_comp [] [] [4]); (4, mk_int)].

Lemma through_blocklisted :
  let bl := fun n => n =? 2 in
  allowlisted 10 chain4 all_edges bl [1] = Some [1; 3; 4] /\
  bl 2 = true /\ In (3, E_BaseMember) (trace (get chain4 2)) /\
  (forall res, allowlisted 10 chain4 all_edges bl [1] = Some res -> In 3 res /\ ~ In 2 res).
Proof.
  cbn zeta.
  assert (H : allowlisted 10 chain4 all_edges (fun n => n =? 2) [1] = Some [1; 3; 4]) by (vm_compute; reflexivity).
  split; [exact H|]. split; [reflexivity|]. split; [vm_compute; left; reflexivity|].
  intros res Hres. rewrite H in Hres. inversion Hres; subst res. split.
  - cbn [In]. right. left. reflexivity.
  - cbn [In]. intros [Hc | [Hc | [Hc | []]]]; discriminate Hc.
Qed.

(* seven items: a cycle 1 -> 2 -> 3 -> 1 (base members), 3 -m-> 4 (method), second root 5 with
   inner type 6, 6 -m-> 7 (method) and 6 -> 3 (base); 2 is blocklisted *)
Definition g7 : ir :=
  mk_ir [(1, mk_comp [] [] [2]); (2, mk_comp [] [] [3]); (3, mk_comp [] [4] [1]); (4, mk_int);
         (5, mk_comp [6] [] []); (6, mk_comp [] [7] [3]); (7, mk_int)].
Definition bl7 : N -> bool := fun n => n =? 2.
Definition cc_no_methods : cconfig :=
  {| cc_types := true; cc_vars := true; cc_methods := false; cc_ctors := true; cc_dtors := true |}.
Definition en_all : N -> bool := fun _ => true.
Definition u7 : list N := [1; 2; 3; 4; 5; 6; 7].

Example traverse_nonvacuous :
  traverse (universe_bound g7 u7) g7 all_edges [1; 5; 1] = Some [5; 6; 3; 4; 7; 1; 2].
Proof. vm_compute. reflexivity. Qed.

Example allowlisted_nonvacuous :
  allowlisted (universe_bound g7 u7) g7 all_edges bl7 [1; 5; 1] = Some [5; 6; 3; 4; 7; 1].
Proof. vm_compute. reflexivity. Qed.

(* the closure check, as a boolean, over the computed list *)
Definition closed_b (g : ir) (pred : edge_pred) (bl : N -> bool) (res : list N) : bool :=
  forallb (fun n => forallb (fun e => negb (pred e) || mem (fst e) res || bl (fst e)) (trace (get g n))) res.

Example closure_nonvacuous :
  closed_b g7 all_edges bl7 [5; 6; 3; 4; 7; 1] = true /\
  (* the edge 1 -> 2 is the one excused by the blocklist *)
  In (2, E_BaseMember) (trace (get g7 1)) /\ bl7 2 = true /\ mem 2 [5; 6; 3; 4; 7; 1] = false /\
  (* dropping an item breaks it *)
  closed_b g7 all_edges bl7 [5; 6; 3; 7; 1] = false.
Proof. vm_compute. repeat split. left. reflexivity. Qed.

Example compute_nonvacuous :
  compute (universe_bound g7 u7) g7 true cc_no_methods en_all bl7 [1; 5; 1]
  = Some ([5; 6; 3; 4; 7; 1], [5; 6; 3; 1]).
Proof. vm_compute. reflexivity. Qed.

Example codegen_subset_nonvacuous :
  forallb (fun n => mem n [5; 6; 3; 4; 7; 1]) [5; 6; 3; 1] = true /\
  mem 4 [5; 6; 3; 1] = false /\ mem 7 [5; 6; 3; 1] = false.
Proof. vm_compute. repeat split. Qed.

Example compute_nonrecursive_nonvacuous :
  compute (universe_bound g7 u7) g7 false cc_no_methods en_all bl7 [1; 5; 1] = Some ([5; 6; 1], [5; 6; 1]).
Proof. vm_compute. reflexivity. Qed.

(* fuel one short of the number of distinct reachable items is not enough *)
Example fuel_tight_nonvacuous :
  traverse 7 g7 all_edges [1; 5] = Some [5; 6; 3; 4; 7; 1; 2] /\ traverse 6 g7 all_edges [1; 5] = None.
Proof. vm_compute. split; reflexivity. Qed.

(* duplicate roots, a root reachable from another root, a root absent from the graph *)
Example roots_nonvacuous :
  traverse 10 chain4 all_edges [1; 1; 3; 1; 3] = Some [3; 4; 1; 2] /\
  traverse 10 chain4 all_edges [99; 2; 99] = Some [2; 3; 4; 99].
Proof. vm_compute. split; reflexivity. Qed.
