(* C09 — model of the allowlist computation (ir/context.rs
   compute_allowlisted_and_codegen_items, AllowlistedItemsTraversal; ir/traversal.rs
   ItemTraversal, codegen_edges, only_inner_type_edges).  The IR and `trace` are those
   of C07/Model.v.  Definitions only. *)
From Coq Require Import NArith List Bool.
From BG Require Import C07.Model.
Import ListNotations.
Open Scope N_scope.

(* an edge predicate sees the edge (target, kind) *)
Definition edge_pred := (N * N) -> bool.

(* CodegenConfig *)
Record cconfig := { cc_types : bool; cc_vars : bool; cc_methods : bool; cc_ctors : bool; cc_dtors : bool }.

(* traversal::codegen_edges; [enabled] is Item::is_enabled_for_codegen of the edge's target *)
Definition codegen_edges (cc : cconfig) (enabled : N -> bool) : edge_pred :=
  fun e =>
    let k := snd e in
    if k =? E_Generic then enabled (fst e)
    else if k =? E_InnerVar then cc_vars cc
    else if k =? E_Method then cc_methods cc
    else if k =? E_Constructor then cc_ctors cc
    else if k =? E_Destructor then cc_dtors cc
    else cc_types cc.

Definition all_edges : edge_pred := fun _ => true.
Definition only_inner_type_edges : edge_pred := fun e => snd e =? E_InnerType.

(* ItemTraversal with a Vec queue (LIFO) and an ordered seen-set: roots are marked seen
   and pushed; next() pops an item, traces it, and pushes every not-yet-seen target of
   an edge the predicate accepts.  Returns the items in the order next() yields them. *)
Fixpoint push_new (pred : edge_pred) (edges : list (N * N)) (seen queue : list N)
  : list N * list N :=
  match edges with
  | [] => (seen, queue)
  | e :: rest =>
      if pred e && negb (mem (fst e) seen)
      then push_new pred rest (fst e :: seen) (fst e :: queue)   (* Vec::push: popped first *)
      else push_new pred rest seen queue
  end.

Fixpoint traverse_loop (fuel : nat) (g : ir) (pred : edge_pred) (seen queue acc : list N)
  : option (list N) :=
  match queue with
  | [] => Some (rev acc)
  | n :: rest =>
    match fuel with
    | O => None
    | S fuel' =>
        let '(seen', queue') := push_new pred (trace (get g n)) seen rest in
        traverse_loop fuel' g pred seen' queue' (n :: acc)
    end
  end.

Fixpoint dedup (l : list N) (seen : list N) : list N :=
  match l with
  | [] => []
  | x :: t => if mem x seen then dedup t seen else x :: dedup t (x :: seen)
  end.

(* roots: seen.add + queue.push for each, in order (duplicates are pushed twice but the
   second pop re-traces nothing new; the model removes duplicate roots up front) *)
Definition traverse (fuel : nat) (g : ir) (pred : edge_pred) (roots : list N) : option (list N) :=
  let rs := dedup roots [] in
  traverse_loop fuel g pred rs (rev rs) [].

(* AllowlistedItemsTraversal: blocklisted items are traversed THROUGH but not yielded *)
Definition allowlisted (fuel : nat) (g : ir) (pred : edge_pred) (blocklisted : N -> bool)
           (roots : list N) : option (list N) :=
  option_map (filter (fun n => negb (blocklisted n))) (traverse fuel g pred roots).

(* what compute_allowlisted_and_codegen_items stores *)
Definition compute (fuel : nat) (g : ir) (recursively : bool) (cc : cconfig) (enabled blocklisted : N -> bool)
           (roots : list N) : option (list N * list N) :=
  let p := if recursively then all_edges else only_inner_type_edges in
  match allowlisted fuel g p blocklisted roots with
  | None => None
  | Some al =>
      if recursively then
        match allowlisted fuel g (codegen_edges cc enabled) blocklisted roots with
        | Some cg => Some (al, cg)
        | None => None
        end
      else Some (al, al)
  end.

(* ---- specification side ---- *)
Inductive reachable (g : ir) (pred : edge_pred) (roots : list N) : N -> Prop :=
| reach_root : forall r, In r roots -> reachable g pred roots r
| reach_step : forall n e, reachable g pred roots n -> In e (trace (get g n)) -> pred e = true ->
                           reachable g pred roots (fst e).

(* number of distinct items a traversal can ever see: an upper bound for the fuel *)
Definition universe_bound (g : ir) (universe : list N) : nat := S (length universe).

(* ---- root selection (the kind-specific part of the filter closure) ---- *)
Inductive rkind := RModule | RFunction | RVar | RType (builtin_like : bool) (toplevel_unnamed_enum_matching_variant : bool).

Record rootq := {
  q_enabled : bool;            (* item.is_enabled_for_codegen *)
  q_no_allowlists : bool;      (* all five allowlist sets are empty *)
  q_replaces : bool;           (* annotations().use_instead_of().is_some() *)
  q_file_match : bool;         (* allowlisted_files matches the item's file *)
  q_item_match : bool;         (* allowlisted_items matches the path *)
  q_kind_match : bool;         (* the kind's own set (functions / vars / types) matches the path *)
  q_recursive : bool;          (* options.allowlist_recursively *)
  q_stdint : bool;             (* ctx.is_stdint_type(name) *)
  q_kind : rkind
}.

Definition is_root (q : rootq) : bool :=
  q_enabled q &&
  (q_no_allowlists q || q_replaces q || q_file_match q || q_item_match q ||
   match q_kind q with
   | RModule => true
   | RFunction | RVar => q_kind_match q
   | RType builtin enum_variant =>
       q_kind_match q ||
       (negb (q_recursive q) && (builtin || q_stdint q)) ||
       enum_variant
   end).
