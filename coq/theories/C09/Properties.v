(* C09 — property theorems (statements only; proofs in Proofs.v). *)
From Coq Require Import NArith List Bool.
From BG Require Import C07.Model C09.Model C09.Proofs.
Import ListNotations.
Open Scope N_scope.

(* the traversal computes exactly the items reachable from the roots over accepted edges *)
Theorem traversal_is_reachability : forall fuel g pred roots res,
  traverse fuel g pred roots = Some res ->
  forall n, In n res <-> reachable g pred roots n.
Proof. exact Proofs.traversal_is_reachability. Qed.
Print Assumptions traversal_is_reachability.

Theorem traversal_no_duplicates : forall fuel g pred roots res,
  traverse fuel g pred roots = Some res -> NoDup res.
Proof. exact Proofs.traversal_no_duplicates. Qed.
Print Assumptions traversal_no_duplicates.

(* enough fuel always exists: the traversal terminates on every graph, cycles included *)
Theorem traversal_terminates : forall g pred roots universe,
  (forall r, In r roots -> In r universe) ->
  (forall n e, In n universe -> In e (trace (get g n)) -> In (fst e) universe) ->
  exists res, traverse (universe_bound g universe) g pred roots = Some res.
Proof. exact Proofs.traversal_terminates. Qed.
Print Assumptions traversal_terminates.

(* closure: everything an emitted item needs over an accepted edge is emitted too, unless the
   user blocklisted it *)
Theorem closure : forall fuel g pred bl roots res,
  allowlisted fuel g pred bl roots = Some res ->
  forall n e, In n res -> In e (trace (get g n)) -> pred e = true ->
              In (fst e) res \/ bl (fst e) = true.
Proof. exact Proofs.closure. Qed.
Print Assumptions closure.

(* minimality: nothing unrelated is emitted *)
Theorem minimal : forall fuel g pred bl roots res,
  allowlisted fuel g pred bl roots = Some res ->
  forall n, In n res -> reachable g pred roots n /\ bl n = false.
Proof. exact Proofs.minimal. Qed.
Print Assumptions minimal.

(* an item matched by both an allowlist and a blocklist is not emitted *)
Theorem block_beats_allow : forall fuel g pred bl roots res n,
  allowlisted fuel g pred bl roots = Some res -> bl n = true -> ~ In n res.
Proof. exact Proofs.block_beats_allow. Qed.
Print Assumptions block_beats_allow.

(* the code-generation set is a subset of the allowlisted set (same roots, fewer edges) *)
Theorem codegen_subset : forall fuel g cc en bl roots al cg,
  compute fuel g true cc en bl roots = Some (al, cg) -> forall n, In n cg -> In n al.
Proof. exact Proofs.codegen_subset. Qed.
Print Assumptions codegen_subset.

(* root selection: an item matched by the set of its kind is a root; with no allowlist at all
   everything enabled is a root; a disabled item never is *)
Theorem roots_spec : forall q,
  (q_enabled q = false -> is_root q = false) /\
  (q_enabled q = true -> q_no_allowlists q = true -> is_root q = true) /\
  (q_enabled q = true -> q_kind_match q = true -> q_kind q <> RModule -> is_root q = true) /\
  (is_root q = true -> q_no_allowlists q = false -> q_replaces q = false -> q_file_match q = false ->
   q_item_match q = false -> q_kind_match q = false ->
   match q_kind q with
   | RModule => True
   | RType builtin ev => (q_recursive q = false /\ (builtin = true \/ q_stdint q = true)) \/ ev = true
   | _ => False
   end).
Proof. exact Proofs.roots_spec. Qed.
Print Assumptions roots_spec.
