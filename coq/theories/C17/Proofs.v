(* C17 — proofs of the statements of Properties.v.  Stdlib only, no axioms. *)
From Coq Require Import NArith List Bool Sorted Lia Arith.
From BG Require Import C17.Model.
Import ListNotations.
Open Scope N_scope.

Arguments N.eqb : simpl never.
Arguments N.ltb : simpl never.

(* ------------------------------------------------------------------ *)
(* escape                                                              *)
(* ------------------------------------------------------------------ *)

Definition esc1 (c : N) : str :=
  if c =? BSL then [BSL; BSL] else if c =? SP then [BSL; SP] else [c].

Lemma escape_nil : escape [] = [].
Proof. reflexivity. Qed.

Lemma escape_cons : forall c s, escape (c :: s) = esc1 c ++ escape s.
Proof.
  intros c s. unfold escape, esc1. cbn [replace_char].
  destruct (N.eqb_spec c BSL) as [Hb | Hb].
  - subst c. reflexivity.
  - cbn [replace_char]. destruct (N.eqb_spec c SP) as [Hs | Hs]; reflexivity.
Qed.

Lemma esc1_bsl : esc1 BSL = [BSL; BSL].
Proof. reflexivity. Qed.

Lemma esc1_sp : esc1 SP = [BSL; SP].
Proof. reflexivity. Qed.

Lemma esc1_plain : forall c, c <> BSL -> c <> SP -> esc1 c = [c].
Proof.
  intros c Hb Hs. unfold esc1.
  destruct (N.eqb_spec c BSL) as [E | _]; [contradiction |].
  destruct (N.eqb_spec c SP) as [E | _]; [contradiction |].
  reflexivity.
Qed.

Lemma escape_one_pass : forall s,
  escape s = flat_map (fun c => if c =? BSL then [BSL; BSL]
                                else if c =? SP then [BSL; SP] else [c]) s.
Proof.
  induction s as [| c s IH].
  - reflexivity.
  - rewrite escape_cons. cbn [flat_map]. rewrite IH. reflexivity.
Qed.

(* a left inverse of escape *)
Fixpoint unesc (s : str) : str :=
  match s with
  | [] => []
  | c :: t =>
      if c =? BSL then
        match t with
        | d :: t' => d :: unesc t'
        | [] => []
        end
      else c :: unesc t
  end.

Lemma unesc_bsl : forall d t, unesc (BSL :: d :: t) = d :: unesc t.
Proof. reflexivity. Qed.

Lemma unesc_escape : forall s, unesc (escape s) = s.
Proof.
  induction s as [| c s IH].
  - reflexivity.
  - rewrite escape_cons.
    destruct (N.eq_dec c BSL) as [Hb | Hb].
    + subst c. rewrite esc1_bsl. cbn [app]. rewrite unesc_bsl, IH. reflexivity.
    + destruct (N.eq_dec c SP) as [Hs | Hs].
      * subst c. rewrite esc1_sp. cbn [app]. rewrite unesc_bsl, IH. reflexivity.
      * rewrite esc1_plain by assumption. cbn [app unesc].
        destruct (N.eqb_spec c BSL) as [E | _]; [contradiction |].
        rewrite IH. reflexivity.
Qed.

Lemma escape_injective : forall a b, escape a = escape b -> a = b.
Proof.
  intros a b H.
  rewrite <- (unesc_escape a), <- (unesc_escape b), H. reflexivity.
Qed.

(* ------------------------------------------------------------------ *)
(* reader 1: cargo / ninja dialect                                     *)
(* ------------------------------------------------------------------ *)

Definition flushd (cur : str) (acc : list str) : list str :=
  if match cur with [] => true | _ => false end then acc else rev cur :: acc.

Lemma flushd_ne : forall cur acc, cur <> [] -> flushd cur acc = rev cur :: acc.
Proof. intros [| x cur] acc H; [contradiction | reflexivity]. Qed.

Lemma rev_ne : forall (d : str), d <> [] -> rev d <> [].
Proof.
  intros d H E. apply H. rewrite <- (rev_involutive d), E. reflexivity.
Qed.

Lemma nonempty_ne : forall d, nonempty d = true -> d <> [].
Proof. intros [| x d] H; [discriminate | discriminate]. Qed.

Lemma words_d_nil : forall cur acc, words_d [] cur acc = rev (flushd cur acc).
Proof. reflexivity. Qed.

Lemma words_d_bb : forall t cur acc,
  words_d (BSL :: BSL :: t) cur acc = words_d t (BSL :: cur) acc.
Proof. reflexivity. Qed.

Lemma words_d_bs : forall t cur acc,
  words_d (BSL :: SP :: t) cur acc = words_d t (SP :: cur) acc.
Proof. reflexivity. Qed.

Lemma words_d_sp : forall t cur acc,
  words_d (SP :: t) cur acc = words_d t [] (flushd cur acc).
Proof. reflexivity. Qed.

Lemma words_d_plain : forall c t cur acc, c <> BSL -> c <> SP ->
  words_d (c :: t) cur acc = words_d t (c :: cur) acc.
Proof.
  intros c t cur acc Hb Hs. cbn [words_d].
  destruct (N.eqb_spec c BSL) as [E | _]; [contradiction |].
  destruct (N.eqb_spec c SP) as [E | _]; [contradiction |].
  reflexivity.
Qed.

Lemma words_d_escape : forall d rest cur acc,
  words_d (escape d ++ rest) cur acc = words_d rest (rev d ++ cur) acc.
Proof.
  induction d as [| c d IH]; intros rest cur acc.
  - reflexivity.
  - rewrite escape_cons. cbn [rev]. rewrite <- !app_assoc. cbn [app].
    destruct (N.eq_dec c BSL) as [Hb | Hb].
    + subst c. rewrite esc1_bsl. cbn [app]. rewrite words_d_bb. apply IH.
    + destruct (N.eq_dec c SP) as [Hs | Hs].
      * subst c. rewrite esc1_sp. cbn [app]. rewrite words_d_bs. apply IH.
      * rewrite esc1_plain by assumption. cbn [app].
        rewrite words_d_plain by assumption. apply IH.
Qed.

Lemma words_d_deps : forall deps cur acc,
  forallb nonempty deps = true ->
  words_d (flat_map (fun d => SP :: escape d) deps) cur acc
  = rev (flushd cur acc) ++ deps.
Proof.
  induction deps as [| d ds IH]; intros cur acc Hne.
  - cbn [flat_map]. rewrite words_d_nil, app_nil_r. reflexivity.
  - cbn [forallb] in Hne. apply andb_true_iff in Hne. destruct Hne as [Hd Hds].
    cbn [flat_map app]. rewrite words_d_sp, words_d_escape, app_nil_r.
    rewrite IH by exact Hds.
    rewrite flushd_ne by (apply rev_ne, nonempty_ne, Hd).
    rewrite rev_involutive. cbn [rev]. rewrite <- app_assoc. reflexivity.
Qed.

Lemma split_colon : forall rest cur,
  split_target_d (COLON :: rest) cur = Some (rev cur, rest).
Proof. reflexivity. Qed.

Lemma split_bb : forall t cur,
  split_target_d (BSL :: BSL :: t) cur = split_target_d t (BSL :: cur).
Proof. reflexivity. Qed.

Lemma split_bs : forall t cur,
  split_target_d (BSL :: SP :: t) cur = split_target_d t (SP :: cur).
Proof. reflexivity. Qed.

Lemma split_plain : forall c t cur, c <> BSL -> c <> COLON ->
  split_target_d (c :: t) cur = split_target_d t (c :: cur).
Proof.
  intros c t cur Hb Hc. cbn [split_target_d].
  destruct (N.eqb_spec c BSL) as [E | _]; [contradiction |].
  destruct (N.eqb_spec c COLON) as [E | _]; [contradiction |].
  reflexivity.
Qed.

Lemma split_escape : forall m rest cur,
  no_colon m = true ->
  split_target_d (escape m ++ COLON :: rest) cur = Some (rev (rev m ++ cur), rest).
Proof.
  induction m as [| c m IH]; intros rest cur Hnc.
  - cbn [rev]. rewrite escape_nil. cbn [app]. apply split_colon.
  - unfold no_colon in Hnc. cbn [forallb] in Hnc.
    apply andb_true_iff in Hnc. destruct Hnc as [Hc Hm].
    apply negb_true_iff in Hc. apply N.eqb_neq in Hc.
    rewrite escape_cons. cbn [rev]. rewrite <- !app_assoc. cbn [app].
    destruct (N.eq_dec c BSL) as [Hb | Hb].
    + subst c. rewrite esc1_bsl. cbn [app]. rewrite split_bb. apply IH. exact Hm.
    + destruct (N.eq_dec c SP) as [Hs | Hs].
      * subst c. rewrite esc1_sp. cbn [app]. rewrite split_bs. apply IH. exact Hm.
      * rewrite esc1_plain by assumption. cbn [app].
        rewrite split_plain by assumption. apply IH. exact Hm.
Qed.

Lemma roundtrip_dialect : forall m deps,
  no_colon m = true -> forallb nonempty deps = true -> forallb no_nl (m :: deps) = true ->
  parse_d (to_string m deps) = Some (m, deps).
Proof.
  intros m deps Hnc Hne _.
  unfold parse_d, to_string. cbn [app].
  rewrite split_escape by exact Hnc.
  rewrite app_nil_r, rev_involutive.
  rewrite words_d_deps by exact Hne.
  reflexivity.
Qed.

(* ------------------------------------------------------------------ *)
(* reader 2: GNU make                                                  *)
(* ------------------------------------------------------------------ *)

Lemma count_bs_length : forall s n r,
  count_bs s = (n, r) -> length s = (n + length r)%nat.
Proof.
  induction s as [| c t IH]; intros n r H.
  - cbn [count_bs] in H. inversion H. reflexivity.
  - cbn [count_bs] in H. destruct (c =? BSL).
    + destruct (count_bs t) as [n' r'] eqn:E. inversion H. subst n r.
      cbn [length]. rewrite (IH n' r' eq_refl). reflexivity.
    + inversion H. reflexivity.
Qed.

Lemma count_bs_bsl : forall t n r,
  count_bs (BSL :: t) = (n, r) -> exists n', n = S n' /\ count_bs t = (n', r).
Proof.
  intros t n r H. cbn [count_bs] in H. change (BSL =? BSL) with true in H.
  cbv iota in H. destruct (count_bs t) as [n' r'] eqn:E.
  inversion H. subst. exists n'. split; reflexivity.
Qed.

Lemma count_bs_repeat : forall n r,
  count_bs (repeat BSL n ++ SP :: r) = (n, SP :: r).
Proof.
  induction n as [| n IH]; intros r.
  - reflexivity.
  - cbn [repeat app count_bs]. change (BSL =? BSL) with true. cbv iota.
    rewrite IH. reflexivity.
Qed.

Lemma fuel_irrel : forall f1 f2 s cur acc,
  (length s <= f1)%nat -> (length s <= f2)%nat ->
  words_make f1 s cur acc = words_make f2 s cur acc.
Proof.
  induction f1 as [| f1 IH]; intros f2 s cur acc H1 H2.
  - destruct s as [| c t]; [| cbn [length] in H1; lia].
    destruct f2; reflexivity.
  - destruct s as [| c t]; [destruct f2; reflexivity |].
    destruct f2 as [| f2]; [cbn [length] in H2; lia |].
    cbn [length] in H1, H2.
    cbn [words_make].
    destruct (N.eqb_spec c BSL) as [Hb | Hb].
    + subst c.
      destruct (count_bs (BSL :: t)) as [n r] eqn:E.
      destruct (count_bs_bsl _ _ _ E) as [n' [Hn E']].
      apply count_bs_length in E'.
      destruct r as [| d r']; [reflexivity |].
      cbn [length] in E'.
      destruct (d =? SP).
      * destruct (Nat.even n); apply IH; lia.
      * apply IH; cbn [length]; lia.
    + destruct ((c =? SP) || (c =? TAB)); [apply IH; lia |].
      destruct (c =? DOLLAR).
      * destruct t as [| d t']; [reflexivity |].
        destruct (d =? DOLLAR); [| reflexivity].
        cbn [length] in H1, H2. apply IH; lia.
      * apply IH; lia.
Qed.

(* the reader with exactly enough fuel *)
Definition wm (s : str) (cur : str) (acc : list str) : option (list str) :=
  words_make (length s) s cur acc.

Lemma parse_make_wm : forall rest,
  parse_make_deps rest = wm (strip_trailing_blanks (remove_comment rest)) [] [].
Proof.
  intros rest. unfold parse_make_deps, wm. cbv zeta. apply fuel_irrel; lia.
Qed.

Lemma wm_nil : forall cur acc, wm [] cur acc = Some (rev (flush cur acc)).
Proof. reflexivity. Qed.

Lemma wm_sp : forall t cur acc, wm (SP :: t) cur acc = wm t [] (flush cur acc).
Proof. reflexivity. Qed.

Lemma wm_plain : forall c t cur acc,
  c <> BSL -> c <> SP -> c <> TAB -> c <> DOLLAR ->
  wm (c :: t) cur acc = wm t (c :: cur) acc.
Proof.
  intros c t cur acc Hb Hs Ht Hd. unfold wm. cbn [length words_make].
  destruct (N.eqb_spec c BSL) as [E | _]; [contradiction |].
  destruct (N.eqb_spec c SP) as [E | _]; [contradiction |].
  destruct (N.eqb_spec c TAB) as [E | _]; [contradiction |].
  destruct (N.eqb_spec c DOLLAR) as [E | _]; [contradiction |].
  reflexivity.
Qed.

Lemma words_make_bsl_odd : forall f t cur acc n r',
  count_bs (BSL :: t) = (n, SP :: r') -> Nat.even n = false ->
  words_make (S f) (BSL :: t) cur acc
  = words_make f r' (SP :: repeat BSL (Nat.div2 n) ++ cur) acc.
Proof.
  intros f t cur acc n r' Hc He. cbn [words_make].
  change (BSL =? BSL) with true. cbv iota.
  rewrite Hc. cbv iota.
  change (SP =? SP) with true. cbv iota.
  rewrite He. reflexivity.
Qed.

Lemma even_succ_double : forall k, Nat.even (S (k + k)) = false.
Proof.
  induction k as [| k IH]; [reflexivity |].
  replace (S (S k + S k))%nat with (S (S (S (k + k)))) by lia.
  exact IH.
Qed.

Lemma div2_succ_double : forall k, Nat.div2 (S (k + k)) = k.
Proof.
  induction k as [| k IH]; [reflexivity |].
  replace (S (S k + S k))%nat with (S (S (S (k + k)))) by lia.
  cbn [Nat.div2]. cbn [Nat.div2] in IH. rewrite IH. reflexivity.
Qed.

Lemma wm_run : forall k t cur acc,
  wm (repeat BSL (S (k + k)) ++ SP :: t) cur acc
  = wm t (SP :: repeat BSL k ++ cur) acc.
Proof.
  intros k t cur acc. unfold wm.
  assert (Hc : count_bs (BSL :: (repeat BSL (k + k) ++ SP :: t))
               = (S (k + k), SP :: t)%nat).
  { exact (count_bs_repeat (S (k + k)) t). }
  change (repeat BSL (S (k + k)) ++ SP :: t)
    with (BSL :: (repeat BSL (k + k) ++ SP :: t)).
  cbn [length].
  rewrite (words_make_bsl_odd _ _ cur acc _ _ Hc (even_succ_double k)).
  rewrite div2_succ_double.
  apply fuel_irrel.
  - rewrite app_length, repeat_length. cbn [length]. lia.
  - lia.
Qed.

Lemma rev_repeat : forall (a : N) n, rev (repeat a n) = repeat a n.
Proof.
  induction n as [| n IH]; [reflexivity |].
  cbn [repeat rev]. rewrite IH. symmetry. apply repeat_cons.
Qed.

Lemma escape_run : forall k t,
  escape (repeat BSL k ++ SP :: t) = repeat BSL (S (k + k)) ++ SP :: escape t.
Proof.
  induction k as [| k IH]; intros t.
  - cbn [repeat app]. rewrite escape_cons, esc1_sp. reflexivity.
  - cbn [repeat app]. rewrite escape_cons, esc1_bsl, IH.
    replace (S k + S k)%nat with (S (S (k + k))) by lia.
    reflexivity.
Qed.

Definition plain (c : N) : Prop :=
  c <> BSL /\ c <> SP /\ c <> TAB /\ c <> HASH /\ c <> DOLLAR.

Lemma safe_cases : forall d, make_safe d = true ->
  d = [] \/
  (exists c t, d = c :: t /\ plain c /\ make_safe t = true) \/
  (exists k t, d = repeat BSL k ++ SP :: t /\ make_safe t = true).
Proof.
  induction d as [| c t IH]; intros H.
  - left. reflexivity.
  - right. cbn [make_safe] in H.
    destruct (N.eqb_spec c HASH) as [Eh | Hh]; [discriminate H |].
    destruct (N.eqb_spec c DOLLAR) as [Ed | Hd]; [discriminate H |].
    destruct (N.eqb_spec c TAB) as [Et | Ht]; [discriminate H |].
    destruct (N.eqb_spec c NL) as [En | Hn]; [discriminate H |].
    cbn [orb] in H.
    destruct (N.eqb_spec c BSL) as [Eb | Hb].
    + subst c. destruct t as [| d t']; [discriminate H |].
      apply andb_true_iff in H. destruct H as [Hd' Ht'].
      right.
      destruct (IH Ht') as [E | [[c' [t'' [E [Hp Hs]]]] | [k [t'' [E Hs]]]]].
      * discriminate E.
      * inversion E. subst c' t''. destruct Hp as [Hpb [Hps _]].
        apply orb_true_iff in Hd'. destruct Hd' as [Hd' | Hd'];
          apply N.eqb_eq in Hd'; contradiction.
      * exists (S k), t''. rewrite E. split; [reflexivity | exact Hs].
    + destruct (N.eq_dec c SP) as [Es | Hs].
      * subst c. right. exists O, t. split; [reflexivity | exact H].
      * left. exists c, t. split; [reflexivity |]. split; [| exact H].
        unfold plain. repeat split; assumption.
Qed.

Lemma wm_escape_aux : forall n d, (length d <= n)%nat -> make_safe d = true ->
  forall R cur acc, wm (escape d ++ R) cur acc = wm R (rev d ++ cur) acc.
Proof.
  induction n as [| n IH]; intros d Hlen Hsafe R cur acc.
  - destruct d as [| c t]; [reflexivity | cbn [length] in Hlen; lia].
  - destruct (safe_cases d Hsafe) as [E | [[c [t [E [Hp Hs]]]] | [k [t [E Hs]]]]].
    + subst d. reflexivity.
    + subst d. destruct Hp as [Hb [Hsp [Ht [_ Hd]]]].
      rewrite escape_cons, esc1_plain by assumption. cbn [app].
      rewrite wm_plain by assumption.
      cbn [length] in Hlen.
      rewrite IH by (try lia; exact Hs).
      cbn [rev]. rewrite <- app_assoc. reflexivity.
    + subst d. rewrite escape_run, <- app_assoc, <- app_comm_cons.
      rewrite wm_run.
      rewrite app_length, repeat_length in Hlen. cbn [length] in Hlen.
      rewrite IH by (try lia; exact Hs).
      rewrite rev_app_distr. cbn [rev]. rewrite rev_repeat.
      rewrite <- !app_assoc. reflexivity.
Qed.

Lemma wm_escape : forall d R cur acc, make_safe d = true ->
  wm (escape d ++ R) cur acc = wm R (rev d ++ cur) acc.
Proof.
  intros d R cur acc H. apply (wm_escape_aux (length d) d (le_n _) H).
Qed.

Lemma flush_ne : forall cur acc, cur <> [] -> flush cur acc = rev cur :: acc.
Proof. intros [| x cur] acc H; [contradiction | reflexivity]. Qed.

Lemma wm_deps : forall deps cur acc,
  forallb nonempty deps = true -> forallb make_safe deps = true ->
  wm (flat_map (fun d => SP :: escape d) deps) cur acc
  = Some (rev (flush cur acc) ++ deps).
Proof.
  induction deps as [| d ds IH]; intros cur acc Hne Hsafe.
  - cbn [flat_map]. rewrite wm_nil, app_nil_r. reflexivity.
  - cbn [forallb] in Hne, Hsafe.
    apply andb_true_iff in Hne. destruct Hne as [Hd Hds].
    apply andb_true_iff in Hsafe. destruct Hsafe as [Sd Sds].
    cbn [flat_map app]. rewrite wm_sp, wm_escape by exact Sd.
    rewrite app_nil_r.
    rewrite IH by assumption.
    rewrite flush_ne by (apply rev_ne, nonempty_ne, Hd).
    rewrite rev_involutive. cbn [rev]. rewrite <- app_assoc. reflexivity.
Qed.

(* --- pass 1 (comment removal) is the identity on text without '#' --- *)

Definition no_hash (s : str) : bool := forallb (fun c => negb (c =? HASH)) s.

Lemma remove_comment_from_nohash : forall s nb, no_hash s = true ->
  remove_comment_from s nb = repeat BSL nb ++ s.
Proof.
  induction s as [| c t IH]; intros nb H.
  - cbn [remove_comment_from]. rewrite app_nil_r. reflexivity.
  - unfold no_hash in H. cbn [forallb] in H.
    apply andb_true_iff in H. destruct H as [Hc Ht].
    apply negb_true_iff in Hc.
    cbn [remove_comment_from]. destruct (N.eqb_spec c BSL) as [Eb | Hb].
    + subst c. rewrite IH by exact Ht. cbn [repeat].
      rewrite repeat_cons, <- app_assoc. reflexivity.
    + rewrite Hc. rewrite IH by exact Ht. reflexivity.
Qed.

Lemma remove_comment_nohash : forall s, no_hash s = true -> remove_comment s = s.
Proof.
  intros s H. unfold remove_comment.
  rewrite remove_comment_from_nohash by exact H. reflexivity.
Qed.

Lemma make_safe_cons : forall c t, make_safe (c :: t) = true ->
  c <> HASH /\ c <> TAB /\ make_safe t = true.
Proof.
  intros c t H. cbn [make_safe] in H.
  destruct (N.eqb_spec c HASH) as [Eh | Hh]; [discriminate H |].
  destruct (N.eqb_spec c DOLLAR) as [Ed | Hd]; [discriminate H |].
  destruct (N.eqb_spec c TAB) as [Et | Ht]; [discriminate H |].
  destruct (N.eqb_spec c NL) as [En | Hn]; [discriminate H |].
  cbn [orb] in H. split; [exact Hh |]. split; [exact Ht |].
  destruct (c =? BSL); [| exact H].
  destruct t as [| d t']; [discriminate H |].
  apply andb_true_iff in H. destruct H as [_ H]. exact H.
Qed.

Lemma no_hash_esc1 : forall c, c <> HASH -> no_hash (esc1 c) = true.
Proof.
  intros c Hh. unfold esc1.
  destruct (c =? BSL); [reflexivity |].
  destruct (c =? SP); [reflexivity |].
  unfold no_hash. cbn [forallb].
  destruct (N.eqb_spec c HASH) as [E | _]; [contradiction | reflexivity].
Qed.

Lemma no_hash_escape : forall d, make_safe d = true -> no_hash (escape d) = true.
Proof.
  induction d as [| c t IH]; intros H.
  - reflexivity.
  - destruct (make_safe_cons c t H) as [Hh [_ Ht]].
    rewrite escape_cons. unfold no_hash. rewrite forallb_app.
    fold (no_hash (esc1 c)). fold (no_hash (escape t)).
    rewrite no_hash_esc1 by exact Hh. rewrite IH by exact Ht. reflexivity.
Qed.

Lemma no_hash_deps : forall deps, forallb make_safe deps = true ->
  no_hash (flat_map (fun d => SP :: escape d) deps) = true.
Proof.
  induction deps as [| d ds IH]; intros H.
  - reflexivity.
  - cbn [forallb] in H. apply andb_true_iff in H. destruct H as [Hd Hds].
    cbn [flat_map]. unfold no_hash. rewrite forallb_app.
    fold (no_hash (flat_map (fun d => SP :: escape d) ds)).
    rewrite IH by exact Hds. cbn [forallb].
    fold (no_hash (escape d)). rewrite no_hash_escape by exact Hd. reflexivity.
Qed.

(* --- pass 2 (trailing blanks) is the identity when the last byte is not a blank --- *)

Lemma strip_cons : forall c t,
  strip_trailing_blanks (c :: t)
  = match strip_trailing_blanks t with
    | [] => if blank c then [] else [c]
    | x :: t' => c :: x :: t'
    end.
Proof. reflexivity. Qed.

Lemma last_cons2 : forall (A : Type) (a b : A) l d, last (a :: b :: l) d = last (b :: l) d.
Proof. reflexivity. Qed.

Lemma strip_id : forall s, blank (last s 0) = false -> strip_trailing_blanks s = s.
Proof.
  induction s as [| c t IH]; intros H.
  - reflexivity.
  - destruct t as [| c' t'].
    + cbn [last] in H. rewrite strip_cons. cbn [strip_trailing_blanks].
      rewrite H. reflexivity.
    + rewrite last_cons2 in H. rewrite strip_cons, (IH H). reflexivity.
Qed.

Lemma last_app_ne : forall (A : Type) (l1 l2 : list A) d,
  l2 <> [] -> last (l1 ++ l2) d = last l2 d.
Proof.
  intros A l1 l2 d H. induction l1 as [| a l1 IH].
  - reflexivity.
  - cbn [app]. destruct (l1 ++ l2) as [| x r] eqn:E.
    + apply app_eq_nil in E. destruct E as [_ E]. contradiction.
    + rewrite last_cons2. exact IH.
Qed.

Lemma esc1_ne : forall c, esc1 c <> [].
Proof.
  intros c. unfold esc1.
  destruct (c =? BSL); [discriminate |]. destruct (c =? SP); discriminate.
Qed.

Lemma escape_ne : forall d, d <> [] -> escape d <> [].
Proof.
  intros [| c t] H E; [contradiction |].
  rewrite escape_cons in E. apply app_eq_nil in E. destruct E as [E _].
  exact (esc1_ne c E).
Qed.

Lemma last_esc1 : forall c, last (esc1 c) 0 = c.
Proof.
  intros c. unfold esc1.
  destruct (N.eqb_spec c BSL) as [Eb | Hb]; [subst c; reflexivity |].
  destruct (N.eqb_spec c SP) as [Es | Hs]; [subst c; reflexivity |].
  reflexivity.
Qed.

Lemma last_escape : forall d, last (escape d) 0 = last d 0.
Proof.
  induction d as [| c t IH].
  - reflexivity.
  - rewrite escape_cons. destruct t as [| c' t'].
    + rewrite escape_nil, app_nil_r. apply last_esc1.
    + rewrite last_app_ne by (apply escape_ne; discriminate).
      rewrite IH, last_cons2. reflexivity.
Qed.

Lemma last_deps : forall deps, forallb nonempty deps = true -> deps <> [] ->
  last (flat_map (fun d => SP :: escape d) deps) 0 = last (last deps []) 0.
Proof.
  induction deps as [| d ds IH]; intros Hne Hnil.
  - contradiction.
  - cbn [forallb] in Hne. apply andb_true_iff in Hne. destruct Hne as [Hd Hds].
    cbn [flat_map]. destruct ds as [| d' ds'].
    + cbn [flat_map]. rewrite app_nil_r.
      change (SP :: escape d) with ([SP] ++ escape d).
      rewrite last_app_ne by (apply escape_ne, nonempty_ne, Hd).
      rewrite last_escape. reflexivity.
    + rewrite last_app_ne by (cbn [flat_map app]; discriminate).
      rewrite IH by (try exact Hds; discriminate).
      rewrite last_cons2. reflexivity.
Qed.

Lemma forallb_last : forall (P : str -> bool) deps,
  forallb P deps = true -> deps <> [] -> P (last deps []) = true.
Proof.
  intros P. induction deps as [| d ds IH]; intros H Hnil.
  - contradiction.
  - cbn [forallb] in H. apply andb_true_iff in H. destruct H as [Hd Hds].
    destruct ds as [| d' ds'].
    + exact Hd.
    + rewrite last_cons2. apply IH; [exact Hds | discriminate].
Qed.

Lemma make_safe_last_tab : forall d, make_safe d = true -> (last d 0 =? TAB) = false.
Proof.
  induction d as [| c t IH]; intros H.
  - reflexivity.
  - destruct (make_safe_cons c t H) as [_ [Ht Hs]].
    destruct t as [| c' t'].
    + cbn [last]. apply N.eqb_neq. exact Ht.
    + rewrite last_cons2. exact (IH Hs).
Qed.

Lemma roundtrip_gnumake : forall deps,
  forallb nonempty deps = true -> forallb make_safe deps = true ->
  last_not_blank deps = true ->
  parse_make_deps (flat_map (fun d => SP :: escape d) deps) = Some deps.
Proof.
  intros deps Hne Hsafe Hlast.
  destruct (list_eq_dec (list_eq_dec N.eq_dec) deps []) as [E | Hnil].
  - subst deps. reflexivity.
  - rewrite parse_make_wm.
    rewrite remove_comment_nohash by (apply no_hash_deps; exact Hsafe).
    rewrite strip_id.
    + rewrite wm_deps by assumption. reflexivity.
    + rewrite last_deps by assumption.
      unfold last_not_blank in Hlast. apply negb_true_iff in Hlast.
      unfold blank. rewrite Hlast.
      rewrite (make_safe_last_tab _ (forallb_last make_safe deps Hsafe Hnil)).
      reflexivity.
Qed.

Lemma roundtrip_gnumake_refuted :
  (exists d, nonempty d = true /\ no_nl d = true /\
             parse_make_deps (SP :: escape d) <> Some [d]) /\
  parse_make_deps (SP :: escape [97; HASH; 98]) = Some [[97]] /\
  parse_make_deps (SP :: escape [97; DOLLAR; 98]) = None /\
  parse_make_deps (SP :: escape [97; BSL; 98]) = Some [[97; BSL; BSL; 98]] /\
  parse_make_deps (SP :: escape [48; SP]) = Some [[48; BSL]].
Proof.
  split.
  - exists [97; HASH; 98]. split; [reflexivity |]. split; [reflexivity |].
    vm_compute. discriminate.
  - split; [vm_compute; reflexivity |].
    split; [vm_compute; reflexivity |].
    split; vm_compute; reflexivity.
Qed.

(* ------------------------------------------------------------------ *)
(* the sorted set of reported files                                    *)
(* ------------------------------------------------------------------ *)

Lemma str_eqb_eq : forall a b, str_eqb a b = true -> a = b.
Proof.
  induction a as [| x a IH]; intros [| y b] H; cbn [str_eqb] in H;
    try discriminate H.
  - reflexivity.
  - apply andb_true_iff in H. destruct H as [Hxy Hab].
    apply N.eqb_eq in Hxy. subst y. rewrite (IH b Hab). reflexivity.
Qed.

Lemma str_ltb_trans : forall a b c,
  str_ltb a b = true -> str_ltb b c = true -> str_ltb a c = true.
Proof.
  induction a as [| x a IH]; intros [| y b] [| z c] Hab Hbc;
    cbn [str_ltb] in *; try discriminate; try reflexivity.
  destruct (N.ltb_spec x y) as [Hxy | Hxy].
  - destruct (N.ltb_spec y z) as [Hyz | Hyz].
    + destruct (N.ltb_spec x z) as [Hxz | Hxz]; [reflexivity | lia].
    + destruct (N.ltb_spec z y) as [Hzy | Hzy]; [discriminate Hbc |].
      destruct (N.ltb_spec x z) as [Hxz | Hxz]; [reflexivity | lia].
  - destruct (N.ltb_spec y x) as [Hyx | Hyx]; [discriminate Hab |].
    destruct (N.ltb_spec y z) as [Hyz | Hyz].
    + destruct (N.ltb_spec x z) as [Hxz | Hxz]; [reflexivity | lia].
    + destruct (N.ltb_spec z y) as [Hzy | Hzy]; [discriminate Hbc |].
      destruct (N.ltb_spec x z) as [Hxz | Hxz]; [reflexivity |].
      destruct (N.ltb_spec z x) as [Hzx | Hzx]; [lia |].
      exact (IH b c Hab Hbc).
Qed.

Lemma str_ltb_total : forall a b,
  str_ltb a b = false -> str_eqb a b = false -> str_ltb b a = true.
Proof.
  induction a as [| x a IH]; intros [| y b] Hlt Heq;
    cbn [str_ltb str_eqb] in *; try discriminate; try reflexivity.
  destruct (N.ltb_spec x y) as [Hxy | Hxy]; [discriminate Hlt |].
  destruct (N.ltb_spec y x) as [Hyx | Hyx]; [reflexivity |].
  assert (E : x = y) by lia. subst y.
  rewrite N.eqb_refl in Heq. cbn [andb] in Heq.
  exact (IH b Hlt Heq).
Qed.

Lemma set_insert_in : forall f x l, In f (set_insert x l) <-> f = x \/ In f l.
Proof.
  intros f x l. induction l as [| y t IH].
  - cbn [set_insert In]. intuition.
  - cbn [set_insert]. destruct (str_ltb x y) eqn:Hlt.
    + cbn [In]. intuition.
    + destruct (str_eqb x y) eqn:Heq.
      * apply str_eqb_eq in Heq. subst y. cbn [In]. intuition.
      * cbn [In]. rewrite IH. intuition.
Qed.

Lemma fold_insert_in : forall f l acc,
  In f (fold_left (fun acc x => set_insert x acc) l acc) <-> In f l \/ In f acc.
Proof.
  intros f l. induction l as [| x l IH]; intros acc.
  - cbn [fold_left In]. intuition.
  - cbn [fold_left In]. rewrite IH, set_insert_in. intuition.
Qed.

Lemma reported_exact : forall headers incl f,
  In f (reported headers incl) <-> In f headers \/ In f incl.
Proof.
  intros headers incl f. unfold reported, set_of.
  rewrite fold_insert_in, in_app_iff. cbn [In]. intuition.
Qed.

Definition slt (a b : str) : Prop := str_ltb a b = true.

Lemma set_insert_sorted : forall x l,
  StronglySorted slt l -> StronglySorted slt (set_insert x l).
Proof.
  intros x l Hs. induction Hs as [| y t Hs IH Hall].
  - cbn [set_insert]. constructor; constructor.
  - cbn [set_insert]. destruct (str_ltb x y) eqn:Hlt.
    + constructor.
      * constructor; assumption.
      * constructor; [exact Hlt |].
        rewrite Forall_forall in Hall |- *. intros z Hz.
        exact (str_ltb_trans x y z Hlt (Hall z Hz)).
    + destruct (str_eqb x y) eqn:Heq.
      * constructor; assumption.
      * constructor; [exact IH |].
        rewrite Forall_forall in Hall |- *. intros z Hz.
        apply set_insert_in in Hz. destruct Hz as [Hz | Hz].
        -- subst z. exact (str_ltb_total x y Hlt Heq).
        -- exact (Hall z Hz).
Qed.

Lemma fold_insert_sorted : forall l acc,
  StronglySorted slt acc ->
  StronglySorted slt (fold_left (fun acc x => set_insert x acc) l acc).
Proof.
  induction l as [| x l IH]; intros acc Hs.
  - exact Hs.
  - cbn [fold_left]. apply IH, set_insert_sorted, Hs.
Qed.

Lemma reported_sorted : forall headers incl,
  StronglySorted (fun a b => str_ltb a b = true) (reported headers incl).
Proof.
  intros headers incl. unfold reported, set_of.
  apply (fold_insert_sorted (headers ++ incl) []). constructor.
Qed.

(* ------------------------------------------------------------------ *)
(* cargo lines                                                         *)
(* ------------------------------------------------------------------ *)

Lemma cargo_lines_cover : forall files,
  length (cargo_lines files) = length files /\
  forall i f, nth_error files i = Some f ->
              nth_error (cargo_lines files) i = Some (RERUN ++ f).
Proof.
  intros files. unfold cargo_lines. split.
  - apply map_length.
  - intros i f H. exact (map_nth_error (fun f => RERUN ++ f) i files H).
Qed.

(* ------------------------------------------------------------------ *)
(* non-vacuity                                                         *)
(* ------------------------------------------------------------------ *)

(* "a b", "\ " , "\\ x", " ", "c:\ d"-like paths: spaces and backslash runs *)
Definition nv_deps : list str :=
  [[97; 32; 98]; [92; 32]; [92; 92; 32; 120]; [32]; [32; 92; 32; 32];
   [99; 58; 92; 32; 100]; [97; 92; 92; 92; 32]; [92; 92; 32; 32; 122]].

Example roundtrip_gnumake_nonvacuous :
  forallb nonempty nv_deps = true /\ forallb make_safe nv_deps = true /\
  last_not_blank nv_deps = true /\
  parse_make_deps (flat_map (fun d => SP :: escape d) nv_deps) = Some nv_deps.
Proof. vm_compute. repeat split. Qed.

(* the dialect reader takes anything, e.g. trailing backslashes, '#', '$', ':' in deps *)
Definition nv_deps_d : list str :=
  [[92]; [32]; [92; 32]; [32; 92]; [92; 92; 32; 97]; [35]; [36; 120]; [97; 58; 98];
   [97; 92]; [92; 98]].

Example roundtrip_dialect_nonvacuous :
  no_colon [111; 92; 32; 92] = true /\ forallb nonempty nv_deps_d = true /\
  forallb no_nl ([111; 92; 32; 92] :: nv_deps_d) = true /\
  parse_d (to_string [111; 92; 32; 92] nv_deps_d) = Some ([111; 92; 32; 92], nv_deps_d).
Proof. vm_compute. repeat split. Qed.

Example make_safe_rejects_nonvacuous :
  make_safe [92] = false /\ make_safe [97; 92] = false /\ make_safe [92; 98] = false /\
  make_safe [92; 92] = false /\ make_safe [97; 35] = false /\ make_safe [36] = false.
Proof. vm_compute. repeat split. Qed.

Example reported_nonvacuous :
  reported [[98; 32]; [97]] [[98]; [97]; [92]] = [[92]; [97]; [98]; [98; 32]].
Proof. vm_compute. reflexivity. Qed.

Example escape_nonvacuous :
  escape [92; 32; 97; 32; 92] = [92; 92; 92; 32; 97; 92; 32; 92; 92].
Proof. vm_compute. reflexivity. Qed.

(* the GNU make 4.3 observations that drove the three-pass reader *)
Example make_trailing_blank_observed :       (* " 0\ " *)
  parse_make_deps [32; 48; 92; 32] = Some [[48; 92]].
Proof. vm_compute. reflexivity. Qed.

Example make_comment_then_strip_observed :   (* " \ _\ \\ ##aa aZbab" *)
  parse_make_deps [32; 92; 32; 95; 92; 32; 92; 92; 32; 35; 35; 97; 97; 32; 97; 90; 98; 97; 98]
  = Some [[32; 95; 32; 92; 92]].
Proof. vm_compute. reflexivity. Qed.

Example make_hash_observed :                 (* " a#b", " a\#b", " a\\#b", " a\\\#b" *)
  parse_make_deps [32; 97; 35; 98] = Some [[97]] /\
  parse_make_deps [32; 97; 92; 35; 98] = Some [[97; 35; 98]] /\
  parse_make_deps [32; 97; 92; 92; 35; 98] = Some [[97; 92]] /\
  parse_make_deps [32; 97; 92; 92; 92; 35; 98] = Some [[97; 92; 35; 98]].
Proof. vm_compute. repeat split. Qed.

Example make_dollar_observed :               (* " a$b", " a$$b" *)
  parse_make_deps [32; 97; 36; 98] = None /\
  parse_make_deps [32; 97; 36; 36; 98] = Some [[97; 36; 98]].
Proof. vm_compute. repeat split. Qed.

(* last_not_blank is needed: a make_safe list whose last path ends in a space fails,
   while a space at the end of an earlier path is harmless *)
Example last_not_blank_needed_nonvacuous :
  make_safe [48; 32] = true /\ last_not_blank [[48; 32]] = false /\
  parse_make_deps (flat_map (fun d => SP :: escape d) [[48; 32]]) = Some [[48; 92]] /\
  last_not_blank [[48; 32]; [49]] = true /\
  parse_make_deps (flat_map (fun d => SP :: escape d) [[48; 32]; [49]]) = Some [[48; 32]; [49]].
Proof. vm_compute. repeat split. Qed.
