(* C17 — property theorems (statements only; proofs in Proofs.v). *)
From Coq Require Import NArith List Bool Sorted.
From BG Require Import C17.Model C17.Proofs.
Import ListNotations.
Open Scope N_scope.

(* the two-pass str::replace chain is the obvious one-pass escaping *)
Theorem escape_one_pass : forall s,
  escape s = flat_map (fun c => if c =? BSL then [BSL; BSL]
                                else if c =? SP then [BSL; SP] else [c]) s.
Proof. exact Proofs.escape_one_pass. Qed.
Print Assumptions escape_one_pass.

Theorem escape_injective : forall a b, escape a = escape b -> a = b.
Proof. exact Proofs.escape_injective. Qed.
Print Assumptions escape_injective.

(* round trip through the cargo / ninja / rustc depfile dialect: for every target
   without ':' and every list of non-empty paths, whatever bytes they contain other
   than a newline (which no line-oriented reader can represent; the model reader does
   not need the hypothesis, real readers do) *)
Theorem roundtrip_dialect : forall m deps,
  no_colon m = true -> forallb nonempty deps = true -> forallb no_nl (m :: deps) = true ->
  parse_d (to_string m deps) = Some (m, deps).
Proof. exact Proofs.roundtrip_dialect. Qed.
Print Assumptions roundtrip_dialect.

(* round trip through GNU make needs more: safe characters, and the last path must not
   end with a space (make strips trailing blanks before unquoting) *)
Theorem roundtrip_gnumake_partial : forall deps,
  forallb nonempty deps = true -> forallb make_safe deps = true ->
  last_not_blank deps = true ->
  parse_make_deps (flat_map (fun d => SP :: escape d) deps) = Some deps.
Proof. exact Proofs.roundtrip_gnumake. Qed.
Print Assumptions roundtrip_gnumake_partial.

(* '#', '$', a backslash not followed by a space, and a trailing space are not protected *)
Theorem roundtrip_gnumake_refuted :
  (exists d, nonempty d = true /\ no_nl d = true /\
             parse_make_deps (SP :: escape d) <> Some [d]) /\
  parse_make_deps (SP :: escape [97; HASH; 98]) = Some [[97]] /\
  parse_make_deps (SP :: escape [97; DOLLAR; 98]) = None /\
  parse_make_deps (SP :: escape [97; BSL; 98]) = Some [[97; BSL; BSL; 98]] /\
  parse_make_deps (SP :: escape [48; SP]) = Some [[48; BSL]].
Proof. exact Proofs.roundtrip_gnumake_refuted. Qed.
Print Assumptions roundtrip_gnumake_refuted.

(* the set of reported files: exactly the inputs and the included files, sorted, no duplicates *)
Theorem reported_exact : forall headers incl f,
  In f (reported headers incl) <-> In f headers \/ In f incl.
Proof. exact Proofs.reported_exact. Qed.
Print Assumptions reported_exact.

Theorem reported_sorted_nodup : forall headers incl,
  StronglySorted (fun a b => str_ltb a b = true) (reported headers incl).
Proof. exact Proofs.reported_sorted. Qed.
Print Assumptions reported_sorted_nodup.

(* one cargo line per reported file, in order, and nothing else *)
Theorem cargo_lines_cover : forall files,
  length (cargo_lines files) = length files /\
  forall i f, nth_error files i = Some f -> nth_error (cargo_lines files) i = Some (RERUN ++ f).
Proof. exact Proofs.cargo_lines_cover. Qed.
Print Assumptions cargo_lines_cover.
