(* C17 — model of bindgen/deps.rs (DepfileSpec::to_string), of the two readers of
   the produced file, and of the bookkeeping that decides which files are reported.
   Strings are lists of bytes (N).  Definitions only. *)
From Coq Require Import NArith List Bool.
Import ListNotations.
Open Scope N_scope.

Definition str := list N.
Definition BSL : N := 92.   (* \ *)
Definition SP : N := 32.
Definition COLON : N := 58.
Definition HASH : N := 35.
Definition DOLLAR : N := 36.
Definition NL : N := 10.
Definition TAB : N := 9.

(* str::replace(c, with) for a single-character pattern *)
Fixpoint replace_char (c : N) (w : str) (s : str) : str :=
  match s with
  | [] => []
  | x :: t => if x =? c then w ++ replace_char c w t else x :: replace_char c w t
  end.

(* let escape = |s| s.replace('\\', "\\\\").replace(' ', "\\ "); *)
Definition escape (s : str) : str :=
  replace_char SP [BSL; SP] (replace_char BSL [BSL; BSL] s).

(* format!("{}:", escape(module)) then " {escape(file)}" for each dep in set order *)
Definition to_string (module : str) (deps : list str) : str :=
  escape module ++ [COLON] ++ flat_map (fun d => SP :: escape d) deps.

(* BTreeSet<Box<str>>: byte-wise lexicographic order, duplicates collapse *)
Fixpoint str_ltb (a b : str) : bool :=
  match a, b with
  | [], [] => false
  | [], _ :: _ => true
  | _ :: _, [] => false
  | x :: a', y :: b' => if x <? y then true else if y <? x then false else str_ltb a' b'
  end.
Fixpoint str_eqb (a b : str) : bool :=
  match a, b with
  | [], [] => true
  | x :: a', y :: b' => (x =? y) && str_eqb a' b'
  | _, _ => false
  end.
Fixpoint set_insert (x : str) (l : list str) : list str :=
  match l with
  | [] => [x]
  | y :: t => if str_ltb x y then x :: y :: t
              else if str_eqb x y then y :: t
              else y :: set_insert x t
  end.
Definition set_of (l : list str) : list str := fold_left (fun acc x => set_insert x acc) l [].

(* ---------- reader 1: the depfile dialect of cargo / ninja / rustc dep-info ----------
   "\\" -> "\", "\ " -> " ", any other backslash is literal; unescaped spaces separate
   words; the target ends at the first ':' of the first word. *)
Fixpoint words_d (s : str) (cur : str) (acc : list str) : list str :=
  match s with
  | [] => rev (if match cur with [] => true | _ => false end then acc else rev cur :: acc)
  | c :: t =>
      if c =? BSL then
        match t with
        | d :: t' => if (d =? BSL) || (d =? SP) then words_d t' (d :: cur) acc
                     else words_d t (c :: cur) acc
        | [] => words_d t (c :: cur) acc
        end
      else if c =? SP then
        words_d t [] (if match cur with [] => true | _ => false end then acc else rev cur :: acc)
      else words_d t (c :: cur) acc
  end.

(* split "target:" off: the line is  <escaped target> ':' <rest> ; the target's own
   escaping is undone by the same rules *)
Fixpoint split_target_d (s : str) (cur : str) : option (str * str) :=
  match s with
  | [] => None
  | c :: t =>
      if c =? BSL then
        match t with
        | d :: t' => if (d =? BSL) || (d =? SP) then split_target_d t' (d :: cur)
                     else split_target_d t (c :: cur)
        | [] => None
        end
      else if c =? COLON then Some (rev cur, t)
      else split_target_d t (c :: cur)
  end.

Definition parse_d (s : str) : option (str * list str) :=
  match split_target_d s [] with
  | Some (tgt, rest) => Some (tgt, words_d rest [] [])
  | None => None
  end.

(* ---------- reader 2: GNU make (4.3) reading the prerequisites of a rule line ----------
   Observed behaviour (remove_comments / find_char_unquote / parse_file_seq), validated
   against the real make in the correspondence run.  Three passes, in this order:
   1. comment removal: the first '#' that is not preceded by an odd run of backslashes
      cuts the line; a run of n backslashes directly before a '#' is halved (n/2 kept),
      and for odd n the '#' stays as a literal character ("\#" -> "#");
   2. trailing blanks (space / tab) are stripped from what is left, naively: a blank
      is dropped even when a backslash precedes it ("0\ " is left as "0\");
   3. word splitting, where '#' is by now an ordinary character:
      - a run of n backslashes directly before a space: n even -> n/2 backslashes, the
        space separates; n odd -> (n-1)/2 backslashes followed by a literal space;
      - backslashes not followed by a space (in particular at end of line) are kept;
      - '$$' is a literal '$'; '$' followed by anything else is a variable reference:
        this reader gives up (None) — whatever make substitutes, it is not the path. *)
Fixpoint count_bs (s : str) : nat * str :=
  match s with
  | c :: t => if c =? BSL then let (n, r) := count_bs t in (S n, r) else (O, s)
  | [] => (O, [])
  end.

(* pass 1; [nb] = number of backslashes seen immediately before the current position *)
Fixpoint remove_comment_from (s : str) (nb : nat) : str :=
  match s with
  | [] => repeat BSL nb
  | c :: t =>
      if c =? BSL then remove_comment_from t (S nb)
      else if c =? HASH then
        if Nat.even nb then repeat BSL (Nat.div2 nb)                       (* comment *)
        else repeat BSL (Nat.div2 nb) ++ HASH :: remove_comment_from t O   (* quoted '#' *)
      else repeat BSL nb ++ c :: remove_comment_from t O
  end.
Definition remove_comment (s : str) : str := remove_comment_from s O.

(* pass 2 *)
Definition blank (c : N) : bool := (c =? SP) || (c =? TAB).
Fixpoint strip_trailing_blanks (s : str) : str :=
  match s with
  | [] => []
  | c :: t =>
      match strip_trailing_blanks t with
      | [] => if blank c then [] else [c]
      | t' => c :: t'
      end
  end.

Definition flush (cur : str) (acc : list str) : list str :=
  match cur with [] => acc | _ => rev cur :: acc end.

(* pass 3; fuel = length of the input; structurally decreasing on fuel *)
Fixpoint words_make (fuel : nat) (s : str) (cur : str) (acc : list str) : option (list str) :=
  match fuel with
  | O => match s with [] => Some (rev (flush cur acc)) | _ => None end
  | S fuel' =>
    match s with
    | [] => Some (rev (flush cur acc))
    | c :: t =>
      if c =? BSL then
        let (n, r) := count_bs s in
        match r with
        | d :: r' =>
            if d =? SP then
              let half := repeat BSL (Nat.div2 n) in
              if Nat.even n then words_make fuel' r' [] (flush (half ++ cur) acc)
              else words_make fuel' r' (d :: half ++ cur) acc        (* quoted space *)
            else words_make fuel' r (repeat BSL n ++ cur) acc
        | [] => Some (rev (flush (repeat BSL n ++ cur) acc))
        end
      else if (c =? SP) || (c =? TAB) then words_make fuel' t [] (flush cur acc)
      else if c =? DOLLAR then
        match t with
        | d :: t' => if d =? DOLLAR then words_make fuel' t' (DOLLAR :: cur) acc else None
        | [] => None
        end
      else words_make fuel' t (c :: cur) acc
    end
  end.

Definition parse_make_deps (rest : str) : option (list str) :=
  let line := strip_trailing_blanks (remove_comment rest) in
  words_make (S (length line)) line [] [].

(* characters that survive GNU make: no '#', no '$', and every backslash run is
   directly followed by a space-to-be-escaped (i.e. in the *path* every backslash
   is followed by a space) *)
Fixpoint make_safe (p : str) : bool :=
  match p with
  | [] => true
  | c :: t =>
      if (c =? HASH) || (c =? DOLLAR) || (c =? TAB) || (c =? NL) then false
      else if c =? BSL then
        match t with d :: _ => ((d =? SP) || (d =? BSL)) && make_safe t | [] => false end
      else make_safe t
  end.

(* the last dependency does not end with a space (pass 2 of the make reader would eat
   it; a trailing tab or backslash is already excluded by make_safe) *)
Definition last_not_blank (deps : list str) : bool :=
  negb (last (last deps []) 0 =? SP).

Definition no_nl (p : str) : bool := forallb (fun c => negb (c =? NL)) p.
Definition nonempty (p : str) : bool := match p with [] => false | _ => true end.
Definition no_colon (p : str) : bool := forallb (fun c => negb (c =? COLON)) p.

(* ---------- which files are reported ----------
   deps = input headers  ∪  the file of every inclusion directive clang reports
   (oracle list [incl]); cargo callbacks print one line per reported file. *)
Definition reported (headers : list str) (incl : list str) : list str :=
  set_of (headers ++ incl).

Definition RERUN : str := (* "cargo:rerun-if-changed=" *)
  [99;97;114;103;111;58;114;101;114;117;110;45;105;102;45;99;104;97;110;103;101;100;61].
Definition cargo_lines (files : list str) : list str := map (fun f => RERUN ++ f) files.
