(* C10 — property theorems; most are corollaries of C09 (traversal), C07 (Trace) and C02 (blob). *)
From Coq Require Import NArith List Bool.
From BG Require Import C07.Model C09.Model C09.Proofs C02.Model C02.Proofs C10.Model.
Import ListNotations.
Open Scope N_scope.

(* a blocklisted item is never part of what gets generated ... *)
Theorem blocklisted_never_defined : forall fuel g pred bl roots res n,
  allowlisted fuel g pred bl roots = Some res -> bl n = true -> ~ In n res.
Proof. exact C09.Proofs.block_beats_allow. Qed.
Print Assumptions blocklisted_never_defined.

(* ... while everything that refers to it stays (closure allows exactly blocklisted targets to be missing) *)
Theorem blocklisted_still_referenced : forall fuel g pred bl roots res,
  allowlisted fuel g pred bl roots = Some res ->
  forall n e, In n res -> In e (trace (get g n)) -> pred e = true ->
              In (fst e) res \/ bl (fst e) = true.
Proof. exact C09.Proofs.closure. Qed.
Print Assumptions blocklisted_still_referenced.

(* an opaque composite exposes neither bases nor fields to any traversal or analysis *)
Theorem opaque_exposes_nothing : forall c e,
  In e (trace_comp c true) ->
  snd e <> E_BaseMember /\ snd e <> E_Field.
Proof.
  intros c e H. unfold trace_comp in H. rewrite app_nil_r in H.
  repeat (apply in_app_or in H as [H|H]); apply in_map_iff in H as [x [<- _]]; cbn [snd];
    unfold E_BaseMember, E_Field, E_TemplateParameterDefinition, E_InnerType, E_InnerVar, E_Method, E_Destructor, E_Constructor;
    split; discriminate.
Qed.
Print Assumptions opaque_exposes_nothing.

(* the blob emitted for an opaque type has exactly the C size and alignment (whenever the
   alignment divides the size, which holds for every complete C type) *)
Theorem opaque_blob_exact : forall s a, 0 < a -> s mod a = 0 ->
  e_fields (emit_opaque s a) = [(s, a)] /\ e_members (emit_opaque s a) = 0%nat /\ e_accessors (emit_opaque s a) = 0%nat.
Proof.
  intros s a Ha Hm. unfold emit_opaque. cbn [e_fields e_members e_accessors].
  destruct (C02.Proofs.blob_exact s a Ha Hm) as [-> ->]. repeat split; reflexivity.
Qed.
Print Assumptions opaque_blob_exact.

(* no trait is derived through a blocklisted type unless the user vouches for it *)
Theorem no_derive_through_blocklisted : forall opaque ru rest,
  derive_head false None opaque ru rest = No /\
  forall v, derive_head false (Some v) opaque ru rest = v.
Proof. intros. split; reflexivity. Qed.
Print Assumptions no_derive_through_blocklisted.

(* an opaque type derives from its layout alone, whatever its hidden members are *)
Theorem opaque_derive_ignores_members : forall rest rest',
  derive_head true None true false rest = derive_head true None true false rest'.
Proof. reflexivity. Qed.
Print Assumptions opaque_derive_ignores_members.

(* a by-value reference to an opaque type gets the answer of the type it refers to *)
Theorem opaque_reference_agrees : forall cdu unt target rest rest',
  derive_head true None true (no_derive cdu unt (head_union true false target)) rest =
  derive_head true None true (no_derive cdu unt (head_union false target target)) rest'.
Proof. reflexivity. Qed.
Print Assumptions opaque_reference_agrees.

(* which the rule before the repair (71df3d55) did not: the reference to an opaque union said Yes, the union No *)
Theorem opaque_reference_old_refuted : exists cdu unt target rest rest',
  derive_head true None true (no_derive cdu unt (head_union_old true false target)) rest = Yes /\
  derive_head true None true (no_derive cdu unt (head_union_old false target target)) rest' = No.
Proof. exists false, true, true, Yes, Yes. split; reflexivity. Qed.
Print Assumptions opaque_reference_old_refuted.
