(* C10 — blocklisted items / opaque types.  The traversal and blocklist filter are those
   of C09/Model.v, the Trace cut-off for opaque items that of C07/Model.v, the blob that of
   C02/Model.v.  Here: the derive rule for non-allowlisted (blocklisted) items and the shape of
   what is emitted for an opaque composite.  Definitions only. *)
From Coq Require Import NArith List Bool.
From BG Require Import C07.Model C02.Model.
Import ListNotations.
Open Scope N_scope.

(* CanDerive: 0 Yes < 1 Manually < 2 No (join = max) *)
Definition Yes : N := 0. Definition Manually : N := 1. Definition No : N := 2.

(* CannotDerive::constrain_type, first two steps: [vouched] is what the user's
   blocklisted_type_implements_trait callback answers (None = no callback / no answer) *)
Definition derive_head (allowlisted : bool) (vouched : option N) (opaque : bool)
           (rust_union_no_derive : bool) (rest : N) : N :=
  if negb allowlisted then match vouched with Some v => v | None => No end
  else if opaque then (if rust_union_no_derive then No else Yes)
  else rest.

(* what CompInfo::codegen emits for an opaque composite with a known layout: one blob
   field, no member, no base, no accessor *)
Record emitted := { e_fields : list (N * N) (* size, align of each field *); e_members : nat; e_accessors : nat }.
Definition emit_opaque (size align : N) : emitted :=
  {| e_fields := [(blob_size size align, blob_align size align)]; e_members := 0; e_accessors := 0 |}.

(* the union test of the opaque branch of constrain_type. [is_ref]: the type is a
   ResolvedTypeRef (such a reference to an opaque item is opaque itself); [own]: its own
   kind is a union (never the case for a reference); [target]: its canonical type is one *)
Definition head_union (is_ref own target : bool) : bool := if is_ref then target else own.
(* before 71df3d55 *)
Definition head_union_old (is_ref own target : bool) : bool := own.
Definition no_derive (can_derive_union untagged is_union : bool) : bool :=
  negb can_derive_union && is_union && untagged.
