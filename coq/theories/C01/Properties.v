(* C01 — property theorems about names (statements; proofs in Proofs.v).  The keyword list is the
   one regenerated from bindgen/ir/context.rs on this run. *)
From Coq Require Import NArith List Bool.
From BG Require Import C01.Model C01.Proofs.
From BGgen Require Import C01_Table.
Import ListNotations.
Open Scope N_scope.

(* the list in the source covers everything Rust reserves *)
Theorem keywords_cover_reserved : forallb (fun r => smem r C01_Table.keywords) reserved = true.
Proof. vm_compute. reflexivity. Qed.
Print Assumptions keywords_cover_reserved.

(* so no mangled name is a reserved word, for every input string.  Side conditions of the general
   lemma: the only reserved word ending in `_` is `_` itself (a mangled name ending in `_` has at
   least two bytes unless the input is empty), and the empty string is not a keyword (otherwise
   "" would be mangled to `_`) *)
Theorem mangle_avoids_reserved : forall s, smem (mangle C01_Table.keywords s) reserved = false.
Proof.
  apply C01.Proofs.mangle_avoids_reserved_gen.
  - exact keywords_cover_reserved.
  - vm_compute. reflexivity.
  - vm_compute. reflexivity.
Qed.
Print Assumptions mangle_avoids_reserved.

(* and every identifier clang can hand over becomes a Rust identifier *)
Theorem mangle_is_ident : forall s, c_ident s = true -> rust_ident (mangle C01_Table.keywords s) = true.
Proof.
  apply C01.Proofs.mangle_is_ident_gen.
  vm_compute. reflexivity.
Qed.
Print Assumptions mangle_is_ident.

(* distinct C names stay distinct unless one of them ends in `_` or contains `$ @ ?` ... *)
Theorem mangle_injective_partial : forall kw a b,
  ends_with_underscore a = false -> ends_with_underscore b = false ->
  no_special a = true -> no_special b = true ->
  mangle kw a = mangle kw b -> a = b.
Proof. exact C01.Proofs.mangle_injective_partial. Qed.
Print Assumptions mangle_injective_partial.

(* ... which is necessary: `type` and `type_` collide (known finding: fields, parameters and
   enumerators get no second renaming) *)
Theorem mangle_collision_refuted : exists a b, a <> b /\
  c_ident a = true /\ c_ident b = true /\ mangle C01_Table.keywords a = mangle C01_Table.keywords b.
Proof. exact (C01.Proofs.mangle_collision_refuted C01_Table.keywords eq_refl). Qed.
Print Assumptions mangle_collision_refuted.

(* overload numbering gives pairwise distinct names when no declared name already ends in a digit.
   The length bound is an artefact of the model, not of bindgen: [dec] has fuel 40 and renders only
   the last 40 digits of larger counters (C01.Proofs.dec_not_injective) *)
Theorem assign_nodup_partial : forall names,
  N.of_nat (length names) < 10 ^ 40 ->
  forallb (fun n => negb (ends_with_digit n)) names = true -> NoDup (assign names).
Proof. exact C01.Proofs.assign_nodup_partial. Qed.
Print Assumptions assign_nodup_partial.

(* ... and not otherwise: foo, foo, foo1 (known finding) *)
Theorem assign_collision_refuted : exists names, ~ NoDup (assign names).
Proof. exact C01.Proofs.assign_collision_refuted. Qed.
Print Assumptions assign_collision_refuted.
