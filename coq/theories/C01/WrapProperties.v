(* C01 — method wrappers: statements only. *)
From Coq Require Import NArith List Bool Ascii String.
From BG Require Import C01.Model C01.Wrap C01.WrapProofs.
From BGgen Require Import C01_Table.
Import ListNotations.
Open Scope N_scope.

(* mangling twice is mangling once.  The empty string must not be a keyword: with kw = [""; "_"] (kw_ok holds)
   mangle kw "" = "_" and mangle kw "_" = "__" *)
Theorem mangle_idempotent : forall kw s, kw_ok kw = true -> smem [] kw = false ->
  mangle kw (mangle kw s) = mangle kw s.
Proof. exact C01.WrapProofs.mangle_idempotent. Qed.
Print Assumptions mangle_idempotent.

(* the body of every method wrapper names exactly the parameters its own signature declares, in order: for
   every parameter list (any mix of named and unnamed parameters, keywords and `$` names included) *)
Theorem call_site_matches_declaration : forall kw args,
  kw_ok kw = true -> smem [] kw = false -> call_names kw args = decl_names kw args.
Proof. exact C01.WrapProofs.call_site_matches_declaration. Qed.
Print Assumptions call_site_matches_declaration.

(* ... instantiated with the keyword list of the current source *)
Theorem call_site_matches_declaration_gen : forall args, call_names keywords args = decl_names keywords args.
Proof. exact C01.WrapProofs.call_site_matches_declaration_gen. Qed.
Print Assumptions call_site_matches_declaration_gen.

(* numbering unnamed parameters by position instead (seeded change C01-3) breaks it as soon as an unnamed
   parameter is not preceded by exactly its rank - 1 unnamed ones and nothing else *)
Theorem positional_numbering_refuted : exists args,
  call_names_positional keywords 1 args <> decl_names keywords args.
Proof. exact C01.WrapProofs.positional_numbering_refuted. Qed.
Print Assumptions positional_numbering_refuted.

(* ... and is harmless exactly when every unnamed parameter's rank equals its position: all unnamed *)
Theorem positional_numbering_all_unnamed : forall kw n,
  call_names_positional kw 1 (repeat None n) = decl_names kw (repeat None n).
Proof. exact C01.WrapProofs.positional_numbering_all_unnamed. Qed.
Print Assumptions positional_numbering_all_unnamed.

(* the declared names need not be distinct: a parameter literally called arg<k> clashes with the k-th unnamed one
   (known finding C01-rustc:E0415:duplicate-name) *)
Theorem declared_names_clash_refuted : exists args,
  NoDup (flat_map (fun a => match a with Some n => [n] | None => [] end) args) /\ ~ NoDup (decl_names keywords args).
Proof. exact C01.WrapProofs.declared_names_clash_refuted. Qed.
Print Assumptions declared_names_clash_refuted.

Example wrap_example :
  decl_names keywords [Some (of_string "data"); None; Some (of_string "type"); None]
    = [of_string "data"; of_string "arg1"; of_string "type_"; of_string "arg2"] /\
  call_names keywords [Some (of_string "data"); None; Some (of_string "type"); None]
    = [of_string "data"; of_string "arg1"; of_string "type_"; of_string "arg2"] /\
  kw_ok keywords = true.
Proof. vm_compute. repeat split; reflexivity. Qed.
