(* C01 — parameter names of method wrappers.  Definitions only.
   A C++ method / constructor / static member function is bound twice: an `extern "C"` declaration whose
   parameter list comes from codegen::utils::fnsig_arguments, and an inherent method whose body calls that
   declaration with the identifiers of helpers::ast_ty::arguments_from_signature.  Both number the unnamed
   parameters themselves; the wrapper compiles only if the two lists agree.
     declaration : named  -> rust_ident (rust_mangle name)      unnamed (k-th, from 1) -> rust_ident "arg<k>"
     call site   : named  -> rust_ident name                    unnamed (k-th, from 1) -> rust_ident "arg<k>"
   with rust_ident s = the identifier rust_mangle s. *)
From Coq Require Import NArith List Bool Ascii String.
From BG Require Import C01.Model.
Import ListNotations.
Open Scope N_scope.

Definition arg_name (k : N) : str := of_string "arg" ++ dec k.

Fixpoint decl_names_from (kw : list str) (k : N) (args : list (option str)) : list str :=
  match args with
  | [] => []
  | Some n :: r => mangle kw (mangle kw n) :: decl_names_from kw k r
  | None :: r => mangle kw (arg_name (k + 1)) :: decl_names_from kw (k + 1) r
  end.
Definition decl_names (kw : list str) (args : list (option str)) : list str := decl_names_from kw 0 args.

Fixpoint call_names_from (kw : list str) (k : N) (args : list (option str)) : list str :=
  match args with
  | [] => []
  | Some n :: r => mangle kw n :: call_names_from kw k r
  | None :: r => mangle kw (arg_name (k + 1)) :: call_names_from kw (k + 1) r
  end.
Definition call_names (kw : list str) (args : list (option str)) : list str := call_names_from kw 0 args.

(* the variant in which the call site numbers unnamed parameters by their position (seeded change C01-3) *)
Fixpoint call_names_positional (kw : list str) (i : N) (args : list (option str)) : list str :=
  match args with
  | [] => []
  | Some n :: r => mangle kw n :: call_names_positional kw (i + 1) r
  | None :: r => mangle kw (arg_name i) :: call_names_positional kw (i + 1) r
  end.

(* what mangling needs to be idempotent (together with: the empty string is not a keyword): the only keyword
   that ends with an underscore is `_` itself
   (true of the regenerated list: checked by computation in WrapProperties.v) *)
Definition kw_ok (kw : list str) : bool :=
  forallb (fun k => negb (ends_with_underscore k) || str_eqb k [underscore]) kw.
