(* C01 — method wrappers: proofs.  The general lemmas are stated for an arbitrary keyword list [kw]
   with boolean side conditions; the `_gen` instances discharge them by computation on the
   regenerated list.
   Side condition [smem [] kw = false]: without it mangling is NOT idempotent.  With
   kw = [""; "_"] (kw_ok holds), mangle kw "" = "_" and mangle kw "_" = "__". *)
From Coq Require Import NArith List Bool Ascii String.
From BG Require Import C01.Model C01.Proofs C01.Wrap.
From BGgen Require Import C01_Table.
Import ListNotations.
Open Scope N_scope.

(* ---------- replace_special leaves no special byte ---------- *)
Lemma rs_nospecial : forall s, existsb is_special (replace_special s) = false.
Proof.
  induction s as [|a s IH]; [reflexivity|].
  rewrite replace_special_cons. cbn [existsb]. rewrite IH, orb_false_r.
  destruct (is_special a) eqn:E; [reflexivity|exact E].
Qed.

Lemma snoc_not_kw : forall kw s, kw_ok kw = true -> smem [] kw = false ->
  existsb is_special s || smem s kw = true ->
  smem (replace_special s ++ [underscore]) kw = false.
Proof.
  intros kw s Hok He C.
  destruct (smem (replace_special s ++ [underscore]) kw) eqn:E; [exfalso|reflexivity].
  apply smem_In in E. unfold kw_ok in Hok. rewrite forallb_forall in Hok.
  specialize (Hok _ E). cbv beta in Hok.
  rewrite ewu_snoc in Hok. change (negb true) with false in Hok. rewrite orb_false_l in Hok.
  apply str_eqb_eq in Hok.
  destruct s as [|b t].
  - cbn [existsb] in C. rewrite He in C. discriminate.
  - rewrite replace_special_cons in Hok. cbn [app] in Hok. injection Hok as _ Hok.
    apply app_eq_nil in Hok. destruct Hok as [_ Hok]. discriminate.
Qed.

(* ---------- mangling twice is mangling once ---------- *)
Lemma mangle_idempotent : forall kw s, kw_ok kw = true -> smem [] kw = false ->
  mangle kw (mangle kw s) = mangle kw s.
Proof.
  intros kw s Hok He.
  destruct (existsb is_special s || smem s kw) eqn:C.
  - assert (E : mangle kw s = replace_special s ++ [underscore])
      by (unfold mangle; rewrite C; reflexivity).
    rewrite E. unfold mangle.
    rewrite existsb_app, rs_nospecial, (snoc_not_kw kw s Hok He C). reflexivity.
  - assert (E : mangle kw s = s) by (unfold mangle; rewrite C; reflexivity).
    rewrite E. exact E.
Qed.

(* ---------- call site = declaration ---------- *)
Lemma call_decl_from : forall kw, kw_ok kw = true -> smem [] kw = false ->
  forall args k, call_names_from kw k args = decl_names_from kw k args.
Proof.
  intros kw Hok He. induction args as [|a r IH]; intros k; [reflexivity|].
  destruct a as [n|]; cbn [call_names_from decl_names_from]; rewrite IH.
  - rewrite (mangle_idempotent kw n Hok He). reflexivity.
  - reflexivity.
Qed.

Lemma call_site_matches_declaration : forall kw args,
  kw_ok kw = true -> smem [] kw = false -> call_names kw args = decl_names kw args.
Proof.
  intros kw args Hok He. unfold call_names, decl_names. apply call_decl_from; assumption.
Qed.

Lemma call_site_matches_declaration_gen : forall args, call_names keywords args = decl_names keywords args.
Proof.
  intros args. apply call_site_matches_declaration; vm_compute; reflexivity.
Qed.

(* ---------- positional numbering ---------- *)
Lemma positional_numbering_refuted : exists args,
  call_names_positional keywords 1 args <> decl_names keywords args.
Proof.
  exists [Some (of_string "x"); None].
  intro H. vm_compute in H. discriminate H.
Qed.

Lemma positional_from_all_unnamed : forall kw n k,
  call_names_positional kw (k + 1) (repeat None n) = decl_names_from kw k (repeat None n).
Proof.
  intros kw. induction n as [|n IH]; intros k; [reflexivity|].
  cbn [repeat call_names_positional decl_names_from]. rewrite IH. reflexivity.
Qed.

Lemma positional_numbering_all_unnamed : forall kw n,
  call_names_positional kw 1 (repeat None n) = decl_names kw (repeat None n).
Proof.
  intros kw n. unfold decl_names. change 1 with (0 + 1). apply positional_from_all_unnamed.
Qed.

(* ---------- the declared names need not be distinct ---------- *)
Lemma declared_names_clash_refuted : exists args,
  NoDup (flat_map (fun a => match a with Some n => [n] | None => [] end) args) /\ ~ NoDup (decl_names keywords args).
Proof.
  exists [Some (of_string "arg1"); None]. split.
  - change (NoDup [of_string "arg1"]). constructor; [intros []|constructor].
  - intro H. vm_compute in H.
    inversion H as [|x l Hnin _]. apply Hnin. left. reflexivity.
Qed.
