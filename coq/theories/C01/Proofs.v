(* C01 — proofs of the general lemmas about names.  The generated keyword table is NOT imported
   here: every lemma is stated for an arbitrary keyword list [kw] with side conditions that
   Properties.v discharges by computation on the regenerated list. *)
From Coq Require Import String NArith List Bool Lia.
From BG Require Import C01.Model.
Import ListNotations.
Open Scope N_scope.

(* ---------- string equality / membership ---------- *)
Lemma str_eqb_refl : forall a, str_eqb a a = true.
Proof. induction a; simpl; [reflexivity|]. rewrite N.eqb_refl, IHa. reflexivity. Qed.

Lemma str_eqb_eq : forall a b, str_eqb a b = true -> a = b.
Proof.
  induction a; destruct b; simpl; intros H; try discriminate; [reflexivity|].
  apply andb_prop in H. destruct H as [H1 H2].
  apply N.eqb_eq in H1. apply IHa in H2. subst. reflexivity.
Qed.

Lemma smem_In : forall s l, smem s l = true -> In s l.
Proof.
  unfold smem. intros s l H. apply existsb_exists in H. destruct H as [x [Hin He]].
  apply str_eqb_eq in He. subst. exact Hin.
Qed.

Lemma In_smem : forall s l, In s l -> smem s l = true.
Proof.
  unfold smem. intros s l H. apply existsb_exists. exists s. split; [assumption|apply str_eqb_refl].
Qed.

Lemma ewu_snoc : forall x, ends_with_underscore (x ++ [underscore]) = true.
Proof. intros. unfold ends_with_underscore. rewrite rev_unit. reflexivity. Qed.

Lemma replace_special_cons : forall b t,
  replace_special (b :: t) = (if is_special b then underscore else b) :: replace_special t.
Proof. reflexivity. Qed.

(* ---------- 1. mangled names avoid the reserved words ---------- *)
(* side conditions: reserved ⊆ kw; the only reserved word ending in `_` is `_` itself; the empty
   string is not a keyword (otherwise mangle kw "" = "_") *)
Lemma mangle_avoids_reserved_gen : forall kw,
  forallb (fun r => smem r kw) reserved = true ->
  forallb (fun r => negb (ends_with_underscore r) || str_eqb r [underscore]) reserved = true ->
  smem [] kw = false ->
  forall s, smem (mangle kw s) reserved = false.
Proof.
  intros kw H1 H2 H3 s.
  destruct (smem (mangle kw s) reserved) eqn:E; [exfalso|reflexivity].
  apply smem_In in E.
  rewrite forallb_forall in H1, H2.
  specialize (H1 _ E). specialize (H2 _ E). cbv beta in H1, H2.
  unfold mangle in H1, H2.
  destruct (existsb is_special s || smem s kw) eqn:C.
  - rewrite ewu_snoc in H2. change (negb true) with false in H2. rewrite orb_false_l in H2.
    apply str_eqb_eq in H2.
    destruct s as [|b t].
    + simpl in C. rewrite H3 in C. discriminate.
    + rewrite replace_special_cons in H2. simpl in H2. injection H2 as _ H2.
      apply app_eq_nil in H2. destruct H2 as [_ H2]. discriminate.
  - apply orb_false_elim in C. destruct C as [_ C]. rewrite C in H1. discriminate.
Qed.

(* ---------- 2. C identifiers become Rust identifiers ---------- *)
Lemma rs_char : forall b, c_ident_char b = true ->
  rust_ident_char (if is_special b then underscore else b) = true.
Proof.
  intros b H. destruct (is_special b) eqn:E; [reflexivity|].
  unfold c_ident_char in H. rewrite E, orb_false_r in H. exact H.
Qed.

Lemma rs_all : forall s, forallb c_ident_char s = true ->
  forallb rust_ident_char (replace_special s) = true.
Proof.
  induction s as [|a s IH]; intros H; [reflexivity|].
  rewrite replace_special_cons. simpl forallb in *.
  apply andb_prop in H. destruct H as [Ha Hs].
  rewrite (rs_char _ Ha), (IH Hs). reflexivity.
Qed.

Lemma nospecial_all : forall s, forallb c_ident_char s = true -> existsb is_special s = false ->
  forallb rust_ident_char s = true.
Proof.
  induction s as [|a s IH]; simpl; intros H E; [reflexivity|].
  apply andb_prop in H. destruct H as [Ha Hs].
  apply orb_false_elim in E. destruct E as [Ea Es].
  rewrite (IH Hs Es), andb_true_r.
  unfold c_ident_char in Ha. rewrite Ea, orb_false_r in Ha. exact Ha.
Qed.

Lemma mangle_is_ident_gen : forall kw, smem [underscore] kw = true ->
  forall s, c_ident s = true -> rust_ident (mangle kw s) = true.
Proof.
  intros kw HU s Hc. destruct s as [|b t]; [discriminate|].
  unfold c_ident in Hc. apply andb_prop in Hc. destruct Hc as [Hd Hall].
  unfold mangle. destruct (existsb is_special (b :: t) || smem (b :: t) kw) eqn:C.
  - pose proof (rs_all _ Hall) as HR.
    rewrite replace_special_cons in *.
    set (b' := if is_special b then underscore else b) in *.
    change ((b' :: replace_special t) ++ [underscore]) with (b' :: (replace_special t ++ [underscore])).
    unfold rust_ident.
    apply andb_true_intro; split; [apply andb_true_intro; split|].
    + subst b'. destruct (is_special b); [reflexivity|exact Hd].
    + change (b' :: (replace_special t ++ [underscore])) with ((b' :: replace_special t) ++ [underscore]).
      rewrite forallb_app, HR. reflexivity.
    + simpl str_eqb. destruct (replace_special t); simpl; rewrite andb_false_r; reflexivity.
  - apply orb_false_elim in C. destruct C as [Cs Ck].
    unfold rust_ident.
    apply andb_true_intro; split; [apply andb_true_intro; split|].
    + exact Hd.
    + apply nospecial_all; assumption.
    + destruct (str_eqb (b :: t) [underscore]) eqn:E; [|reflexivity].
      apply str_eqb_eq in E. rewrite E in Ck. rewrite HU in Ck. discriminate.
Qed.

(* ---------- 3. partial injectivity ---------- *)
Lemma rs_id : forall s, existsb is_special s = false -> replace_special s = s.
Proof.
  induction s as [|a s IH]; intros H; [reflexivity|].
  simpl existsb in H. apply orb_false_elim in H. destruct H as [Ha Hs].
  rewrite replace_special_cons, Ha, (IH Hs). reflexivity.
Qed.

Lemma mangle_injective_partial : forall kw a b,
  ends_with_underscore a = false -> ends_with_underscore b = false ->
  no_special a = true -> no_special b = true ->
  mangle kw a = mangle kw b -> a = b.
Proof.
  intros kw a b Ea Eb Na Nb H.
  unfold no_special in Na, Nb. apply negb_true_iff in Na, Nb.
  unfold mangle in H. rewrite Na, Nb, !orb_false_l in H.
  rewrite (rs_id _ Na), (rs_id _ Nb) in H.
  destruct (smem a kw), (smem b kw).
  - apply app_inj_tail in H. destruct H as [H _]. exact H.
  - subst b. rewrite ewu_snoc in Eb. discriminate.
  - subst a. rewrite ewu_snoc in Ea. discriminate.
  - exact H.
Qed.

(* ---------- 4. ... and the collision outside that fragment ---------- *)
(* With the regenerated table the witnesses are `type` and `type_`.  For an arbitrary [kw]
   containing `type`, `type_` could itself be a keyword (then `type_` ↦ `type__`), so the general
   lemma walks the chain type, type_, type__, … to the last member that is a keyword: k
   underscores is a keyword, k+1 underscores is not, and both mangle to the latter. *)
Definition ty : str := of_string "type".
Definition tyu (n : nat) : str := ty ++ repeat underscore n.

Lemma tyu_S : forall n, tyu (S n) = tyu n ++ [underscore].
Proof. intros. unfold tyu. rewrite <- app_assoc. f_equal. simpl. apply repeat_cons. Qed.

Lemma tyu_length : forall n, length (tyu n) = (4 + n)%nat.
Proof. intros. unfold tyu. rewrite app_length, repeat_length. reflexivity. Qed.

Lemma tyu_nospecial : forall n, existsb is_special (tyu n) = false.
Proof.
  intros. unfold tyu. rewrite existsb_app.
  change (existsb is_special ty) with false. rewrite orb_false_l.
  induction n; [reflexivity|exact IHn].
Qed.

Lemma tyu_cident : forall n, c_ident (tyu n) = true.
Proof.
  intros.
  change (c_ident (tyu n)) with (negb (is_digit 116) && forallb c_ident_char (ty ++ repeat underscore n)).
  rewrite forallb_app.
  change (negb (is_digit 116)) with true. change (forallb c_ident_char ty) with true.
  rewrite !andb_true_l.
  induction n; [reflexivity|exact IHn].
Qed.

Fixpoint maxlen (l : list str) : nat :=
  match l with [] => O | x :: r => Nat.max (length x) (maxlen r) end.

Lemma smem_len : forall s l, smem s l = true -> (length s <= maxlen l)%nat.
Proof.
  intros s l H. apply smem_In in H. induction l as [|x r IH]; [contradiction|].
  simpl maxlen. destruct H as [H|H].
  - subst. lia.
  - apply IH in H. lia.
Qed.

Lemma tyu_chain : forall kw n, smem (tyu 0) kw = true -> smem (tyu n) kw = false ->
  exists k, smem (tyu k) kw = true /\ smem (tyu (S k)) kw = false.
Proof.
  induction n; intros H0 Hn.
  - rewrite H0 in Hn. discriminate.
  - destruct (smem (tyu n) kw) eqn:E.
    + exists n. split; assumption.
    + apply IHn; [assumption|reflexivity].
Qed.

Lemma mangle_collision_type : forall kw,
  smem (of_string "type") kw = true -> smem (of_string "type_") kw = false ->
  mangle kw (of_string "type") = mangle kw (of_string "type_").
Proof.
  intros kw H1 H2. unfold mangle. rewrite H1, H2. reflexivity.
Qed.

Lemma mangle_collision_refuted : forall kw, smem (of_string "type") kw = true ->
  exists a b, a <> b /\ c_ident a = true /\ c_ident b = true /\ mangle kw a = mangle kw b.
Proof.
  intros kw H.
  assert (Hn : smem (tyu (S (maxlen kw))) kw = false).
  { destruct (smem (tyu (S (maxlen kw))) kw) eqn:E; [|reflexivity].
    apply smem_len in E. rewrite tyu_length in E. lia. }
  change (of_string "type") with (tyu 0) in H.
  destruct (tyu_chain kw _ H Hn) as [k [K1 K2]].
  exists (tyu k), (tyu (S k)).
  split; [|split; [|split]].
  - intro E. apply (f_equal (@length N)) in E. rewrite !tyu_length in E. lia.
  - apply tyu_cident.
  - apply tyu_cident.
  - unfold mangle. rewrite !tyu_nospecial, K1, K2, !orb_false_l.
    rewrite rs_id by apply tyu_nospecial. symmetry. apply tyu_S.
Qed.

(* ---------- 5. overload numbering ---------- *)
(* decimal rendering: left inverse below 10^40 (the fuel of [dec]) *)
Definition val (s : str) : N := fold_left (fun a c => a * 10 + (c - 48)) s 0.

Lemma val_snoc : forall x c, val (x ++ [c]) = val x * 10 + (c - 48).
Proof. intros. unfold val. rewrite fold_left_app. reflexivity. Qed.

Lemma dec_aux_S : forall f n acc,
  dec_aux (S f) n acc =
  if n / 10 =? 0 then (48 + n mod 10) :: acc else dec_aux f (n / 10) ((48 + n mod 10) :: acc).
Proof. reflexivity. Qed.

Lemma dec_aux_acc : forall f n acc, dec_aux f n acc = dec_aux f n [] ++ acc.
Proof.
  induction f; intros n acc; [reflexivity|].
  rewrite !dec_aux_S. destruct (n / 10 =? 0); [reflexivity|].
  rewrite IHf. rewrite (IHf _ [48 + n mod 10]). rewrite <- app_assoc. reflexivity.
Qed.

Definition D (f : nat) (n : N) : str := dec_aux f n [].

Lemma D_S : forall f n,
  D (S f) n = if n / 10 =? 0 then [48 + n mod 10] else D f (n / 10) ++ [48 + n mod 10].
Proof.
  intros. unfold D. rewrite dec_aux_S. destruct (n / 10 =? 0); [reflexivity|apply dec_aux_acc].
Qed.

Lemma val_D : forall f n, n < 10 ^ N.of_nat f -> val (D f n) = n.
Proof.
  induction f; intros n H.
  - change (10 ^ N.of_nat 0) with 1 in H. assert (n = 0) by lia. subst. reflexivity.
  - rewrite D_S. rewrite Nat2N.inj_succ, N.pow_succ_r' in H.
    assert (HD : n = 10 * (n / 10) + n mod 10) by (apply N.div_mod; discriminate).
    assert (HM : n mod 10 < 10) by (apply N.mod_lt; discriminate).
    destruct (n / 10 =? 0) eqn:E.
    + apply N.eqb_eq in E.
      change (val [48 + n mod 10]) with (0 * 10 + (48 + n mod 10 - 48)).
      generalize dependent (n mod 10). generalize dependent (n / 10). intros. lia.
    + rewrite val_snoc, IHf.
      * generalize dependent (n mod 10). generalize dependent (n / 10). intros. lia.
      * apply N.div_lt_upper_bound; [discriminate|exact H].
Qed.

Lemma val_dec : forall k, k < 10 ^ 40 -> val (dec k) = k.
Proof. intros k H. apply (val_D 40). exact H. Qed.

Lemma digit_char : forall n, is_digit (48 + n mod 10) = true.
Proof.
  intros. assert (HM : n mod 10 < 10) by (apply N.mod_lt; discriminate).
  unfold is_digit. generalize dependent (n mod 10). intros r HM.
  apply andb_true_intro; split; apply N.leb_le; lia.
Qed.

Lemma D_digits : forall f n, forallb is_digit (D f n) = true.
Proof.
  induction f; intros n; [reflexivity|].
  rewrite D_S. destruct (n / 10 =? 0).
  - cbn [forallb]. rewrite digit_char. reflexivity.
  - rewrite forallb_app, IHf. cbn [forallb]. rewrite digit_char. reflexivity.
Qed.

Lemma dec_last : forall k, exists x c, dec k = x ++ [c] /\ is_digit c = true.
Proof.
  intros. change (dec k) with (D (S 39) k). rewrite D_S. destruct (k / 10 =? 0).
  - exists [], (48 + k mod 10). split; [reflexivity|apply digit_char].
  - exists (D 39 (k / 10)), (48 + k mod 10). split; [reflexivity|apply digit_char].
Qed.

Lemma ewd_app_dec : forall m k, ends_with_digit (m ++ dec k) = true.
Proof.
  intros. destruct (dec_last k) as [x [c [E Hc]]]. rewrite E, app_assoc.
  unfold ends_with_digit. rewrite rev_unit. exact Hc.
Qed.

Lemma forallb_rev : forall (f : N -> bool) l, forallb f l = true -> forallb f (rev l) = true.
Proof.
  intros f l H. apply forallb_forall. intros x Hin. apply in_rev in Hin.
  rewrite forallb_forall in H. apply H. exact Hin.
Qed.

(* stripping a digit prefix (used on reversed strings) *)
Definition hd_digit (x : str) : bool := match x with b :: _ => is_digit b | [] => false end.

Lemma strip : forall p q x y,
  forallb is_digit p = true -> forallb is_digit q = true ->
  hd_digit x = false -> hd_digit y = false ->
  p ++ x = q ++ y -> p = q /\ x = y.
Proof.
  induction p as [|a p IH]; destruct q as [|c q]; simpl; intros x y Hp Hq Hx Hy E.
  - split; [reflexivity|exact E].
  - subst x. simpl in Hx. apply andb_prop in Hq. destruct Hq as [Hq _].
    rewrite Hq in Hx. discriminate.
  - subst y. simpl in Hy. apply andb_prop in Hp. destruct Hp as [Hp _].
    rewrite Hp in Hy. discriminate.
  - injection E as E1 E2. subst c.
    apply andb_prop in Hp. destruct Hp as [_ Hp]. apply andb_prop in Hq. destruct Hq as [_ Hq].
    destruct (IH q x y Hp Hq Hx Hy E2) as [A B]. subst. split; reflexivity.
Qed.

Definition render (n : str) (k : N) : str := if k =? 0 then n else n ++ dec k.

Lemma render_inj : forall n m k0 k,
  ends_with_digit n = false -> ends_with_digit m = false ->
  k0 < 10 ^ 40 -> k < 10 ^ 40 ->
  render n k0 = render m k -> n = m /\ k0 = k.
Proof.
  intros n m k0 k Hn Hm B0 B H. unfold render in H.
  destruct (k0 =? 0) eqn:E0; destruct (k =? 0) eqn:E.
  - apply N.eqb_eq in E0, E. subst. split; reflexivity.
  - subst n. rewrite ewd_app_dec in Hn. discriminate.
  - subst m. rewrite ewd_app_dec in Hm. discriminate.
  - apply (f_equal (@rev N)) in H. rewrite !rev_app_distr in H.
    apply strip in H.
    + destruct H as [A C].
      apply (f_equal (@rev N)) in A. rewrite !rev_involutive in A.
      apply (f_equal (@rev N)) in C. rewrite !rev_involutive in C.
      split; [exact C|].
      rewrite <- (val_dec k0 B0), <- (val_dec k B), A. reflexivity.
    + apply forallb_rev. apply (D_digits 40).
    + apply forallb_rev. apply (D_digits 40).
    + exact Hn.
    + exact Hm.
Qed.

Lemma count_le : forall s l, count s l <= N.of_nat (length l).
Proof.
  intros. unfold count.
  assert (H : (length (filter (str_eqb s) l) <= length l)%nat).
  { induction l as [|a l IH]; [apply le_n|]. cbn [filter]. destruct (str_eqb s a); cbn [length]; lia. }
  lia.
Qed.

Lemma count_cons : forall s a l,
  count s (a :: l) = if str_eqb s a then count s l + 1 else count s l.
Proof.
  intros. unfold count. simpl filter. destruct (str_eqb s a); [simpl length; lia|reflexivity].
Qed.

Lemma assign_aux_cons : forall seen n rest,
  assign_aux seen (n :: rest) = render n (count n seen) :: assign_aux (n :: seen) rest.
Proof. reflexivity. Qed.

Lemma in_assign_aux : forall rest seen x, In x (assign_aux seen rest) ->
  exists m k, In m rest /\ x = render m k /\ count m seen <= k /\
              k < N.of_nat (length seen + length rest).
Proof.
  induction rest as [|n rest IH]; intros seen x H; [contradiction|].
  rewrite assign_aux_cons in H. destruct H as [H|H].
  - exists n, (count n seen). split; [left; reflexivity|]. split; [symmetry; exact H|].
    pose proof (count_le n seen). simpl length. lia.
  - apply IH in H. destruct H as [m [k [Hin [Hx [Hc Hk]]]]].
    exists m, k. split; [right; assumption|]. split; [assumption|].
    rewrite count_cons in Hc. simpl length in *. destruct (str_eqb m n); lia.
Qed.

Lemma assign_aux_nodup : forall names seen,
  forallb (fun n => negb (ends_with_digit n)) names = true ->
  N.of_nat (length seen + length names) <= 10 ^ 40 ->
  NoDup (assign_aux seen names).
Proof.
  induction names as [|n rest IH]; intros seen Hok Hb.
  - constructor.
  - rewrite assign_aux_cons. simpl forallb in Hok. apply andb_prop in Hok.
    destruct Hok as [Hn Hrest]. apply negb_true_iff in Hn.
    simpl length in Hb.
    constructor.
    + intro Hin. apply in_assign_aux in Hin.
      destruct Hin as [m [k [Hm [Hx [Hc Hk]]]]].
      assert (Hmd : ends_with_digit m = false).
      { rewrite forallb_forall in Hrest. apply Hrest in Hm. apply negb_true_iff in Hm. exact Hm. }
      pose proof (count_le n seen) as Hle.
      simpl length in Hk.
      apply render_inj in Hx; [| assumption | assumption | lia | lia].
      destruct Hx as [A C]. subst m k.
      rewrite count_cons, str_eqb_refl in Hc. lia.
    + apply IH; [assumption|]. simpl length. lia.
Qed.

(* The bound is needed: [dec] has fuel 40, so it renders only the last 40 digits of larger numbers
   ([dec_not_injective] below), and a list of more than 2*10^40 equal names gets a repeated output. *)
Lemma assign_nodup_partial : forall names,
  N.of_nat (length names) < 10 ^ 40 ->
  forallb (fun n => negb (ends_with_digit n)) names = true -> NoDup (assign names).
Proof.
  intros names Hb Hok. unfold assign. apply assign_aux_nodup; [exact Hok|].
  simpl length. lia.
Qed.

Lemma dec_not_injective : 10 ^ 40 + 1 <> 2 * 10 ^ 40 + 1 /\ dec (10 ^ 40 + 1) = dec (2 * 10 ^ 40 + 1).
Proof. split; [apply N.eqb_neq|]; vm_compute; reflexivity. Qed.

(* The statement WITHOUT the length bound is false in this model: 2*10^40+2 copies of `foo`
   (no name ends in a digit) give foo<0…01> twice — at positions 10^40+1 and 2*10^40+1.  The list
   is never computed; the proof is symbolic in its length. *)
Lemma assign_aux_app : forall l1 l2 seen,
  assign_aux seen (l1 ++ l2) = assign_aux seen l1 ++ assign_aux (rev l1 ++ seen) l2.
Proof.
  induction l1 as [|n l1 IH]; intros l2 seen; [reflexivity|].
  rewrite <- app_comm_cons, !assign_aux_cons, IH. cbn [rev]. rewrite <- app_assoc. reflexivity.
Qed.

Lemma count_all : forall n l, (forall x, In x l -> x = n) -> count n l = N.of_nat (length l).
Proof.
  intros n l H. induction l as [|a l IH]; [reflexivity|].
  rewrite count_cons. rewrite (H a (or_introl eq_refl)), str_eqb_refl.
  rewrite IH by (intros x Hx; apply H; right; exact Hx). cbn [length]. lia.
Qed.

Lemma in_assign_repeat : forall n j seen k,
  count n seen <= k -> k < count n seen + N.of_nat j ->
  In (render n k) (assign_aux seen (repeat n j)).
Proof.
  induction j as [|j IH]; intros seen k H1 H2; [lia|].
  cbn [repeat]. rewrite assign_aux_cons.
  destruct (N.eq_dec k (count n seen)) as [E|E].
  - left. subst. reflexivity.
  - right. apply IH; rewrite count_cons, str_eqb_refl; lia.
Qed.

Lemma render_big : forall n, render n (10 ^ 40 + 1) = render n (2 * 10 ^ 40 + 1).
Proof.
  intros. unfold render.
  assert (E1 : (10 ^ 40 + 1 =? 0) = false) by (apply N.eqb_neq; lia).
  assert (E2 : (2 * 10 ^ 40 + 1 =? 0) = false) by (apply N.eqb_neq; lia).
  rewrite E1, E2.
  apply f_equal. apply dec_not_injective.
Qed.

Lemma assign_repeat_dup : forall n a j,
  N.of_nat a = 10 ^ 40 + 1 -> 10 ^ 40 <= N.of_nat j ->
  ~ NoDup (assign (repeat n (a + S j))).
Proof.
  intros n a j Ha Hj H. unfold assign in H.
  rewrite repeat_app, assign_aux_app in H.
  assert (Hc : count n (rev (repeat n a) ++ []) = 10 ^ 40 + 1).
  { rewrite count_all.
    - rewrite app_length, rev_length, repeat_length. cbn [length]. lia.
    - intros x Hx. rewrite app_nil_r in Hx. apply in_rev in Hx. apply repeat_spec in Hx. exact Hx. }
  cbn [repeat] in H. rewrite assign_aux_cons, Hc in H.
  apply NoDup_remove_2 in H. apply H. apply in_or_app. right.
  rewrite render_big. apply in_assign_repeat; rewrite count_cons, str_eqb_refl, Hc; lia.
Qed.

Lemma assign_nodup_unbounded_refuted :
  exists names, forallb (fun n => negb (ends_with_digit n)) names = true /\ ~ NoDup (assign names).
Proof.
  exists (repeat [102;111;111] (N.to_nat (10 ^ 40 + 1) + S (N.to_nat (10 ^ 40)))).
  split.
  - apply forallb_forall. intros x Hx. apply repeat_spec in Hx. subst x. reflexivity.
  - apply assign_repeat_dup.
    + apply N2Nat.id.
    + rewrite N2Nat.id. apply N.le_refl.
Qed.

(* ---------- 6. ... and the collision outside that fragment: foo, foo, foo1 ---------- *)
Lemma assign_collision_refuted : exists names, ~ NoDup (assign names).
Proof.
  exists [[102;111;111]; [102;111;111]; [102;111;111;49]].
  change (~ NoDup [[102;111;111]; [102;111;111;49]; [102;111;111;49]]).
  intro H. inversion H as [|x l _ H1]. subst.
  inversion H1 as [|y l' Hnin _]. subst.
  apply Hnin. left. reflexivity.
Qed.
