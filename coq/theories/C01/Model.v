(* C01 — names.  Definitions only.
   [mangle kw]   BindgenContext::rust_mangle with the keyword list [kw] (regenerated from the source)
   [reserved]    the identifiers Rust reserves (The Rust Reference, "Keywords": strict and reserved
                 keywords of every edition up to 2024, plus `_`, which is not an identifier)
   [assign]      the overload counter of CodegenResult::overload_number: the n-th function (n > 0)
                 with an already seen Rust name gets the decimal n appended *)
From Coq Require Import NArith List Bool Ascii String.
Import ListNotations.
Open Scope N_scope.

Definition str := list N.
Fixpoint str_eqb (a b : str) : bool :=
  match a, b with
  | [], [] => true
  | x :: a', y :: b' => N.eqb x y && str_eqb a' b'
  | _, _ => false
  end.
Definition smem (s : str) (l : list str) : bool := existsb (str_eqb s) l.

Fixpoint of_string (s : string) : str :=
  match s with EmptyString => [] | String c s' => N_of_ascii c :: of_string s' end.

Definition underscore : N := 95.
Definition is_special (b : N) : bool := (b =? 64) || (b =? 63) || (b =? 36).     (* @ ? $ *)
Definition replace_special (s : str) : str := map (fun b => if is_special b then underscore else b) s.

Definition mangle (kw : list str) (s : str) : str :=
  if existsb is_special s || smem s kw then replace_special s ++ [underscore] else s.

(* strict + reserved keywords, all editions up to 2024 (weak keywords such as `union`, `macro_rules`,
   `safe`, `raw` are usable as identifiers), and the lone underscore *)
Definition reserved : list str := map of_string
  [ "as"; "break"; "const"; "continue"; "crate"; "else"; "enum"; "extern"; "false"; "fn"; "for"; "if"; "impl"; "in";
    "let"; "loop"; "match"; "mod"; "move"; "mut"; "pub"; "ref"; "return"; "self"; "Self"; "static"; "struct"; "super";
    "trait"; "true"; "type"; "unsafe"; "use"; "where"; "while"; "async"; "await"; "dyn";
    "abstract"; "become"; "box"; "do"; "final"; "macro"; "override"; "priv"; "typeof"; "unsized"; "virtual"; "yield";
    "try"; "gen"; "_" ]%string.

Definition is_alpha (b : N) : bool := ((65 <=? b) && (b <=? 90)) || ((97 <=? b) && (b <=? 122)).
Definition is_digit (b : N) : bool := (48 <=? b) && (b <=? 57).
(* identifiers clang can hand over: C identifiers, `$` (accepted by default), and the `@` `?` of MSVC-mangled names *)
Definition c_ident_char (b : N) : bool := is_alpha b || is_digit b || (b =? underscore) || is_special b.
Definition c_ident (s : str) : bool :=
  match s with [] => false | b :: _ => negb (is_digit b) && forallb c_ident_char s end.
Definition rust_ident_char (b : N) : bool := is_alpha b || is_digit b || (b =? underscore).
Definition rust_ident (s : str) : bool :=
  match s with
  | [] => false
  | b :: _ => negb (is_digit b) && forallb rust_ident_char s && negb (str_eqb s [underscore])
  end.

Definition ends_with_underscore (s : str) : bool :=
  match rev s with b :: _ => b =? underscore | [] => false end.
Definition no_special (s : str) : bool := negb (existsb is_special s).

(* ---------- overload numbering ---------- *)
Fixpoint dec_aux (fuel : nat) (n : N) (acc : str) : str :=
  match fuel with
  | O => acc
  | S f => let acc' := (48 + n mod 10) :: acc in if n / 10 =? 0 then acc' else dec_aux f (n / 10) acc'
  end.
Definition dec (n : N) : str := dec_aux 40 n [].

Definition count (s : str) (l : list str) : N := N.of_nat (List.length (filter (str_eqb s) l)).

(* names in the order the functions are generated; [seen] = names generated so far (before suffixing) *)
Fixpoint assign_aux (seen : list str) (names : list str) : list str :=
  match names with
  | [] => []
  | n :: rest =>
      let k := count n seen in
      (if k =? 0 then n else n ++ dec k) :: assign_aux (n :: seen) rest
  end.
Definition assign (names : list str) : list str := assign_aux [] names.

Definition ends_with_digit (s : str) : bool := match rev s with b :: _ => is_digit b | [] => false end.
