(* C16 — proofs about the declarator printer model. *)
From Coq Require Import NArith String Ascii List Bool Lia.
From BG Require Import C16.Model.
Import ListNotations.
Open Scope string_scope.
Open Scope list_scope.

(* ------------------------------------------------------------------ induction on cty *)

Section CtyInd.
  Variable P : cty -> Prop.
  Hypothesis HB : forall ws c, P (CBase ws c).
  Hypothesis HP : forall c t, P t -> P (CPtr c t).
  Hypothesis HA : forall t n, P t -> P (CArr t n).
  Hypothesis HF : forall c r args, P r -> Forall (fun p => P (snd p)) args -> P (CFun c r args).

  Fixpoint cty_ind' (t : cty) : P t :=
    match t with
    | CBase ws c => HB ws c
    | CPtr c t' => HP c t' (cty_ind' t')
    | CArr t' n => HA t' n (cty_ind' t')
    | CFun c r args =>
        HF c r args (cty_ind' r)
           ((fix go (l : list (option string * cty)) : Forall (fun p => P (snd p)) l :=
               match l with
               | [] => Forall_nil _
               | p :: l' => Forall_cons p (cty_ind' (snd p)) (go l')
               end) args)
    end.
End CtyInd.

(* ------------------------------------------------------------------ the printer as equations *)

Lemma trailer_fst : forall out st, fst (trailer out st) = out ++ pop_all st.
Proof.
  intros out st. destruct st as [|i st']; cbn [trailer fst].
  - cbn [pop_all flat_map]. now rewrite app_nil_r.
  - reflexivity.
Qed.

Lemma trailer_snd : forall out st, snd (trailer out st) = [].
Proof. intros out st. destruct st; reflexivity. Qed.

(* every call leaves the stack empty *)
Lemma serialize_st_stack_empty : forall t st, snd (serialize_st t st) = [].
Proof.
  intros t st. destruct t as [ws c|c t'|t' n|c r args]; cbn [serialize_st].
  - apply trailer_snd.
  - destruct (serialize_st t' _) as [out st2]. apply trailer_snd.
  - destruct (serialize_st t' st) as [out st1]. apply trailer_snd.
  - destruct (serialize_st r []) as [o1 s1]. apply trailer_snd.
Qed.

Lemma ser_base : forall ws c st,
  serialize (CBase ws c) st = const_toks c ++ map lex_word ws ++ pop_all st.
Proof.
  intros ws c st. unfold serialize. cbn [serialize_st].
  rewrite trailer_fst. now rewrite <- app_assoc.
Qed.

Lemma ser_ptr : forall c t st,
  serialize (CPtr c t) st = serialize t (ptr_item c :: st).
Proof.
  intros c t st. unfold serialize. cbn [serialize_st].
  fold (ptr_item c).
  pose proof (serialize_st_stack_empty t (ptr_item c :: st)) as Hs.
  destruct (serialize_st t (ptr_item c :: st)) as [out st2]. cbn [snd] in Hs. subst st2.
  rewrite trailer_fst. cbn [pop_all flat_map fst]. now rewrite app_nil_r.
Qed.

Lemma ser_arr : forall t n st,
  serialize (CArr t n) st = serialize t st ++ [TLBrk; TNum n; TRBrk].
Proof.
  intros t n st. unfold serialize. cbn [serialize_st].
  pose proof (serialize_st_stack_empty t st) as Hs.
  destruct (serialize_st t st) as [out st1]. cbn [snd] in Hs. subst st1.
  rewrite trailer_fst. cbn [pop_all flat_map fst]. now rewrite app_nil_r.
Qed.

Lemma ser_fun : forall c r args st,
  serialize (CFun c r args) st =
  serialize r [] ++ [TLPar] ++ pop_all (if c then SConst :: st else st) ++ [TRPar] ++
  params_toks args.
Proof.
  intros c r args st. unfold serialize at 1. cbn [serialize_st].
  unfold serialize at 1.
  destruct (serialize_st r []) as [o1 s1]. cbn [fst].
  rewrite trailer_fst. cbn [pop_all flat_map]. rewrite app_nil_r.
  unfold params_toks.
  destruct args as [|a args']; rewrite <- !app_assoc; reflexivity.
Qed.

Lemma pop_all_app : forall a b, pop_all (a ++ b) = pop_all a ++ pop_all b.
Proof. intros a b. unfold pop_all. apply flat_map_app. Qed.

Lemma pop_all_stack : forall cs on,
  pop_all (stack cs on) = pop_all (map ptr_item cs) ++ name_toks on.
Proof.
  intros cs on. unfold stack. rewrite pop_all_app. f_equal.
  destruct on as [n|]; reflexivity.
Qed.

Lemma stack_cons : forall c cs on, ptr_item c :: stack cs on = stack (c :: cs) on.
Proof. reflexivity. Qed.

Lemma stack_nil : forall on, stack [] on = param_stack on.
Proof. reflexivity. Qed.

(* ------------------------------------------------------------------ words and the lexer *)

Lemma mem_In : forall s l, mem s l = true -> In s l.
Proof.
  intros s l H. unfold mem in H. apply existsb_exists in H.
  destruct H as [x [Hin Heq]]. apply String.eqb_eq in Heq. now subst x.
Qed.

Lemma is_kw_plain : forall s, is_kw s = true ->
  String.eqb s "const" = false /\ String.eqb s "return" = false /\ is_tag_kw s = false.
Proof.
  intros s H. apply mem_In in H. unfold type_keywords in H. cbn [In] in H.
  repeat (destruct H as [H|H]; [subst s; repeat split; reflexivity|]). contradiction.
Qed.

Lemma is_tag_kw_plain : forall s, is_tag_kw s = true ->
  String.eqb s "const" = false /\ String.eqb s "return" = false /\ is_kw s = false.
Proof.
  intros s H. apply mem_In in H. cbn [In] in H.
  repeat (destruct H as [H|H]; [subst s; repeat split; reflexivity|]). contradiction.
Qed.

Lemma lex_word_plain : forall s,
  String.eqb s "const" = false -> String.eqb s "return" = false -> lex_word s = TId s.
Proof. intros s H1 H2. unfold lex_word. now rewrite H1, H2. Qed.

Lemma reserved_false : forall s, reserved s = false ->
  is_kw s = false /\ is_tag_kw s = false /\
  String.eqb s "const" = false /\ String.eqb s "return" = false.
Proof.
  intros s H. unfold reserved in H.
  apply orb_false_iff in H. destruct H as [H H4].
  apply orb_false_iff in H. destruct H as [H H3].
  apply orb_false_iff in H. destruct H as [H1 H2]. auto.
Qed.

Lemma ident_ok_inv : forall td s, ident_ok td s = true ->
  reserved s = false /\ mem s td = false.
Proof.
  intros td s H. unfold ident_ok in H. apply andb_true_iff in H. destruct H as [H1 H2].
  apply negb_true_iff in H1. apply negb_true_iff in H2. auto.
Qed.

Lemma lex_word_kw : forall s, is_kw s = true -> lex_word s = TId s.
Proof. intros s H. destruct (is_kw_plain s H) as [H1 [H2 _]]. now apply lex_word_plain. Qed.

Lemma lex_word_unreserved : forall s, reserved s = false -> lex_word s = TId s.
Proof.
  intros s H. destruct (reserved_false s H) as [_ [_ [H1 H2]]]. now apply lex_word_plain.
Qed.

Lemma lex_word_ident : forall td s, ident_ok td s = true -> lex_word s = TId s.
Proof. intros td s H. apply lex_word_unreserved. now destruct (ident_ok_inv td s H). Qed.

Lemma map_lex_kw : forall ws, forallb is_kw ws = true -> map lex_word ws = map TId ws.
Proof.
  induction ws as [|w ws IH]; intros H; [reflexivity|].
  cbn [forallb] in H. apply andb_true_iff in H. destruct H as [Hw Hws].
  cbn [map]. now rewrite (lex_word_kw w Hw), (IH Hws).
Qed.

(* ------------------------------------------------------------------ the specifier reader *)

Lemma span_kw_words : forall ws rest,
  forallb is_kw ws = true -> nokw_head rest = true ->
  span_kw (map TId ws ++ rest) = (ws, rest).
Proof.
  induction ws as [|w ws IH]; intros rest Hws Hrest.
  - cbn [map app]. destruct rest as [|x rest']; [reflexivity|].
    destruct x; try reflexivity.
    cbn [nokw_head] in Hrest. apply negb_true_iff in Hrest.
    cbn [span_kw]. now rewrite Hrest.
  - cbn [forallb] in Hws. apply andb_true_iff in Hws. destruct Hws as [Hw Hws].
    cbn [map app span_kw]. rewrite Hw. now rewrite (IH rest Hws Hrest).
Qed.

Lemma p_spec_const : forall td c ts,
  nc_head ts = true ->
  p_spec td (const_toks c ++ ts) =
  match ts with
  | TId k :: r =>
      if is_tag_kw k then
        match r with
        | TId tag :: r' => if tag_ok tag then Some (CBase [k; tag] c, r') else None
        | _ => None
        end
      else if is_kw k then let (ws, r') := span_kw r in Some (CBase (k :: ws) c, r')
      else if mem k td then Some (CBase [k] c, r)
      else None
  | _ => None
  end.
Proof.
  intros td c ts Hnc. destruct c; cbn [const_toks app].
  - reflexivity.
  - unfold p_spec. destruct ts as [|x ts']; [reflexivity|].
    destruct x; try reflexivity. discriminate Hnc.
Qed.

Lemma p_spec_words : forall td ws c rest,
  wf_words td ws = true -> nokw_head rest = true ->
  p_spec td (const_toks c ++ map lex_word ws ++ rest) = Some (CBase ws c, rest).
Proof.
  intros td ws c rest Hwf Hrest. unfold wf_words in Hwf.
  apply orb_true_iff in Hwf. destruct Hwf as [Hkw|Hother].
  - apply andb_true_iff in Hkw. destruct Hkw as [Hne Hall].
    destruct ws as [|k ws']; [discriminate Hne|].
    rewrite (map_lex_kw _ Hall).
    cbn [forallb] in Hall. apply andb_true_iff in Hall. destruct Hall as [Hk Hws].
    cbn [map app]. rewrite p_spec_const by reflexivity.
    destruct (is_kw_plain k Hk) as [_ [_ Htag]]. rewrite Htag, Hk.
    now rewrite (span_kw_words ws' rest Hws Hrest).
  - destruct ws as [|k [|tag [|x ws']]]; try discriminate Hother.
    + rename k into w. apply andb_true_iff in Hother. destruct Hother as [Hmem Hres].
      apply negb_true_iff in Hres.
      destruct (reserved_false w Hres) as [Hk [Ht _]].
      cbn [map app]. rewrite (lex_word_unreserved w Hres).
      rewrite p_spec_const by reflexivity. now rewrite Ht, Hk, Hmem.
    + apply andb_true_iff in Hother. destruct Hother as [Hk Htag].
      destruct (is_tag_kw_plain k Hk) as [H1 [H2 _]].
      unfold tag_ok in Htag. pose proof Htag as Htag'. apply negb_true_iff in Htag'.
      cbn [map app]. rewrite (lex_word_plain k H1 H2), (lex_word_unreserved tag Htag').
      rewrite p_spec_const by reflexivity. rewrite Hk. unfold tag_ok. now rewrite Htag'.
Qed.

(* ------------------------------------------------------------------ the declarator reader *)

Ltac fuel_split f k := replace f with (k + (f - k)) by lia.
Ltac fuel_S f f' := destruct f as [|f']; [exfalso; lia|].

Lemma p_dtor_star_c : forall td f Y,
  p_dtor td (S f) (TStar :: TConst :: Y) =
  match p_dtor td f Y with Some (d, r') => Some (DPtr true d, r') | None => None end.
Proof. reflexivity. Qed.

Lemma p_dtor_star_nc : forall td f Y, nc_head Y = true ->
  p_dtor td (S f) (TStar :: Y) =
  match p_dtor td f Y with Some (d, r') => Some (DPtr false d, r') | None => None end.
Proof.
  intros td f Y H. destruct Y as [|y Y']; [reflexivity|].
  destruct y; try reflexivity. discriminate H.
Qed.

Lemma pop_all_cons : forall i st, pop_all (i :: st) = emit_item i ++ pop_all st.
Proof. reflexivity. Qed.

Lemma nc_head_stars : forall cs X, nc_head X = true ->
  nc_head (pop_all (map ptr_item cs) ++ X) = true.
Proof. intros cs X H. destruct cs as [|[] cs]; [exact H|reflexivity|reflexivity]. Qed.

Lemma p_dtor_stars : forall td cs f X, nc_head X = true ->
  p_dtor td (length cs + f) (pop_all (map ptr_item cs) ++ X) =
  match p_dtor td f X with Some (d, r) => Some (ptrwrap cs d, r) | None => None end.
Proof.
  induction cs as [|c cs IH]; intros f X HX.
  - cbn [length Nat.add map pop_all flat_map app ptrwrap].
    destruct (p_dtor td f X) as [[d r]|]; reflexivity.
  - cbn [length Nat.add map ptrwrap]. rewrite pop_all_cons.
    destruct c; cbn [ptr_item emit_item app].
    + rewrite p_dtor_star_c. rewrite (IH f X HX).
      destruct (p_dtor td f X) as [[d r]|]; reflexivity.
    + rewrite p_dtor_star_nc by (apply nc_head_stars; exact HX). rewrite (IH f X HX).
      destruct (p_dtor td f X) as [[d r]|]; reflexivity.
Qed.

Lemma p_dtor_name : forall td f n Y, ident_ok td n = true ->
  p_dtor td (S f) (TId n :: Y) = p_suffix td f (DName (Some n)) Y.
Proof. intros td f n Y H. cbn [p_dtor]. now rewrite H. Qed.

Lemma p_dtor_abs : forall td f Y, abs_head Y = true ->
  p_dtor td (S f) Y = p_suffix td f (DName None) Y.
Proof.
  intros td f Y H. destruct Y as [|y Y']; [reflexivity|].
  destruct y; try discriminate H; reflexivity.
Qed.

Lemma brks_cons : forall n L rest,
  brks (n :: L) ++ rest = TLBrk :: TNum n :: TRBrk :: brks L ++ rest.
Proof. reflexivity. Qed.

Lemma p_suffix_brks : forall td L f d rest,
  p_suffix td (length L + f) d (brks L ++ rest) = p_suffix td f (arrwrap L d) rest.
Proof.
  induction L as [|n L IH]; intros f d rest.
  - reflexivity.
  - rewrite brks_cons. cbn [length Nat.add arrwrap p_suffix]. apply IH.
Qed.

Lemma p_suffix_end : forall td f d rest, follow_ok rest = true ->
  p_suffix td (S f) d rest = Some (d, rest).
Proof.
  intros td f d rest H. destruct rest as [|x rest']; [reflexivity|].
  destruct x; try discriminate H; reflexivity.
Qed.

Lemma apply_ptrwrap : forall cs d T, apply_dtor (ptrwrap cs d) T = apply_dtor d (ptrs cs T).
Proof. induction cs as [|c cs IH]; intros d T; [reflexivity|]. cbn [ptrwrap apply_dtor ptrs]. apply IH. Qed.

Lemma apply_arrwrap : forall L d T, apply_dtor (arrwrap L d) T = apply_dtor d (arrays L T).
Proof.
  induction L as [|n L IH]; intros d T; [reflexivity|].
  cbn [arrwrap arrays]. rewrite IH. reflexivity.
Qed.

Lemma arrays_snoc : forall ds n t, arrays (ds ++ [n]) t = arrays ds (CArr t n).
Proof. induction ds as [|d ds IH]; intros n t; [reflexivity|]. cbn [app arrays]. now rewrite IH. Qed.

Lemma N_list_eqb_eq : forall a b, N_list_eqb a b = true -> a = b.
Proof.
  induction a as [|x a IH]; intros [|y b] H; try discriminate H; [reflexivity|].
  cbn [N_list_eqb] in H. apply andb_true_iff in H. destruct H as [H1 H2].
  apply N.eqb_eq in H1. subst y. now rewrite (IH b H2).
Qed.

Lemma N_list_eqb_refl : forall a, N_list_eqb a a = true.
Proof. induction a as [|x a IH]; [reflexivity|]. cbn [N_list_eqb]. now rewrite N.eqb_refl, IH. Qed.

Lemma stars_len : forall cs, length cs <= length (pop_all (map ptr_item cs)).
Proof.
  induction cs as [|c cs IH]; [apply le_n|].
  cbn [map]. rewrite pop_all_cons, app_length. destruct c; cbn [ptr_item emit_item length]; lia.
Qed.

Lemma brks_len : forall L, length (brks L) = 3 * length L.
Proof.
  induction L as [|n L IH]; [reflexivity|].
  change (brks (n :: L)) with ([TLBrk; TNum n; TRBrk] ++ brks L).
  rewrite app_length, IH. cbn [length]. lia.
Qed.

Lemma follow_abs : forall rest, follow_ok rest = true -> abs_head rest = true.
Proof. intros rest H. destruct rest as [|x r]; [reflexivity|]. destruct x; try discriminate H; reflexivity. Qed.

Lemma follow_nc : forall rest, follow_ok rest = true -> nc_head rest = true.
Proof. intros rest H. destruct rest as [|x r]; [reflexivity|]. destruct x; try discriminate H; reflexivity. Qed.

Lemma follow_nokw : forall rest, follow_ok rest = true -> nokw_head rest = true.
Proof. intros rest H. destruct rest as [|x r]; [reflexivity|]. destruct x; try discriminate H; reflexivity. Qed.

(*  * ... * name [a] ... [z]   in front of something that ends a declaration *)
Lemma dtor_stars_name_brks : forall td cs on L rest f,
  wf_oname td on = true -> follow_ok rest = true ->
  length cs + length L + 2 <= f ->
  p_dtor td f (pop_all (stack cs on) ++ brks L ++ rest) =
  Some (ptrwrap cs (arrwrap L (DName on)), rest).
Proof.
  intros td cs on L rest f Hon Hrest Hf.
  rewrite pop_all_stack, <- app_assoc.
  fuel_split f (length cs).
  assert (Hnc : nc_head (name_toks on ++ brks L ++ rest) = true).
  { destruct on as [n|]; cbn [name_toks app].
    - cbn [wf_oname] in Hon. now rewrite (lex_word_ident td n Hon).
    - destruct L as [|n L]; [now apply follow_nc|reflexivity]. }
  rewrite (p_dtor_stars td cs _ _ Hnc).
  remember (f - length cs) as g eqn:Hg.
  assert (Hg' : length L + 2 <= g) by lia. clear Hg Hnc Hf.
  fuel_S g g1.
  assert (Hsuf : forall o, p_suffix td g1 (DName o) (brks L ++ rest) =
                           Some (arrwrap L (DName o), rest)).
  { intros o. fuel_split g1 (length L). rewrite p_suffix_brks.
    remember (g1 - length L) as g2 eqn:Hg2. fuel_S g2 g3.
    now apply p_suffix_end. }
  destruct on as [n|]; cbn [name_toks app].
  - cbn [wf_oname] in Hon. rewrite (lex_word_ident td n Hon).
    rewrite (p_dtor_name td g1 n _ Hon). now rewrite Hsuf.
  - rewrite p_dtor_abs.
    + now rewrite Hsuf.
    + destruct L as [|n L]; [now apply follow_abs|reflexivity].
Qed.

Lemma starts_group_stack : forall td cs on Y,
  wf_oname td on = true -> negb (is_nil cs) || is_some on = true ->
  starts_group td (pop_all (stack cs on) ++ Y) = true.
Proof.
  intros td cs on Y Hon Hne. rewrite pop_all_stack.
  destruct cs as [|c cs].
  - destruct on as [n|]; [|discriminate Hne].
    cbn [map pop_all flat_map app name_toks]. cbn [wf_oname] in Hon.
    rewrite (lex_word_ident td n Hon). exact Hon.
  - destruct c; reflexivity.
Qed.

(*  ( * ... * name )  followed by suffixes *)
Lemma dtor_group : forall td cs on rest f,
  wf_oname td on = true -> negb (is_nil cs) || is_some on = true ->
  length cs + 2 <= f ->
  p_dtor td (S f) (TLPar :: pop_all (stack cs on) ++ TRPar :: rest) =
  p_suffix td f (ptrwrap cs (DName on)) rest.
Proof.
  intros td cs on rest f Hon Hne Hf.
  cbn [p_dtor]. rewrite (starts_group_stack td cs on _ Hon Hne).
  pose proof (dtor_stars_name_brks td cs on [] (TRPar :: rest) f Hon eq_refl) as H.
  cbn [brks flat_map app length arrwrap] in H. rewrite H by lia. reflexivity.
Qed.

(* ------------------------------------------------------------------ parameter lists *)

Lemma reads_ok_param : forall td p rest f,
  reads_ok (snd p) -> simple_param p = true ->
  wf_oname td (fst p) && wf_ty td (snd p) = true -> follow_ok rest = true ->
  2 * length (ser_param p) + 2 <= f ->
  exists b r d, p_spec td (ser_param p ++ rest) = Some (b, r) /\
                p_dtor td f r = Some (d, rest) /\ apply_dtor d b = p.
Proof.
  intros td p rest f Hok Hs Hwf Hrest Hf.
  apply andb_true_iff in Hwf. destruct Hwf as [Hon Hty].
  destruct p as [on t]. cbn [fst snd] in *. unfold ser_param in *. cbn [fst snd] in *.
  specialize (Hok td [] on [] rest f Hs Hty Hon Hrest).
  cbn [rev brks flat_map app] in Hok. rewrite app_nil_r in Hok.
  exact (Hok Hf).
Qed.

Lemma plist_ok : forall td args,
  Forall (fun p => reads_ok (snd p)) args -> args <> [] ->
  forallb simple_param args = true ->
  forallb (fun p => wf_oname td (fst p) && wf_ty td (snd p)) args = true ->
  forall rest f,
  2 * length (sep_join [TComma] (map ser_param args)) + 3 <= f ->
  p_plist td f (sep_join [TComma] (map ser_param args) ++ TRPar :: rest) = Some (args, rest).
Proof.
  intros td args Hall. induction Hall as [|p args Hp Hall IH]; intros Hne Hs Hwf rest f Hf.
  - now elim Hne.
  - cbn [forallb] in Hs, Hwf.
    apply andb_true_iff in Hs. destruct Hs as [Hsp Hsa].
    apply andb_true_iff in Hwf. destruct Hwf as [Hwp Hwa].
    fuel_S f f'.
    destruct args as [|q args].
    + cbn [map sep_join] in *.
      destruct (reads_ok_param td p (TRPar :: rest) f' Hp Hsp Hwp eq_refl) as [b [r [d [H1 [H2 H3]]]]];
        [lia|].
      cbn [p_plist]. rewrite H1, H2, H3. reflexivity.
    + assert (Hsj : sep_join [TComma] (map ser_param (p :: q :: args)) =
                    ser_param p ++ [TComma] ++ sep_join [TComma] (map ser_param (q :: args)))
        by reflexivity.
      rewrite Hsj in *. clear Hsj.
      rewrite !app_length in Hf. cbn [length] in Hf.
      rewrite <- !app_assoc. cbn [app].
      destruct (reads_ok_param td p (TComma :: sep_join [TComma] (map ser_param (q :: args)) ++ TRPar :: rest)
                               f' Hp Hsp Hwp eq_refl) as [b [r [d [H1 [H2 H3]]]]]; [lia|].
      cbn [p_plist]. rewrite H1, H2, H3.
      rewrite (IH ltac:(discriminate) Hsa Hwa rest f') by lia. reflexivity.
Qed.

Lemma p_spec_void_rpar : forall td Z,
  p_spec td (TId "void" :: TRPar :: Z) = Some (CBase ["void"] false, TRPar :: Z).
Proof. reflexivity. Qed.

(* the only way the parameter reader accepts "void )" is as one unnamed void parameter *)
Lemma plist_void_rpar : forall td f Z args rest,
  p_plist td f (TId "void" :: TRPar :: Z) = Some (args, rest) ->
  args = [(None, CBase ["void"] false)].
Proof.
  intros td f Z args rest H.
  destruct f as [|f1]; [discriminate H|].
  cbn [p_plist] in H. rewrite p_spec_void_rpar in H.
  destruct f1 as [|f2]; [discriminate H|].
  rewrite p_dtor_abs in H by reflexivity.
  destruct f2 as [|f3]; [discriminate H|].
  rewrite p_suffix_end in H by reflexivity.
  cbn [apply_dtor] in H. now inversion H.
Qed.

Lemma p_params_plist : forall td f Z args rest,
  p_plist td f Z = Some (args, rest) -> sole_void args = false ->
  p_params td (S f) Z = Some (args, rest).
Proof.
  intros td f Z args rest H Hsv.
  destruct Z as [|x Z1]; [exact H|].
  destruct x; try exact H.
  destruct Z1 as [|y Z2]; [exact H|].
  destruct y; try exact H.
  cbn [p_params]. destruct (String.eqb s "void") eqn:E; [|exact H].
  apply String.eqb_eq in E. subst s.
  rewrite (plist_void_rpar td f Z2 args rest H) in Hsv. discriminate Hsv.
Qed.

Lemma lex_void : lex_word "void" = TId "void".
Proof. reflexivity. Qed.

(*  ( params )  as written by the printer *)
Lemma params_ok : forall td args rest f,
  Forall (fun p => reads_ok (snd p)) args ->
  forallb simple_param args = true ->
  forallb (fun p => wf_oname td (fst p) && wf_ty td (snd p)) args = true ->
  sole_void args = false ->
  2 * length (params_toks args) + 1 <= f ->
  exists Z, params_toks args ++ rest = TLPar :: Z /\ p_params td f Z = Some (args, rest).
Proof.
  intros td args rest f Hall Hs Hwf Hsv Hf.
  destruct args as [|a args].
  - exists (TId "void" :: TRPar :: rest). split; [reflexivity|].
    cbn [params_toks length] in Hf. fuel_S f f'. reflexivity.
  - remember (a :: args) as l eqn:Hl.
    assert (Hne : l <> []) by (subst l; discriminate).
    exists (sep_join [TComma] (map ser_param l) ++ TRPar :: rest). split.
    + subst l. unfold params_toks. fold ser_param.
      rewrite <- !app_assoc. reflexivity.
    + assert (Hlen : length (params_toks l) = length (sep_join [TComma] (map ser_param l)) + 2).
      { subst l. unfold params_toks. fold ser_param.
        rewrite !app_length. cbn [length]. lia. }
      fuel_S f f'. apply p_params_plist; [|exact Hsv].
      apply plist_ok; try assumption. lia.
Qed.

(* ------------------------------------------------------------------ return types *)

Lemma ret_decomp : forall td r cs0, ptr_base r = true ->
  exists ws c cs', ptrs cs0 r = ptrs cs' (CBase ws c) /\ wf_ty td r = wf_words td ws /\
    serialize r (map ptr_item cs0) = const_toks c ++ map lex_word ws ++ pop_all (map ptr_item cs').
Proof.
  intros td r. induction r as [ws c|c r IH|r n IH|c r args IH IHa] using cty_ind';
    intros cs0 Hpb; try discriminate Hpb.
  - exists ws, c, cs0. repeat split. apply ser_base.
  - cbn [ptr_base] in Hpb. destruct (IH (c :: cs0) Hpb) as [ws [c' [cs' [H1 [H2 H3]]]]].
    exists ws, c', cs'. repeat split; try assumption.
    rewrite ser_ptr. exact H3.
Qed.

(* ------------------------------------------------------------------ the main invariant *)

Lemma reads_ok_base : forall ws c, reads_ok (CBase ws c).
Proof.
  intros ws c td cs on ds rest f Hs Hwf Hon Hrest Hf.
  cbn [simple_go] in Hs. apply N_list_eqb_eq in Hs.
  cbn [wf_ty] in Hwf.
  rewrite ser_base in *. rewrite <- !app_assoc in *.
  rewrite !app_length in Hf. rewrite pop_all_stack, app_length, brks_len, rev_length in Hf.
  pose proof (stars_len cs) as Hsl.
  exists (CBase ws c), (pop_all (stack cs on) ++ brks (rev ds) ++ rest),
         (ptrwrap cs (arrwrap (rev ds) (DName on))).
  split; [|split].
  - apply p_spec_words; [exact Hwf|].
    rewrite pop_all_stack, <- app_assoc.
    destruct cs as [|[] cs]; try reflexivity.
    destruct on as [n|]; cbn [map pop_all flat_map name_toks app].
    + cbn [wf_oname] in Hon. rewrite (lex_word_ident td n Hon). cbn [nokw_head].
      destruct (ident_ok_inv td n Hon) as [Hr _].
      destruct (reserved_false n Hr) as [Hk _]. now rewrite Hk.
    + destruct (rev ds) as [|n L]; [now apply follow_nokw|reflexivity].
  - apply dtor_stars_name_brks; try assumption. rewrite rev_length. lia.
  - rewrite apply_ptrwrap, apply_arrwrap. cbn [apply_dtor]. now rewrite <- Hs.
Qed.

Lemma reads_ok_ptr : forall c t, reads_ok t -> reads_ok (CPtr c t).
Proof.
  intros c t IH td cs on ds rest f Hs Hwf Hon Hrest Hf.
  rewrite ser_ptr, stack_cons in *.
  apply (IH td (c :: cs) on ds rest f); assumption.
Qed.

Lemma reads_ok_arr : forall t n, reads_ok t -> reads_ok (CArr t n).
Proof.
  intros t n IH td cs on ds rest f Hs Hwf Hon Hrest Hf.
  cbn [simple_go] in Hs. apply andb_true_iff in Hs. destruct Hs as [Hst Hs].
  destruct cs as [|c0 cs]; [|discriminate Hst]. cbn [is_nil negb] in Hs.
  assert (Heq : forall X, serialize (CArr t n) (stack [] on) ++ brks (rev ds) ++ X =
                          serialize t (stack [] on) ++ brks (rev (ds ++ [n])) ++ X).
  { intros X. rewrite ser_arr, rev_app_distr. cbn [rev app]. rewrite brks_cons.
    rewrite <- app_assoc. reflexivity. }
  rewrite Heq.
  pose proof (Heq []) as Heq0. rewrite !app_nil_r in Heq0. rewrite Heq0 in Hf.
  cbn [ptrs]. rewrite <- arrays_snoc.
  apply (IH td [] on (ds ++ [n]) rest f); assumption.
Qed.

Lemma reads_ok_fun : forall c r args,
  Forall (fun p => reads_ok (snd p)) args -> reads_ok (CFun c r args).
Proof.
  intros c r args IHa td cs on ds rest f Hs Hwf Hon Hrest Hf.
  cbn [simple_go] in Hs.
  apply andb_true_iff in Hs. destruct Hs as [Hs Hargs].
  apply andb_true_iff in Hs. destruct Hs as [Hs Hpb].
  apply andb_true_iff in Hs. destruct Hs as [Hs Hds].
  apply andb_true_iff in Hs. destruct Hs as [Hc Hne].
  destruct c; [discriminate Hc|]. destruct ds as [|d0 ds]; [|discriminate Hds].
  cbn [wf_ty] in Hwf.
  apply andb_true_iff in Hwf. destruct Hwf as [Hwf Hwa].
  apply andb_true_iff in Hwf. destruct Hwf as [Hwr Hsv]. apply negb_true_iff in Hsv.
  destruct (ret_decomp td r [] Hpb) as [ws [cr [cs' [Hr [Hww Hser]]]]].
  cbn [ptrs map] in Hr, Hser. rewrite Hww in Hwr.
  cbn [rev brks flat_map app arrays] in *. rewrite app_nil_r in Hf.
  rewrite ser_fun in *. rewrite Hser in *.
  rewrite !app_length in Hf. cbn [length] in Hf.
  pose proof (stars_len cs') as Hl1. pose proof (stars_len cs) as Hl2.
  rewrite pop_all_stack, app_length in Hf.
  rewrite <- !app_assoc. cbn [app].
  set (g := f - length cs' - 2).
  destruct (params_ok td args rest g IHa Hargs Hwa Hsv ltac:(unfold g; lia)) as [Z [HZ HpZ]].
  exists (CBase ws cr),
         (pop_all (map ptr_item cs') ++ TLPar :: pop_all (stack cs on) ++ TRPar :: params_toks args ++ rest),
         (ptrwrap cs' (DFun (ptrwrap cs (DName on)) args)).
  split; [|split].
  - apply p_spec_words; [exact Hwr|]. destruct cs' as [|[] cs']; reflexivity.
  - fuel_split f (length cs'). rewrite p_dtor_stars by reflexivity.
    replace (f - length cs') with (S (S g)) by (unfold g; lia).
    rewrite dtor_group; try assumption; [|unfold g; lia].
    rewrite HZ. cbn [p_suffix]. rewrite HpZ.
    replace g with (S (g - 1)) by (unfold g; lia).
    now rewrite p_suffix_end.
  - rewrite apply_ptrwrap. cbn [apply_dtor]. rewrite apply_ptrwrap. cbn [apply_dtor].
    now rewrite <- Hr.
Qed.

Lemma reads_ok_all : forall t, reads_ok t.
Proof.
  intros t. induction t as [ws c|c t IH|t n IH|c r args IH IHa] using cty_ind'.
  - apply reads_ok_base.
  - now apply reads_ok_ptr.
  - now apply reads_ok_arr.
  - now apply reads_ok_fun.
Qed.

(* ------------------------------------------------------------------ round trip *)

Theorem decl_roundtrip_partial_td : forall td t n,
  simple t = true -> wf_names_td td t n ->
  denote_td td (serialize t [SName n]) = Some (n, t).
Proof.
  intros td t n Hs [Hn Hwf].
  destruct (reads_ok_all t td [] (Some n) [] [] (2 * length (serialize t [SName n]) + 2))
    as [b [r [d [H1 [H2 H3]]]]]; try assumption; try reflexivity.
  - cbn [stack map app param_stack rev brks flat_map]. now rewrite app_nil_r.
  - cbn [stack map app param_stack rev brks flat_map arrays ptrs] in *.
    rewrite app_nil_r in H1.
    unfold denote_td. rewrite H1, H2, H3. reflexivity.
Qed.

Theorem decl_roundtrip_partial : forall t n,
  simple t = true -> wf_names t n -> denote (serialize t [SName n]) = Some (n, t).
Proof. intros t n. apply decl_roundtrip_partial_td. Qed.

Theorem decl_roundtrip_refuted :
  (exists t n, wf_names t n /\ denote (serialize t [SName n]) <> Some (n, t)) /\
  (* pointer to array of 3 int comes out as `int * p [3]`: an array of three pointers *)
  (wf_names (CPtr false (CArr (CBase ["int"] false) 3)) "p" /\
   denote (serialize (CPtr false (CArr (CBase ["int"] false) 3)) [SName "p"]) =
   Some ("p", CArr (CPtr false (CBase ["int"] false)) 3)) /\
  (* pointer to function(int) returning pointer to function(char) returning int comes
     out as `int ( * ) (char) ( * f) (int)`: not a declaration *)
  (wf_names (CPtr false (CFun false (CPtr false (CFun false (CBase ["int"] false)
                                                      [(None, CBase ["char"] false)]))
                              [(None, CBase ["int"] false)])) "f" /\
   denote (serialize (CPtr false (CFun false (CPtr false (CFun false (CBase ["int"] false)
                                                      [(None, CBase ["char"] false)]))
                              [(None, CBase ["int"] false)])) [SName "f"]) = None) /\
  (* int m[2][3] is written `int m [3] [2]` *)
  (wf_names (CArr (CArr (CBase ["int"] false) 3) 2) "m" /\
   denote (serialize (CArr (CArr (CBase ["int"] false) 3) 2) [SName "m"]) =
   Some ("m", CArr (CArr (CBase ["int"] false) 2) 3)) /\
  (* array of 3 pointers to function comes out as `int ( * a) (int) [3]`: a pointer to a
     function returning an array *)
  (wf_names (CArr (CPtr false (CFun false (CBase ["int"] false) [(None, CBase ["int"] false)])) 3) "a" /\
   denote (serialize (CArr (CPtr false (CFun false (CBase ["int"] false)
                                             [(None, CBase ["int"] false)])) 3) [SName "a"]) =
   Some ("a", CPtr false (CFun false (CArr (CBase ["int"] false) 3) [(None, CBase ["int"] false)]))).
Proof.
  split; [|repeat split; vm_compute; reflexivity].
  exists (CPtr false (CArr (CBase ["int"] false) 3)), "p".
  split; [split; vm_compute; reflexivity|].
  vm_compute. discriminate.
Qed.

(* ------------------------------------------------------------------ a generic "every token satisfies q" lemma *)

Lemma forallb_sep_join : forall (q : tok -> bool) sep l,
  forallb q sep = true -> Forall (fun x => forallb q x = true) l ->
  forallb q (sep_join sep l) = true.
Proof.
  intros q sep l Hsep Hall. induction Hall as [|x l Hx Hall IH]; [reflexivity|].
  destruct l as [|y l']; [exact Hx|].
  change (sep_join sep (x :: y :: l')) with (x ++ sep ++ sep_join sep (y :: l')).
  rewrite !forallb_app, Hx, Hsep, IH. reflexivity.
Qed.

Section SerForall.
  Variable q : tok -> bool.
  Hypothesis Hpunct : forall t, is_punct t = true -> q t = true.
  Hypothesis Hvoid : q (TId "void") = true.

  Lemma serialize_forallb : forall t st,
    forallb q (map lex_word (cty_words t)) = true -> forallb q (pop_all st) = true ->
    forallb q (serialize t st) = true.
  Proof.
    intros t. induction t as [ws c|c t IH|t n IH|c r args IH IHa] using cty_ind';
      intros st Hw Hst.
    - rewrite ser_base, !forallb_app. cbn [cty_words] in Hw. rewrite Hw, Hst.
      destruct c; cbn [const_toks forallb]; [rewrite Hpunct by reflexivity|]; reflexivity.
    - rewrite ser_ptr. apply IH; [exact Hw|].
      rewrite pop_all_cons, forallb_app, Hst.
      destruct c; cbn [ptr_item emit_item forallb]; rewrite !Hpunct by reflexivity; reflexivity.
    - rewrite ser_arr, forallb_app. rewrite (IH st Hw Hst).
      cbn [forallb]. rewrite !Hpunct by reflexivity. reflexivity.
    - cbn [cty_words] in Hw. rewrite map_app, forallb_app in Hw.
      apply andb_true_iff in Hw. destruct Hw as [Hwr Hwa].
      rewrite ser_fun, !forallb_app. rewrite (IH [] Hwr eq_refl).
      assert (Hst' : forallb q (pop_all (if c then SConst :: st else st)) = true).
      { destruct c; [|exact Hst]. rewrite pop_all_cons, forallb_app, Hst.
        cbn [emit_item forallb]. now rewrite Hpunct by reflexivity. }
      rewrite Hst'. cbn [forallb]. rewrite !Hpunct by reflexivity.
      cbn [andb].
      destruct args as [|a args].
      + cbn [params_toks forallb]. rewrite lex_void, Hvoid, !Hpunct by reflexivity. reflexivity.
      + remember (a :: args) as l eqn:Hl.
        assert (Hpt : params_toks l = [TLPar] ++ sep_join [TComma] (map ser_param l) ++ [TRPar])
          by (subst l; reflexivity).
        rewrite Hpt, !forallb_app. cbn [forallb]. rewrite !Hpunct by reflexivity.
        rewrite forallb_sep_join; [reflexivity|cbn [forallb]; now rewrite Hpunct by reflexivity|].
        clear Hpt Hl a args. induction IHa as [|p l Hp IHa IHl]; [constructor|].
        cbn [flat_map] in Hwa. rewrite !map_app, !forallb_app in Hwa.
        apply andb_true_iff in Hwa. destruct Hwa as [Hwp Hwl].
        apply andb_true_iff in Hwp. destruct Hwp as [Hwn Hwt].
        cbn [map]. constructor; [|exact (IHl Hwl)].
        unfold ser_param. apply Hp; [exact Hwt|].
        destruct (fst p) as [n|]; [|reflexivity].
        cbn [param_stack pop_all flat_map emit_item app]. exact Hwn.
  Qed.
End SerForall.

Lemma lex_word_not_lbrace : forall s, not_lbrace (lex_word s) = true.
Proof.
  intros s. unfold lex_word.
  destruct (String.eqb s "const"); [reflexivity|].
  destruct (String.eqb s "return"); reflexivity.
Qed.

Lemma words_not_lbrace : forall ws, forallb not_lbrace (map lex_word ws) = true.
Proof.
  induction ws as [|w ws IH]; [reflexivity|].
  cbn [map forallb]. now rewrite lex_word_not_lbrace, IH.
Qed.

Lemma punct_not_lbrace : forall t, is_punct t = true -> not_lbrace t = true.
Proof. intros t H. destruct t; try discriminate H; reflexivity. Qed.

Lemma punct_not_return : forall t, is_punct t = true -> not_return t = true.
Proof. intros t H. destruct t; try discriminate H; reflexivity. Qed.

Lemma serialize_no_lbrace : forall t st,
  forallb not_lbrace (pop_all st) = true -> forallb not_lbrace (serialize t st) = true.
Proof.
  intros t st H. apply serialize_forallb; try assumption.
  - exact punct_not_lbrace.
  - reflexivity.
  - apply words_not_lbrace.
Qed.

Lemma after_lbrace_app : forall A B, forallb not_lbrace A = true ->
  after_lbrace (A ++ TLBrace :: B) = B.
Proof.
  induction A as [|x A IH]; intros B H; [reflexivity|].
  cbn [forallb] in H. apply andb_true_iff in H. destruct H as [Hx HA].
  cbn [app after_lbrace]. destruct x; try (apply IH; exact HA). discriminate Hx.
Qed.

Lemma before_lbrace_app : forall A B, forallb not_lbrace A = true ->
  before_lbrace (A ++ TLBrace :: B) = A.
Proof.
  induction A as [|x A IH]; intros B H; [reflexivity|].
  cbn [forallb] in H. apply andb_true_iff in H. destruct H as [Hx HA].
  cbn [app before_lbrace]. destruct x; try (rewrite (IH B HA); reflexivity). discriminate Hx.
Qed.

Lemma wrapper_split : forall name suf ret args,
  wrapper name suf ret args =
  wrapper_head name suf ret args ++ TLBrace :: wrapper_body name ret args.
Proof.
  intros name suf ret args. unfold wrapper, wrapper_head, wrapper_body.
  rewrite <- !app_assoc. reflexivity.
Qed.

Lemma serialize_args_no_lbrace : forall a, forallb not_lbrace (serialize_args a) = true.
Proof.
  intros a. destruct a as [|p a]; [reflexivity|].
  unfold serialize_args. apply forallb_sep_join; [reflexivity|].
  apply Forall_forall. intros x Hx. apply in_map_iff in Hx. destruct Hx as [y [Hy _]].
  subst x. apply serialize_no_lbrace. cbn [pop_all flat_map emit_item app forallb].
  now rewrite lex_word_not_lbrace.
Qed.

Lemma wrapper_head_no_lbrace : forall name suf ret args,
  forallb not_lbrace (wrapper_head name suf ret args) = true.
Proof.
  intros name suf ret args. unfold wrapper_head. rewrite !forallb_app.
  rewrite serialize_no_lbrace by reflexivity.
  rewrite serialize_args_no_lbrace. cbn [forallb]. now rewrite lex_word_not_lbrace.
Qed.

(* ------------------------------------------------------------------ the call forwards the parameters *)

Lemma idents_sep : forall (a : list (string * cty)) tl,
  idents_until_rpar (sep_join [TComma] (map (fun p => [TId (fst p)]) a) ++ TRPar :: tl) =
  map fst a.
Proof.
  induction a as [|p a IH]; intros tl; [reflexivity|].
  destruct a as [|q a].
  - reflexivity.
  - change (sep_join [TComma] (map (fun p => [TId (fst p)]) (p :: q :: a)))
      with ([TId (fst p)] ++ [TComma] ++ sep_join [TComma] (map (fun p => [TId (fst p)]) (q :: a))).
    rewrite <- !app_assoc. cbn [app idents_until_rpar map]. f_equal. apply IH.
Qed.

Lemma plain_lex : forall s, plain_word s = true -> lex_word s = TId s.
Proof.
  intros s H. unfold plain_word in H. apply andb_true_iff in H. destruct H as [H1 H2].
  apply negb_true_iff in H1. apply negb_true_iff in H2. now apply lex_word_plain.
Qed.

Lemma call_toks_plain : forall a : list (string * cty),
  forallb plain_word (map fst a) = true ->
  map (fun p => [lex_word (fst p)]) a = map (fun p => [TId (fst p)]) a.
Proof.
  induction a as [|p a IH]; intros H; [reflexivity|].
  cbn [map forallb] in H. apply andb_true_iff in H. destruct H as [Hp Ha].
  cbn [map]. now rewrite (plain_lex _ Hp), (IH Ha).
Qed.

Lemma call_head_not_lpar : forall (a : list (string * cty)) tl,
  exists x Y, sep_join [TComma] (map (fun p => [TId (fst p)]) a) ++ TRPar :: tl = x :: Y /\
              x <> TLPar.
Proof.
  intros a tl. destruct a as [|p a].
  - exists TRPar, tl. split; [reflexivity|discriminate].
  - destruct a as [|q a].
    + exists (TId (fst p)), (TRPar :: tl). split; [reflexivity|discriminate].
    + eexists (TId (fst p)), _. split; [reflexivity|discriminate].
Qed.

Theorem args_forwarded_in_order : forall name suf ret args,
  forallb plain_word (param_names args) = true ->
  call_args (wrapper name suf ret args) = param_names args.
Proof.
  intros name suf ret args Hplain. unfold call_args, param_names in *.
  rewrite wrapper_split, after_lbrace_app by apply wrapper_head_no_lbrace.
  unfold wrapper_body. rewrite (call_toks_plain _ Hplain).
  destruct (is_void ret); cbn [app].
  - destruct (call_head_not_lpar (name_args 0 args) [TSemi; TRBrace]) as [x [Y [HY Hx]]].
    pose proof (idents_sep (name_args 0 args) [TSemi; TRBrace]) as Hid.
    rewrite HY in *.
    destruct (lex_word name); try exact Hid.
    destruct x; try exact Hid. now elim Hx.
  - destruct (lex_word name); apply idents_sep.
Qed.

(* ------------------------------------------------------------------ return *)

Theorem wrapper_return_first : forall name suf ret args,
  String.eqb name "return" = false ->
  body_returns (wrapper name suf ret args) = negb (is_void ret).
Proof.
  intros name suf ret args Hn. unfold body_returns.
  rewrite wrapper_split, after_lbrace_app by apply wrapper_head_no_lbrace.
  unfold wrapper_body. destruct (is_void ret); cbn [app negb]; [|reflexivity].
  unfold lex_word. rewrite Hn. destruct (String.eqb name "const"); reflexivity.
Qed.

Lemma lex_word_not_return : forall s,
  negb (String.eqb s "return") = true -> not_return (lex_word s) = true.
Proof.
  intros s H. apply negb_true_iff in H. unfold lex_word. rewrite H.
  destruct (String.eqb s "const"); reflexivity.
Qed.

Lemma words_not_return : forall ws,
  forallb (fun s => negb (String.eqb s "return")) ws = true ->
  forallb not_return (map lex_word ws) = true.
Proof.
  induction ws as [|w ws IH]; intros H; [reflexivity|].
  cbn [forallb] in H. apply andb_true_iff in H. destruct H as [Hw Hws].
  cbn [map forallb]. now rewrite (lex_word_not_return w Hw), (IH Hws).
Qed.

Lemma serialize_no_return : forall t st,
  forallb (fun s => negb (String.eqb s "return")) (cty_words t) = true ->
  forallb not_return (pop_all st) = true -> forallb not_return (serialize t st) = true.
Proof.
  intros t st Hw Hst. apply serialize_forallb; try assumption.
  - exact punct_not_return.
  - reflexivity.
  - now apply words_not_return.
Qed.

Lemma args_no_return : forall a : list (string * cty),
  forallb (fun s => negb (String.eqb s "return"))
          (flat_map (fun p => fst p :: cty_words (snd p)) a) = true ->
  forallb not_return (serialize_args a) = true /\
  forallb not_return (sep_join [TComma] (map (fun p => [lex_word (fst p)]) a)) = true.
Proof.
  intros a Hargs.
  assert (H : Forall (fun x => forallb not_return x = true)
                     (map (fun p => serialize (snd p) [SName (fst p)]) a) /\
              Forall (fun x => forallb not_return x = true)
                     (map (fun p : string * cty => [lex_word (fst p)]) a)).
  { induction a as [|x l IHl]; [split; constructor|].
    cbn [flat_map forallb] in Hargs. rewrite forallb_app in Hargs.
    apply andb_true_iff in Hargs. destruct Hargs as [Hx Hl].
    apply andb_true_iff in Hx. destruct Hx as [Hxn Hxt].
    destruct (IHl Hl) as [I1 I2].
    cbn [map]. split; constructor; try assumption.
    - apply serialize_no_return; [exact Hxt|].
      cbn [pop_all flat_map emit_item app forallb]. now rewrite (lex_word_not_return _ Hxn).
    - cbn [forallb]. now rewrite (lex_word_not_return _ Hxn). }
  destruct H as [H1 H2]. split.
  - destruct a as [|p a]; [reflexivity|].
    unfold serialize_args. apply forallb_sep_join; [reflexivity|exact H1].
  - apply forallb_sep_join; [reflexivity|exact H2].
Qed.

Theorem wrapper_returns_iff_nonvoid : forall name suf ret args,
  no_return_words name suf ret args = true ->
  (In TReturn (wrapper name suf ret args) <-> is_void ret = false).
Proof.
  intros name suf ret args Hnr. rewrite wrapper_split. unfold wrapper_body.
  split.
  - intros Hin. destruct (is_void ret) eqn:Hv; [exfalso|reflexivity].
    unfold no_return_words in Hnr. cbn [forallb] in Hnr.
    apply andb_true_iff in Hnr. destruct Hnr as [Hname Hnr].
    apply andb_true_iff in Hnr. destruct Hnr as [Hns Hnr].
    rewrite forallb_app in Hnr. apply andb_true_iff in Hnr. destruct Hnr as [Hret Hargs].
    destruct (args_no_return _ Hargs) as [Hsa Hca].
    assert (Hall : forallb not_return
                     (wrapper_head name suf ret args ++ TLBrace :: [] ++ [lex_word name; TLPar] ++
                      sep_join [TComma] (map (fun p => [lex_word (fst p)]) (name_args 0 args)) ++
                      [TRPar; TSemi; TRBrace]) = true).
    { unfold wrapper_head. cbn [app]. rewrite !forallb_app. cbn [forallb].
      rewrite !forallb_app. cbn [forallb].
      rewrite (serialize_no_return ret [] Hret eq_refl).
      rewrite (lex_word_not_return _ Hns), (lex_word_not_return _ Hname).
      rewrite Hsa, Hca. reflexivity. }
    rewrite forallb_forall in Hall. specialize (Hall TReturn Hin). discriminate Hall.
  - intros Hv. rewrite Hv. apply in_or_app. right. right. left. reflexivity.
Qed.

(* ------------------------------------------------------------------ the wrapper declares name ++ suffix *)

Lemma named_args_props : forall td (a : list (string * cty)),
  forallb (fun p => ident_ok td (fst p) && simple (snd p) && wf_ty td (snd p)) a = true ->
  forallb simple_param (map (fun p => (Some (fst p), snd p)) a) = true /\
  forallb (fun p => wf_oname td (fst p) && wf_ty td (snd p))
          (map (fun p => (Some (fst p), snd p)) a) = true /\
  sole_void (map (fun p => (Some (fst p), snd p)) a) = false /\
  [TLPar] ++ serialize_args a ++ [TRPar] = params_toks (map (fun p => (Some (fst p), snd p)) a).
Proof.
  intros td a H. repeat split.
  - induction a as [|p a IH]; [reflexivity|].
    cbn [forallb] in H. apply andb_true_iff in H. destruct H as [Hp Ha].
    apply andb_true_iff in Hp. destruct Hp as [Hp _].
    apply andb_true_iff in Hp. destruct Hp as [_ Hs].
    cbn [map forallb]. rewrite (IH Ha). unfold simple_param. cbn [fst snd is_some].
    unfold simple in Hs. now rewrite Hs.
  - induction a as [|p a IH]; [reflexivity|].
    cbn [forallb] in H. apply andb_true_iff in H. destruct H as [Hp Ha].
    apply andb_true_iff in Hp. destruct Hp as [Hp Hw].
    apply andb_true_iff in Hp. destruct Hp as [Hi _].
    cbn [map forallb fst snd wf_oname]. now rewrite (IH Ha), Hi, Hw.
  - destruct a as [|[n t] [|q a]]; reflexivity.
  - destruct a as [|p a]; [reflexivity|].
    unfold params_toks, serialize_args. cbn [map]. cbn [fst snd param_stack].
    rewrite map_map. reflexivity.
Qed.

Theorem wrapper_name_is_suffixed_td : forall td name suf ret args,
  wf_wrapper td name suf ret args ->
  denote_td td (before_lbrace (wrapper name suf ret args)) =
  Some (String.append name suf, CFun false ret (named_args args)).
Proof.
  intros td name suf ret args [Hns [Hpb [Hwr Hargs]]].
  rewrite wrapper_split, before_lbrace_app by apply wrapper_head_no_lbrace.
  unfold wrapper_head, named_args.
  destruct (ret_decomp td ret [] Hpb) as [ws [cr [cs' [Hr [Hww Hser]]]]].
  cbn [ptrs map] in Hr, Hser. rewrite Hww in Hwr.
  rewrite (lex_word_ident td _ Hns).
  destruct (named_args_props td _ Hargs) as [Hs [Hw [Hsv Hpt]]].
  set (ns := String.append name suf) in *.
  set (a' := map (fun p => (Some (fst p), snd p)) (name_args 0 args)) in *.
  change ([TId ns; TLPar] ++ serialize_args (name_args 0 args) ++ [TRPar])
    with (TId ns :: ([TLPar] ++ serialize_args (name_args 0 args) ++ [TRPar])).
  rewrite Hpt, Hser, <- !app_assoc.
  assert (Hall : Forall (fun p => reads_ok (snd p)) a')
    by (apply Forall_forall; intros p _; apply reads_ok_all).
  unfold denote_td.
  rewrite p_spec_words; [|exact Hwr|].
  2:{ destruct cs' as [|[] cs']; try reflexivity.
      cbn [map pop_all flat_map app nokw_head].
      destruct (ident_ok_inv td ns Hns) as [Hres _].
      destruct (reserved_false ns Hres) as [Hk _]. now rewrite Hk. }
  match goal with |- context [p_dtor td ?F _] => set (F0 := F) end.
  assert (HF : length cs' + 2 * length (params_toks a') + 3 <= F0).
  { unfold F0. rewrite ?app_length. cbn [length]. rewrite ?app_length. cbn [length].
    pose proof (stars_len cs'). lia. }
  clearbody F0.
  fuel_split F0 (length cs'). rewrite p_dtor_stars by reflexivity.
  set (g := F0 - length cs' - 2).
  replace (F0 - length cs') with (S (S g)) by (unfold g; lia).
  rewrite (p_dtor_name td (S g) ns _ Hns).
  replace (params_toks a') with (params_toks a' ++ []) by apply app_nil_r.
  destruct (params_ok td a' [] g Hall Hs Hw Hsv ltac:(unfold g; lia)) as [Z [HZ HpZ]].
  rewrite HZ. cbn [p_suffix]. rewrite HpZ.
  replace g with (S (g - 1)) by (unfold g; lia).
  rewrite p_suffix_end by reflexivity.
  rewrite apply_ptrwrap. cbn [apply_dtor]. now rewrite <- Hr.
Qed.

Theorem wrapper_name_is_suffixed : forall name suf ret args,
  wf_wrapper [] name suf ret args ->
  denote (before_lbrace (wrapper name suf ret args)) =
  Some (String.append name suf, CFun false ret (named_args args)).
Proof. intros name suf ret args. apply wrapper_name_is_suffixed_td. Qed.

(* ------------------------------------------------------------------ examples *)

Open Scope N_scope.



Example decl_roundtrip_partial_nonvacuous :
  simple ex_cb = true /\ wf_names ex_cb "cb" /\
  serialize ex_cb [SName "cb"] =
    [TConst; TId "unsigned"; TId "long"; TStar; TLPar; TStar; TConst; TId "cb"; TRPar;
     TLPar; TId "struct"; TId "S"; TStar; TId "s"; TComma;
            TId "void"; TLPar; TStar; TRPar; TLPar; TId "void"; TRPar; TComma;
            TId "char"; TLBrk; TNum 4; TRBrk; TComma;
            TId "int"; TId "m"; TLBrk; TNum 3; TRBrk; TLBrk; TNum 3; TRBrk; TRPar] /\
  denote (serialize ex_cb [SName "cb"]) = Some ("cb", ex_cb).
Proof. repeat split; vm_compute; reflexivity. Qed.

(* typedef names are read with the typedef environment *)
Example decl_roundtrip_typedef_nonvacuous :
  let t := CArr (CPtr false (CBase ["size_t"] true)) 4 in
  simple t = true /\ wf_names_td ["size_t"] t "v" /\
  denote_td ["size_t"] (serialize t [SName "v"]) = Some ("v", t) /\
  denote (serialize t [SName "v"]) = None.
Proof. repeat split; vm_compute; reflexivity. Qed.

(* every conjunct of [simple] is needed: a wf type violating only that conjunct, and
   what the reader makes of the output *)
Example simple_conjuncts_needed :
  (* array under a pointer *)
  denote (serialize (CPtr false (CArr ex_int 3)) [SName "p"]) = Some ("p", CArr (CPtr false ex_int) 3) /\
  (* array lengths not a palindrome *)
  denote (serialize (CArr (CArr ex_int 3) 2) [SName "m"]) = Some ("m", CArr (CArr ex_int 2) 3) /\
  (* const-qualified function type: "const " is pushed and comes out before the star *)
  serialize (CPtr false (CFun true ex_int [(None, ex_int)])) [SName "fp"] =
    [TId "int"; TLPar; TConst; TStar; TId "fp"; TRPar; TLPar; TId "int"; TRPar] /\
  denote (serialize (CPtr false (CFun true ex_int [(None, ex_int)])) [SName "fp"]) = None /\
  (* unnamed parameter of bare function type: "int () (void)" *)
  denote (serialize (CFun false ex_int [(None, CFun false ex_int [])]) [SName "f"]) = None /\
  (* array of pointers to function *)
  denote (serialize (CArr (CPtr false (CFun false ex_int [(None, ex_int)])) 3) [SName "a"]) =
    Some ("a", CPtr false (CFun false (CArr ex_int 3) [(None, ex_int)])) /\
  (* function returning pointer to function (smallest: no parameters anywhere) *)
  serialize (CFun false (CPtr false (CFun false ex_int [])) []) [SName "f"] =
    [TId "int"; TLPar; TStar; TRPar; TLPar; TId "void"; TRPar;
     TLPar; TId "f"; TRPar; TLPar; TId "void"; TRPar] /\
  denote (serialize (CFun false (CPtr false (CFun false ex_int [])) []) [SName "f"]) = None /\
  (* function returning array: not C, but it shows the return type must be pointers over a base *)
  denote (serialize (CFun false (CArr ex_int 3) []) [SName "f"]) = None /\
  (* a parameter outside the class *)
  denote (serialize (CFun false ex_int [(Some "p", CPtr false (CArr ex_int 3))]) [SName "f"]) =
    Some ("f", CFun false ex_int [(Some "p", CArr (CPtr false ex_int) 3)]).
Proof. repeat split; vm_compute; reflexivity. Qed.

(* every conjunct of the side conditions is needed *)
Example wf_conjuncts_needed :
  (* declared name is a specifier keyword / const / a typedef name / a tag keyword *)
  simple ex_int = true /\
  denote (serialize ex_int [SName "long"]) = None /\
  denote (serialize ex_int [SName "const"]) = None /\
  denote_td ["T"] (serialize ex_int [SName "T"]) = None /\
  denote (serialize ex_int [SName "struct"]) = None /\
  (* base words that are not a specifier list *)
  denote (serialize (CBase ["foo"] false) [SName "x"]) = None /\
  denote (serialize (CBase [] false) [SName "x"]) = None /\
  denote (serialize (CBase ["struct"; "int"] false) [SName "x"]) = None /\
  (* a typedef name spelled `const` *)
  denote_td ["const"] (serialize (CBase ["const"] false) [SName "x"]) = None /\
  (* parameter name that is a keyword *)
  denote (serialize (CFun false ex_int [(Some "int", ex_char)]) [SName "f"]) =
    Some ("f", CFun false ex_int [(None, CBase ["char"; "int"] false)]) /\
  (* the sole unnamed void parameter *)
  simple (CFun false ex_int [(None, ex_void)]) = true /\
  denote (serialize (CFun false ex_int [(None, ex_void)]) [SName "f"]) =
    Some ("f", CFun false ex_int []).
Proof. repeat split; vm_compute; reflexivity. Qed.


Example wrapper_nonvacuous :
  wrapper "foo" "__extern" ex_int ex_args =
    [TId "int"; TId "foo__extern"; TLPar; TId "int"; TId "a"; TComma; TId "char"; TId "arg_0";
     TComma; TId "void"; TStar; TId "b"; TComma; TId "int"; TId "arg_1"; TRPar; TLBrace;
     TReturn; TId "foo"; TLPar; TId "a"; TComma; TId "arg_0"; TComma; TId "b"; TComma;
     TId "arg_1"; TRPar; TSemi; TRBrace] /\
  param_names ex_args = ["a"; "arg_0"; "b"; "arg_1"] /\
  forallb plain_word (param_names ex_args) = true /\
  call_args (wrapper "foo" "__extern" ex_int ex_args) = ["a"; "arg_0"; "b"; "arg_1"] /\
  wf_wrapper [] "foo" "__extern" ex_int ex_args /\
  no_return_words "foo" "__extern" ex_int ex_args = true /\
  denote (before_lbrace (wrapper "foo" "__extern" ex_int ex_args)) =
    Some ("foo__extern",
          CFun false ex_int [(Some "a", ex_int); (Some "arg_0", ex_char);
                             (Some "b", CPtr false ex_void); (Some "arg_1", ex_int)]) /\
  wrapper "g" "_w" (CBase ["void"] true) [] =
    [TConst; TId "void"; TId "g_w"; TLPar; TId "void"; TRPar; TLBrace;
     TId "g"; TLPar; TRPar; TSemi; TRBrace].
Proof. repeat split; vm_compute; reflexivity. Qed.

(* the side conditions of the wrapper theorems are needed *)
Example wrapper_conditions_needed :
  (* a parameter called `return` is not forwarded as an identifier *)
  call_args (wrapper "f" "_w" ex_int [(Some "return", ex_int); (Some "x", ex_int)]) = [] /\
  (* a void function called `return`: the body starts with the keyword *)
  body_returns (wrapper "return" "_w" ex_void []) = true /\
  In TReturn (wrapper "return" "_w" ex_void []) /\
  (* a typedef of void is not void for Type::is_void: the wrapper says `return` *)
  body_returns (wrapper "f" "_w" (CBase ["V"] false) []) = true /\
  (* return type outside pointers-over-base: the text before "{" is not a declaration *)
  wrapper_head "g" "_w" (CPtr false (CFun false ex_int [(None, ex_char)])) [(None, ex_int)] =
    [TId "int"; TLPar; TStar; TRPar; TLPar; TId "char"; TRPar; TId "g_w"; TLPar;
     TId "int"; TId "arg_0"; TRPar] /\
  denote (before_lbrace (wrapper "g" "_w" (CPtr false (CFun false ex_int [(None, ex_char)]))
                                 [(None, ex_int)])) = None /\
  (* a named parameter can collide with a generated name *)
  param_names [(Some "arg_0", ex_int); (None, ex_char)] = ["arg_0"; "arg_0"].
Proof. repeat split; try (vm_compute; reflexivity). vm_compute. tauto. Qed.

(* ================================================================== *)
(* What the output denotes for EVERY type, and exactness of [simple]   *)
(* ================================================================== *)

Close Scope N_scope.

Lemma p_plist_unfold : forall td f ts,
  p_plist td (S f) ts =
  match p_decl td f ts with
  | None => None
  | Some (p, r') =>
      match r' with
      | TRPar :: r'' => Some ([p], r'')
      | TComma :: r'' =>
          match p_plist td f r'' with
          | Some (ps, r3) => Some (p :: ps, r3)
          | None => None
          end
      | _ => None
      end
  end.
Proof.
  intros td f ts. cbn [p_plist]. unfold p_decl.
  destruct (p_spec td ts) as [[b r]|]; [|reflexivity].
  destruct (p_dtor td f r) as [[d r']|]; reflexivity.
Qed.

Lemma reads_p_decl : forall td f ts on T rest,
  reads td f ts on T rest -> p_decl td f ts = Some ((on, T), rest).
Proof.
  intros td f ts on T rest [b [r [d [H1 [H2 H3]]]]].
  unfold p_decl. now rewrite H1, H2, H3.
Qed.

Lemma pop_all_cst : forall c cs on,
  pop_all (cst c (stack cs on)) = const_toks c ++ pop_all (map ptr_item cs) ++ name_toks on.
Proof.
  intros c cs on. destruct c; cbn [cst const_toks app].
  - rewrite pop_all_cons, pop_all_stack. reflexivity.
  - apply pop_all_stack.
Qed.

Lemma p_spec_reject : forall td c0 H, bad_spec_head td H = true ->
  p_spec td (const_toks c0 ++ H) = None.
Proof.
  intros td c0 H Hb. rewrite p_spec_const.
  - destruct H as [|x H']; [reflexivity|]. destruct x; try reflexivity.
    cbn [bad_spec_head] in Hb.
    apply andb_true_iff in Hb. destruct Hb as [Hb H3].
    apply andb_true_iff in Hb. destruct Hb as [H1 H2].
    apply negb_true_iff in H1. apply negb_true_iff in H2. apply negb_true_iff in H3.
    now rewrite H1, H2, H3.
  - destruct H as [|x H']; [reflexivity|]. destruct x; try reflexivity. discriminate Hb.
Qed.

Lemma p_plist_none : forall td g X, p_spec td X = None -> p_plist td g X = None.
Proof. intros td g X H. destruct g as [|g]; [reflexivity|]. cbn [p_plist]. now rewrite H. Qed.

Lemma ident_bad_head : forall td n Y, ident_ok td n = true -> bad_spec_head td (TId n :: Y) = true.
Proof.
  intros td n Y H. destruct (ident_ok_inv td n H) as [Hr Hm].
  destruct (reserved_false n Hr) as [Hk [Ht _]]. cbn [bad_spec_head]. now rewrite Hk, Ht, Hm.
Qed.

(* the group "( [const] * ... * name )" is never a parameter list *)
Lemma params_reject_group : forall td f c cs on Y,
  wf_oname td on = true ->
  p_params td f (pop_all (cst c (stack cs on)) ++ TRPar :: Y) = None.
Proof.
  intros td f c cs on Y Hon. rewrite pop_all_cst, <- !app_assoc.
  set (H := pop_all (map ptr_item cs) ++ name_toks on ++ TRPar :: Y).
  assert (Hbad : bad_spec_head td H = true).
  { unfold H. destruct cs as [|[] cs]; try reflexivity.
    destruct on as [n|]; [|reflexivity].
    cbn [map pop_all flat_map name_toks app]. cbn [wf_oname] in Hon.
    rewrite (lex_word_ident td n Hon). now apply ident_bad_head. }
  destruct f as [|f1]; [reflexivity|].
  destruct c; cbn [const_toks app].
  - cbn [p_params]. apply p_plist_none. exact (p_spec_reject td true H Hbad).
  - pose proof (p_plist_none td f1 H (p_spec_reject td false H Hbad)) as Hpl.
    cbn [const_toks app] in Hpl.
    destruct H as [|x H1] eqn:EH; [exact Hpl|].
    destruct x; try exact Hpl.
    destruct H1 as [|y H2]; [exact Hpl|].
    destruct y; try exact Hpl.
    cbn [p_params]. destruct (String.eqb s "void") eqn:E; [|exact Hpl].
    apply String.eqb_eq in E. subst s. discriminate Hbad.
Qed.

Lemma p_suffix_brks_then_group : forall td L g d c cs on Y,
  wf_oname td on = true -> length L + 1 <= g ->
  p_suffix td g d (brks L ++ TLPar :: pop_all (cst c (stack cs on)) ++ TRPar :: Y) = None.
Proof.
  intros td L g d c cs on Y Hon Hg.
  fuel_split g (length L). rewrite p_suffix_brks.
  remember (g - length L) as g1 eqn:E. fuel_S g1 g2.
  cbn [p_suffix]. now rewrite params_reject_group.
Qed.

(* ------------------------------------------------------------------ printed_as: simple facts *)

Lemma ptrs_not_base : forall cs t ws c,
  (forall ws' c', t <> CBase ws' c') -> ptrs cs t <> CBase ws c.
Proof.
  induction cs as [|c0 cs IH]; intros t ws c Ht; [apply Ht|].
  cbn [ptrs]. apply IH. intros ws' c' Hx. discriminate Hx.
Qed.

Lemma printed_as_base_inv : forall t nm cs ds ws c,
  printed_as nm cs ds t = Some (CBase ws c) -> cs = [] /\ ds = [] /\ t = CBase ws c.
Proof.
  intros t. induction t as [ws0 c0|c0 t IH|t n IH|c0 r args IH IHa] using cty_ind';
    intros nm cs ds ws c H; cbn [printed_as] in H.
  - injection H as H1.
    destruct (rev ds) as [|d L] eqn:Ed; [|discriminate H1].
    cbn [arrays] in H1.
    destruct cs as [|c1 cs].
    + cbn [ptrs] in H1. split; [reflexivity|]. split; [|exact H1].
      apply (f_equal (@rev N)) in Ed. now rewrite rev_involutive in Ed.
    + exfalso. cbn [ptrs] in H1. revert H1. apply ptrs_not_base. intros ws' c' Hx; discriminate Hx.
  - destruct (IH nm (c0 :: cs) ds ws c H) as [E _]. discriminate E.
  - destruct (IH nm cs (ds ++ [n]) ws c H) as [_ [E _]]. now destruct ds.
  - exfalso.
    destruct (c0 || (is_nil cs && negb nm) || negb (ptr_base r)); [discriminate H|].
    destruct (map_opt _ args) as [args'|]; [|discriminate H].
    injection H as H1. revert H1. apply ptrs_not_base. intros ws' c' Hx; discriminate Hx.
Qed.

Lemma map_opt_cons : forall A B (f : A -> option B) x l,
  map_opt f (x :: l) =
  match f x, map_opt f l with Some y, Some ys => Some (y :: ys) | _, _ => None end.
Proof. reflexivity. Qed.

Lemma printed_as_fun : forall nm cs ds c r args,
  printed_as nm cs ds (CFun c r args) =
  if c || (is_nil cs && negb nm) || negb (ptr_base r) then None
  else match map_opt rd_param args with
       | Some args' => Some (ptrs cs (CFun false (arrays (rev ds) r) args'))
       | None => None
       end.
Proof. reflexivity. Qed.

(* ------------------------------------------------------------------ parameter lists, in general *)

Lemma plist_char : forall td args,
  Forall (fun p => reads_char (snd p)) args -> args <> [] ->
  forallb (fun p => wf_oname td (fst p) && wf_ty td (snd p)) args = true ->
  forall rest f,
  2 * length (sep_join [TComma] (map ser_param args) ++ TRPar :: rest) + 3 <= f ->
  p_plist td f (sep_join [TComma] (map ser_param args) ++ TRPar :: rest) =
  match map_opt rd_param args with Some args' => Some (args', rest) | None => None end.
Proof.
  intros td args Hall. induction Hall as [|p args Hp Hall IH]; intros Hne Hwf rest f Hf.
  - now elim Hne.
  - cbn [forallb] in Hwf. apply andb_true_iff in Hwf. destruct Hwf as [Hwp Hwa].
    apply andb_true_iff in Hwp. destruct Hwp as [Hon Hty].
    fuel_S f f'. rewrite p_plist_unfold. rewrite map_opt_cons.
    destruct p as [on t]. cbn [fst snd] in *.
    unfold rd_param at 1. cbn [fst snd].
    destruct args as [|q args].
    + cbn [map sep_join] in *. unfold ser_param in *. cbn [fst snd] in *.
      pose proof (Hp td [] on [] (TRPar :: rest) f' Hty Hon eq_refl) as H.
      cbn [rev brks flat_map app stack map] in H. rewrite H by lia.
      destruct (printed_as (is_some on) [] [] t) as [T|]; reflexivity.
    + assert (Hsj : sep_join [TComma] (map ser_param ((on, t) :: q :: args)) =
                    ser_param (on, t) ++ [TComma] ++ sep_join [TComma] (map ser_param (q :: args)))
        by reflexivity.
      rewrite Hsj in *. clear Hsj.
      rewrite <- !app_assoc in *. cbn [app] in *.
      unfold ser_param at 1. unfold ser_param at 1 in Hf. cbn [fst snd] in *.
      pose proof (Hp td [] on [] (TComma :: sep_join [TComma] (map ser_param (q :: args)) ++ TRPar :: rest)
                     f' Hty Hon eq_refl) as H.
      change (stack [] on) with (param_stack on) in H.
      cbn [rev brks flat_map app] in H. rewrite H by lia. clear H.
      rewrite app_length in Hf. cbn [length] in Hf.
      destruct (printed_as (is_some on) [] [] t) as [T|]; [|reflexivity].
      rewrite (IH ltac:(discriminate) Hwa rest f') by lia.
      destruct (map_opt rd_param (q :: args)); reflexivity.
Qed.

Lemma plist_void_rpar_eq : forall td f Z,
  p_plist td (S (S (S f))) (TId "void" :: TRPar :: Z) = Some ([(None, CBase ["void"] false)], Z).
Proof.
  intros td f Z. cbn [p_plist]. rewrite p_spec_void_rpar.
  rewrite p_dtor_abs by reflexivity. rewrite p_suffix_end by reflexivity. reflexivity.
Qed.

Lemma map_opt_sole_void : forall args,
  map_opt rd_param args = Some [(None, CBase ["void"] false)] -> sole_void args = true.
Proof.
  intros args H. destruct args as [|[on t] [|q args]].
  - discriminate H.
  - rewrite map_opt_cons in H. unfold rd_param in H. cbn [fst snd] in H.
    destruct (printed_as (is_some on) [] [] t) as [T|] eqn:E; [|discriminate H].
    cbn [map_opt] in H. inversion H as [[H1 H2]]. subst on T.
    destruct (printed_as_base_inv _ _ _ _ _ _ E) as [_ [_ Ht]]. subst t. reflexivity.
  - rewrite map_opt_cons in H. destruct (rd_param (on, t)); [|discriminate H].
    rewrite map_opt_cons in H. destruct (rd_param q); [|discriminate H].
    destruct (map_opt rd_param args); discriminate H.
Qed.

Lemma params_char : forall td args rest f,
  Forall (fun p => reads_char (snd p)) args ->
  forallb (fun p => wf_oname td (fst p) && wf_ty td (snd p)) args = true ->
  sole_void args = false ->
  2 * length (params_toks args ++ rest) + 2 <= f ->
  exists Z, params_toks args ++ rest = TLPar :: Z /\
    p_params td f Z =
    match map_opt rd_param args with Some args' => Some (args', rest) | None => None end.
Proof.
  intros td args rest f Hall Hwf Hsv Hf.
  destruct args as [|a args].
  - exists (TId "void" :: TRPar :: rest). split; [reflexivity|].
    cbn [params_toks length app] in Hf. fuel_S f f'. reflexivity.
  - remember (a :: args) as l eqn:Hl.
    assert (Hne : l <> []) by (subst l; discriminate).
    exists (sep_join [TComma] (map ser_param l) ++ TRPar :: rest). split.
    + subst l. unfold params_toks. fold ser_param. rewrite <- !app_assoc. reflexivity.
    + assert (Hpt : params_toks l ++ rest =
                    TLPar :: sep_join [TComma] (map ser_param l) ++ TRPar :: rest).
      { subst l. unfold params_toks. fold ser_param. rewrite <- !app_assoc. reflexivity. }
      rewrite Hpt in Hf. cbn [length] in Hf.
      fuel_S f f'.
      pose proof (plist_char td l Hall Hne Hwf rest f' ltac:(lia)) as Hpl.
      remember (sep_join [TComma] (map ser_param l) ++ TRPar :: rest) as Z eqn:HZ.
      destruct Z as [|x Z1]; [exact Hpl|].
      destruct x; try exact Hpl.
      destruct Z1 as [|y Z2]; [exact Hpl|].
      destruct y; try exact Hpl.
      cbn [p_params]. destruct (String.eqb s "void") eqn:E; [|exact Hpl].
      apply String.eqb_eq in E. subst s. exfalso.
      cbn [length] in Hf.
      destruct f' as [|[|[|f3]]]; try lia.
      rewrite plist_void_rpar_eq in Hpl.
      destruct (map_opt rd_param l) as [args'|] eqn:Em; [|discriminate Hpl].
      inversion Hpl as [[H1 H2]]. subst args'.
      rewrite (map_opt_sole_void l Em) in Hsv. discriminate Hsv.
Qed.

(*  D (params) W  *)
Lemma suffix_params : forall td args W g d,
  Forall (fun p => reads_char (snd p)) args ->
  forallb (fun p => wf_oname td (fst p) && wf_ty td (snd p)) args = true ->
  sole_void args = false ->
  2 * length (params_toks args ++ W) + 3 <= g ->
  p_suffix td g d (params_toks args ++ W) =
  match map_opt rd_param args with
  | Some args' => p_suffix td (g - 1) (DFun d args') W
  | None => None
  end.
Proof.
  intros td args W g d Hall Hwf Hsv Hg.
  fuel_S g g1.
  destruct (params_char td args W g1 Hall Hwf Hsv ltac:(lia)) as [Z [HZ HpZ]].
  rewrite HZ. cbn [p_suffix]. rewrite HpZ.
  replace (S g1 - 1) with g1 by lia.
  destruct (map_opt rd_param args); reflexivity.
Qed.

(* ------------------------------------------------------------------ the head of a function declarator *)

Lemma starts_group_not : forall td c cs on Y,
  c || (is_nil cs && negb (is_some on)) = true ->
  starts_group td (pop_all (cst c (stack cs on)) ++ TRPar :: Y) = false.
Proof.
  intros td c cs on Y H. rewrite pop_all_cst. destruct c; [reflexivity|].
  cbn [orb] in H. destruct cs as [|c0 cs]; [|discriminate H].
  destruct on as [n|]; [discriminate H|]. reflexivity.
Qed.

Lemma cst_len : forall c cs on, length cs <= length (pop_all (cst c (stack cs on))).
Proof.
  intros c cs on. rewrite pop_all_cst, !app_length. pose proof (stars_len cs). lia.
Qed.

(*  R ( [const] * ... * name ) W   where R is pointers over a base type *)
Lemma fun_head : forall td r c cs on W f,
  ptr_base r = true -> wf_ty td r = true -> wf_oname td on = true ->
  2 * length (serialize r [] ++ TLPar :: pop_all (cst c (stack cs on)) ++ TRPar :: W) + 2 <= f ->
  exists g, 2 * length W + 4 <= g /\
  p_decl td f (serialize r [] ++ TLPar :: pop_all (cst c (stack cs on)) ++ TRPar :: W) =
  if c || (is_nil cs && negb (is_some on)) then None
  else match p_suffix td g (ptrwrap cs (DName on)) W with
       | Some (d, r') => Some (apply_dtor d r, r')
       | None => None
       end.
Proof.
  intros td r c cs on W f Hpb Hwr Hon Hf.
  destruct (ret_decomp td r [] Hpb) as [ws [cr [cs' [Hr [Hww Hser]]]]].
  cbn [ptrs map] in Hr, Hser. rewrite Hww in Hwr. rewrite Hser in *.
  rewrite <- !app_assoc in *.
  rewrite !app_length in Hf. cbn [length] in Hf. rewrite app_length in Hf. cbn [length] in Hf.
  pose proof (stars_len cs') as Hl1. pose proof (cst_len c cs on) as Hl2.
  exists (f - length cs' - 1). split; [lia|].
  unfold p_decl. rewrite p_spec_words; [|exact Hwr|destruct cs' as [|[] cs']; reflexivity].
  fuel_split f (length cs'). rewrite p_dtor_stars by reflexivity.
  remember (f - length cs' - 1) as g eqn:Hg.
  replace (length cs' + (f - length cs') - length cs' - 1) with g by lia.
  replace (f - length cs') with (S g) by lia.
  destruct (c || (is_nil cs && negb (is_some on))) eqn:Hbad.
  - cbn [p_dtor]. rewrite (starts_group_not td c cs on W Hbad).
    fuel_S g g1. cbn [p_suffix]. now rewrite params_reject_group.
  - apply orb_false_iff in Hbad. destruct Hbad as [Hc Hne]. subst c. cbn [cst] in *.
    rewrite dtor_group; try assumption; try lia.
    + destruct (p_suffix td g (ptrwrap cs (DName on)) W) as [[d r']|]; [|reflexivity].
      rewrite apply_ptrwrap. now rewrite <- Hr.
    + destruct cs as [|c0 cs]; [|reflexivity]. destruct on as [n|]; [reflexivity|discriminate Hne].
Qed.

(* ------------------------------------------------------------------ the characterisation *)

Lemma base_reads : forall td ws c cs on L rest f,
  wf_words td ws = true -> wf_oname td on = true -> follow_ok rest = true ->
  length cs + length L + 2 <= f ->
  reads td f (serialize (CBase ws c) (stack cs on) ++ brks L ++ rest)
        on (arrays L (ptrs cs (CBase ws c))) rest.
Proof.
  intros td ws c cs on L rest f Hwf Hon Hrest Hf.
  rewrite ser_base. rewrite <- !app_assoc.
  exists (CBase ws c), (pop_all (stack cs on) ++ brks L ++ rest),
         (ptrwrap cs (arrwrap L (DName on))).
  split; [|split].
  - apply p_spec_words; [exact Hwf|].
    rewrite pop_all_stack, <- app_assoc.
    destruct cs as [|[] cs]; try reflexivity.
    destruct on as [n|]; cbn [map pop_all flat_map name_toks app].
    + cbn [wf_oname] in Hon. rewrite (lex_word_ident td n Hon). cbn [nokw_head].
      destruct (ident_ok_inv td n Hon) as [Hr _].
      destruct (reserved_false n Hr) as [Hk _]. now rewrite Hk.
    + destruct L as [|n L]; [now apply follow_nokw|reflexivity].
  - now apply dtor_stars_name_brks.
  - rewrite apply_ptrwrap, apply_arrwrap. reflexivity.
Qed.

Lemma char_base : forall ws c, reads_char (CBase ws c).
Proof.
  intros ws c td cs on ds rest f Hwf Hon Hrest Hf. cbn [wf_ty] in Hwf.
  rewrite (reads_p_decl _ _ _ _ _ _ (base_reads td ws c cs on (rev ds) rest f Hwf Hon Hrest
             ltac:(rewrite ser_base, !app_length, pop_all_stack, !app_length, brks_len in Hf;
                   pose proof (stars_len cs); lia))).
  reflexivity.
Qed.

Lemma rej_base : forall ws c, ret_rejected (CBase ws c).
Proof.
  intros ws c td cs1 ds1 c0 cs on Y f Hwf Hon Hbad Hf. cbn [wf_ty] in Hwf.
  destruct Hbad as [Hbad|Hbad]; [discriminate Hbad|].
  destruct (rev ds1) as [|d L] eqn:Ed.
  { exfalso. apply Hbad. apply (f_equal (@rev N)) in Ed. now rewrite rev_involutive in Ed. }
  rewrite ser_base in *. rewrite <- !app_assoc in *.
  rewrite pop_all_stack in *. cbn [name_toks] in *. rewrite app_nil_r in *.
  rewrite !app_length in Hf. rewrite brks_len in Hf. cbn [length] in Hf.
  pose proof (stars_len cs1) as Hl.
  unfold p_decl. rewrite p_spec_words; [|exact Hwf|destruct cs1 as [|[] cs1]; reflexivity].
  fuel_split f (length cs1). rewrite p_dtor_stars by reflexivity.
  remember (f - length cs1) as g eqn:Hg. fuel_S g g1.
  rewrite p_dtor_abs by reflexivity.
  rewrite p_suffix_brks_then_group; [reflexivity|exact Hon|cbn [length]; lia].
Qed.

Lemma char_ptr : forall c t, reads_char t -> reads_char (CPtr c t).
Proof.
  intros c t IH td cs on ds rest f Hwf Hon Hrest Hf.
  rewrite ser_ptr, stack_cons in *. cbn [printed_as].
  apply (IH td (c :: cs) on ds rest f); assumption.
Qed.

Lemma rej_ptr : forall c t, ret_rejected t -> ret_rejected (CPtr c t).
Proof.
  intros c t IH td cs1 ds1 c0 cs on Y f Hwf Hon Hbad Hf.
  rewrite ser_ptr, stack_cons in *.
  apply (IH td (c :: cs1) ds1 c0 cs on Y f); assumption.
Qed.

Lemma arr_toks : forall t n st ds X,
  serialize (CArr t n) st ++ brks (rev ds) ++ X = serialize t st ++ brks (rev (ds ++ [n])) ++ X.
Proof.
  intros t n st ds X. rewrite ser_arr, rev_app_distr. cbn [rev app]. rewrite brks_cons.
  rewrite <- app_assoc. reflexivity.
Qed.

Lemma char_arr : forall t n, reads_char t -> reads_char (CArr t n).
Proof.
  intros t n IH td cs on ds rest f Hwf Hon Hrest Hf.
  rewrite arr_toks in *. cbn [printed_as].
  apply (IH td cs on (ds ++ [n]) rest f); assumption.
Qed.

Lemma rej_arr : forall t n, ret_rejected t -> ret_rejected (CArr t n).
Proof.
  intros t n IH td cs1 ds1 c0 cs on Y f Hwf Hon Hbad Hf.
  rewrite arr_toks in *.
  apply (IH td cs1 (ds1 ++ [n]) c0 cs on Y f); try assumption.
  right. now destruct ds1.
Qed.

Lemma fun_toks : forall c r args st X,
  serialize (CFun c r args) st ++ X =
  serialize r [] ++ TLPar :: pop_all (cst c st) ++ TRPar :: params_toks args ++ X.
Proof.
  intros c r args st X. rewrite ser_fun. unfold cst. rewrite <- !app_assoc. reflexivity.
Qed.

Lemma wf_fun_inv : forall td c r args, wf_ty td (CFun c r args) = true ->
  wf_ty td r = true /\ sole_void args = false /\
  forallb (fun p => wf_oname td (fst p) && wf_ty td (snd p)) args = true.
Proof.
  intros td c r args H. cbn [wf_ty] in H.
  apply andb_true_iff in H. destruct H as [H Ha].
  apply andb_true_iff in H. destruct H as [Hr Hsv]. apply negb_true_iff in Hsv. auto.
Qed.

Lemma char_fun : forall c r args,
  ret_rejected r -> Forall (fun p => reads_char (snd p)) args -> reads_char (CFun c r args).
Proof.
  intros c r args IHr IHa td cs on ds rest f Hwf Hon Hrest Hf.
  destruct (wf_fun_inv td c r args Hwf) as [Hwr [Hsv Hwa]].
  rewrite fun_toks in *. rewrite printed_as_fun.
  destruct (ptr_base r) eqn:Hpb.
  - cbn [negb]. rewrite orb_false_r.
    destruct (fun_head td r c cs on _ f Hpb Hwr Hon Hf) as [g [Hg Hhead]].
    rewrite Hhead. clear Hhead.
    destruct (c || (is_nil cs && negb (is_some on))); [reflexivity|].
    rewrite !app_length in Hg. rewrite brks_len, rev_length in Hg.
    rewrite suffix_params; try assumption; [|rewrite !app_length, brks_len, rev_length; lia].
    destruct (map_opt rd_param args) as [args'|]; [|reflexivity].
    pose proof (rev_length ds) as Hrl.
    fuel_split (g - 1) (length (rev ds)). rewrite p_suffix_brks.
    remember (g - 1 - length (rev ds)) as g2 eqn:E. fuel_S g2 g3.
    rewrite p_suffix_end by exact Hrest.
    rewrite apply_arrwrap. cbn [apply_dtor]. rewrite apply_ptrwrap. reflexivity.
  - cbn [negb]. rewrite orb_true_r.
    apply (IHr td [] [] c cs on _ f Hwr Hon (or_introl Hpb)). exact Hf.
Qed.

Lemma rej_fun : forall c r args,
  ret_rejected r -> Forall (fun p => reads_char (snd p)) args -> ret_rejected (CFun c r args).
Proof.
  intros c1 r1 args1 IHr IHa td cs1 ds1 c cs on Y f Hwf Hon _ Hf.
  destruct (wf_fun_inv td c1 r1 args1 Hwf) as [Hwr [Hsv Hwa]].
  rewrite fun_toks in *.
  destruct (ptr_base r1) eqn:Hpb.
  - destruct (fun_head td r1 c1 cs1 None _ f Hpb Hwr eq_refl Hf) as [g [Hg Hhead]].
    rewrite Hhead. clear Hhead.
    destruct (c1 || (is_nil cs1 && negb (is_some None))); [reflexivity|].
    rewrite !app_length in Hg. rewrite brks_len, rev_length in Hg.
    rewrite suffix_params; try assumption; [|rewrite !app_length, brks_len, rev_length; lia].
    destruct (map_opt rd_param args1) as [args'|]; [|reflexivity].
    rewrite p_suffix_brks_then_group; [reflexivity|exact Hon|rewrite rev_length; lia].
  - apply (IHr td [] [] c1 cs1 None _ f Hwr eq_refl (or_introl Hpb)). exact Hf.
Qed.

Theorem reads_char_all : forall t, reads_char t /\ ret_rejected t.
Proof.
  intros t. induction t as [ws c|c t [IH1 IH2]|t n [IH1 IH2]|c r args [IH1 IH2] IHa] using cty_ind'.
  - split; [apply char_base|apply rej_base].
  - split; [now apply char_ptr|now apply rej_ptr].
  - split; [now apply char_arr|now apply rej_arr].
  - assert (IHa' : Forall (fun p => reads_char (snd p)) args).
    { apply Forall_forall. intros p Hp. rewrite Forall_forall in IHa. exact (proj1 (IHa p Hp)). }
    split; [now apply char_fun|now apply rej_fun].
Qed.

(* ------------------------------------------------------------------ what the output denotes *)

Lemma denote_td_p_decl : forall td ts,
  denote_td td ts =
  match p_decl td (2 * length ts + 2) ts with
  | Some ((Some n, t), []) => Some (n, t)
  | _ => None
  end.
Proof.
  intros td ts. unfold denote_td, p_decl.
  destruct (p_spec td ts) as [[b r]|]; [|reflexivity].
  destruct (p_dtor td (2 * length ts + 2) r) as [[d [|x r']]|]; try reflexivity.
  all: destruct (apply_dtor d b) as [[n|] t]; reflexivity.
Qed.

Theorem decl_reading_td : forall td t n,
  wf_names_td td t n ->
  denote_td td (serialize t [SName n]) =
  match printed_as true [] [] t with Some T => Some (n, T) | None => None end.
Proof.
  intros td t n [Hn Hwf]. rewrite denote_td_p_decl.
  pose proof (proj1 (reads_char_all t) td [] (Some n) [] []
                    (2 * length (serialize t [SName n]) + 2) Hwf Hn eq_refl) as H.
  cbn [stack map app param_stack rev brks flat_map is_some] in H.
  rewrite app_nil_r in H. rewrite H by lia.
  destruct (printed_as true [] [] t); reflexivity.
Qed.

Theorem decl_reading : forall t n,
  wf_names t n ->
  denote (serialize t [SName n]) =
  match printed_as true [] [] t with Some T => Some (n, T) | None => None end.
Proof. intros t n. apply decl_reading_td. Qed.

(* ------------------------------------------------------------------ simple = "is printed as itself" *)

Lemma simple_printed : forall t nm cs ds,
  simple_go nm (negb (is_nil cs)) ds t = true ->
  printed_as nm cs ds t = Some (arrays ds (ptrs cs t)).
Proof.
  intros t. induction t as [ws c|c t IH|t n IH|c r args IH IHa] using cty_ind';
    intros nm cs ds Hs; cbn [simple_go] in Hs.
  - apply N_list_eqb_eq in Hs. cbn [printed_as]. now rewrite <- Hs.
  - cbn [printed_as]. now apply (IH nm (c :: cs) ds).
  - apply andb_true_iff in Hs. destruct Hs as [Hst Hs].
    destruct cs as [|c0 cs]; [|discriminate Hst]. cbn [is_nil negb] in Hs.
    cbn [printed_as ptrs]. rewrite (IH nm [] (ds ++ [n]) Hs). cbn [ptrs].
    now rewrite arrays_snoc.
  - apply andb_true_iff in Hs. destruct Hs as [Hs Hargs].
    apply andb_true_iff in Hs. destruct Hs as [Hs Hpb].
    apply andb_true_iff in Hs. destruct Hs as [Hs Hds].
    apply andb_true_iff in Hs. destruct Hs as [Hc Hne].
    destruct c; [discriminate Hc|]. destruct ds as [|d0 ds]; [|discriminate Hds].
    rewrite printed_as_fun. rewrite Hpb. cbn [negb orb]. rewrite orb_false_r.
    assert (Hbad : is_nil cs && negb nm = false).
    { destruct cs as [|c0 cs]; [|reflexivity]. cbn [is_nil negb orb andb] in *. now rewrite Hne. }
    rewrite Hbad.
    assert (Hm : map_opt rd_param args = Some args).
    { clear Hbad Hne Hpb. induction IHa as [|p args Hp IHa IHl]; [reflexivity|].
      cbn [forallb] in Hargs. apply andb_true_iff in Hargs. destruct Hargs as [Hp1 Hl].
      rewrite map_opt_cons, (IHl Hl). unfold rd_param.
      rewrite (Hp (is_some (fst p)) [] [] Hp1). cbn [arrays ptrs]. now destruct p. }
    rewrite Hm. reflexivity.
Qed.

Lemma plug_snoc_ptr : forall pre c t, plug (pre ++ [FPtr c]) t = plug pre (CPtr c t).
Proof. induction pre as [|[c0|n0] pre IH]; intros c t; cbn [app plug]; [reflexivity| |]; now rewrite IH. Qed.

Lemma plug_snoc_arr : forall pre n t, plug (pre ++ [FArr n]) t = plug pre (CArr t n).
Proof. induction pre as [|[c0|n0] pre IH]; intros n t; cbn [app plug]; [reflexivity| |]; now rewrite IH. Qed.

Lemma sp_ptrs_app : forall a b, sp_ptrs (a ++ b) = sp_ptrs a ++ sp_ptrs b.
Proof. induction a as [|[c|n] a IH]; intros b; cbn [app sp_ptrs]; [reflexivity| |]; now rewrite IH. Qed.

Lemma sp_arrs_app : forall a b, sp_arrs (a ++ b) = sp_arrs a ++ sp_arrs b.
Proof. induction a as [|[c|n] a IH]; intros b; cbn [app sp_arrs]; [reflexivity| |]; now rewrite IH. Qed.

Lemma spine_plug : forall pre k, spine (plug pre k) = pre ++ spine k.
Proof. induction pre as [|[c|n] pre IH]; intros k; cbn [plug spine app]; [reflexivity| |]; now rewrite IH. Qed.

Lemma core_plug : forall pre k, core (plug pre k) = core k.
Proof. induction pre as [|[c|n] pre IH]; intros k; cbn [plug core]; [reflexivity| |]; apply IH. Qed.

Lemma spine_arrays : forall L T, spine (arrays L T) = map FArr L ++ spine T.
Proof. induction L as [|d L IH]; intros T; cbn [arrays spine map app]; [reflexivity|]. now rewrite IH. Qed.

Lemma spine_ptrs : forall cs T, spine (ptrs cs T) = map FPtr (rev cs) ++ spine T.
Proof.
  induction cs as [|c cs IH]; intros T; [reflexivity|].
  cbn [ptrs rev]. rewrite IH. cbn [spine]. rewrite map_app, <- app_assoc. reflexivity.
Qed.

Lemma core_arrays : forall L T, core (arrays L T) = core T.
Proof. induction L as [|d L IH]; intros T; cbn [arrays core]; [reflexivity|]. apply IH. Qed.

Lemma core_ptrs : forall cs T, core (ptrs cs T) = core T.
Proof. induction cs as [|c cs IH]; intros T; [reflexivity|]. cbn [ptrs]. now rewrite IH. Qed.

Lemma sp_arrs_FArr : forall L, sp_arrs (map FArr L) = L.
Proof. induction L as [|d L IH]; [reflexivity|]. cbn [map sp_arrs]. now rewrite IH. Qed.

Lemma sp_arrs_FPtr : forall P, sp_arrs (map FPtr P) = [].
Proof. induction P as [|c P IH]; [reflexivity|]. exact IH. Qed.

Lemma simple_go_arrays : forall L nm ds0 X,
  simple_go nm false ds0 (arrays L X) = simple_go nm false (ds0 ++ L) X.
Proof.
  induction L as [|d L IH]; intros nm ds0 X.
  - now rewrite app_nil_r.
  - cbn [arrays simple_go negb andb]. rewrite IH, <- app_assoc. reflexivity.
Qed.

Lemma simple_go_ptrs : forall cs nm s ds X,
  simple_go nm s ds (ptrs cs X) = simple_go nm (s || negb (is_nil cs)) ds X.
Proof.
  induction cs as [|c cs IH]; intros nm s ds X.
  - cbn [ptrs is_nil negb]. now rewrite orb_false_r.
  - cbn [ptrs]. rewrite IH. cbn [simple_go is_nil negb]. now rewrite orb_true_r.
Qed.

Lemma map_opt_id : forall A (f : A -> option A) l,
  map_opt f l = Some l -> Forall (fun x => f x = Some x) l.
Proof.
  induction l as [|x l IH]; intros H; [constructor|].
  rewrite map_opt_cons in H.
  destruct (f x) as [y|] eqn:E; [|discriminate H].
  destruct (map_opt f l) as [ys|] eqn:El; [|discriminate H].
  injection H as H1 H2. subst y ys. constructor; [exact E|now apply IH].
Qed.

(* printed as itself, below any prefix of the spine, means in the class *)
Lemma printed_simple : forall t nm pre,
  printed_as nm (rev (sp_ptrs pre)) (sp_arrs pre) t = Some (plug pre t) ->
  simple_go nm false [] (plug pre t) = true.
Proof.
  intros t. induction t as [ws c|c t IH|t n IH|c r args IH IHa] using cty_ind';
    intros nm pre H.
  - cbn [printed_as] in H. injection H as H.
    assert (HA : rev (sp_arrs pre) = sp_arrs pre).
    { apply (f_equal (fun x => sp_arrs (spine x))) in H.
      rewrite spine_arrays, spine_ptrs, spine_plug in H. cbn [spine] in H.
      rewrite !app_nil_r, sp_arrs_app, sp_arrs_FArr, sp_arrs_FPtr, app_nil_r in H. exact H. }
    rewrite <- H. rewrite simple_go_arrays, simple_go_ptrs. cbn [app simple_go].
    rewrite HA, HA. apply N_list_eqb_refl.
  - rewrite <- plug_snoc_ptr. apply IH.
    rewrite sp_ptrs_app, sp_arrs_app, rev_app_distr. cbn [sp_ptrs sp_arrs rev app].
    rewrite app_nil_r, plug_snoc_ptr. exact H.
  - rewrite <- plug_snoc_arr. apply IH.
    rewrite sp_ptrs_app, sp_arrs_app. cbn [sp_ptrs sp_arrs].
    rewrite app_nil_r, plug_snoc_arr. exact H.
  - rewrite printed_as_fun in H.
    destruct (c || (is_nil (rev (sp_ptrs pre)) && negb nm) || negb (ptr_base r)) eqn:Hbad;
      [discriminate H|].
    destruct (map_opt rd_param args) as [args'|] eqn:Hm; [|discriminate H].
    injection H as H.
    apply orb_false_iff in Hbad. destruct Hbad as [Hbad Hpb].
    apply orb_false_iff in Hbad. destruct Hbad as [Hc Hne].
    apply negb_false_iff in Hpb. subst c.
    pose proof (f_equal core H) as Hcore.
    rewrite core_ptrs, core_plug in Hcore. cbn [core] in Hcore.
    injection Hcore as Hr Ha. subst args'.
    rewrite <- H. rewrite simple_go_ptrs. cbn [simple_go orb negb andb is_nil].
    rewrite Hr, Hpb.
    assert (Hst : negb (is_nil (rev (sp_ptrs pre))) || nm = true).
    { destruct (is_nil (rev (sp_ptrs pre))); [|reflexivity].
      cbn [andb negb orb] in *. now apply negb_false_iff in Hne. }
    rewrite Hst. cbn [andb].
    apply map_opt_id in Hm.
    clear H Hr Hst Hne Hpb. induction IHa as [|p args Hp IHa IHl]; [reflexivity|].
    inversion Hm as [|p0 l0 Hp0 Hl0]. subst p0 l0.
    cbn [forallb]. rewrite (IHl Hl0), andb_true_r.
    unfold rd_param in Hp0.
    destruct (printed_as (is_some (fst p)) [] [] (snd p)) as [T|] eqn:E; [|discriminate Hp0].
    injection Hp0 as Hp0. destruct p as [on t]. cbn [fst snd] in *. injection Hp0 as Hp0. subst T.
    exact (Hp (is_some on) [] E).
Qed.

Theorem simple_iff_printed : forall t,
  simple t = true <-> printed_as true [] [] t = Some t.
Proof.
  intros t. split.
  - intros H. exact (simple_printed t true [] [] H).
  - intros H. exact (printed_simple t true [] H).
Qed.

(* the class is exact *)
Theorem decl_roundtrip_exact_td : forall td t n,
  wf_names_td td t n ->
  (denote_td td (serialize t [SName n]) = Some (n, t) <-> simple t = true).
Proof.
  intros td t n Hwf. split.
  - intros H. rewrite (decl_reading_td td t n Hwf) in H.
    apply simple_iff_printed.
    destruct (printed_as true [] [] t) as [T|]; [|discriminate H].
    now injection H as H; subst T.
  - intros H. now apply decl_roundtrip_partial_td.
Qed.

Theorem decl_roundtrip_exact : forall t n,
  wf_names t n -> (denote (serialize t [SName n]) = Some (n, t) <-> simple t = true).
Proof. intros t n. apply decl_roundtrip_exact_td. Qed.
