(* C16 — proofs about the declarator printer model. *)
From Coq Require Import NArith String Ascii List Bool Lia.
From BG Require Import C16.Model.
Import ListNotations.
Open Scope string_scope.
Open Scope list_scope.

(* ------------------------------------------------------------------ induction on cty *)

Section CtyInd.
  Variable P : cty -> Prop.
  Hypothesis HB : forall ws c, P (CBase ws c).
  Hypothesis HP : forall c t, P t -> P (CPtr c t).
  Hypothesis HA : forall t n, P t -> P (CArr t n).
  Hypothesis HF : forall c r args, P r -> Forall (fun p => P (snd p)) args -> P (CFun c r args).

  Fixpoint cty_ind' (t : cty) : P t :=
    match t with
    | CBase ws c => HB ws c
    | CPtr c t' => HP c t' (cty_ind' t')
    | CArr t' n => HA t' n (cty_ind' t')
    | CFun c r args =>
        HF c r args (cty_ind' r)
           ((fix go (l : list (option string * cty)) : Forall (fun p => P (snd p)) l :=
               match l with
               | [] => Forall_nil _
               | p :: l' => Forall_cons p (cty_ind' (snd p)) (go l')
               end) args)
    end.
End CtyInd.

(* ------------------------------------------------------------------ the printer as equations *)

Lemma trailer_fst : forall out st, fst (trailer out st) = out ++ pop_all st.
Proof.
  intros out st. destruct st as [|i st']; cbn [trailer fst].
  - cbn [pop_all flat_map]. now rewrite app_nil_r.
  - reflexivity.
Qed.

Lemma trailer_snd : forall out st, snd (trailer out st) = [].
Proof. intros out st. destruct st; reflexivity. Qed.

(* every call leaves the stack empty *)
Lemma serialize_st_stack_empty : forall t st, snd (serialize_st t st) = [].
Proof.
  intros t st. destruct t as [ws c|c t'|t' n|c r args]; cbn [serialize_st].
  - apply trailer_snd.
  - destruct (serialize_st t' _) as [out st2]. apply trailer_snd.
  - destruct (serialize_st t' st) as [out st1]. apply trailer_snd.
  - destruct (serialize_st r []) as [o1 s1]. apply trailer_snd.
Qed.

Lemma ser_base : forall ws c st,
  serialize (CBase ws c) st = const_toks c ++ map lex_word ws ++ pop_all st.
Proof.
  intros ws c st. unfold serialize. cbn [serialize_st].
  rewrite trailer_fst. now rewrite <- app_assoc.
Qed.

Lemma ser_ptr : forall c t st,
  serialize (CPtr c t) st = serialize t (ptr_item c :: st).
Proof.
  intros c t st. unfold serialize. cbn [serialize_st].
  fold (ptr_item c).
  pose proof (serialize_st_stack_empty t (ptr_item c :: st)) as Hs.
  destruct (serialize_st t (ptr_item c :: st)) as [out st2]. cbn [snd] in Hs. subst st2.
  rewrite trailer_fst. cbn [pop_all flat_map fst]. now rewrite app_nil_r.
Qed.

Lemma ser_arr : forall t n st,
  serialize (CArr t n) st = serialize t st ++ [TLBrk; TNum n; TRBrk].
Proof.
  intros t n st. unfold serialize. cbn [serialize_st].
  pose proof (serialize_st_stack_empty t st) as Hs.
  destruct (serialize_st t st) as [out st1]. cbn [snd] in Hs. subst st1.
  rewrite trailer_fst. cbn [pop_all flat_map fst]. now rewrite app_nil_r.
Qed.

Lemma ser_fun : forall c r args st,
  serialize (CFun c r args) st =
  serialize r [] ++ [TLPar] ++ pop_all (if c then SConst :: st else st) ++ [TRPar] ++
  params_toks args.
Proof.
  intros c r args st. unfold serialize at 1. cbn [serialize_st].
  unfold serialize at 1.
  destruct (serialize_st r []) as [o1 s1]. cbn [fst].
  rewrite trailer_fst. cbn [pop_all flat_map]. rewrite app_nil_r.
  unfold params_toks.
  destruct args as [|a args']; rewrite <- !app_assoc; reflexivity.
Qed.

Lemma pop_all_app : forall a b, pop_all (a ++ b) = pop_all a ++ pop_all b.
Proof. intros a b. unfold pop_all. apply flat_map_app. Qed.

Lemma pop_all_stack : forall cs on,
  pop_all (stack cs on) = pop_all (map ptr_item cs) ++ name_toks on.
Proof.
  intros cs on. unfold stack. rewrite pop_all_app. f_equal.
  destruct on as [n|]; reflexivity.
Qed.

Lemma stack_cons : forall c cs on, ptr_item c :: stack cs on = stack (c :: cs) on.
Proof. reflexivity. Qed.

Lemma stack_nil : forall on, stack [] on = param_stack on.
Proof. reflexivity. Qed.

(* ------------------------------------------------------------------ words and the lexer *)

Lemma mem_In : forall s l, mem s l = true -> In s l.
Proof.
  intros s l H. unfold mem in H. apply existsb_exists in H.
  destruct H as [x [Hin Heq]]. apply String.eqb_eq in Heq. now subst x.
Qed.

Lemma is_kw_plain : forall s, is_kw s = true ->
  String.eqb s "const" = false /\ String.eqb s "return" = false /\ is_tag_kw s = false.
Proof.
  intros s H. apply mem_In in H. unfold type_keywords in H. cbn [In] in H.
  repeat (destruct H as [H|H]; [subst s; repeat split; reflexivity|]). contradiction.
Qed.

Lemma is_tag_kw_plain : forall s, is_tag_kw s = true ->
  String.eqb s "const" = false /\ String.eqb s "return" = false /\ is_kw s = false.
Proof.
  intros s H. apply mem_In in H. cbn [In] in H.
  repeat (destruct H as [H|H]; [subst s; repeat split; reflexivity|]). contradiction.
Qed.

Lemma lex_word_plain : forall s,
  String.eqb s "const" = false -> String.eqb s "return" = false -> lex_word s = TId s.
Proof. intros s H1 H2. unfold lex_word. now rewrite H1, H2. Qed.

Lemma reserved_false : forall s, reserved s = false ->
  is_kw s = false /\ is_tag_kw s = false /\
  String.eqb s "const" = false /\ String.eqb s "return" = false.
Proof.
  intros s H. unfold reserved in H.
  apply orb_false_iff in H. destruct H as [H H4].
  apply orb_false_iff in H. destruct H as [H H3].
  apply orb_false_iff in H. destruct H as [H1 H2]. auto.
Qed.

Lemma ident_ok_inv : forall td s, ident_ok td s = true ->
  reserved s = false /\ mem s td = false.
Proof.
  intros td s H. unfold ident_ok in H. apply andb_true_iff in H. destruct H as [H1 H2].
  apply negb_true_iff in H1. apply negb_true_iff in H2. auto.
Qed.

Lemma lex_word_kw : forall s, is_kw s = true -> lex_word s = TId s.
Proof. intros s H. destruct (is_kw_plain s H) as [H1 [H2 _]]. now apply lex_word_plain. Qed.

Lemma lex_word_unreserved : forall s, reserved s = false -> lex_word s = TId s.
Proof.
  intros s H. destruct (reserved_false s H) as [_ [_ [H1 H2]]]. now apply lex_word_plain.
Qed.

Lemma lex_word_ident : forall td s, ident_ok td s = true -> lex_word s = TId s.
Proof. intros td s H. apply lex_word_unreserved. now destruct (ident_ok_inv td s H). Qed.

Lemma map_lex_kw : forall ws, forallb is_kw ws = true -> map lex_word ws = map TId ws.
Proof.
  induction ws as [|w ws IH]; intros H; [reflexivity|].
  cbn [forallb] in H. apply andb_true_iff in H. destruct H as [Hw Hws].
  cbn [map]. now rewrite (lex_word_kw w Hw), (IH Hws).
Qed.

(* ------------------------------------------------------------------ the specifier reader *)

Lemma span_kw_words : forall ws rest,
  forallb is_kw ws = true -> nokw_head rest = true ->
  span_kw (map TId ws ++ rest) = (ws, rest).
Proof.
  induction ws as [|w ws IH]; intros rest Hws Hrest.
  - cbn [map app]. destruct rest as [|x rest']; [reflexivity|].
    destruct x; try reflexivity.
    cbn [nokw_head] in Hrest. apply negb_true_iff in Hrest.
    cbn [span_kw]. now rewrite Hrest.
  - cbn [forallb] in Hws. apply andb_true_iff in Hws. destruct Hws as [Hw Hws].
    cbn [map app span_kw]. rewrite Hw. now rewrite (IH rest Hws Hrest).
Qed.

Lemma p_spec_const : forall td c ts,
  nc_head ts = true ->
  p_spec td (const_toks c ++ ts) =
  match ts with
  | TId k :: r =>
      if is_tag_kw k then
        match r with
        | TId tag :: r' => if tag_ok tag then Some (CBase [k; tag] c, r') else None
        | _ => None
        end
      else if is_kw k then let (ws, r') := span_kw r in Some (CBase (k :: ws) c, r')
      else if mem k td then Some (CBase [k] c, r)
      else None
  | _ => None
  end.
Proof.
  intros td c ts Hnc. destruct c; cbn [const_toks app].
  - reflexivity.
  - unfold p_spec. destruct ts as [|x ts']; [reflexivity|].
    destruct x; try reflexivity. discriminate Hnc.
Qed.

Lemma p_spec_words : forall td ws c rest,
  wf_words td ws = true -> nokw_head rest = true ->
  p_spec td (const_toks c ++ map lex_word ws ++ rest) = Some (CBase ws c, rest).
Proof.
  intros td ws c rest Hwf Hrest. unfold wf_words in Hwf.
  apply orb_true_iff in Hwf. destruct Hwf as [Hkw|Hother].
  - apply andb_true_iff in Hkw. destruct Hkw as [Hne Hall].
    destruct ws as [|k ws']; [discriminate Hne|].
    rewrite (map_lex_kw _ Hall).
    cbn [forallb] in Hall. apply andb_true_iff in Hall. destruct Hall as [Hk Hws].
    cbn [map app]. rewrite p_spec_const by reflexivity.
    destruct (is_kw_plain k Hk) as [_ [_ Htag]]. rewrite Htag, Hk.
    now rewrite (span_kw_words ws' rest Hws Hrest).
  - destruct ws as [|k [|tag [|x ws']]]; try discriminate Hother.
    + rename k into w. apply andb_true_iff in Hother. destruct Hother as [Hmem Hres].
      apply negb_true_iff in Hres.
      destruct (reserved_false w Hres) as [Hk [Ht _]].
      cbn [map app]. rewrite (lex_word_unreserved w Hres).
      rewrite p_spec_const by reflexivity. now rewrite Ht, Hk, Hmem.
    + apply andb_true_iff in Hother. destruct Hother as [Hk Htag].
      destruct (is_tag_kw_plain k Hk) as [H1 [H2 _]].
      unfold tag_ok in Htag. pose proof Htag as Htag'. apply negb_true_iff in Htag'.
      cbn [map app]. rewrite (lex_word_plain k H1 H2), (lex_word_unreserved tag Htag').
      rewrite p_spec_const by reflexivity. rewrite Hk. unfold tag_ok. now rewrite Htag'.
Qed.

(* ------------------------------------------------------------------ the declarator reader *)

Ltac fuel_split f k := replace f with (k + (f - k)) by lia.
Ltac fuel_S f f' := destruct f as [|f']; [exfalso; lia|].

Lemma p_dtor_star_c : forall td f Y,
  p_dtor td (S f) (TStar :: TConst :: Y) =
  match p_dtor td f Y with Some (d, r') => Some (DPtr true d, r') | None => None end.
Proof. reflexivity. Qed.

Lemma p_dtor_star_nc : forall td f Y, nc_head Y = true ->
  p_dtor td (S f) (TStar :: Y) =
  match p_dtor td f Y with Some (d, r') => Some (DPtr false d, r') | None => None end.
Proof.
  intros td f Y H. destruct Y as [|y Y']; [reflexivity|].
  destruct y; try reflexivity. discriminate H.
Qed.

Lemma pop_all_cons : forall i st, pop_all (i :: st) = emit_item i ++ pop_all st.
Proof. reflexivity. Qed.

Lemma nc_head_stars : forall cs X, nc_head X = true ->
  nc_head (pop_all (map ptr_item cs) ++ X) = true.
Proof. intros cs X H. destruct cs as [|[] cs]; [exact H|reflexivity|reflexivity]. Qed.

Lemma p_dtor_stars : forall td cs f X, nc_head X = true ->
  p_dtor td (length cs + f) (pop_all (map ptr_item cs) ++ X) =
  match p_dtor td f X with Some (d, r) => Some (ptrwrap cs d, r) | None => None end.
Proof.
  induction cs as [|c cs IH]; intros f X HX.
  - cbn [length Nat.add map pop_all flat_map app ptrwrap].
    destruct (p_dtor td f X) as [[d r]|]; reflexivity.
  - cbn [length Nat.add map ptrwrap]. rewrite pop_all_cons.
    destruct c; cbn [ptr_item emit_item app].
    + rewrite p_dtor_star_c. rewrite (IH f X HX).
      destruct (p_dtor td f X) as [[d r]|]; reflexivity.
    + rewrite p_dtor_star_nc by (apply nc_head_stars; exact HX). rewrite (IH f X HX).
      destruct (p_dtor td f X) as [[d r]|]; reflexivity.
Qed.

Lemma p_dtor_name : forall td f n Y, ident_ok td n = true ->
  p_dtor td (S f) (TId n :: Y) = p_suffix td f (DName (Some n)) Y.
Proof. intros td f n Y H. cbn [p_dtor]. now rewrite H. Qed.

Lemma p_dtor_abs : forall td f Y, abs_head Y = true ->
  p_dtor td (S f) Y = p_suffix td f (DName None) Y.
Proof.
  intros td f Y H. destruct Y as [|y Y']; [reflexivity|].
  destruct y; try discriminate H; reflexivity.
Qed.

Lemma brks_cons : forall n L rest,
  brks (n :: L) ++ rest = TLBrk :: TNum n :: TRBrk :: brks L ++ rest.
Proof. reflexivity. Qed.

Lemma p_suffix_brks : forall td L f d rest,
  p_suffix td (length L + f) d (brks L ++ rest) = p_suffix td f (arrwrap L d) rest.
Proof.
  induction L as [|n L IH]; intros f d rest.
  - reflexivity.
  - rewrite brks_cons. cbn [length Nat.add arrwrap p_suffix]. apply IH.
Qed.

Lemma p_suffix_end : forall td f d rest, follow_ok rest = true ->
  p_suffix td (S f) d rest = Some (d, rest).
Proof.
  intros td f d rest H. destruct rest as [|x rest']; [reflexivity|].
  destruct x; try discriminate H; reflexivity.
Qed.

Lemma apply_ptrwrap : forall cs d T, apply_dtor (ptrwrap cs d) T = apply_dtor d (ptrs cs T).
Proof. induction cs as [|c cs IH]; intros d T; [reflexivity|]. cbn [ptrwrap apply_dtor ptrs]. apply IH. Qed.

Lemma apply_arrwrap : forall L d T, apply_dtor (arrwrap L d) T = apply_dtor d (arrays L T).
Proof.
  induction L as [|n L IH]; intros d T; [reflexivity|].
  cbn [arrwrap arrays]. rewrite IH. reflexivity.
Qed.

Lemma arrays_snoc : forall ds n t, arrays (ds ++ [n]) t = arrays ds (CArr t n).
Proof. induction ds as [|d ds IH]; intros n t; [reflexivity|]. cbn [app arrays]. now rewrite IH. Qed.

Lemma N_list_eqb_eq : forall a b, N_list_eqb a b = true -> a = b.
Proof.
  induction a as [|x a IH]; intros [|y b] H; try discriminate H; [reflexivity|].
  cbn [N_list_eqb] in H. apply andb_true_iff in H. destruct H as [H1 H2].
  apply N.eqb_eq in H1. subst y. now rewrite (IH b H2).
Qed.

Lemma N_list_eqb_refl : forall a, N_list_eqb a a = true.
Proof. induction a as [|x a IH]; [reflexivity|]. cbn [N_list_eqb]. now rewrite N.eqb_refl, IH. Qed.

Lemma stars_len : forall cs, length cs <= length (pop_all (map ptr_item cs)).
Proof.
  induction cs as [|c cs IH]; [apply le_n|].
  cbn [map]. rewrite pop_all_cons, app_length. destruct c; cbn [ptr_item emit_item length]; lia.
Qed.

Lemma brks_len : forall L, length (brks L) = 3 * length L.
Proof.
  induction L as [|n L IH]; [reflexivity|].
  change (brks (n :: L)) with ([TLBrk; TNum n; TRBrk] ++ brks L).
  rewrite app_length, IH. cbn [length]. lia.
Qed.

Lemma follow_abs : forall rest, follow_ok rest = true -> abs_head rest = true.
Proof. intros rest H. destruct rest as [|x r]; [reflexivity|]. destruct x; try discriminate H; reflexivity. Qed.

Lemma follow_nc : forall rest, follow_ok rest = true -> nc_head rest = true.
Proof. intros rest H. destruct rest as [|x r]; [reflexivity|]. destruct x; try discriminate H; reflexivity. Qed.

Lemma follow_nokw : forall rest, follow_ok rest = true -> nokw_head rest = true.
Proof. intros rest H. destruct rest as [|x r]; [reflexivity|]. destruct x; try discriminate H; reflexivity. Qed.

(*  * ... * name [a] ... [z]   in front of something that ends a declaration *)
Lemma dtor_stars_name_brks : forall td cs on L rest f,
  wf_oname td on = true -> follow_ok rest = true ->
  length cs + length L + 2 <= f ->
  p_dtor td f (pop_all (stack cs on) ++ brks L ++ rest) =
  Some (ptrwrap cs (arrwrap L (DName on)), rest).
Proof.
  intros td cs on L rest f Hon Hrest Hf.
  rewrite pop_all_stack, <- app_assoc.
  fuel_split f (length cs).
  assert (Hnc : nc_head (name_toks on ++ brks L ++ rest) = true).
  { destruct on as [n|]; cbn [name_toks app].
    - cbn [wf_oname] in Hon. now rewrite (lex_word_ident td n Hon).
    - destruct L as [|n L]; [now apply follow_nc|reflexivity]. }
  rewrite (p_dtor_stars td cs _ _ Hnc).
  remember (f - length cs) as g eqn:Hg.
  assert (Hg' : length L + 2 <= g) by lia. clear Hg Hnc Hf.
  fuel_S g g1.
  assert (Hsuf : forall o, p_suffix td g1 (DName o) (brks L ++ rest) =
                           Some (arrwrap L (DName o), rest)).
  { intros o. fuel_split g1 (length L). rewrite p_suffix_brks.
    remember (g1 - length L) as g2 eqn:Hg2. fuel_S g2 g3.
    now apply p_suffix_end. }
  destruct on as [n|]; cbn [name_toks app].
  - cbn [wf_oname] in Hon. rewrite (lex_word_ident td n Hon).
    rewrite (p_dtor_name td g1 n _ Hon). now rewrite Hsuf.
  - rewrite p_dtor_abs.
    + now rewrite Hsuf.
    + destruct L as [|n L]; [now apply follow_abs|reflexivity].
Qed.

Lemma starts_group_stack : forall td cs on Y,
  wf_oname td on = true -> negb (is_nil cs) || is_some on = true ->
  starts_group td (pop_all (stack cs on) ++ Y) = true.
Proof.
  intros td cs on Y Hon Hne. rewrite pop_all_stack.
  destruct cs as [|c cs].
  - destruct on as [n|]; [|discriminate Hne].
    cbn [map pop_all flat_map app name_toks]. cbn [wf_oname] in Hon.
    rewrite (lex_word_ident td n Hon). exact Hon.
  - destruct c; reflexivity.
Qed.

(*  ( * ... * name )  followed by suffixes *)
Lemma dtor_group : forall td cs on rest f,
  wf_oname td on = true -> negb (is_nil cs) || is_some on = true ->
  length cs + 2 <= f ->
  p_dtor td (S f) (TLPar :: pop_all (stack cs on) ++ TRPar :: rest) =
  p_suffix td f (ptrwrap cs (DName on)) rest.
Proof.
  intros td cs on rest f Hon Hne Hf.
  cbn [p_dtor]. rewrite (starts_group_stack td cs on _ Hon Hne).
  pose proof (dtor_stars_name_brks td cs on [] (TRPar :: rest) f Hon eq_refl) as H.
  cbn [brks flat_map app length arrwrap] in H. rewrite H by lia. reflexivity.
Qed.

(* ------------------------------------------------------------------ parameter lists *)

Definition ser_param (p : option string * cty) : list tok :=
  serialize (snd p) (param_stack (fst p)).

Lemma reads_ok_param : forall td p rest f,
  reads_ok (snd p) -> simple_param p = true ->
  wf_oname td (fst p) && wf_ty td (snd p) = true -> follow_ok rest = true ->
  2 * length (ser_param p) + 2 <= f ->
  exists b r d, p_spec td (ser_param p ++ rest) = Some (b, r) /\
                p_dtor td f r = Some (d, rest) /\ apply_dtor d b = p.
Proof.
  intros td p rest f Hok Hs Hwf Hrest Hf.
  apply andb_true_iff in Hwf. destruct Hwf as [Hon Hty].
  destruct p as [on t]. cbn [fst snd] in *. unfold ser_param in *. cbn [fst snd] in *.
  specialize (Hok td [] on [] rest f Hs Hty Hon Hrest).
  cbn [rev brks flat_map app] in Hok. rewrite app_nil_r in Hok.
  exact (Hok Hf).
Qed.

Lemma plist_ok : forall td args,
  Forall (fun p => reads_ok (snd p)) args -> args <> [] ->
  forallb simple_param args = true ->
  forallb (fun p => wf_oname td (fst p) && wf_ty td (snd p)) args = true ->
  forall rest f,
  2 * length (sep_join [TComma] (map ser_param args)) + 3 <= f ->
  p_plist td f (sep_join [TComma] (map ser_param args) ++ TRPar :: rest) = Some (args, rest).
Proof.
  intros td args Hall. induction Hall as [|p args Hp Hall IH]; intros Hne Hs Hwf rest f Hf.
  - now elim Hne.
  - cbn [forallb] in Hs, Hwf.
    apply andb_true_iff in Hs. destruct Hs as [Hsp Hsa].
    apply andb_true_iff in Hwf. destruct Hwf as [Hwp Hwa].
    fuel_S f f'.
    destruct args as [|q args].
    + cbn [map sep_join] in *.
      destruct (reads_ok_param td p (TRPar :: rest) f' Hp Hsp Hwp eq_refl) as [b [r [d [H1 [H2 H3]]]]];
        [lia|].
      cbn [p_plist]. rewrite H1, H2, H3. reflexivity.
    + assert (Hsj : sep_join [TComma] (map ser_param (p :: q :: args)) =
                    ser_param p ++ [TComma] ++ sep_join [TComma] (map ser_param (q :: args)))
        by reflexivity.
      rewrite Hsj in *. clear Hsj.
      rewrite !app_length in Hf. cbn [length] in Hf.
      rewrite <- !app_assoc. cbn [app].
      destruct (reads_ok_param td p (TComma :: sep_join [TComma] (map ser_param (q :: args)) ++ TRPar :: rest)
                               f' Hp Hsp Hwp eq_refl) as [b [r [d [H1 [H2 H3]]]]]; [lia|].
      cbn [p_plist]. rewrite H1, H2, H3.
      rewrite (IH ltac:(discriminate) Hsa Hwa rest f') by lia. reflexivity.
Qed.

Lemma p_spec_void_rpar : forall td Z,
  p_spec td (TId "void" :: TRPar :: Z) = Some (CBase ["void"] false, TRPar :: Z).
Proof. reflexivity. Qed.

(* the only way the parameter reader accepts "void )" is as one unnamed void parameter *)
Lemma plist_void_rpar : forall td f Z args rest,
  p_plist td f (TId "void" :: TRPar :: Z) = Some (args, rest) ->
  args = [(None, CBase ["void"] false)].
Proof.
  intros td f Z args rest H.
  destruct f as [|f1]; [discriminate H|].
  cbn [p_plist] in H. rewrite p_spec_void_rpar in H.
  destruct f1 as [|f2]; [discriminate H|].
  rewrite p_dtor_abs in H by reflexivity.
  destruct f2 as [|f3]; [discriminate H|].
  rewrite p_suffix_end in H by reflexivity.
  cbn [apply_dtor] in H. now inversion H.
Qed.

Lemma p_params_plist : forall td f Z args rest,
  p_plist td f Z = Some (args, rest) -> sole_void args = false ->
  p_params td (S f) Z = Some (args, rest).
Proof.
  intros td f Z args rest H Hsv.
  destruct Z as [|x Z1]; [exact H|].
  destruct x; try exact H.
  destruct Z1 as [|y Z2]; [exact H|].
  destruct y; try exact H.
  cbn [p_params]. destruct (String.eqb s "void") eqn:E; [|exact H].
  apply String.eqb_eq in E. subst s.
  rewrite (plist_void_rpar td f Z2 args rest H) in Hsv. discriminate Hsv.
Qed.

Lemma lex_void : lex_word "void" = TId "void".
Proof. reflexivity. Qed.

(*  ( params )  as written by the printer *)
Lemma params_ok : forall td args rest f,
  Forall (fun p => reads_ok (snd p)) args ->
  forallb simple_param args = true ->
  forallb (fun p => wf_oname td (fst p) && wf_ty td (snd p)) args = true ->
  sole_void args = false ->
  2 * length (params_toks args) + 1 <= f ->
  exists Z, params_toks args ++ rest = TLPar :: Z /\ p_params td f Z = Some (args, rest).
Proof.
  intros td args rest f Hall Hs Hwf Hsv Hf.
  destruct args as [|a args].
  - exists (TId "void" :: TRPar :: rest). split; [reflexivity|].
    cbn [params_toks length] in Hf. fuel_S f f'. reflexivity.
  - remember (a :: args) as l eqn:Hl.
    assert (Hne : l <> []) by (subst l; discriminate).
    exists (sep_join [TComma] (map ser_param l) ++ TRPar :: rest). split.
    + subst l. unfold params_toks. fold ser_param.
      rewrite <- !app_assoc. reflexivity.
    + assert (Hlen : length (params_toks l) = length (sep_join [TComma] (map ser_param l)) + 2).
      { subst l. unfold params_toks. fold ser_param.
        rewrite !app_length. cbn [length]. lia. }
      fuel_S f f'. apply p_params_plist; [|exact Hsv].
      apply plist_ok; try assumption. lia.
Qed.

(* ------------------------------------------------------------------ return types *)

Lemma ret_decomp : forall td r cs0, ptr_base r = true ->
  exists ws c cs', ptrs cs0 r = ptrs cs' (CBase ws c) /\ wf_ty td r = wf_words td ws /\
    serialize r (map ptr_item cs0) = const_toks c ++ map lex_word ws ++ pop_all (map ptr_item cs').
Proof.
  intros td r. induction r as [ws c|c r IH|r n IH|c r IH args IHa] using cty_ind';
    intros cs0 Hpb; try discriminate Hpb.
  - exists ws, c, cs0. repeat split. apply ser_base.
  - cbn [ptr_base] in Hpb. destruct (IH (c :: cs0) Hpb) as [ws [c' [cs' [H1 [H2 H3]]]]].
    exists ws, c', cs'. repeat split; try assumption.
    rewrite ser_ptr. exact H3.
Qed.

(* ------------------------------------------------------------------ the main invariant *)

Lemma reads_ok_base : forall ws c, reads_ok (CBase ws c).
Proof.
  intros ws c td cs on ds rest f Hs Hwf Hon Hrest Hf.
  cbn [simple_go] in Hs. apply N_list_eqb_eq in Hs.
  cbn [wf_ty] in Hwf.
  rewrite ser_base in *. rewrite <- !app_assoc in *.
  rewrite !app_length in Hf. rewrite pop_all_stack, app_length, brks_len, rev_length in Hf.
  pose proof (stars_len cs) as Hsl.
  exists (CBase ws c), (pop_all (stack cs on) ++ brks (rev ds) ++ rest),
         (ptrwrap cs (arrwrap (rev ds) (DName on))).
  split; [|split].
  - apply p_spec_words; [exact Hwf|].
    rewrite pop_all_stack, <- app_assoc.
    destruct cs as [|[] cs]; try reflexivity.
    destruct on as [n|]; cbn [map pop_all flat_map name_toks app].
    + cbn [wf_oname] in Hon. rewrite (lex_word_ident td n Hon). cbn [nokw_head].
      destruct (ident_ok_inv td n Hon) as [Hr _].
      destruct (reserved_false n Hr) as [Hk _]. now rewrite Hk.
    + destruct (rev ds) as [|n L]; [now apply follow_nokw|reflexivity].
  - apply dtor_stars_name_brks; try assumption. rewrite rev_length. lia.
  - rewrite apply_ptrwrap, apply_arrwrap. cbn [apply_dtor]. now rewrite <- Hs.
Qed.

Lemma reads_ok_ptr : forall c t, reads_ok t -> reads_ok (CPtr c t).
Proof.
  intros c t IH td cs on ds rest f Hs Hwf Hon Hrest Hf.
  rewrite ser_ptr, stack_cons in *.
  apply (IH td (c :: cs) on ds rest f); assumption.
Qed.

Lemma reads_ok_arr : forall t n, reads_ok t -> reads_ok (CArr t n).
Proof.
  intros t n IH td cs on ds rest f Hs Hwf Hon Hrest Hf.
  cbn [simple_go] in Hs. apply andb_true_iff in Hs. destruct Hs as [Hst Hs].
  destruct cs as [|c0 cs]; [|discriminate Hst]. cbn [is_nil negb] in Hs.
  assert (Heq : forall X, serialize (CArr t n) (stack [] on) ++ brks (rev ds) ++ X =
                          serialize t (stack [] on) ++ brks (rev (ds ++ [n])) ++ X).
  { intros X. rewrite ser_arr, rev_app_distr. cbn [rev app]. rewrite brks_cons.
    rewrite <- app_assoc. reflexivity. }
  rewrite Heq.
  pose proof (Heq []) as Heq0. rewrite !app_nil_r in Heq0. rewrite Heq0 in Hf.
  cbn [ptrs]. rewrite <- arrays_snoc.
  apply (IH td [] on (ds ++ [n]) rest f); assumption.
Qed.

Lemma reads_ok_fun : forall c r args,
  Forall (fun p => reads_ok (snd p)) args -> reads_ok (CFun c r args).
Proof.
  intros c r args IHa td cs on ds rest f Hs Hwf Hon Hrest Hf.
  cbn [simple_go] in Hs.
  apply andb_true_iff in Hs. destruct Hs as [Hs Hargs].
  apply andb_true_iff in Hs. destruct Hs as [Hs Hpb].
  apply andb_true_iff in Hs. destruct Hs as [Hs Hds].
  apply andb_true_iff in Hs. destruct Hs as [Hc Hne].
  destruct c; [discriminate Hc|]. destruct ds as [|d0 ds]; [|discriminate Hds].
  cbn [wf_ty] in Hwf.
  apply andb_true_iff in Hwf. destruct Hwf as [Hwf Hwa].
  apply andb_true_iff in Hwf. destruct Hwf as [Hwr Hsv]. apply negb_true_iff in Hsv.
  destruct (ret_decomp td r [] Hpb) as [ws [cr [cs' [Hr [Hww Hser]]]]].
  cbn [ptrs map] in Hr, Hser. rewrite Hww in Hwr.
  cbn [rev brks flat_map app arrays] in *. rewrite app_nil_r in Hf.
  rewrite ser_fun in *. rewrite Hser in *.
  rewrite !app_length in Hf. cbn [length] in Hf.
  pose proof (stars_len cs') as Hl1. pose proof (stars_len cs) as Hl2.
  rewrite pop_all_stack, app_length in Hf.
  rewrite <- !app_assoc. cbn [app].
  set (g := f - length cs' - 2).
  destruct (params_ok td args rest g IHa Hargs Hwa Hsv ltac:(unfold g; lia)) as [Z [HZ HpZ]].
  exists (CBase ws cr),
         (pop_all (map ptr_item cs') ++ TLPar :: pop_all (stack cs on) ++ TRPar :: params_toks args ++ rest),
         (ptrwrap cs' (DFun (ptrwrap cs (DName on)) args)).
  split; [|split].
  - apply p_spec_words; [exact Hwr|]. destruct cs' as [|[] cs']; reflexivity.
  - fuel_split f (length cs'). rewrite p_dtor_stars by reflexivity.
    replace (f - length cs') with (S (S g)) by (unfold g; lia).
    rewrite dtor_group; try assumption; [|unfold g; lia].
    rewrite HZ. cbn [p_suffix]. rewrite HpZ.
    replace g with (S (g - 1)) by (unfold g; lia).
    now rewrite p_suffix_end.
  - rewrite apply_ptrwrap. cbn [apply_dtor]. rewrite apply_ptrwrap. cbn [apply_dtor].
    now rewrite <- Hr.
Qed.

Lemma reads_ok_all : forall t, reads_ok t.
Proof.
  intros t. induction t as [ws c|c t IH|t n IH|c r IH args IHa] using cty_ind'.
  - apply reads_ok_base.
  - now apply reads_ok_ptr.
  - now apply reads_ok_arr.
  - now apply reads_ok_fun.
Qed.
