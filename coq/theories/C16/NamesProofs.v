(* C16 — parameter names of the wrapper: proofs of the statements of NamesProperties.v. *)
From Coq Require Import List String Bool Arith Lia DecimalString DecimalNat.
From BG Require Import C16.Model C16.Names.
Import ListNotations.
Open Scope string_scope.

(* ------------------------------------------------------------------ dec, "arg_" ++ _ *)

Lemma dec_inj : forall a b, dec a = dec b -> a = b.
Proof.
  intros a b H. unfold dec in H.
  apply Unsigned.to_uint_inj.
  pose proof (NilEmpty.usu (Nat.to_uint a)) as Ha.
  pose proof (NilEmpty.usu (Nat.to_uint b)) as Hb.
  rewrite H in Ha. rewrite Ha in Hb. now inversion Hb.
Qed.

Definition gen (k : nat) : string := String.append "arg_" (dec k).

Lemma gen_inj : forall a b, gen a = gen b -> a = b.
Proof.
  intros a b H. unfold gen in H. simpl in H.
  apply dec_inj. now inversion H.
Qed.

(* ------------------------------------------------------------------ named, unnamed_count *)

Lemma named_some : forall n t r, named ((Some n, t) :: r) = n :: named r.
Proof. reflexivity. Qed.

Lemma named_none : forall t r, named ((None, t) :: r) = named r.
Proof. reflexivity. Qed.

Lemma unnamed_some : forall n t r, unnamed_count ((Some n, t) :: r) = unnamed_count r.
Proof. reflexivity. Qed.

Lemma unnamed_none : forall t r, unnamed_count ((None, t) :: r) = S (unnamed_count r).
Proof. reflexivity. Qed.

Lemma unnamed_repeat : forall t n, unnamed_count (repeat (None, t) n) = n.
Proof.
  intros t n. induction n as [|n IH].
  - reflexivity.
  - change (repeat (None, t) (S n)) with ((@None string, t) :: repeat (None, t) n).
    rewrite unnamed_none. now rewrite IH.
Qed.

Lemma named_repeat : forall t n, named (repeat (None, t) n) = [].
Proof.
  intros t n. induction n as [|n IH].
  - reflexivity.
  - change (repeat (None, t) (S n)) with ((@None string, t) :: repeat (None, t) n).
    now rewrite named_none.
Qed.

(* ------------------------------------------------------------------ is_generated *)

Lemma is_generated_spec : forall s n,
  is_generated s n = true <-> exists k, k < n /\ s = gen k.
Proof.
  intros s n. unfold is_generated. rewrite existsb_exists. split.
  - intros [k [Hin Heq]]. apply in_seq in Hin. apply String.eqb_eq in Heq.
    exists k. split; [lia | exact Heq].
  - intros [k [Hlt Heq]]. exists k. split.
    + apply in_seq. lia.
    + apply String.eqb_eq. exact Heq.
Qed.

(* ------------------------------------------------------------------ the names produced *)

(* the names of [name_args c args] are the named parameters and arg_c .. arg_{c+u-1} *)
Lemma in_name_args : forall args c s,
  In s (map fst (name_args c args)) <->
  In s (named args) \/ exists k, c <= k < c + unnamed_count args /\ s = gen k.
Proof.
  induction args as [|[[n|] t] r IH]; intros c s.
  - simpl. split.
    + intros [].
    + intros [[] | [k [Hk _]]]. unfold unnamed_count in Hk. simpl in Hk. lia.
  - rewrite named_some, unnamed_some.
    change (map fst (name_args c ((Some n, t) :: r))) with (n :: map fst (name_args c r)).
    simpl In. rewrite IH. tauto.
  - rewrite named_none, unnamed_none.
    change (map fst (name_args c ((None, t) :: r))) with (gen c :: map fst (name_args (S c) r)).
    simpl In. rewrite IH. split.
    + intros [H | [H | [k [Hk Hs]]]].
      * right. exists c. split; [lia | now symmetry].
      * now left.
      * right. exists k. split; [lia | exact Hs].
    + intros [H | [k [Hk Hs]]].
      * right. now left.
      * destruct (Nat.eq_dec k c) as [-> | Hne].
        -- left. now symmetry.
        -- right. right. exists k. split; [lia | exact Hs].
Qed.

Lemma name_args_nodup : forall args c,
  NoDup (named args) ->
  (forall s k, In s (named args) -> c <= k < c + unnamed_count args -> s <> gen k) ->
  NoDup (map fst (name_args c args)).
Proof.
  induction args as [|[[n|] t] r IH]; intros c Hnd Hsep.
  - simpl. constructor.
  - rewrite named_some in Hnd, Hsep. rewrite unnamed_some in Hsep.
    change (map fst (name_args c ((Some n, t) :: r))) with (n :: map fst (name_args c r)).
    inversion Hnd as [|x l Hnotin Hnd']; subst.
    constructor.
    + rewrite in_name_args. intros [H | [k [Hk Hs]]].
      * now apply Hnotin.
      * apply (Hsep n k); [now left | exact Hk | exact Hs].
    + apply IH; [exact Hnd'|].
      intros s k Hin Hk. apply Hsep; [now right | exact Hk].
  - rewrite named_none in Hnd, Hsep. rewrite unnamed_none in Hsep.
    change (map fst (name_args c ((None, t) :: r))) with (gen c :: map fst (name_args (S c) r)).
    constructor.
    + rewrite in_name_args. intros [H | [k [Hk Hs]]].
      * apply (Hsep (gen c) c); [exact H | lia | reflexivity].
      * apply gen_inj in Hs. lia.
    + apply IH; [exact Hnd|].
      intros s k Hin Hk. apply Hsep; [exact Hin | lia].
Qed.

(* ------------------------------------------------------------------ the statements *)

Lemma param_names_nodup : forall args,
  NoDup (named args) ->
  forallb (fun n => negb (is_generated n (unnamed_count args))) (named args) = true ->
  NoDup (param_names args).
Proof.
  intros args Hnd Hside. unfold param_names.
  apply name_args_nodup; [exact Hnd|].
  intros s k Hin Hk Heq.
  rewrite forallb_forall in Hside. specialize (Hside s Hin).
  apply negb_true_iff in Hside.
  assert (is_generated s (unnamed_count args) = true) as Hg.
  { apply is_generated_spec. exists k. split; [lia | exact Heq]. }
  rewrite Hg in Hside. discriminate.
Qed.

Lemma name_args_length : forall args c, List.length (name_args c args) = List.length args.
Proof.
  induction args as [|[[n|] t] r IH]; intros c; simpl; [reflexivity | |]; now rewrite IH.
Qed.

Lemma name_args_keep : forall args c i n t,
  nth_error args i = Some (Some n, t) ->
  nth_error (map fst (name_args c args)) i = Some n.
Proof.
  induction args as [|[[m|] u] r IH]; intros c i n t H.
  - destruct i; discriminate.
  - destruct i as [|i]; simpl in *.
    + now inversion H.
    + eapply IH; eassumption.
  - destruct i as [|i]; simpl in *.
    + discriminate.
    + eapply IH; eassumption.
Qed.

Lemma param_names_keep_named : forall args,
  List.length (param_names args) = List.length args /\
  (forall i n t, nth_error args i = Some (Some n, t) -> nth_error (param_names args) i = Some n).
Proof.
  intros args. unfold param_names. split.
  - rewrite map_length. apply name_args_length.
  - intros i n t H. eapply name_args_keep; eassumption.
Qed.

Lemma param_names_clash_refuted : exists args,
  NoDup (named args) /\ ~ NoDup (param_names args).
Proof.
  exists [(None, CBase ["int"] false); (Some "arg_0", CBase ["int"] false)].
  split.
  - change (NoDup ["arg_0"]). constructor; [intros [] | constructor].
  - change (~ NoDup ["arg_0"; "arg_0"]). intros H.
    inversion H as [|x l Hnotin _]; subst. apply Hnotin. now left.
Qed.

Lemma param_names_condition_needed : forall n k t t',
  k < n ->
  ~ NoDup (param_names ((Some (String.append "arg_" (dec k)), t) :: repeat (None, t') n)).
Proof.
  intros n k t t' Hk H.
  change (param_names ((Some (String.append "arg_" (dec k)), t) :: repeat (None, t') n))
    with (gen k :: map fst (name_args 0 (repeat (None, t') n))) in H.
  inversion H as [|x l Hnotin _]; subst. apply Hnotin.
  apply in_name_args. right. exists k. rewrite unnamed_repeat. split; [lia | reflexivity].
Qed.
