(* C16 — the names the wrapper gives its parameters (serialize.rs, impl CSerialize for Function: a named
   parameter keeps its name, the k-th UNNAMED one becomes arg_<k>).  Definitions only. *)
From Coq Require Import List String Bool Arith.
From BG Require Import C16.Model.
Import ListNotations.
Open Scope string_scope.

Definition named (args : list (option string * cty)) : list string :=
  flat_map (fun p => match fst p with Some n => [n] | None => [] end) args.

Definition unnamed_count (args : list (option string * cty)) : nat :=
  List.length (filter (fun p => match fst p with None => true | Some _ => false end) args).

(* s is one of the names arg_0 .. arg_{n-1} the wrapper may invent *)
Definition is_generated (s : string) (n : nat) : bool :=
  existsb (fun k => String.eqb s (String.append "arg_" (dec k))) (seq 0 n).
