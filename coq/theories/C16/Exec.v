(* C16 — executable helpers for the correspondence run (no proofs). *)
From Coq Require Import NArith List Bool String Ascii.
From BG Require Import C16.Model.
Import ListNotations.
Open Scope string_scope.

Definition digit (n : N) : string :=
  String (ascii_of_N (48 + n)) EmptyString.

Fixpoint dec_fuel (fuel : nat) (n : N) (acc : string) : string :=
  match fuel with
  | O => acc
  | S f => let acc' := digit (N.modulo n 10) ++ acc in
           if N.ltb n 10 then acc' else dec_fuel f (N.div n 10) acc'
  end.
Definition dec (n : N) : string := dec_fuel 40 n "".

Definition tok_text (t : tok) : string :=
  match t with
  | TId s => s
  | TNum n => dec n
  | TStar => "*" | TLPar => "(" | TRPar => ")" | TLBrk => "[" | TRBrk => "]" | TComma => ","
  | TConst => "const" | TEllipsis => "..."
  | TLBrace => "{" | TRBrace => "}" | TSemi => ";" | TReturn => "return"
  end.
