(* C16 — property theorems about the C declarator printer (statements only; proofs in
   Proofs.v). *)
From Coq Require Import NArith String List Bool.
From BG Require Import C16.Model C16.Proofs.
Import ListNotations.
Open Scope string_scope.
Open Scope list_scope.

(* ------------------------------------------------------------------ the printer model *)

(* every call of Type::serialize leaves the stack empty, so the final
   `if !stack.is_empty()` of the Array, Pointer and Function arms never fires *)
Theorem serialize_st_stack_empty : forall t st, snd (serialize_st t st) = [].
Proof. exact Proofs.serialize_st_stack_empty. Qed.
Print Assumptions serialize_st_stack_empty.

(* hence the printer is this recursion *)
Theorem ser_base : forall ws c st,
  serialize (CBase ws c) st = const_toks c ++ map lex_word ws ++ pop_all st.
Proof. exact Proofs.ser_base. Qed.
Print Assumptions ser_base.

Theorem ser_ptr : forall c t st,
  serialize (CPtr c t) st = serialize t (ptr_item c :: st).
Proof. exact Proofs.ser_ptr. Qed.
Print Assumptions ser_ptr.

Theorem ser_arr : forall t n st,
  serialize (CArr t n) st = serialize t st ++ [TLBrk; TNum n; TRBrk].
Proof. exact Proofs.ser_arr. Qed.
Print Assumptions ser_arr.

Theorem ser_fun : forall c r args st,
  serialize (CFun c r args) st =
  serialize r [] ++ [TLPar] ++ pop_all (if c then SConst :: st else st) ++ [TRPar] ++
  params_toks args.
Proof. exact Proofs.ser_fun. Qed.
Print Assumptions ser_fun.

(* ------------------------------------------------------------------ where the printer is right *)

(* with typedef names td in scope *)
Theorem decl_roundtrip_partial_td : forall td t n,
  simple t = true -> wf_names_td td t n ->
  denote_td td (serialize t [SName n]) = Some (n, t).
Proof. exact Proofs.decl_roundtrip_partial_td. Qed.
Print Assumptions decl_roundtrip_partial_td.

Theorem decl_roundtrip_partial : forall t n,
  simple t = true -> wf_names t n -> denote (serialize t [SName n]) = Some (n, t).
Proof. exact Proofs.decl_roundtrip_partial. Qed.
Print Assumptions decl_roundtrip_partial.

(* the invariant behind it: any pointers already pushed, any array suffixes still owed,
   named or not, in front of anything that may follow a declaration *)
Theorem reads_ok_all : forall t, reads_ok t.
Proof. exact Proofs.reads_ok_all. Qed.
Print Assumptions reads_ok_all.

(* ------------------------------------------------------------------ where it is wrong *)

Theorem decl_roundtrip_refuted :
  (exists t n, wf_names t n /\ denote (serialize t [SName n]) <> Some (n, t)) /\
  (* pointer to array of 3 int comes out as `int * p [3]`: an array of three pointers *)
  (wf_names (CPtr false (CArr (CBase ["int"] false) 3)) "p" /\
   denote (serialize (CPtr false (CArr (CBase ["int"] false) 3)) [SName "p"]) =
   Some ("p", CArr (CPtr false (CBase ["int"] false)) 3)) /\
  (* pointer to function(int) returning pointer to function(char) returning int comes
     out as `int ( * ) (char) ( * f) (int)`: not a declaration *)
  (wf_names (CPtr false (CFun false (CPtr false (CFun false (CBase ["int"] false)
                                                      [(None, CBase ["char"] false)]))
                              [(None, CBase ["int"] false)])) "f" /\
   denote (serialize (CPtr false (CFun false (CPtr false (CFun false (CBase ["int"] false)
                                                      [(None, CBase ["char"] false)]))
                              [(None, CBase ["int"] false)])) [SName "f"]) = None) /\
  (* int m[2][3] comes out as `int m [3] [2]` *)
  (wf_names (CArr (CArr (CBase ["int"] false) 3) 2) "m" /\
   denote (serialize (CArr (CArr (CBase ["int"] false) 3) 2) [SName "m"]) =
   Some ("m", CArr (CArr (CBase ["int"] false) 2) 3)) /\
  (* array of 3 pointers to function comes out as `int ( * a) (int) [3]`: a pointer to a
     function returning an array *)
  (wf_names (CArr (CPtr false (CFun false (CBase ["int"] false) [(None, CBase ["int"] false)])) 3) "a" /\
   denote (serialize (CArr (CPtr false (CFun false (CBase ["int"] false)
                                             [(None, CBase ["int"] false)])) 3) [SName "a"]) =
   Some ("a", CPtr false (CFun false (CArr (CBase ["int"] false) 3) [(None, CBase ["int"] false)]))).
Proof. exact Proofs.decl_roundtrip_refuted. Qed.
Print Assumptions decl_roundtrip_refuted.

(* ------------------------------------------------------------------ the wrapper *)

Theorem args_forwarded_in_order : forall name suf ret args,
  forallb plain_word (param_names args) = true ->
  call_args (wrapper name suf ret args) = param_names args.
Proof. exact Proofs.args_forwarded_in_order. Qed.
Print Assumptions args_forwarded_in_order.

(* `return` is the first token of the body exactly when Type::is_void says no *)
Theorem wrapper_return_first : forall name suf ret args,
  String.eqb name "return" = false ->
  body_returns (wrapper name suf ret args) = negb (is_void ret).
Proof. exact Proofs.wrapper_return_first. Qed.
Print Assumptions wrapper_return_first.

Theorem wrapper_returns_iff_nonvoid : forall name suf ret args,
  no_return_words name suf ret args = true ->
  (In TReturn (wrapper name suf ret args) <-> is_void ret = false).
Proof. exact Proofs.wrapper_returns_iff_nonvoid. Qed.
Print Assumptions wrapper_returns_iff_nonvoid.

Theorem wrapper_name_is_suffixed_td : forall td name suf ret args,
  wf_wrapper td name suf ret args ->
  denote_td td (before_lbrace (wrapper name suf ret args)) =
  Some (String.append name suf, CFun false ret (named_args args)).
Proof. exact Proofs.wrapper_name_is_suffixed_td. Qed.
Print Assumptions wrapper_name_is_suffixed_td.

Theorem wrapper_name_is_suffixed : forall name suf ret args,
  wf_wrapper [] name suf ret args ->
  denote (before_lbrace (wrapper name suf ret args)) =
  Some (String.append name suf, CFun false ret (named_args args)).
Proof. exact Proofs.wrapper_name_is_suffixed. Qed.
Print Assumptions wrapper_name_is_suffixed.

(* ------------------------------------------------------------------ non-vacuity *)

Theorem decl_roundtrip_partial_nonvacuous :
  simple ex_cb = true /\ wf_names ex_cb "cb" /\
  serialize ex_cb [SName "cb"] =
    [TConst; TId "unsigned"; TId "long"; TStar; TLPar; TStar; TConst; TId "cb"; TRPar;
     TLPar; TId "struct"; TId "S"; TStar; TId "s"; TComma;
            TId "void"; TLPar; TStar; TRPar; TLPar; TId "void"; TRPar; TComma;
            TId "char"; TLBrk; TNum 4; TRBrk; TComma;
            TId "int"; TId "m"; TLBrk; TNum 3; TRBrk; TLBrk; TNum 3; TRBrk; TRPar] /\
  denote (serialize ex_cb [SName "cb"]) = Some ("cb", ex_cb).
Proof. exact Proofs.decl_roundtrip_partial_nonvacuous. Qed.
Print Assumptions decl_roundtrip_partial_nonvacuous.

Theorem decl_roundtrip_typedef_nonvacuous :
  let t := CArr (CPtr false (CBase ["size_t"] true)) 4 in
  simple t = true /\ wf_names_td ["size_t"] t "v" /\
  denote_td ["size_t"] (serialize t [SName "v"]) = Some ("v", t) /\
  denote (serialize t [SName "v"]) = None.
Proof. exact Proofs.decl_roundtrip_typedef_nonvacuous. Qed.
Print Assumptions decl_roundtrip_typedef_nonvacuous.

(* each conjunct of [simple] is needed *)
Theorem simple_conjuncts_needed :
  denote (serialize (CPtr false (CArr ex_int 3)) [SName "p"]) = Some ("p", CArr (CPtr false ex_int) 3) /\
  denote (serialize (CArr (CArr ex_int 3) 2) [SName "m"]) = Some ("m", CArr (CArr ex_int 2) 3) /\
  serialize (CPtr false (CFun true ex_int [(None, ex_int)])) [SName "fp"] =
    [TId "int"; TLPar; TConst; TStar; TId "fp"; TRPar; TLPar; TId "int"; TRPar] /\
  denote (serialize (CPtr false (CFun true ex_int [(None, ex_int)])) [SName "fp"]) = None /\
  denote (serialize (CFun false ex_int [(None, CFun false ex_int [])]) [SName "f"]) = None /\
  denote (serialize (CArr (CPtr false (CFun false ex_int [(None, ex_int)])) 3) [SName "a"]) =
    Some ("a", CPtr false (CFun false (CArr ex_int 3) [(None, ex_int)])) /\
  serialize (CFun false (CPtr false (CFun false ex_int [])) []) [SName "f"] =
    [TId "int"; TLPar; TStar; TRPar; TLPar; TId "void"; TRPar;
     TLPar; TId "f"; TRPar; TLPar; TId "void"; TRPar] /\
  denote (serialize (CFun false (CPtr false (CFun false ex_int [])) []) [SName "f"]) = None /\
  denote (serialize (CFun false (CArr ex_int 3) []) [SName "f"]) = None /\
  denote (serialize (CFun false ex_int [(Some "p", CPtr false (CArr ex_int 3))]) [SName "f"]) =
    Some ("f", CFun false ex_int [(Some "p", CArr (CPtr false ex_int) 3)]).
Proof. exact Proofs.simple_conjuncts_needed. Qed.
Print Assumptions simple_conjuncts_needed.

(* each conjunct of the side conditions is needed *)
Theorem wf_conjuncts_needed :
  simple ex_int = true /\
  denote (serialize ex_int [SName "long"]) = None /\
  denote (serialize ex_int [SName "const"]) = None /\
  denote_td ["T"] (serialize ex_int [SName "T"]) = None /\
  denote (serialize ex_int [SName "struct"]) = None /\
  denote (serialize (CBase ["foo"] false) [SName "x"]) = None /\
  denote (serialize (CBase [] false) [SName "x"]) = None /\
  denote (serialize (CBase ["struct"; "int"] false) [SName "x"]) = None /\
  denote_td ["const"] (serialize (CBase ["const"] false) [SName "x"]) = None /\
  denote (serialize (CFun false ex_int [(Some "int", ex_char)]) [SName "f"]) =
    Some ("f", CFun false ex_int [(None, CBase ["char"; "int"] false)]) /\
  simple (CFun false ex_int [(None, ex_void)]) = true /\
  denote (serialize (CFun false ex_int [(None, ex_void)]) [SName "f"]) =
    Some ("f", CFun false ex_int []).
Proof. exact Proofs.wf_conjuncts_needed. Qed.
Print Assumptions wf_conjuncts_needed.

Theorem wrapper_nonvacuous :
  wrapper "foo" "__extern" ex_int ex_args =
    [TId "int"; TId "foo__extern"; TLPar; TId "int"; TId "a"; TComma; TId "char"; TId "arg_0";
     TComma; TId "void"; TStar; TId "b"; TComma; TId "int"; TId "arg_1"; TRPar; TLBrace;
     TReturn; TId "foo"; TLPar; TId "a"; TComma; TId "arg_0"; TComma; TId "b"; TComma;
     TId "arg_1"; TRPar; TSemi; TRBrace] /\
  param_names ex_args = ["a"; "arg_0"; "b"; "arg_1"] /\
  forallb plain_word (param_names ex_args) = true /\
  call_args (wrapper "foo" "__extern" ex_int ex_args) = ["a"; "arg_0"; "b"; "arg_1"] /\
  wf_wrapper [] "foo" "__extern" ex_int ex_args /\
  no_return_words "foo" "__extern" ex_int ex_args = true /\
  denote (before_lbrace (wrapper "foo" "__extern" ex_int ex_args)) =
    Some ("foo__extern",
          CFun false ex_int [(Some "a", ex_int); (Some "arg_0", ex_char);
                             (Some "b", CPtr false ex_void); (Some "arg_1", ex_int)]) /\
  wrapper "g" "_w" (CBase ["void"] true) [] =
    [TConst; TId "void"; TId "g_w"; TLPar; TId "void"; TRPar; TLBrace;
     TId "g"; TLPar; TRPar; TSemi; TRBrace].
Proof. exact Proofs.wrapper_nonvacuous. Qed.
Print Assumptions wrapper_nonvacuous.

Theorem wrapper_conditions_needed :
  call_args (wrapper "f" "_w" ex_int [(Some "return", ex_int); (Some "x", ex_int)]) = [] /\
  body_returns (wrapper "return" "_w" ex_void []) = true /\
  In TReturn (wrapper "return" "_w" ex_void []) /\
  body_returns (wrapper "f" "_w" (CBase ["V"] false) []) = true /\
  wrapper_head "g" "_w" (CPtr false (CFun false ex_int [(None, ex_char)])) [(None, ex_int)] =
    [TId "int"; TLPar; TStar; TRPar; TLPar; TId "char"; TRPar; TId "g_w"; TLPar;
     TId "int"; TId "arg_0"; TRPar] /\
  denote (before_lbrace (wrapper "g" "_w" (CPtr false (CFun false ex_int [(None, ex_char)]))
                                 [(None, ex_int)])) = None /\
  param_names [(Some "arg_0", ex_int); (None, ex_char)] = ["arg_0"; "arg_0"].
Proof. exact Proofs.wrapper_conditions_needed. Qed.
Print Assumptions wrapper_conditions_needed.

(* ------------------------------------------------------------------ exactly where it is right *)

(* what the reader finds in the output, for EVERY well-formed type, with any pointers
   already pushed and any array suffixes still owed; and: a return type that is not
   pointers over a base type makes the declaration unreadable *)
Theorem reads_char_all : forall t, reads_char t /\ ret_rejected t.
Proof. exact Proofs.reads_char_all. Qed.
Print Assumptions reads_char_all.

Theorem decl_reading_td : forall td t n,
  wf_names_td td t n ->
  denote_td td (serialize t [SName n]) =
  match printed_as true [] [] t with Some T => Some (n, T) | None => None end.
Proof. exact Proofs.decl_reading_td. Qed.
Print Assumptions decl_reading_td.

Theorem decl_reading : forall t n,
  wf_names t n ->
  denote (serialize t [SName n]) =
  match printed_as true [] [] t with Some T => Some (n, T) | None => None end.
Proof. exact Proofs.decl_reading. Qed.
Print Assumptions decl_reading.

(* [simple] is "printed as itself"; no side condition *)
Theorem simple_iff_printed : forall t,
  simple t = true <-> printed_as true [] [] t = Some t.
Proof. exact Proofs.simple_iff_printed. Qed.
Print Assumptions simple_iff_printed.

(* so [simple] cannot be weakened *)
Theorem decl_roundtrip_exact_td : forall td t n,
  wf_names_td td t n ->
  (denote_td td (serialize t [SName n]) = Some (n, t) <-> simple t = true).
Proof. exact Proofs.decl_roundtrip_exact_td. Qed.
Print Assumptions decl_roundtrip_exact_td.

Theorem decl_roundtrip_exact : forall t n,
  wf_names t n -> (denote (serialize t [SName n]) = Some (n, t) <-> simple t = true).
Proof. exact Proofs.decl_roundtrip_exact. Qed.
Print Assumptions decl_roundtrip_exact.
