(* C16 — model of the C declarator printer of bindgen/codegen/serialize.rs
   (`impl CSerialize for Type`, `impl CSerialize for Function`, `serialize_args`,
   `serialize_sep`) and an independent reader of C declarations (C11 6.7.6).
   Executable definitions only.

   Level of abstraction: the printer writes bytes, the model emits tokens.  The
   abstraction function is a C lexer; the only places where the lexer matters are
   identifiers that spell a keyword owning a token of its own (`const`, `return`),
   so every word the printer writes goes through [lex_word].  Lexical validity of
   identifiers (character set, non-emptiness) is below this model.  White space is
   dropped: every place where the printer omits a blank has punctuation on one side.

   Not modelled: the Err returns (unsupported IntKind / TypeKind, non-Function items),
   the variadic branch of `impl CSerialize for Function` (wrap_as_variadic = Some),
   TypeKind::ResolvedTypeRef and unnamed TypeKind::Alias (both recurse into the
   referenced type with the same stack, a const ResolvedTypeRef after writing "const ";
   [cty] is the type after that resolution). *)
From Coq Require Import NArith List Bool String Ascii DecimalString.
Import ListNotations.
Open Scope string_scope.
Open Scope list_scope.

(* ------------------------------------------------------------------ tokens *)

Inductive tok :=
| TId (s : string)        (* identifiers and every keyword except the two below *)
| TNum (n : N)
| TStar | TLPar | TRPar | TLBrk | TRBrk | TComma
| TConst                  (* the keyword `const` *)
| TEllipsis               (* never produced: the variadic branch is not modelled *)
| TLBrace | TRBrace | TSemi
| TReturn.                (* the keyword `return` *)

(* what a C lexer makes of a word written by the printer *)
Definition lex_word (s : string) : tok :=
  if String.eqb s "const" then TConst
  else if String.eqb s "return" then TReturn
  else TId s.

(* ------------------------------------------------------------------ types *)

Inductive cty :=
| CBase (words : list string) (const : bool)
    (* Void, NullPtr, Int, Float, Complex, named Alias, Comp, Enum: the words written *)
| CPtr (const : bool) (t : cty)                              (* TypeKind::Pointer *)
| CArr (t : cty) (len : N)                                   (* TypeKind::Array *)
| CFun (const : bool) (ret : cty) (args : list (option string * cty)).  (* TypeKind::Function *)

(* ------------------------------------------------------------------ printer *)

(* entries of `stack: &mut Vec<String>`:  name, "*", "*const ", "const " *)
Inductive sitem := SName (s : string) | SStar | SStarConst | SConst.

Definition emit_item (i : sitem) : list tok :=
  match i with
  | SName s => [lex_word s]
  | SStar => [TStar]
  | SStarConst => [TStar; TConst]
  | SConst => [TConst]
  end.

(* the stack is a list whose HEAD is the top: push = cons,
   `while let Some(item) = stack.pop() { write!(item) }` = pop_all *)
Definition pop_all (st : list sitem) : list tok := flat_map emit_item st.

(* serialize_sep(", ", ...) *)
Fixpoint sep_join (sep : list tok) (l : list (list tok)) : list tok :=
  match l with
  | [] => []
  | [x] => x
  | x :: r => x ++ sep ++ sep_join sep r
  end.

Definition const_toks (c : bool) : list tok := if c then [TConst] else [].

(* lines 389-394: `if !stack.is_empty() { write " "; while let Some(item) = stack.pop() {..} }`
   result: the output so far, and the stack after the call *)
Definition trailer (out : list tok) (st : list sitem) : list tok * list sitem :=
  match st with
  | [] => (out, [])
  | _ :: _ => (out ++ pop_all st, [])
  end.

Definition param_stack (on : option string) : list sitem :=
  match on with Some n => [SName n] | None => [] end.

(* `impl CSerialize for Type`, state passing: the stack goes in and comes out *)
Fixpoint serialize_st (t : cty) (st : list sitem) {struct t} : list tok * list sitem :=
  match t with
  | CBase ws c =>
      trailer (const_toks c ++ map lex_word ws) st
  | CPtr c t' =>
      let st1 := (if c then SStarConst else SStar) :: st in
      let (out, st2) := serialize_st t' st1 in
      trailer out st2
  | CArr t' n =>
      let (out, st1) := serialize_st t' st in
      trailer (out ++ [TLBrk; TNum n; TRBrk]) st1
  | CFun c r args =>
      let st1 := if c then SConst :: st else st in
      let (o1, _) := serialize_st r [] in                       (* &mut vec![] *)
      let o2 := o1 ++ [TLPar] ++ pop_all st1 ++ [TRPar] in      (* stack is now empty *)
      let o3 :=
        match args with
        | [] => [TLPar; lex_word "void"; TRPar]
        | _ :: _ =>
            [TLPar] ++
            sep_join [TComma]
              (map (fun p => fst (serialize_st (snd p) (param_stack (fst p)))) args) ++
            [TRPar]
        end in
      trailer (o2 ++ o3) []
  end.

Definition serialize (t : cty) (st : list sitem) : list tok := fst (serialize_st t st).

(* ------------------------------------------------------------------ wrapper *)

Definition dec (n : nat) : string := NilEmpty.string_of_uint (Nat.to_uint n).

(* lines 85-114, idx_to_prune = None: unnamed arguments become arg_{count} *)
Fixpoint name_args (count : nat) (args : list (option string * cty)) : list (string * cty) :=
  match args with
  | [] => []
  | (Some n, t) :: r => (n, t) :: name_args count r
  | (None, t) :: r => (String.append "arg_" (dec count), t) :: name_args (S count) r
  end.

Definition param_names (args : list (option string * cty)) : list string :=
  map fst (name_args 0 args).

Definition serialize_args (args : list (string * cty)) : list tok :=
  match args with
  | [] => [lex_word "void"]
  | _ :: _ => sep_join [TComma] (map (fun p => serialize (snd p) [SName (fst p)]) args)
  end.

(* Type::is_void: matches!(self.kind, TypeKind::Void) — the const flag is ignored,
   typedefs of void are not looked through *)
Definition is_void (t : cty) : bool :=
  match t with
  | CBase [w] _ => String.eqb w "void"
  | _ => false
  end.

(* `impl CSerialize for Function`, wrap_as_variadic = None, called with an empty stack *)
Definition wrapper (name suffix : string) (ret : cty) (args : list (option string * cty))
  : list tok :=
  let a := name_args 0 args in
  serialize ret [] ++
  [lex_word (String.append name suffix); TLPar] ++ serialize_args a ++
  [TRPar; TLBrace] ++ (if is_void ret then [] else [TReturn]) ++
  [lex_word name; TLPar] ++ sep_join [TComma] (map (fun p => [lex_word (fst p)]) a) ++
  [TRPar; TSemi; TRBrace].

(* observers of the wrapper text *)
Fixpoint after_lbrace (ts : list tok) : list tok :=
  match ts with
  | [] => []
  | TLBrace :: r => r
  | _ :: r => after_lbrace r
  end.

Fixpoint before_lbrace (ts : list tok) : list tok :=
  match ts with
  | [] => []
  | TLBrace :: _ => []
  | t :: r => t :: before_lbrace r
  end.

Fixpoint idents_until_rpar (ts : list tok) : list string :=
  match ts with
  | TId s :: r => s :: idents_until_rpar r
  | TComma :: r => idents_until_rpar r
  | _ => []
  end.

(* the identifiers between "(" and ")" of the call statement in the body *)
Definition call_args (ts : list tok) : list string :=
  match after_lbrace ts with
  | TReturn :: _ :: TLPar :: r => idents_until_rpar r
  | _ :: TLPar :: r => idents_until_rpar r
  | _ => []
  end.

(* is the first statement of the body a `return`? *)
Definition body_returns (ts : list tok) : bool :=
  match after_lbrace ts with
  | TReturn :: _ => true
  | _ => false
  end.

(* ------------------------------------------------------------------ reader *)
(* Written from the grammar of C11 6.7.6 / 6.7.7, not from the printer.

     declaration      = specifiers declarator
     specifiers       = [const] ( (struct|union|enum) tag | typedef-name | keyword+ )
     declarator       = ( '*' [const] )* direct
     direct           = ( identifier | '(' declarator ')' | <empty, abstract> ) suffix*
     suffix           = '[' n ']' | '(' 'void' ')' | '(' param (',' param)* ')'
     param            = specifiers declarator

   The classic ambiguity (is an identifier a type name or a declared name?) is settled
   the way C settles it: by the set [td] of typedef names in scope.  Tags live in their
   own name space. *)

(* the specifier words the printer's fixed strings use (lines 227-291) *)
Definition type_keywords : list string :=
  ["void"; "nullptr_t"; "bool"; "signed"; "unsigned"; "char"; "wchar_t"; "short"; "int";
   "long"; "_Float16"; "float"; "double"; "__float128"; "complex"; "__complex128"].

Definition mem (s : string) (l : list string) : bool := existsb (String.eqb s) l.

Definition is_kw (s : string) : bool := mem s type_keywords.
Definition is_tag_kw (s : string) : bool := mem s ["struct"; "union"; "enum"].
Definition reserved (s : string) : bool :=
  is_kw s || is_tag_kw s || String.eqb s "const" || String.eqb s "return".

(* may s be a tag / an ordinary identifier *)
Definition tag_ok (s : string) : bool := negb (reserved s).
Definition ident_ok (td : list string) (s : string) : bool := negb (reserved s) && negb (mem s td).

(* declarators as syntax trees *)
Inductive dtor :=
| DName (o : option string)           (* identifier, or nothing (abstract) *)
| DPtr (c : bool) (d : dtor)          (* * [const] D *)
| DArr (d : dtor) (n : N)             (* D [n] *)
| DFun (d : dtor) (ps : list (option string * cty)).   (* D (params) *)

(* 6.7.6.1-3: the type and name that `T D` declares *)
Fixpoint apply_dtor (d : dtor) (base : cty) : option string * cty :=
  match d with
  | DName o => (o, base)
  | DPtr c d' => apply_dtor d' (CPtr c base)
  | DArr d' n => apply_dtor d' (CArr base n)
  | DFun d' ps => apply_dtor d' (CFun false base ps)
  end.

Fixpoint span_kw (ts : list tok) : list string * list tok :=
  match ts with
  | TId s :: r => if is_kw s then let (ws, r') := span_kw r in (s :: ws, r') else ([], ts)
  | _ => ([], ts)
  end.

Definition p_spec (td : list string) (ts : list tok) : option (cty * list tok) :=
  let (c, ts1) := match ts with TConst :: r => (true, r) | _ => (false, ts) end in
  match ts1 with
  | TId k :: r =>
      if is_tag_kw k then
        match r with
        | TId tag :: r' => if tag_ok tag then Some (CBase [k; tag] c, r') else None
        | _ => None
        end
      else if is_kw k then let (ws, r') := span_kw r in Some (CBase (k :: ws) c, r')
      else if mem k td then Some (CBase [k] c, r)
      else None
  | _ => None
  end.

(* does the token after '(' start a parenthesised declarator (rather than a parameter list)? *)
Definition starts_group (td : list string) (ts : list tok) : bool :=
  match ts with
  | TStar :: _ | TLPar :: _ | TLBrk :: _ => true
  | TId s :: _ => ident_ok td s
  | _ => false
  end.

Fixpoint p_dtor (td : list string) (f : nat) (ts : list tok) {struct f}
  : option (dtor * list tok) :=
  match f with
  | O => None
  | S f' =>
      match ts with
      | TStar :: TConst :: r =>
          match p_dtor td f' r with Some (d, r') => Some (DPtr true d, r') | None => None end
      | TStar :: r =>
          match p_dtor td f' r with Some (d, r') => Some (DPtr false d, r') | None => None end
      | TId s :: r =>
          if ident_ok td s then p_suffix td f' (DName (Some s)) r else None
      | TLPar :: r =>
          if starts_group td r then
            match p_dtor td f' r with
            | Some (d, TRPar :: r') => p_suffix td f' d r'
            | _ => None
            end
          else p_suffix td f' (DName None) ts
      | _ => p_suffix td f' (DName None) ts
      end
  end
with p_suffix (td : list string) (f : nat) (d : dtor) (ts : list tok) {struct f}
  : option (dtor * list tok) :=
  match f with
  | O => None
  | S f' =>
      match ts with
      | TLBrk :: TNum n :: TRBrk :: r => p_suffix td f' (DArr d n) r
      | TLPar :: r =>
          match p_params td f' r with
          | Some (ps, r') => p_suffix td f' (DFun d ps) r'
          | None => None
          end
      | _ => Some (d, ts)
      end
  end
with p_params (td : list string) (f : nat) (ts : list tok) {struct f}
  : option (list (option string * cty) * list tok) :=
  match f with
  | O => None
  | S f' =>
      match ts with
      | TId s :: TRPar :: r => if String.eqb s "void" then Some ([], r) else p_plist td f' ts
      | _ => p_plist td f' ts
      end
  end
with p_plist (td : list string) (f : nat) (ts : list tok) {struct f}
  : option (list (option string * cty) * list tok) :=
  match f with
  | O => None
  | S f' =>
      match p_spec td ts with
      | None => None
      | Some (b, r) =>
          match p_dtor td f' r with
          | None => None
          | Some (d, r') =>
              match r' with
              | TRPar :: r'' => Some ([apply_dtor d b], r'')
              | TComma :: r'' =>
                  match p_plist td f' r'' with
                  | Some (ps, r3) => Some (apply_dtor d b :: ps, r3)
                  | None => None
                  end
              | _ => None
              end
          end
      end
  end.

Definition denote_td (td : list string) (ts : list tok) : option (string * cty) :=
  match p_spec td ts with
  | None => None
  | Some (b, r) =>
      match p_dtor td (2 * List.length ts + 2) r with
      | Some (d, []) =>
          match apply_dtor d b with
          | (Some n, t) => Some (n, t)
          | (None, _) => None
          end
      | _ => None
      end
  end.

(* no typedef names in scope *)
Definition denote (ts : list tok) : option (string * cty) := denote_td [] ts.

(* ------------------------------------------------------------------ the good class *)

(* return types: the printer writes them with an EMPTY stack and puts the rest of the
   declarator after them, which is only right when nothing of the return type's own
   declarator has to come after that rest: pointers to ... to a base type *)
Fixpoint ptr_base (t : cty) : bool :=
  match t with
  | CBase _ _ => true
  | CPtr _ t' => ptr_base t'
  | _ => false
  end.

Definition is_some {A} (o : option A) : bool := match o with Some _ => true | None => false end.
Definition is_nil {A} (l : list A) : bool := match l with [] => true | _ => false end.

Fixpoint N_list_eqb (a b : list N) : bool :=
  match a, b with
  | [], [] => true
  | x :: a', y :: b' => N.eqb x y && N_list_eqb a' b'
  | _, _ => false
  end.

(* walking down from the declared object:
     named : is there a name at the bottom of the stack
     stars : has a pointer been pushed on the way
     ds    : the array lengths met on the way, outermost first
   The class is exact (Properties.decl_roundtrip_exact): under the side conditions the
   output reads back as the type iff simple_go says true.
     - an array is fine as long as no pointer has been pushed (arrays of pointers are
       right, pointers to arrays are not);
     - the array lengths must read the same in both directions, because "[a][b]" is
       written "[b][a]";
     - a function type must not be const ("const " would be popped in front of the "*"),
       needs a pointer or a name for its parentheses, must not sit under an array (the
       array suffix would land after the parameter list), and its return type must be
       pointers over a base type (it is written with an empty stack, in front). *)
Fixpoint simple_go (named stars : bool) (ds : list N) (t : cty) : bool :=
  match t with
  | CBase _ _ => N_list_eqb ds (rev ds)          (* "[a][b]" comes out as "[b][a]" *)
  | CPtr _ t' => simple_go named true ds t'
  | CArr t' n => negb stars && simple_go named false (ds ++ [n]) t'
  | CFun c r args =>
      negb c && (stars || named) && is_nil ds && ptr_base r &&
      forallb (fun p => simple_go (is_some (fst p)) false [] (snd p)) args
  end.

Definition simple (t : cty) : bool := simple_go true false [] t.
Definition simple_param (p : option string * cty) : bool :=
  simple_go (is_some (fst p)) false [] (snd p).

(* ------------------------------------------------------------------ side conditions *)

(* the words of a base type form a specifier list *)
Definition wf_words (td : list string) (ws : list string) : bool :=
  (negb (is_nil ws) && forallb is_kw ws) ||
  match ws with
  | [w] => mem w td && negb (reserved w)
  | [k; tag] => is_tag_kw k && tag_ok tag
  | _ => false
  end.

Definition wf_oname (td : list string) (on : option string) : bool :=
  match on with Some n => ident_ok td n | None => true end.

(* (void) means "no parameters" (6.7.6.3p10), so a sole unnamed `void` parameter is
   not a type of its own *)
Definition sole_void (args : list (option string * cty)) : bool :=
  match args with
  | [(None, CBase [w] false)] => String.eqb w "void"
  | _ => false
  end.

Fixpoint wf_ty (td : list string) (t : cty) : bool :=
  match t with
  | CBase ws _ => wf_words td ws
  | CPtr _ t' => wf_ty td t'
  | CArr t' _ => wf_ty td t'
  | CFun _ r args =>
      wf_ty td r && negb (sole_void args) &&
      forallb (fun p => wf_oname td (fst p) && wf_ty td (snd p)) args
  end.

Definition wf_names_td (td : list string) (t : cty) (n : string) : Prop :=
  ident_ok td n = true /\ wf_ty td t = true.

Definition wf_names (t : cty) (n : string) : Prop := wf_names_td [] t n.

(* side conditions for the wrapper *)
Definition plain_word (s : string) : bool :=
  negb (String.eqb s "const") && negb (String.eqb s "return").

Definition wf_wrapper (td : list string) (name suffix : string) (ret : cty)
           (args : list (option string * cty)) : Prop :=
  ident_ok td (String.append name suffix) = true /\
  ptr_base ret = true /\ wf_ty td ret = true /\
  forallb (fun p => ident_ok td (fst p) && simple (snd p) && wf_ty td (snd p))
          (name_args 0 args) = true.

(* every word the printer passes through the lexer for a type: specifier words and
   parameter names *)
Fixpoint cty_words (t : cty) : list string :=
  match t with
  | CBase ws _ => ws
  | CPtr _ t' => cty_words t'
  | CArr t' _ => cty_words t'
  | CFun _ r args =>
      cty_words r ++
      flat_map (fun p => match fst p with Some n => [n] | None => [] end ++ cty_words (snd p)) args
  end.

(* nothing in the wrapper text is spelled `return` except the keyword itself *)
Definition no_return_words (name suffix : string) (ret : cty)
           (args : list (option string * cty)) : bool :=
  forallb (fun s => negb (String.eqb s "return"))
          (name :: String.append name suffix :: cty_words ret ++
           flat_map (fun p => fst p :: cty_words (snd p)) (name_args 0 args)).

(* ------------------------------------------------------------------ vocabulary of the proofs *)

Definition ptr_item (c : bool) : sitem := if c then SStarConst else SStar.

(* a stack met while printing: the pointers pushed so far (top first) over the name *)
Definition stack (cs : list bool) (on : option string) : list sitem :=
  map ptr_item cs ++ param_stack on.

Definition name_toks (on : option string) : list tok :=
  match on with Some n => [lex_word n] | None => [] end.

(* cs is in stack order: the head is the innermost pointer *)
Fixpoint ptrs (cs : list bool) (t : cty) : cty :=
  match cs with [] => t | c :: r => ptrs r (CPtr c t) end.

(* ds outermost first *)
Fixpoint arrays (ds : list N) (t : cty) : cty :=
  match ds with [] => t | d :: r => CArr (arrays r t) d end.

Definition brks (ds : list N) : list tok := flat_map (fun n => [TLBrk; TNum n; TRBrk]) ds.

Fixpoint ptrwrap (cs : list bool) (d : dtor) : dtor :=
  match cs with [] => d | c :: r => DPtr c (ptrwrap r d) end.

Fixpoint arrwrap (ds : list N) (d : dtor) : dtor :=
  match ds with [] => d | n :: r => arrwrap r (DArr d n) end.

Definition params_toks (args : list (option string * cty)) : list tok :=
  match args with
  | [] => [TLPar; lex_word "void"; TRPar]
  | _ :: _ =>
      [TLPar] ++
      sep_join [TComma] (map (fun p => serialize (snd p) (param_stack (fst p))) args) ++
      [TRPar]
  end.

(* what may follow a complete declaration *)
Definition follow_ok (ts : list tok) : bool :=
  match ts with [] | TComma :: _ | TRPar :: _ => true | _ => false end.
(* the next token is not a specifier keyword *)
Definition nokw_head (ts : list tok) : bool :=
  match ts with TId s :: _ => negb (is_kw s) | _ => true end.
(* the next token is not `const` *)
Definition nc_head (ts : list tok) : bool :=
  match ts with TConst :: _ => false | _ => true end.
(* the next token cannot start a non-abstract declarator *)
Definition abs_head (ts : list tok) : bool :=
  match ts with [] | TLBrk :: _ | TRPar :: _ | TComma :: _ => true | _ => false end.

Definition not_lbrace (t : tok) : bool := match t with TLBrace => false | _ => true end.
Definition not_return (t : tok) : bool := match t with TReturn => false | _ => true end.
Definition is_punct (t : tok) : bool :=
  match t with
  | TNum _ | TStar | TLPar | TRPar | TLBrk | TRBrk | TComma | TConst => true
  | _ => false
  end.

(* "the reader accepts ts as a declaration of (on, T), stops in front of rest" *)
Definition reads (td : list string) (f : nat) (ts : list tok)
           (on : option string) (T : cty) (rest : list tok) : Prop :=
  exists b r d, p_spec td ts = Some (b, r) /\ p_dtor td f r = Some (d, rest) /\
                apply_dtor d b = (on, T).

(* the invariant proved by induction on the type: whatever pointers are already on the
   stack and whatever array suffixes are still owed, a type in the good class is read
   back as itself *)
Definition reads_ok (t : cty) : Prop :=
  forall td cs on ds rest f,
    simple_go (is_some on) (negb (is_nil cs)) ds t = true ->
    wf_ty td t = true -> wf_oname td on = true -> follow_ok rest = true ->
    2 * List.length (serialize t (stack cs on) ++ brks (rev ds)) + 2 <= f ->
    reads td f (serialize t (stack cs on) ++ brks (rev ds) ++ rest)
          on (arrays ds (ptrs cs t)) rest.

Definition ser_param (p : option string * cty) : list tok :=
  serialize (snd p) (param_stack (fst p)).

(* the two halves of the wrapper text, around the "{" *)
Definition wrapper_head (name suffix : string) (ret : cty) (args : list (option string * cty))
  : list tok :=
  serialize ret [] ++ [lex_word (String.append name suffix); TLPar] ++
  serialize_args (name_args 0 args) ++ [TRPar].

Definition wrapper_body (name : string) (ret : cty) (args : list (option string * cty))
  : list tok :=
  (if is_void ret then [] else [TReturn]) ++
  [lex_word name; TLPar] ++
  sep_join [TComma] (map (fun p => [lex_word (fst p)]) (name_args 0 args)) ++
  [TRPar; TSemi; TRBrace].

(* the parameters as the wrapper declares them: all named *)
Definition named_args (args : list (option string * cty)) : list (option string * cty) :=
  map (fun p => (Some (fst p), snd p)) (name_args 0 args).

(* ------------------------------------------------------------------ what the output denotes, for EVERY type *)

Definition map_opt {A B} (f : A -> option B) : list A -> option (list B) :=
  fix go (l : list A) : option (list B) :=
    match l with
    | [] => Some []
    | x :: r =>
        match f x, go r with
        | Some y, Some ys => Some (y :: ys)
        | _, _ => None
        end
    end.

(* The type the reader finds in the printer's output (None: the output is not a
   declaration).  Same walk as the printer: cs = pointers pushed so far (top first),
   ds = array lengths met so far (outermost first).
     - down to a base type, every array ends up OUTSIDE every pointer, and the array
       lengths come out in reverse order;
     - down to a function type, the arrays met on the way end up in the RETURN type;
       nothing is readable if the function type is const, if there is neither a pointer
       nor a name to put in the parentheses, or if the return type is anything but
       pointers over a base type. *)
Fixpoint printed_as (named : bool) (cs : list bool) (ds : list N) (t : cty) : option cty :=
  match t with
  | CBase _ _ => Some (arrays (rev ds) (ptrs cs t))
  | CPtr c t' => printed_as named (c :: cs) ds t'
  | CArr t' n => printed_as named cs (ds ++ [n]) t'
  | CFun c r args =>
      if c || (is_nil cs && negb named) || negb (ptr_base r) then None
      else
        match map_opt (fun p =>
                 match printed_as (is_some (fst p)) [] [] (snd p) with
                 | Some T => Some (fst p, T)
                 | None => None
                 end) args with
        | Some args' => Some (ptrs cs (CFun false (arrays (rev ds) r) args'))
        | None => None
        end
  end.

Definition rd_param (p : option string * cty) : option (option string * cty) :=
  match printed_as (is_some (fst p)) [] [] (snd p) with
  | Some T => Some (fst p, T)
  | None => None
  end.

(* specifiers + declarator, as one step of the reader *)
Definition p_decl (td : list string) (f : nat) (ts : list tok)
  : option ((option string * cty) * list tok) :=
  match p_spec td ts with
  | None => None
  | Some (b, r) =>
      match p_dtor td f r with
      | None => None
      | Some (d, r') => Some (apply_dtor d b, r')
      end
  end.

(* the stack as the Function arm pops it *)
Definition cst (c : bool) (st : list sitem) : list sitem := if c then SConst :: st else st.

(* heads that cannot start a specifier list *)
Definition bad_spec_head (td : list string) (ts : list tok) : bool :=
  match ts with
  | TId k :: _ => negb (is_tag_kw k) && negb (is_kw k) && negb (mem k td)
  | TConst :: _ => false
  | _ => true
  end.

(* the full characterisation, as an invariant over the walk *)
Definition reads_char (t : cty) : Prop :=
  forall td cs on ds rest f,
    wf_ty td t = true -> wf_oname td on = true -> follow_ok rest = true ->
    2 * List.length (serialize t (stack cs on) ++ brks (rev ds) ++ rest) + 2 <= f ->
    p_decl td f (serialize t (stack cs on) ++ brks (rev ds) ++ rest) =
    match printed_as (is_some on) cs ds t with
    | Some T => Some ((on, T), rest)
    | None => None
    end.

(* a return type that is not pointers-over-base makes the whole declaration unreadable *)
Definition ret_rejected (r : cty) : Prop :=
  forall td cs1 ds1 c cs on Y f,
    wf_ty td r = true -> wf_oname td on = true ->
    ptr_base r = false \/ ds1 <> [] ->
    2 * List.length (serialize r (stack cs1 None) ++ brks (rev ds1) ++
                     TLPar :: pop_all (cst c (stack cs on)) ++ TRPar :: Y) + 2 <= f ->
    p_decl td f (serialize r (stack cs1 None) ++ brks (rev ds1) ++
                 TLPar :: pop_all (cst c (stack cs on)) ++ TRPar :: Y) = None.

(* the declarator spine of a type *)
Inductive frame := FPtr (c : bool) | FArr (n : N).

Fixpoint spine (t : cty) : list frame :=
  match t with
  | CPtr c t' => FPtr c :: spine t'
  | CArr t' n => FArr n :: spine t'
  | _ => []
  end.

Fixpoint core (t : cty) : cty :=
  match t with
  | CPtr _ t' => core t'
  | CArr t' _ => core t'
  | _ => t
  end.

Fixpoint plug (sp : list frame) (k : cty) : cty :=
  match sp with
  | [] => k
  | FPtr c :: r => CPtr c (plug r k)
  | FArr n :: r => CArr (plug r k) n
  end.

Fixpoint sp_arrs (sp : list frame) : list N :=
  match sp with [] => [] | FArr n :: r => n :: sp_arrs r | FPtr _ :: r => sp_arrs r end.

Fixpoint sp_ptrs (sp : list frame) : list bool :=
  match sp with [] => [] | FPtr c :: r => c :: sp_ptrs r | FArr _ :: r => sp_ptrs r end.

(* no array below a pointer *)
Fixpoint arrs_ok (stars : bool) (sp : list frame) : bool :=
  match sp with
  | [] => true
  | FPtr _ :: r => arrs_ok true r
  | FArr _ :: r => negb stars && arrs_ok false r
  end.

(* ------------------------------------------------------------------ values used in the examples *)

Local Open Scope N_scope.

Definition ex_int := CBase ["int"] false.
Definition ex_char := CBase ["char"] false.
Definition ex_void := CBase ["void"] false.
(* const unsigned long * ( *const cb)(struct S *s, void ( * )(void), char [4], int [3][3]) *)
Definition ex_cb : cty :=
  CPtr true (CFun false (CPtr false (CBase ["unsigned"; "long"] true))
    [(Some "s", CPtr false (CBase ["struct"; "S"] false));
     (None, CPtr false (CFun false ex_void []));
     (None, CArr ex_char 4);
     (Some "m", CArr (CArr ex_int 3) 3)]).
Definition ex_args : list (option string * cty) :=
  [(Some "a", ex_int); (None, ex_char); (Some "b", CPtr false ex_void); (None, ex_int)].
