(* C16 — parameter names of the wrapper: statements only. *)
From Coq Require Import List String Bool Arith.
From BG Require Import C16.Model C16.Names C16.NamesProofs.
Import ListNotations.
Open Scope string_scope.

(* A wrapper never declares two parameters of one name (so it compiles as far as names go, and forwards each
   argument to the right place by name) provided the C function's own parameter names are distinct -- which C
   guarantees -- and none of them is one of the names the wrapper invents for the unnamed ones. *)
Theorem param_names_nodup : forall args,
  NoDup (named args) ->
  forallb (fun n => negb (is_generated n (unnamed_count args))) (named args) = true ->
  NoDup (param_names args).
Proof. exact C16.NamesProofs.param_names_nodup. Qed.
Print Assumptions param_names_nodup.

(* named parameters keep their names, in order *)
Theorem param_names_keep_named : forall args,
  List.length (param_names args) = List.length args /\
  (forall i n t, nth_error args i = Some (Some n, t) -> nth_error (param_names args) i = Some n).
Proof. exact C16.NamesProofs.param_names_keep_named. Qed.
Print Assumptions param_names_keep_named.

(* without the side condition the statement is false: `int f(int, int arg_0)` (known finding
   C16-scenario:wrapper-does-not-compile:unnamed-parameter-clash) *)
Theorem param_names_clash_refuted : exists args,
  NoDup (named args) /\ ~ NoDup (param_names args).
Proof. exact C16.NamesProofs.param_names_clash_refuted. Qed.
Print Assumptions param_names_clash_refuted.

(* the side condition is exact for a single named parameter: *)
Theorem param_names_condition_needed : forall n k t t',
  k < n ->
  ~ NoDup (param_names ((Some (String.append "arg_" (dec k)), t) :: repeat (None, t') n)).
Proof. exact C16.NamesProofs.param_names_condition_needed. Qed.
Print Assumptions param_names_condition_needed.

Example names_example :
  param_names [(Some "arg_1", CBase ["int"] false); (None, CBase ["int"] false); (Some "arg_3", CBase ["int"] false)]
    = ["arg_1"; "arg_0"; "arg_3"] /\
  is_generated "arg_1" 1 = false /\ is_generated "arg_0" 1 = true.
Proof. vm_compute. repeat split; reflexivity. Qed.
