(* C05 -- property theorems.  This file contains nothing but statements closed
   by [exact Proofs.<lemma>], each followed by Print Assumptions.

   Subject: bindgen evaluates object-like integer macros with the crate
   cexpr 0.6 ([rs_eval]: untyped Wrapping<i64>) and then picks an integer
   kind for the constant ([macro_kind]).  The C meaning of the same macro
   body on an LP64 target is [c_eval]. *)
From Coq Require Import ZArith Bool List.
From BG Require Import C05.Model C05.Proofs.
Import ListNotations.
Open Scope Z_scope.

(* ------------------------------------------------------------------ *)
(* A. the kind chosen for a constant                                   *)
(* ------------------------------------------------------------------ *)

(* the kind always holds the value, and negative values get a signed kind *)
Theorem kind_holds_value : forall sd fit v, - 2 ^ 63 <= v < 2 ^ 63 ->
  kind_min (macro_kind sd fit v) <= v <= kind_max (macro_kind sd fit v) /\
  (v < 0 -> kind_signed (macro_kind sd fit v) = true).
Proof. exact Proofs.kind_holds_value. Qed.
Print Assumptions kind_holds_value.

(* with fit_macro_constants and the default (unsigned) variation, a
   non-negative value gets the narrowest unsigned kind that holds it; a
   negative value gets the narrowest signed kind, whatever the variation *)
Theorem kind_fit_minimal : forall v,
  (0 <= v < 2 ^ 63 ->
     kind_signed (macro_kind false true v) = false /\
     kind_min (macro_kind false true v) <= v <= kind_max (macro_kind false true v) /\
     forall k', kind_signed k' = false -> kind_min k' <= v <= kind_max k' ->
                kind_bits (macro_kind false true v) <= kind_bits k') /\
  (- 2 ^ 63 <= v < 0 -> forall sd,
     kind_signed (macro_kind sd true v) = true /\
     kind_min (macro_kind sd true v) <= v <= kind_max (macro_kind sd true v) /\
     forall k', kind_signed k' = true -> kind_min k' <= v <= kind_max k' ->
                kind_bits (macro_kind sd true v) <= kind_bits k').
Proof. exact Proofs.kind_fit_minimal. Qed.
Print Assumptions kind_fit_minimal.

(* with the signed variation every value gets the narrowest signed kind *)
Theorem kind_fit_minimal_signed_default : forall v, - 2 ^ 63 <= v < 2 ^ 63 ->
  kind_signed (macro_kind true true v) = true /\
  kind_min (macro_kind true true v) <= v <= kind_max (macro_kind true true v) /\
  forall k', kind_signed k' = true -> kind_min k' <= v <= kind_max k' ->
             kind_bits (macro_kind true true v) <= kind_bits k'.
Proof. exact Proofs.kind_fit_minimal_signed_default. Qed.
Print Assumptions kind_fit_minimal_signed_default.

(* without fit_macro_constants nothing narrower than 32 bits is chosen *)
Theorem kind_nofit_at_least_32 : forall sd v,
  32 <= kind_bits (macro_kind sd false v).
Proof. exact Proofs.kind_nofit_at_least_32. Qed.
Print Assumptions kind_nofit_at_least_32.

Example macro_kind_nonvacuous :
  macro_kind false true 255 = U8 /\ macro_kind false true 256 = U16 /\
  macro_kind false true 65536 = U32 /\ macro_kind false true 4294967296 = U64 /\
  macro_kind false false 1 = U32 /\ macro_kind true false 1 = I32 /\
  macro_kind false true (-1) = I8 /\ macro_kind false true (-129) = I16 /\
  macro_kind false true (-32769) = I32 /\
  macro_kind false true (-2147483649) = I64 /\
  macro_kind true true 128 = I16.
Proof. exact Proofs.macro_kind_nonvacuous. Qed.
Print Assumptions macro_kind_nonvacuous.

(* ------------------------------------------------------------------ *)
(* B. sanity of the two evaluators                                     *)
(* ------------------------------------------------------------------ *)

(* every C result has one of the four types and is representable in it
   (in particular the conversions to a signed type inside c_eval, which the
   model takes to be the identity, never see an unrepresentable value) *)
Theorem c_eval_in_range : forall e t v,
  c_eval e = Some (t, v) ->
  (bits t = 32%N \/ bits t = 64%N) /\ tmin t <= v <= tmax t.
Proof. exact Proofs.c_eval_in_range. Qed.
Print Assumptions c_eval_in_range.

(* every cexpr result is an i64 *)
Theorem rs_eval_in_i64 : forall e v,
  rs_eval e = RsInt v -> - 2 ^ 63 <= v < 2 ^ 63.
Proof. exact Proofs.rs_eval_in_i64. Qed.
Print Assumptions rs_eval_in_i64.

(* ... so the precondition of kind_holds_value is always met in the tool *)
Theorem constant_kind_holds_value : forall e v sd fit,
  rs_eval e = RsInt v ->
  kind_min (macro_kind sd fit v) <= v <= kind_max (macro_kind sd fit v) /\
  (v < 0 -> kind_signed (macro_kind sd fit v) = true).
Proof. exact Proofs.constant_kind_holds_value. Qed.
Print Assumptions constant_kind_holds_value.

(* ------------------------------------------------------------------ *)
(* C. where cexpr is faithful to C                                     *)
(* ------------------------------------------------------------------ *)

Theorem faithful_partial : forall e t v,
  benign e = true -> c_eval e = Some (t, v) -> rs_eval e = RsInt v.
Proof. exact Proofs.faithful_partial. Qed.
Print Assumptions faithful_partial.

Theorem benign_agrees_with_ideal : forall e, benign e = true ->
  exists t v, c_eval e = Some (t, v) /\ ideal e = Some v.
Proof. exact Proofs.benign_agrees_with_ideal. Qed.
Print Assumptions benign_agrees_with_ideal.

(* benign is hereditary and keeps every value inside i64 *)
Theorem benign_sub_un : forall o a, benign (Un o a) = true -> benign a = true.
Proof. exact Proofs.benign_sub_un. Qed.
Print Assumptions benign_sub_un.

Theorem benign_sub_bin : forall o a b,
  benign (Bin o a b) = true -> benign a = true /\ benign b = true.
Proof. exact Proofs.benign_sub_bin. Qed.
Print Assumptions benign_sub_bin.

Theorem benign_in_i64 : forall e t v,
  benign e = true -> c_eval e = Some (t, v) -> - 2 ^ 63 <= v < 2 ^ 63.
Proof. exact Proofs.benign_in_i64. Qed.
Print Assumptions benign_in_i64.

(* end to end: a benign macro becomes a constant with the C value, of a kind
   that holds it *)
Theorem benign_constant_correct : forall e t v sd fit,
  benign e = true -> c_eval e = Some (t, v) ->
  rs_eval e = RsInt v /\
  kind_min (macro_kind sd fit v) <= v <= kind_max (macro_kind sd fit v).
Proof. exact Proofs.benign_constant_correct. Qed.
Print Assumptions benign_constant_correct.

(* a syntactic sufficient condition: if every literal of the macro has a
   signed C type (int or long) then, whenever C defines the macro's value,
   the macro is benign and cexpr computes that value.  (Signed overflow is
   undefined in C, so there is nothing for Wrapping<i64> to get wrong.) *)
Theorem signed_only_benign : forall e t v,
  signed_only e = true -> c_eval e = Some (t, v) ->
  benign e = true /\ signed t = true.
Proof. exact Proofs.signed_only_benign. Qed.
Print Assumptions signed_only_benign.

Theorem signed_only_faithful : forall e t v,
  signed_only e = true -> c_eval e = Some (t, v) -> rs_eval e = RsInt v.
Proof. exact Proofs.signed_only_faithful. Qed.
Print Assumptions signed_only_faithful.

Example benign_nonvacuous :
  (* (1 << 4) | 3 *)
  benign (Bin BOr (Bin BShl (Lit Dec 1 false false) (Lit Dec 4 false false))
                  (Lit Dec 3 false false)) = true /\
  (* 10 * 1024 - 1 *)
  benign (Bin BSub (Bin BMul (Lit Dec 10 false false) (Lit Dec 1024 false false))
                   (Lit Dec 1 false false)) = true /\
  (* 0xFFu >> 2 *)
  benign (Bin BShr (Lit Hex 255 true false) (Lit Dec 2 false false)) = true /\
  (* -(5) *)
  benign (Un UNeg (Lit Dec 5 false false)) = true /\
  (* ~0x0F & 0xFF *)
  benign (Bin BAnd (Un UNot (Lit Hex 15 false false))
                   (Lit Hex 255 false false)) = true /\
  (* the three witnesses of faithful_refuted *)
  benign (Un UNot (Lit Dec 0 true false)) = false /\
  benign (Bin BAdd (Lit Hex 4294967295 false false) (Lit Dec 1 false false))
    = false /\
  benign (Bin BDiv (Un UNeg (Lit Dec 1 false false)) (Lit Dec 2 true false))
    = false.
Proof. exact Proofs.benign_nonvacuous. Qed.
Print Assumptions benign_nonvacuous.

Example benign_values_nonvacuous :
  c_eval (Bin BOr (Bin BShl (Lit Dec 1 false false) (Lit Dec 4 false false))
                  (Lit Dec 3 false false)) = Some (t_int, 19) /\
  c_eval (Bin BSub (Bin BMul (Lit Dec 10 false false) (Lit Dec 1024 false false))
                   (Lit Dec 1 false false)) = Some (t_int, 10239) /\
  c_eval (Bin BShr (Lit Hex 255 true false) (Lit Dec 2 false false))
    = Some (t_uint, 63) /\
  c_eval (Un UNeg (Lit Dec 5 false false)) = Some (t_int, -5) /\
  c_eval (Bin BAnd (Un UNot (Lit Hex 15 false false))
                   (Lit Hex 255 false false)) = Some (t_int, 240).
Proof. exact Proofs.benign_values_nonvacuous. Qed.
Print Assumptions benign_values_nonvacuous.

Example signed_only_nonvacuous :
  signed_only (Bin BOr (Bin BShl (Lit Dec 1 false false) (Lit Dec 4 false false))
                       (Lit Dec 3 false false)) = true /\
  signed_only (Bin BAnd (Un UNot (Lit Hex 15 false false))
                        (Lit Hex 255 false false)) = true /\
  signed_only (Bin BShr (Lit Hex 255 true false) (Lit Dec 2 false false))
    = false /\
  (* 0x80000000 has type unsigned int although it carries no suffix *)
  signed_only (Lit Hex 2147483648 false false) = false.
Proof. exact Proofs.signed_only_nonvacuous. Qed.
Print Assumptions signed_only_nonvacuous.

(* ------------------------------------------------------------------ *)
(* D. where it is not                                                  *)
(* ------------------------------------------------------------------ *)

(* "cexpr computes the C value whenever both produce one" is false *)
Theorem faithful_refuted :
  (exists e t v v',
     c_eval e = Some (t, v) /\ rs_eval e = RsInt v' /\ v <> v') /\
  (* ~0u : C 4294967295 (unsigned int), cexpr -1 *)
  (c_eval (Un UNot (Lit Dec 0 true false)) = Some (t_uint, 4294967295) /\
   rs_eval (Un UNot (Lit Dec 0 true false)) = RsInt (-1)) /\
  (* 0xFFFFFFFF + 1 : C 0 (unsigned int wraps), cexpr 4294967296 *)
  (c_eval (Bin BAdd (Lit Hex 4294967295 false false) (Lit Dec 1 false false))
     = Some (t_uint, 0) /\
   rs_eval (Bin BAdd (Lit Hex 4294967295 false false) (Lit Dec 1 false false))
     = RsInt 4294967296) /\
  (* -1 / 2u : C 2147483647 (-1 converted to unsigned int), cexpr 0 *)
  (c_eval (Bin BDiv (Un UNeg (Lit Dec 1 false false)) (Lit Dec 2 true false))
     = Some (t_uint, 2147483647) /\
   rs_eval (Bin BDiv (Un UNeg (Lit Dec 1 false false)) (Lit Dec 2 true false))
     = RsInt 0).
Proof. exact Proofs.faithful_refuted. Qed.
Print Assumptions faithful_refuted.

Theorem faithful_refuted_more :
  (* 3u << 31 *)
  (c_eval (Bin BShl (Lit Dec 3 true false) (Lit Dec 31 false false))
     = Some (t_uint, 2147483648) /\
   rs_eval (Bin BShl (Lit Dec 3 true false) (Lit Dec 31 false false))
     = RsInt 6442450944) /\
  (* 0xFFFFFFFFFFFFFFFF >> 63 *)
  (c_eval (Bin BShr (Lit Hex 18446744073709551615 false false)
                    (Lit Dec 63 false false)) = Some (t_ulong, 1) /\
   rs_eval (Bin BShr (Lit Hex 18446744073709551615 false false)
                     (Lit Dec 63 false false)) = RsInt (-1)) /\
  (* 0xFFFFFFFFFFFFFFFF *)
  (c_eval (Lit Hex 18446744073709551615 false false)
     = Some (t_ulong, 18446744073709551615) /\
   rs_eval (Lit Hex 18446744073709551615 false false) = RsInt (-1)) /\
  (* 1 << 32, 1 << -1, 2147483647 + 1 : undefined in C, a number in cexpr *)
  (c_eval (Bin BShl (Lit Dec 1 false false) (Lit Dec 32 false false)) = None /\
   rs_eval (Bin BShl (Lit Dec 1 false false) (Lit Dec 32 false false))
     = RsInt 4294967296) /\
  (c_eval (Bin BShl (Lit Dec 1 false false)
                    (Un UNeg (Lit Dec 1 false false))) = None /\
   rs_eval (Bin BShl (Lit Dec 1 false false)
                     (Un UNeg (Lit Dec 1 false false)))
     = RsInt (-9223372036854775808)) /\
  (c_eval (Bin BAdd (Lit Dec 2147483647 false false) (Lit Dec 1 false false))
     = None /\
   rs_eval (Bin BAdd (Lit Dec 2147483647 false false) (Lit Dec 1 false false))
     = RsInt 2147483648).
Proof. exact Proofs.faithful_refuted_more. Qed.
Print Assumptions faithful_refuted_more.

(* "evaluation never panics" is false: 1/0 aborts the tool *)
Theorem eval_panics_refuted :
  exists e, rs_eval e = RsPanic /\ c_eval e = None.
Proof. exact Proofs.eval_panics_refuted. Qed.
Print Assumptions eval_panics_refuted.

(* ... and a zero divisor is the only way to get there *)
Theorem rs_eval_total_on_nonzero_divisors : forall e,
  no_zero_divisor e = true -> rs_eval e <> RsPanic.
Proof. exact Proofs.rs_eval_total_on_nonzero_divisors. Qed.
Print Assumptions rs_eval_total_on_nonzero_divisors.

Example no_zero_divisor_nonvacuous :
  no_zero_divisor (Bin BDiv (Lit Dec 7 false false) (Lit Dec 2 false false))
    = true /\
  no_zero_divisor (Bin BDiv (Lit Dec 1 false false) (Lit Dec 0 false false))
    = false /\
  (* a divisor that is zero only after cexpr's own arithmetic: 1 % (2 - 2) *)
  no_zero_divisor
    (Bin BRem (Lit Dec 1 false false)
              (Bin BSub (Lit Dec 2 false false) (Lit Dec 2 false false)))
    = false.
Proof. exact Proofs.no_zero_divisor_nonvacuous. Qed.
Print Assumptions no_zero_divisor_nonvacuous.
