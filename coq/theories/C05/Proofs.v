(* C05 -- proofs about the macro-constant model (Model.v). *)
From Coq Require Import ZArith Bool List Lia.
From BG Require Import C05.Model.
Import ListNotations.
Open Scope Z_scope.

(* ================================================================== *)
(* 0. small tactics                                                    *)
(* ================================================================== *)

(* split on the first [if] found in hypothesis H, remembering the test *)
Ltac dif H :=
  repeat match type of H with
         | context [if ?c then _ else _] => destruct c eqn:?
         end.

Ltac inv H := inversion H; subst; clear H.

(* ================================================================== *)
(* 1. macro_kind                                                       *)
(* ================================================================== *)

Ltac kstep :=
  match goal with
  | |- context [if ?c then _ else _] =>
      match c with
      | context [Z.ltb ?a ?b] =>
          destruct (Z.ltb_spec a b); cbn [orb negb andb]
      | context [negb ?x] => is_var x; destruct x; cbn [orb negb andb]
      | _ => is_var c; destruct c; cbn [orb negb andb]
      end
  end.

Definition holds (k : ikind) (v : Z) : Prop := kind_min k <= v <= kind_max k.

Lemma kind_holds_value : forall sd fit v, - 2 ^ 63 <= v < 2 ^ 63 ->
  kind_min (macro_kind sd fit v) <= v <= kind_max (macro_kind sd fit v) /\
  (v < 0 -> kind_signed (macro_kind sd fit v) = true).
Proof.
  intros sd fit v Hv. unfold macro_kind. rewrite !Z.gtb_ltb.
  repeat kstep; cbn [kind_min kind_max kind_signed kind_bits]; lia.
Qed.

Lemma kind_fit_minimal : forall v,
  (0 <= v < 2 ^ 63 ->
     kind_signed (macro_kind false true v) = false /\
     holds (macro_kind false true v) v /\
     forall k', kind_signed k' = false -> holds k' v ->
                kind_bits (macro_kind false true v) <= kind_bits k') /\
  (- 2 ^ 63 <= v < 0 -> forall sd,
     kind_signed (macro_kind sd true v) = true /\
     holds (macro_kind sd true v) v /\
     forall k', kind_signed k' = true -> holds k' v ->
                kind_bits (macro_kind sd true v) <= kind_bits k').
Proof.
  intros v. unfold holds. split.
  - intros Hv. unfold macro_kind. rewrite !Z.gtb_ltb.
    repeat kstep; try (exfalso; lia);
      cbn [kind_min kind_max kind_signed kind_bits];
      (split; [reflexivity | split; [lia | ]]);
      intros k' Hs Hh; destruct k'; try discriminate Hs;
      cbn [kind_min kind_max kind_signed kind_bits] in Hh |- *; lia.
  - intros Hv sd. unfold macro_kind. rewrite !Z.gtb_ltb.
    repeat kstep; try (exfalso; lia);
      cbn [kind_min kind_max kind_signed kind_bits];
      (split; [reflexivity | split; [lia | ]]);
      intros k' Hs Hh; destruct k'; try discriminate Hs;
      cbn [kind_min kind_max kind_signed kind_bits] in Hh |- *; lia.
Qed.

Lemma kind_fit_minimal_signed_default : forall v, - 2 ^ 63 <= v < 2 ^ 63 ->
  kind_signed (macro_kind true true v) = true /\
  holds (macro_kind true true v) v /\
  forall k', kind_signed k' = true -> holds k' v ->
             kind_bits (macro_kind true true v) <= kind_bits k'.
Proof.
  intros v Hv. unfold holds, macro_kind. rewrite !Z.gtb_ltb.
  repeat kstep; try (exfalso; lia);
    cbn [kind_min kind_max kind_signed kind_bits];
    (split; [reflexivity | split; [lia | ]]);
    intros k' Hs Hh; destruct k'; try discriminate Hs;
    cbn [kind_min kind_max kind_signed kind_bits] in Hh |- *; lia.
Qed.

Lemma kind_nofit_at_least_32 : forall sd v,
  32 <= kind_bits (macro_kind sd false v).
Proof.
  intros sd v. unfold macro_kind. rewrite !Z.gtb_ltb.
  repeat kstep; cbn [kind_bits]; lia.
Qed.

(* ================================================================== *)
(* 2. cexpr never panics unless a divisor is zero                      *)
(* ================================================================== *)

Lemma rs_bin_panic : forall o x y,
  rs_bin o x y = RsPanic -> (o = BDiv \/ o = BRem) /\ y = 0.
Proof.
  intros o x y H. destruct o; cbn [rs_bin] in H; try discriminate H;
    (destruct (Z.eqb_spec y 0) as [Hy | Hy]; [auto | discriminate H]).
Qed.

Lemma rs_eval_total_on_nonzero_divisors : forall e,
  no_zero_divisor e = true -> rs_eval e <> RsPanic.
Proof.
  induction e as [r v u l | o a IHa | o a IHa b IHb]; intros Hn.
  - cbn [rs_eval]. unfold rs_lit.
    destruct ((v <? 0) || (2 ^ 64 <=? v)); discriminate.
  - cbn [no_zero_divisor] in Hn. cbn [rs_eval].
    specialize (IHa Hn). destruct (rs_eval a); [discriminate | exact IHa | discriminate].
  - cbn [no_zero_divisor] in Hn.
    apply andb_true_iff in Hn. destruct Hn as [Hn Hd].
    apply andb_true_iff in Hn. destruct Hn as [Hna Hnb].
    specialize (IHa Hna). specialize (IHb Hnb). cbn [rs_eval].
    destruct (rs_eval a) as [x | | ]; [ | exact IHa | discriminate].
    destruct (rs_eval b) as [y | | ]; [ | exact IHb | discriminate].
    intros Hp. apply rs_bin_panic in Hp. destruct Hp as [[Ho | Ho] Hy]; subst o y;
      cbn [Z.eqb negb] in Hd; discriminate Hd.
Qed.

(* ================================================================== *)
(* 3. types produced by c_eval are one of the four                     *)
(* ================================================================== *)

Definition wt (t : ctype) : Prop := bits t = 32%N \/ bits t = 64%N.

Lemma wt_width : forall t, wt t -> width t = 32 \/ width t = 64.
Proof.
  intros t [H | H]; unfold width; rewrite H; [left | right]; reflexivity.
Qed.

Lemma first_fit_spec : forall cs v t,
  first_fit cs v = Some t -> In t cs /\ fits t v = true.
Proof.
  induction cs as [ | c cs IH]; intros v t H; cbn [first_fit] in H.
  - discriminate H.
  - destruct (fits c v) eqn:Hf.
    + inv H. split; [left; reflexivity | exact Hf].
    + apply IH in H. destruct H as [Hi Hf']. split; [right; exact Hi | exact Hf'].
Qed.

Lemma lit_candidates_wt : forall r u l t, In t (lit_candidates r u l) -> wt t.
Proof.
  intros r u l t H.
  destruct r, u, l; cbn in H; intuition (subst t; unfold wt; cbn; auto).
Qed.

Lemma lit_type_spec : forall r v u l t,
  lit_type r v u l = Some t -> wt t /\ 0 <= v /\ fits t v = true.
Proof.
  intros r v u l t H. unfold lit_type in H.
  destruct (Z.ltb_spec v 0) as [Hneg | Hpos]; [discriminate H | ].
  apply first_fit_spec in H. destruct H as [Hi Hf].
  split; [eapply lit_candidates_wt; exact Hi | split; [exact Hpos | exact Hf]].
Qed.

Lemma uac_cases : forall a b, uac a b = a \/ uac a b = b.
Proof.
  intros a b. unfold uac.
  destruct (Bool.eqb (signed a) (signed b)), (signed a),
    (bits a <=? bits b)%N, (bits b <=? bits a)%N; auto.
Qed.

Lemma uac_wt : forall a b, wt a -> wt b -> wt (uac a b).
Proof.
  intros a b Ha Hb. destruct (uac_cases a b) as [H | H]; rewrite H; assumption.
Qed.

Lemma norm_type : forall t z t' r, norm t z = Some (t', r) -> t' = t.
Proof.
  intros t z t' r H. unfold norm in H. dif H; try discriminate H; inv H; reflexivity.
Qed.

Lemma c_un_type : forall o t v t' r, c_un o t v = Some (t', r) -> t' = t.
Proof.
  intros o t v t' r H. destruct o; cbn [c_un] in H.
  - inv H. reflexivity.
  - eapply norm_type; exact H.
  - inv H. reflexivity.
Qed.

Lemma c_shift_spec : forall o t a n t' r,
  c_shift o t a n = Some (t', r) -> t' = t /\ 0 <= n < width t.
Proof.
  intros o t a n t' r H. unfold c_shift in H.
  destruct (Z.ltb_spec n 0) as [Hn0 | Hn0];
    destruct (Z.leb_spec (width t) n) as [Hnw | Hnw];
    cbn [orb] in H; try discriminate H.
  split; [ | lia].
  destruct o; dif H; try discriminate H; inv H; reflexivity.
Qed.

Lemma c_arith_type : forall o t x y t' r,
  c_arith o t x y = Some (t', r) -> t' = t.
Proof.
  intros o t x y t' r H.
  destruct o; cbn [c_arith] in H; unfold norm in H;
    dif H; try discriminate H; inv H; reflexivity.
Qed.

Lemma c_bin_type : forall o ta va tb vb t' r,
  c_bin o ta va tb vb = Some (t', r) ->
  t' = if is_shift o then ta else uac ta tb.
Proof.
  intros o ta va tb vb t' r H. unfold c_bin in H.
  destruct (is_shift o).
  - apply c_shift_spec in H. tauto.
  - apply c_arith_type in H. exact H.
Qed.

Lemma c_bin_shift_amount : forall o ta va tb vb p,
  is_shift o = true -> c_bin o ta va tb vb = Some p -> 0 <= vb < width ta.
Proof.
  intros o ta va tb vb [t' r] Hs H. unfold c_bin in H. rewrite Hs in H.
  apply c_shift_spec in H. tauto.
Qed.

Lemma c_eval_wt : forall e t v, c_eval e = Some (t, v) -> wt t.
Proof.
  induction e as [r z u l | o a IHa | o a IHa b IHb]; intros t v H;
    cbn [c_eval] in H.
  - destruct (lit_type r z u l) as [t0 | ] eqn:Hl; [ | discriminate H].
    inv H. apply lit_type_spec in Hl. tauto.
  - destruct (c_eval a) as [[ta va] | ]; [ | discriminate H].
    apply c_un_type in H. subst t. eapply IHa; reflexivity.
  - destruct (c_eval a) as [[ta va] | ]; [ | discriminate H].
    destruct (c_eval b) as [[tb vb] | ]; [ | discriminate H].
    apply c_bin_type in H. subst t.
    destruct (is_shift o).
    + eapply IHa; reflexivity.
    + apply uac_wt; [eapply IHa | eapply IHb]; reflexivity.
Qed.

(* ================================================================== *)
(* 4. the benign fragment: C, cexpr and exact arithmetic agree         *)
(* ================================================================== *)

Lemma in_i64_spec : forall z, in_i64 z = true <-> - 2 ^ 63 <= z < 2 ^ 63.
Proof.
  intros z. unfold in_i64. rewrite andb_true_iff, Z.leb_le, Z.ltb_lt. tauto.
Qed.

Lemma wrap64_id : forall z, - 2 ^ 63 <= z < 2 ^ 63 -> wrap64 z = z.
Proof. intros z H. unfold wrap64. rewrite Z.mod_small; lia. Qed.

Lemma to_i64_small : forall v, v < 2 ^ 63 -> to_i64 v = v.
Proof. intros v H. unfold to_i64. destruct (Z.ltb_spec v (2 ^ 63)) as [Hlt | Hge]; lia. Qed.

Lemma shamt_small : forall b, 0 <= b < 64 -> shamt b = b.
Proof.
  intros b H. unfold shamt. rewrite (Z.mod_small b) by lia.
  change 63 with (Z.ones 6). rewrite Z.land_ones by lia.
  apply Z.mod_small. change (2 ^ 6) with 64. lia.
Qed.

Lemma rs_un_exact : forall o v r,
  ideal_un o v = r -> - 2 ^ 63 <= r < 2 ^ 63 -> rs_un o v = r.
Proof.
  intros o v r Hi Hr. destruct o; cbn [ideal_un rs_un] in Hi |- *.
  - exact Hi.
  - rewrite Hi. apply wrap64_id. exact Hr.
  - exact Hi.
Qed.

Lemma rs_bin_exact : forall o x y r,
  ideal_bin o x y = Some r -> - 2 ^ 63 <= r < 2 ^ 63 ->
  (is_shift o = true -> 0 <= y < 64) ->
  rs_bin o x y = RsInt r.
Proof.
  intros o x y r Hi Hr Hs.
  destruct o; cbn [ideal_bin rs_bin is_shift] in Hi, Hs |- *;
    try (inv Hi; rewrite wrap64_id by exact Hr; reflexivity);
    try (inv Hi; reflexivity).
  - destruct (y =? 0); [discriminate Hi | ]. inv Hi.
    rewrite wrap64_id by exact Hr. reflexivity.
  - destruct (y =? 0); [discriminate Hi | ]. inv Hi.
    rewrite wrap64_id by exact Hr. reflexivity.
  - destruct (y <? 0); [discriminate Hi | ]. inv Hi.
    rewrite shamt_small by (apply Hs; reflexivity).
    rewrite wrap64_id by exact Hr. reflexivity.
  - destruct (y <? 0); [discriminate Hi | ]. inv Hi.
    rewrite shamt_small by (apply Hs; reflexivity). reflexivity.
Qed.

(* the single invariant from which both faithful_partial and
   benign_agrees_with_ideal follow *)
Lemma benign_inv : forall e, benign e = true ->
  exists t v, c_eval e = Some (t, v) /\ ideal e = Some v /\
              rs_eval e = RsInt v /\ - 2 ^ 63 <= v < 2 ^ 63.
Proof.
  induction e as [r z u l | o a IHa | o a IHa b IHb]; intros Hb.
  - cbn [benign] in Hb. cbn [c_eval ideal rs_eval].
    destruct (lit_type r z u l) as [t | ] eqn:Hl; [ | discriminate Hb].
    apply lit_type_spec in Hl. destruct Hl as [_ [Hz _]].
    apply in_i64_spec in Hb.
    exists t, z. repeat split; try lia.
    unfold rs_lit.
    destruct (Z.ltb_spec z 0) as [Hz0 | Hz0]; [lia | ].
    destruct (Z.leb_spec (2 ^ 64) z) as [Hz64 | Hz64]; [lia | ]. cbn [orb].
    rewrite to_i64_small by lia. reflexivity.
  - cbn [benign] in Hb. apply andb_true_iff in Hb. destruct Hb as [Hba Hu].
    destruct (IHa Hba) as [t [v [Hc [Hi [Hr Hv]]]]].
    cbn [c_eval ideal rs_eval]. rewrite Hc in Hu |- *. rewrite Hi, Hr.
    unfold benign_un in Hu.
    destruct (c_un o t v) as [[t' r] | ] eqn:Hcu; [ | discriminate Hu].
    apply andb_true_iff in Hu. destruct Hu as [He Hin].
    apply Z.eqb_eq in He. apply in_i64_spec in Hin.
    exists t', r. rewrite He.
    rewrite (rs_un_exact o v r He Hin). repeat split; lia.
  - cbn [benign] in Hb. apply andb_true_iff in Hb. destruct Hb as [Hb Hbb].
    apply andb_true_iff in Hb. destruct Hb as [Hba Hbb'].
    destruct (IHa Hba) as [ta [va [Hca [Hia [Hra Hva]]]]].
    destruct (IHb Hbb') as [tb [vb [Hcb [Hib [Hrb Hvb]]]]].
    cbn [c_eval ideal rs_eval]. rewrite Hca, Hcb in Hbb |- *.
    rewrite Hia, Hib, Hra, Hrb.
    unfold benign_bin in Hbb.
    apply andb_true_iff in Hbb. destruct Hbb as [_ Hbb].
    destruct (c_bin o ta va tb vb) as [[t' r] | ] eqn:Hcb'; [ | discriminate Hbb].
    destruct (ideal_bin o va vb) as [i | ] eqn:Hib'; [ | discriminate Hbb].
    apply andb_true_iff in Hbb. destruct Hbb as [He Hin].
    apply Z.eqb_eq in He. apply in_i64_spec in Hin. subst i.
    exists t', r. repeat split; try lia.
    apply rs_bin_exact; [exact Hib' | exact Hin | ].
    intros Hs. pose proof (c_bin_shift_amount _ _ _ _ _ _ Hs Hcb') as Hamt.
    destruct (wt_width ta (c_eval_wt _ _ _ Hca)) as [Hw | Hw]; lia.
Qed.

Lemma faithful_partial : forall e t v,
  benign e = true -> c_eval e = Some (t, v) -> rs_eval e = RsInt v.
Proof.
  intros e t v Hb Hc.
  destruct (benign_inv e Hb) as [t' [v' [Hc' [_ [Hr _]]]]].
  rewrite Hc in Hc'. inv Hc'. exact Hr.
Qed.

Lemma benign_agrees_with_ideal : forall e, benign e = true ->
  exists t v, c_eval e = Some (t, v) /\ ideal e = Some v.
Proof.
  intros e Hb. destruct (benign_inv e Hb) as [t [v [Hc [Hi _]]]].
  exists t, v. split; assumption.
Qed.

Lemma benign_in_i64 : forall e t v,
  benign e = true -> c_eval e = Some (t, v) -> - 2 ^ 63 <= v < 2 ^ 63.
Proof.
  intros e t v Hb Hc.
  destruct (benign_inv e Hb) as [t' [v' [Hc' [_ [_ Hv]]]]].
  rewrite Hc in Hc'. inv Hc'. exact Hv.
Qed.

Lemma benign_sub_un : forall o a, benign (Un o a) = true -> benign a = true.
Proof.
  intros o a H. cbn [benign] in H. apply andb_true_iff in H. tauto.
Qed.

Lemma benign_sub_bin : forall o a b,
  benign (Bin o a b) = true -> benign a = true /\ benign b = true.
Proof.
  intros o a b H. cbn [benign] in H.
  apply andb_true_iff in H. destruct H as [H _].
  apply andb_true_iff in H. exact H.
Qed.

(* ================================================================== *)
(* 5. every value c_eval returns is representable in its type          *)
(* ================================================================== *)

Definition inr (t : ctype) (v : Z) : Prop := tmin t <= v <= tmax t.

Lemma fits_spec : forall t v, fits t v = true <-> inr t v.
Proof.
  intros t v. unfold fits, inr. rewrite andb_true_iff, !Z.leb_le. tauto.
Qed.

Lemma wt_cases : forall t, wt t ->
  t = t_int \/ t = t_uint \/ t = t_long \/ t = t_ulong.
Proof.
  intros [[] b] [H | H]; cbn [bits] in H; subst b; auto.
Qed.

Lemma srange : forall k a, 0 <= k ->
  (- 2 ^ k <= a < 2 ^ k <-> Z.shiftr a k = 0 \/ Z.shiftr a k = -1).
Proof.
  intros k a Hk. rewrite Z.shiftr_div_pow2 by exact Hk.
  assert (HP : 0 < 2 ^ k) by (apply Z.pow_pos_nonneg; lia).
  generalize dependent (2 ^ k). intros P HP.
  split; intros H; Z.div_mod_to_equations; nia.
Qed.

Lemma urange : forall k a, 0 <= k ->
  (0 <= a < 2 ^ k <-> Z.shiftr a k = 0).
Proof.
  intros k a Hk. rewrite Z.shiftr_div_pow2 by exact Hk.
  assert (HP : 0 < 2 ^ k) by (apply Z.pow_pos_nonneg; lia).
  generalize dependent (2 ^ k). intros P HP.
  split; intros H; Z.div_mod_to_equations; nia.
Qed.

Lemma bitop_srange : forall k a b, 0 <= k ->
  - 2 ^ k <= a < 2 ^ k -> - 2 ^ k <= b < 2 ^ k ->
  (- 2 ^ k <= Z.land a b < 2 ^ k) /\ (- 2 ^ k <= Z.lor a b < 2 ^ k) /\
  (- 2 ^ k <= Z.lxor a b < 2 ^ k).
Proof.
  intros k a b Hk Ha Hb. rewrite !srange in * by exact Hk.
  rewrite Z.shiftr_land, Z.shiftr_lor, Z.shiftr_lxor.
  destruct Ha as [Ha | Ha], Hb as [Hb | Hb]; rewrite Ha, Hb;
    cbn [Z.land Z.lor Z.lxor]; auto.
Qed.

Lemma bitop_urange : forall k a b, 0 <= k ->
  0 <= a < 2 ^ k -> 0 <= b < 2 ^ k ->
  (0 <= Z.land a b < 2 ^ k) /\ (0 <= Z.lor a b < 2 ^ k) /\
  (0 <= Z.lxor a b < 2 ^ k).
Proof.
  intros k a b Hk Ha Hb. rewrite !urange in * by exact Hk.
  rewrite Z.shiftr_land, Z.shiftr_lor, Z.shiftr_lxor.
  rewrite Ha, Hb. cbn [Z.land Z.lor Z.lxor]. auto.
Qed.

Lemma quot_range : forall M x y, 0 < M ->
  - M <= x < M -> - M <= y < M -> y <> 0 -> ~ (x = - M /\ y = -1) ->
  - M <= Z.quot x y < M.
Proof.
  intros M x y HM Hx Hy Hy0 Hex. Z.quot_rem_to_equations. nia.
Qed.

Lemma rem_range : forall M x y, 0 < M ->
  - M <= x < M -> - M <= y < M -> y <> 0 -> - M <= Z.rem x y < M.
Proof.
  intros M x y HM Hx Hy Hy0. Z.quot_rem_to_equations. nia.
Qed.

Lemma uquot_range : forall M x y,
  0 <= x < M -> 0 <= y < M -> y <> 0 ->
  0 <= Z.quot x y < M /\ 0 <= Z.rem x y < M.
Proof.
  intros M x y Hx Hy Hy0. Z.quot_rem_to_equations. nia.
Qed.

Lemma shr_range : forall lo hi a n, lo <= 0 <= hi -> 0 <= n ->
  lo <= a <= hi -> lo <= a / 2 ^ n <= hi.
Proof.
  intros lo hi a n Hl Hn Ha.
  assert (HP : 0 < 2 ^ n) by (apply Z.pow_pos_nonneg; lia).
  generalize dependent (2 ^ n). intros P HP.
  Z.div_mod_to_equations. nia.
Qed.

(* the eight bounds and four widths, as numerals *)
Lemma tmin_int : tmin t_int = -2147483648. Proof. reflexivity. Qed.
Lemma tmax_int : tmax t_int = 2147483647. Proof. reflexivity. Qed.
Lemma tmin_uint : tmin t_uint = 0. Proof. reflexivity. Qed.
Lemma tmax_uint : tmax t_uint = 4294967295. Proof. reflexivity. Qed.
Lemma tmin_long : tmin t_long = -9223372036854775808. Proof. reflexivity. Qed.
Lemma tmax_long : tmax t_long = 9223372036854775807. Proof. reflexivity. Qed.
Lemma tmin_ulong : tmin t_ulong = 0. Proof. reflexivity. Qed.
Lemma tmax_ulong : tmax t_ulong = 18446744073709551615. Proof. reflexivity. Qed.
Lemma width_int : width t_int = 32. Proof. reflexivity. Qed.
Lemma width_uint : width t_uint = 32. Proof. reflexivity. Qed.
Lemma width_long : width t_long = 64. Proof. reflexivity. Qed.
Lemma width_ulong : width t_ulong = 64. Proof. reflexivity. Qed.
Lemma pow2_31 : 2 ^ 31 = 2147483648. Proof. reflexivity. Qed.
Lemma pow2_32 : 2 ^ 32 = 4294967296. Proof. reflexivity. Qed.
Lemma pow2_63 : 2 ^ 63 = 9223372036854775808. Proof. reflexivity. Qed.
Lemma pow2_64 : 2 ^ 64 = 18446744073709551616. Proof. reflexivity. Qed.

Ltac bounds :=
  unfold inr in *;
  rewrite ?tmin_int, ?tmax_int, ?tmin_uint, ?tmax_uint, ?tmin_long, ?tmax_long,
    ?tmin_ulong, ?tmax_ulong, ?width_int, ?width_uint, ?width_long,
    ?width_ulong in *.

Ltac four t H :=
  destruct (wt_cases t H) as [? | [? | [? | ?]]]; subst t.

Ltac tsimp :=
  unfold t_int, t_uint, t_long, t_ulong in *;
  repeat match goal with
  | |- context [uac ?a ?b] =>
      let u := eval vm_compute in (uac a b) in progress change (uac a b) with u
  | H : context [uac ?a ?b] |- _ =>
      let u := eval vm_compute in (uac a b) in progress change (uac a b) with u in H
  end;
  unfold inr, conv, norm in *; cbn [signed andb] in *;
  change (tmin (mkCT true 32)) with (-2147483648) in *;
  change (tmax (mkCT true 32)) with 2147483647 in *;
  change (tmin (mkCT false 32)) with 0 in *;
  change (tmax (mkCT false 32)) with 4294967295 in *;
  change (tmin (mkCT true 64)) with (-9223372036854775808) in *;
  change (tmax (mkCT true 64)) with 9223372036854775807 in *;
  change (tmin (mkCT false 64)) with 0 in *;
  change (tmax (mkCT false 64)) with 18446744073709551615 in *;
  change (width (mkCT true 32)) with 32 in *;
  change (width (mkCT false 32)) with 32 in *;
  change (width (mkCT true 64)) with 64 in *;
  change (width (mkCT false 64)) with 64 in *.

Lemma conv_uac_l : forall ta tb va, wt ta -> wt tb -> inr ta va ->
  inr (uac ta tb) (conv (uac ta tb) va).
Proof.
  intros ta tb va Ha Hb Hr. four ta Ha; four tb Hb; tsimp;
    try lia; Z.div_mod_to_equations; lia.
Qed.

Lemma conv_uac_r : forall ta tb vb, wt ta -> wt tb -> inr tb vb ->
  inr (uac ta tb) (conv (uac ta tb) vb).
Proof.
  intros ta tb vb Ha Hb Hr. four ta Ha; four tb Hb; tsimp;
    try lia; Z.div_mod_to_equations; lia.
Qed.

Lemma norm_range : forall t z t' r, wt t ->
  norm t z = Some (t', r) -> t' = t /\ inr t r.
Proof.
  intros t z t' r Ht H. split; [eapply norm_type; exact H | ].
  unfold norm in H. destruct (signed t) eqn:Hs.
  - destruct (fits t z) eqn:Hf; [ | discriminate H]. inv H.
    apply fits_spec. exact Hf.
  - four t Ht; try discriminate Hs; inv H; tsimp; Z.div_mod_to_equations; lia.
Qed.

Lemma c_un_range : forall o t v t' r, wt t -> inr t v ->
  c_un o t v = Some (t', r) -> t' = t /\ inr t r.
Proof.
  intros o t v t' r Ht Hv H. destruct o; cbn [c_un] in H.
  - inv H. split; [reflexivity | exact Hv].
  - eapply norm_range; [exact Ht | exact H].
  - inv H. split; [reflexivity | ]. four t' Ht; tsimp; lia.
Qed.

Lemma c_arith_range : forall o t x y t' r, wt t -> inr t x -> inr t y ->
  c_arith o t x y = Some (t', r) -> t' = t /\ inr t r.
Proof.
  intros o t x y t' r Ht Hx Hy H.
  destruct o; cbn [c_arith] in H;
    try (eapply norm_range; [exact Ht | exact H]); try discriminate H.
  - (* / *)
    destruct (Z.eqb_spec y 0) as [Hy0 | Hy0]; [discriminate H | ].
    destruct (signed t && (x =? tmin t) && (y =? -1)) eqn:Hg; [discriminate H | ].
    inv H. split; [reflexivity | ].
    four t' Ht; tsimp.
    + assert (Hex : ~ (x = - 2147483648 /\ y = -1)).
      { intros [Ha Hb]. subst x y. discriminate Hg. }
      pose proof (quot_range 2147483648 x y ltac:(lia) ltac:(lia) ltac:(lia) Hy0 Hex). lia.
    + pose proof (uquot_range 4294967296 x y ltac:(lia) ltac:(lia) Hy0). lia.
    + assert (Hex : ~ (x = - 9223372036854775808 /\ y = -1)).
      { intros [Ha Hb]. subst x y. discriminate Hg. }
      pose proof (quot_range 9223372036854775808 x y ltac:(lia) ltac:(lia) ltac:(lia) Hy0 Hex). lia.
    + pose proof (uquot_range 18446744073709551616 x y ltac:(lia) ltac:(lia) Hy0). lia.
  - (* % *)
    destruct (Z.eqb_spec y 0) as [Hy0 | Hy0]; [discriminate H | ].
    destruct (signed t && (x =? tmin t) && (y =? -1)) eqn:Hg; [discriminate H | ].
    inv H. split; [reflexivity | ].
    four t' Ht; tsimp.
    + pose proof (rem_range 2147483648 x y ltac:(lia) ltac:(lia) ltac:(lia) Hy0). lia.
    + pose proof (uquot_range 4294967296 x y ltac:(lia) ltac:(lia) Hy0). lia.
    + pose proof (rem_range 9223372036854775808 x y ltac:(lia) ltac:(lia) ltac:(lia) Hy0). lia.
    + pose proof (uquot_range 18446744073709551616 x y ltac:(lia) ltac:(lia) Hy0). lia.
  - inv H. split; [reflexivity | ]. four t' Ht; tsimp.
    + pose proof (bitop_srange 31 x y ltac:(lia) ltac:(lia) ltac:(lia)). lia.
    + pose proof (bitop_urange 32 x y ltac:(lia) ltac:(lia) ltac:(lia)). lia.
    + pose proof (bitop_srange 63 x y ltac:(lia) ltac:(lia) ltac:(lia)). lia.
    + pose proof (bitop_urange 64 x y ltac:(lia) ltac:(lia) ltac:(lia)). lia.
  - inv H. split; [reflexivity | ]. four t' Ht; tsimp.
    + pose proof (bitop_srange 31 x y ltac:(lia) ltac:(lia) ltac:(lia)). lia.
    + pose proof (bitop_urange 32 x y ltac:(lia) ltac:(lia) ltac:(lia)). lia.
    + pose proof (bitop_srange 63 x y ltac:(lia) ltac:(lia) ltac:(lia)). lia.
    + pose proof (bitop_urange 64 x y ltac:(lia) ltac:(lia) ltac:(lia)). lia.
  - inv H. split; [reflexivity | ]. four t' Ht; tsimp.
    + pose proof (bitop_srange 31 x y ltac:(lia) ltac:(lia) ltac:(lia)). lia.
    + pose proof (bitop_urange 32 x y ltac:(lia) ltac:(lia) ltac:(lia)). lia.
    + pose proof (bitop_srange 63 x y ltac:(lia) ltac:(lia) ltac:(lia)). lia.
    + pose proof (bitop_urange 64 x y ltac:(lia) ltac:(lia) ltac:(lia)). lia.
Qed.

Lemma c_shift_range : forall o t a n t' r, wt t -> inr t a ->
  c_shift o t a n = Some (t', r) -> t' = t /\ inr t r.
Proof.
  intros o t a n t' r Ht Ha H.
  pose proof (c_shift_spec _ _ _ _ _ _ H) as [Ht' Hn]. subst t'.
  split; [reflexivity | ].
  unfold c_shift in H.
  destruct ((n <? 0) || (width t <=? n)); [discriminate H | ].
  assert (Hshr : inr t (a / 2 ^ n)).
  { unfold inr in *. apply shr_range; [ | lia | exact Ha].
    four t Ht; tsimp; lia. }
  destruct o; try (inv H; exact Hshr).
  destruct (signed t) eqn:Hs.
  - destruct (a <? 0); [discriminate H | ].
    destruct (fits t (a * 2 ^ n)) eqn:Hf; [ | discriminate H].
    inv H. apply fits_spec. exact Hf.
  - four t Ht; try discriminate Hs; inv H; tsimp; Z.div_mod_to_equations; lia.
Qed.

Lemma c_bin_range : forall o ta va tb vb t' r,
  wt ta -> wt tb -> inr ta va -> inr tb vb ->
  c_bin o ta va tb vb = Some (t', r) -> inr t' r.
Proof.
  intros o ta va tb vb t' r Hta Htb Hva Hvb H. unfold c_bin in H.
  destruct (is_shift o).
  - apply c_shift_range in H; [ | exact Hta | exact Hva].
    destruct H as [Ht Hr]. subst t'. exact Hr.
  - apply c_arith_range in H;
      [ | apply uac_wt; assumption | apply conv_uac_l; assumption
        | apply conv_uac_r; assumption ].
    destruct H as [Ht Hr]. subst t'. exact Hr.
Qed.

Lemma c_eval_in_range : forall e t v,
  c_eval e = Some (t, v) -> wt t /\ inr t v.
Proof.
  intros e t v H. split; [eapply c_eval_wt; exact H | ].
  revert t v H.
  induction e as [r z u l | o a IHa | o a IHa b IHb]; intros t v H;
    cbn [c_eval] in H.
  - destruct (lit_type r z u l) as [t0 | ] eqn:Hl; [ | discriminate H].
    inv H. apply lit_type_spec in Hl. apply fits_spec. tauto.
  - destruct (c_eval a) as [[ta va] | ] eqn:Ha; [ | discriminate H].
    apply c_un_range in H; [ | eapply c_eval_wt; exact Ha | eapply IHa; reflexivity].
    destruct H as [Ht Hr]. subst t. exact Hr.
  - destruct (c_eval a) as [[ta va] | ] eqn:Ha; [ | discriminate H].
    destruct (c_eval b) as [[tb vb] | ] eqn:Hb; [ | discriminate H].
    eapply c_bin_range; [ | | | | exact H].
    + eapply c_eval_wt; exact Ha.
    + eapply c_eval_wt; exact Hb.
    + eapply IHa; reflexivity.
    + eapply IHb; reflexivity.
Qed.

(* ================================================================== *)
(* 6. macros without unsigned literals: defined in C => same in cexpr  *)
(* ================================================================== *)

Lemma signed_in_i64 : forall t v, wt t -> signed t = true -> inr t v ->
  - 2 ^ 63 <= v < 2 ^ 63.
Proof.
  intros t v Ht Hs Hv. four t Ht; try discriminate Hs; tsimp; lia.
Qed.

Lemma conv_signed : forall t z, signed t = true -> conv t z = z.
Proof. intros t z Hs. unfold conv. rewrite Hs. reflexivity. Qed.

Lemma uac_signed : forall a b,
  signed a = true -> signed b = true -> signed (uac a b) = true.
Proof.
  intros a b Ha Hb. destruct (uac_cases a b) as [H | H]; rewrite H; assumption.
Qed.

Lemma norm_signed_exact : forall t z t' r,
  signed t = true -> norm t z = Some (t', r) -> r = z.
Proof.
  intros t z t' r Hs H. unfold norm in H. rewrite Hs in H.
  destruct (fits t z); [ | discriminate H]. inv H. reflexivity.
Qed.

Lemma c_un_signed_exact : forall o t v t' r,
  signed t = true -> c_un o t v = Some (t', r) -> ideal_un o v = r.
Proof.
  intros o t v t' r Hs H. destruct o; cbn [c_un ideal_un] in H |- *.
  - inv H. reflexivity.
  - symmetry. eapply norm_signed_exact; [exact Hs | exact H].
  - rewrite Hs in H. inv H. reflexivity.
Qed.

Lemma c_arith_signed_exact : forall o t x y t' r,
  signed t = true -> c_arith o t x y = Some (t', r) ->
  ideal_bin o x y = Some r.
Proof.
  intros o t x y t' r Hs H.
  destruct o; cbn [c_arith ideal_bin] in H |- *;
    try (f_equal; symmetry; eapply norm_signed_exact; [exact Hs | exact H]);
    try discriminate H;
    try (inv H; reflexivity).
  - destruct (y =? 0); [discriminate H | ]. dif H; [discriminate H | ].
    inv H. reflexivity.
  - destruct (y =? 0); [discriminate H | ]. dif H; [discriminate H | ].
    inv H. reflexivity.
Qed.

Lemma c_shift_signed_exact : forall o t a n t' r,
  signed t = true -> is_shift o = true -> c_shift o t a n = Some (t', r) ->
  ideal_bin o a n = Some r.
Proof.
  intros o t a n t' r Hs Ho H. unfold c_shift in H.
  destruct (Z.ltb_spec n 0) as [Hn | Hn]; cbn [orb] in H; [discriminate H | ].
  destruct (width t <=? n); [discriminate H | ].
  destruct o; try discriminate Ho; cbn [ideal_bin];
    (destruct (Z.ltb_spec n 0) as [Hn' | Hn']; [lia | ]).
  - rewrite Hs in H. dif H; try discriminate H. inv H. reflexivity.
  - inv H. reflexivity.
Qed.

Lemma signed_only_benign : forall e t v,
  signed_only e = true -> c_eval e = Some (t, v) ->
  benign e = true /\ signed t = true.
Proof.
  induction e as [r z u l | o a IHa | o a IHa b IHb]; intros t v Hso Hc.
  - cbn [signed_only benign c_eval] in *.
    destruct (lit_type r z u l) as [t0 | ] eqn:Hl; [ | discriminate Hso].
    inv Hc. split; [ | exact Hso].
    apply lit_type_spec in Hl. destruct Hl as [Ht [Hz Hf]].
    apply in_i64_spec. apply fits_spec in Hf.
    eapply signed_in_i64; [exact Ht | exact Hso | exact Hf].
  - pose proof (c_eval_in_range _ _ _ Hc) as [Ht Hr].
    cbn [signed_only benign c_eval] in *.
    destruct (c_eval a) as [[ta va] | ] eqn:Ha; [ | discriminate Hc].
    destruct (IHa ta va Hso eq_refl) as [Hba Hsa].
    pose proof (c_un_type _ _ _ _ _ Hc) as Htt. subst t.
    split; [ | exact Hsa].
    rewrite Hba. cbn [andb]. unfold benign_un. rewrite Hc.
    rewrite (c_un_signed_exact _ _ _ _ _ Hsa Hc), Z.eqb_refl. cbn [andb].
    apply in_i64_spec. eapply signed_in_i64; [exact Ht | exact Hsa | exact Hr].
  - pose proof (c_eval_in_range _ _ _ Hc) as [Ht Hr].
    cbn [signed_only benign c_eval] in *.
    apply andb_true_iff in Hso. destruct Hso as [Hsoa Hsob].
    destruct (c_eval a) as [[ta va] | ] eqn:Ha; [ | discriminate Hc].
    destruct (c_eval b) as [[tb vb] | ] eqn:Hb; [ | discriminate Hc].
    destruct (IHa ta va Hsoa eq_refl) as [Hba Hsa].
    destruct (IHb tb vb Hsob eq_refl) as [Hbb Hsb].
    pose proof (uac_signed _ _ Hsa Hsb) as Hsu.
    assert (Hst : signed t = true).
    { pose proof (c_bin_type _ _ _ _ _ _ _ Hc) as Htt.
      destruct (is_shift o); subst t; assumption. }
    split; [ | exact Hst].
    rewrite Hba, Hbb. cbn [andb]. unfold benign_bin.
    rewrite !(conv_signed _ _ Hsu), !Z.eqb_refl, orb_true_r. cbn [andb].
    rewrite Hc.
    assert (Hi : ideal_bin o va vb = Some v).
    { unfold c_bin in Hc. destruct (is_shift o) eqn:Ho.
      - eapply c_shift_signed_exact; [exact Hsa | exact Ho | exact Hc].
      - rewrite !(conv_signed _ _ Hsu) in Hc.
        eapply c_arith_signed_exact; [exact Hsu | exact Hc]. }
    rewrite Hi, Z.eqb_refl. cbn [andb].
    apply in_i64_spec. eapply signed_in_i64; [exact Ht | exact Hst | exact Hr].
Qed.

Lemma signed_only_faithful : forall e t v,
  signed_only e = true -> c_eval e = Some (t, v) -> rs_eval e = RsInt v.
Proof.
  intros e t v Hso Hc.
  destruct (signed_only_benign e t v Hso Hc) as [Hb _].
  eapply faithful_partial; [exact Hb | exact Hc].
Qed.

(* ================================================================== *)
(* 7. the unrestricted claim is false: pinned counterexamples          *)
(* ================================================================== *)

Lemma faithful_refuted :
  (exists e t v v',
     c_eval e = Some (t, v) /\ rs_eval e = RsInt v' /\ v <> v') /\
  (* ~0u *)
  (c_eval (Un UNot (Lit Dec 0 true false)) = Some (t_uint, 4294967295) /\
   rs_eval (Un UNot (Lit Dec 0 true false)) = RsInt (-1)) /\
  (* 0xFFFFFFFF + 1 *)
  (c_eval (Bin BAdd (Lit Hex 4294967295 false false) (Lit Dec 1 false false))
     = Some (t_uint, 0) /\
   rs_eval (Bin BAdd (Lit Hex 4294967295 false false) (Lit Dec 1 false false))
     = RsInt 4294967296) /\
  (* -1 / 2u *)
  (c_eval (Bin BDiv (Un UNeg (Lit Dec 1 false false)) (Lit Dec 2 true false))
     = Some (t_uint, 2147483647) /\
   rs_eval (Bin BDiv (Un UNeg (Lit Dec 1 false false)) (Lit Dec 2 true false))
     = RsInt 0).
Proof.
  split.
  - exists (Un UNot (Lit Dec 0 true false)), t_uint, 4294967295, (-1).
    split; [vm_compute; reflexivity | split; [vm_compute; reflexivity | discriminate]].
  - repeat split; vm_compute; reflexivity.
Qed.

(* further shapes of disagreement: a shift that C wraps at 32 bits, a logical
   vs arithmetic right shift of a value with the top bit set, a literal above
   i64::MAX, and cexpr inventing values where C has undefined behaviour *)
Lemma faithful_refuted_more :
  (* 3u << 31 *)
  (c_eval (Bin BShl (Lit Dec 3 true false) (Lit Dec 31 false false))
     = Some (t_uint, 2147483648) /\
   rs_eval (Bin BShl (Lit Dec 3 true false) (Lit Dec 31 false false))
     = RsInt 6442450944) /\
  (* 0xFFFFFFFFFFFFFFFF >> 63 *)
  (c_eval (Bin BShr (Lit Hex 18446744073709551615 false false)
                    (Lit Dec 63 false false)) = Some (t_ulong, 1) /\
   rs_eval (Bin BShr (Lit Hex 18446744073709551615 false false)
                     (Lit Dec 63 false false)) = RsInt (-1)) /\
  (* 0xFFFFFFFFFFFFFFFF *)
  (c_eval (Lit Hex 18446744073709551615 false false)
     = Some (t_ulong, 18446744073709551615) /\
   rs_eval (Lit Hex 18446744073709551615 false false) = RsInt (-1)) /\
  (* 1 << 32, 1 << -1, 2147483647 + 1 : undefined in C, a number in cexpr *)
  (c_eval (Bin BShl (Lit Dec 1 false false) (Lit Dec 32 false false)) = None /\
   rs_eval (Bin BShl (Lit Dec 1 false false) (Lit Dec 32 false false))
     = RsInt 4294967296) /\
  (c_eval (Bin BShl (Lit Dec 1 false false)
                    (Un UNeg (Lit Dec 1 false false))) = None /\
   rs_eval (Bin BShl (Lit Dec 1 false false)
                     (Un UNeg (Lit Dec 1 false false)))
     = RsInt (-9223372036854775808)) /\
  (c_eval (Bin BAdd (Lit Dec 2147483647 false false) (Lit Dec 1 false false))
     = None /\
   rs_eval (Bin BAdd (Lit Dec 2147483647 false false) (Lit Dec 1 false false))
     = RsInt 2147483648).
Proof. repeat split; vm_compute; reflexivity. Qed.

Lemma eval_panics_refuted :
  exists e, rs_eval e = RsPanic /\ c_eval e = None.
Proof.
  exists (Bin BDiv (Lit Dec 1 false false) (Lit Dec 0 false false)).
  split; vm_compute; reflexivity.
Qed.

(* ================================================================== *)
(* 8. the hypotheses above are satisfiable / refutable                 *)
(* ================================================================== *)

Lemma benign_nonvacuous :
  (* (1 << 4) | 3 *)
  benign (Bin BOr (Bin BShl (Lit Dec 1 false false) (Lit Dec 4 false false))
                  (Lit Dec 3 false false)) = true /\
  (* 10 * 1024 - 1 *)
  benign (Bin BSub (Bin BMul (Lit Dec 10 false false) (Lit Dec 1024 false false))
                   (Lit Dec 1 false false)) = true /\
  (* 0xFFu >> 2 *)
  benign (Bin BShr (Lit Hex 255 true false) (Lit Dec 2 false false)) = true /\
  (* -(5) *)
  benign (Un UNeg (Lit Dec 5 false false)) = true /\
  (* ~0x0F & 0xFF *)
  benign (Bin BAnd (Un UNot (Lit Hex 15 false false))
                   (Lit Hex 255 false false)) = true /\
  (* the three witnesses *)
  benign (Un UNot (Lit Dec 0 true false)) = false /\
  benign (Bin BAdd (Lit Hex 4294967295 false false) (Lit Dec 1 false false))
    = false /\
  benign (Bin BDiv (Un UNeg (Lit Dec 1 false false)) (Lit Dec 2 true false))
    = false.
Proof. repeat split; vm_compute; reflexivity. Qed.

Lemma benign_values_nonvacuous :
  c_eval (Bin BOr (Bin BShl (Lit Dec 1 false false) (Lit Dec 4 false false))
                  (Lit Dec 3 false false)) = Some (t_int, 19) /\
  c_eval (Bin BSub (Bin BMul (Lit Dec 10 false false) (Lit Dec 1024 false false))
                   (Lit Dec 1 false false)) = Some (t_int, 10239) /\
  c_eval (Bin BShr (Lit Hex 255 true false) (Lit Dec 2 false false))
    = Some (t_uint, 63) /\
  c_eval (Un UNeg (Lit Dec 5 false false)) = Some (t_int, -5) /\
  c_eval (Bin BAnd (Un UNot (Lit Hex 15 false false))
                   (Lit Hex 255 false false)) = Some (t_int, 240).
Proof. repeat split; vm_compute; reflexivity. Qed.

Lemma signed_only_nonvacuous :
  signed_only (Bin BOr (Bin BShl (Lit Dec 1 false false) (Lit Dec 4 false false))
                       (Lit Dec 3 false false)) = true /\
  signed_only (Bin BAnd (Un UNot (Lit Hex 15 false false))
                        (Lit Hex 255 false false)) = true /\
  signed_only (Bin BShr (Lit Hex 255 true false) (Lit Dec 2 false false))
    = false /\
  (* 0x80000000 has type unsigned int although it carries no suffix *)
  signed_only (Lit Hex 2147483648 false false) = false.
Proof. repeat split; vm_compute; reflexivity. Qed.

Lemma no_zero_divisor_nonvacuous :
  no_zero_divisor (Bin BDiv (Lit Dec 7 false false) (Lit Dec 2 false false))
    = true /\
  no_zero_divisor (Bin BDiv (Lit Dec 1 false false) (Lit Dec 0 false false))
    = false /\
  (* a divisor that is zero only after cexpr's own arithmetic: 1 / (2 - 2) *)
  no_zero_divisor
    (Bin BRem (Lit Dec 1 false false)
              (Bin BSub (Lit Dec 2 false false) (Lit Dec 2 false false)))
    = false.
Proof. repeat split; vm_compute; reflexivity. Qed.

Lemma macro_kind_nonvacuous :
  macro_kind false true 255 = U8 /\ macro_kind false true 256 = U16 /\
  macro_kind false true 65536 = U32 /\ macro_kind false true 4294967296 = U64 /\
  macro_kind false false 1 = U32 /\ macro_kind true false 1 = I32 /\
  macro_kind false true (-1) = I8 /\ macro_kind false true (-129) = I16 /\
  macro_kind false true (-32769) = I32 /\
  macro_kind false true (-2147483649) = I64 /\
  macro_kind true true 128 = I16.
Proof. repeat split; vm_compute; reflexivity. Qed.

(* ================================================================== *)
(* 9. cexpr values are i64 values; the chosen kind holds them          *)
(* ================================================================== *)

Lemma wrap64_range : forall z, - 2 ^ 63 <= wrap64 z < 2 ^ 63.
Proof.
  intros z. unfold wrap64.
  pose proof (Z.mod_pos_bound (z + 2 ^ 63) (2 ^ 64) ltac:(lia)). lia.
Qed.

Lemma rs_bin_in_i64 : forall o x y r,
  - 2 ^ 63 <= x < 2 ^ 63 -> - 2 ^ 63 <= y < 2 ^ 63 ->
  rs_bin o x y = RsInt r -> - 2 ^ 63 <= r < 2 ^ 63.
Proof.
  intros o x y r Hx Hy H.
  pose proof (bitop_srange 63 x y ltac:(lia) Hx Hy) as [Hand [Hor Hxor]].
  destruct o; cbn [rs_bin] in H;
    try (inv H; apply wrap64_range);
    try (inv H; assumption).
  - destruct (y =? 0); [discriminate H | ]. inv H. apply wrap64_range.
  - destruct (y =? 0); [discriminate H | ]. inv H. apply wrap64_range.
  - inv H.
    assert (Hs : 0 <= shamt y).
    { unfold shamt. apply Z.land_nonneg. right. lia. }
    pose proof (shr_range (- 2 ^ 63) (2 ^ 63 - 1) x (shamt y)
                  ltac:(lia) Hs ltac:(lia)). lia.
Qed.

Lemma rs_eval_in_i64 : forall e v,
  rs_eval e = RsInt v -> - 2 ^ 63 <= v < 2 ^ 63.
Proof.
  induction e as [r z u l | o a IHa | o a IHa b IHb]; intros v H;
    cbn [rs_eval] in H.
  - unfold rs_lit in H.
    destruct (Z.ltb_spec z 0) as [Hz0 | Hz0];
      destruct (Z.leb_spec (2 ^ 64) z) as [Hz64 | Hz64];
      cbn [orb] in H; try discriminate H.
    inv H. unfold to_i64. destruct (Z.ltb_spec z (2 ^ 63)) as [Hlt | Hge]; lia.
  - destruct (rs_eval a) as [x | | ]; try discriminate H. inv H.
    specialize (IHa x eq_refl).
    destruct o; cbn [rs_un]; [exact IHa | apply wrap64_range | lia].
  - destruct (rs_eval a) as [x | | ]; try discriminate H.
    destruct (rs_eval b) as [y | | ]; try discriminate H.
    eapply rs_bin_in_i64; [apply IHa; reflexivity | apply IHb; reflexivity | exact H].
Qed.

Lemma constant_kind_holds_value : forall e v sd fit,
  rs_eval e = RsInt v ->
  kind_min (macro_kind sd fit v) <= v <= kind_max (macro_kind sd fit v) /\
  (v < 0 -> kind_signed (macro_kind sd fit v) = true).
Proof.
  intros e v sd fit H. apply kind_holds_value. eapply rs_eval_in_i64. exact H.
Qed.

Lemma benign_constant_correct : forall e t v sd fit,
  benign e = true -> c_eval e = Some (t, v) ->
  rs_eval e = RsInt v /\
  kind_min (macro_kind sd fit v) <= v <= kind_max (macro_kind sd fit v).
Proof.
  intros e t v sd fit Hb Hc.
  pose proof (faithful_partial e t v Hb Hc) as Hr.
  split; [exact Hr | ].
  apply (constant_kind_holds_value e v sd fit Hr).
Qed.
