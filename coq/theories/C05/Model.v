(* C05 -- how bindgen turns C object-like integer macros into Rust constants.

   Definitions only; proofs live in Proofs.v, property theorems in
   Properties.v.  Everything here is executable by vm_compute.

   Two evaluators over one expression AST:
     c_eval  : the C11 meaning of the macro body on an LP64 target
               (int 32 bits, long = long long 64 bits); None = undefined or
               ill-formed.
     rs_eval : what the Rust crate cexpr 0.6 computes (bindgen's macro
               evaluator): untyped Wrapping<i64> arithmetic, suffixes ignored
               (cexpr-0.6.0/src/expr.rs, literal.rs).
   plus
     macro_kind : bindgen/ir/var.rs default_macro_constant_type
     ideal      : exact integer arithmetic
     benign     : the macro is evaluated by C without wrap-around, without
                  converting a negative value to an unsigned type, without
                  undefined behaviour, and every value stays inside i64.

   NOTE on names: the brief asks for a radix constructor [Bin] and an expr
   constructor [Bin]; two constructors of one module cannot share a name, so
   the binary radix is called [RBin]. *)
From Coq Require Import ZArith Bool List.
Import ListNotations.
Open Scope Z_scope.

(* ------------------------------------------------------------------ *)
(* AST                                                                 *)
(* ------------------------------------------------------------------ *)
Inductive radix := Dec | Hex | Oct | RBin.
Inductive unop := UPlus | UNeg | UNot.                      (* + - ~ *)
Inductive binop :=
  BAdd | BSub | BMul | BDiv | BRem | BShl | BShr | BAnd | BOr | BXor.
Inductive expr :=
| Lit (r : radix) (v : Z) (usuf lsuf : bool)
| Un (o : unop) (e : expr)
| Bin (o : binop) (a b : expr).

(* ------------------------------------------------------------------ *)
(* C types (after integer promotion every type is one of these four)   *)
(* ------------------------------------------------------------------ *)
Record ctype := mkCT { signed : bool; bits : N }.

Definition t_int   : ctype := mkCT true  32.
Definition t_uint  : ctype := mkCT false 32.
Definition t_long  : ctype := mkCT true  64.
Definition t_ulong : ctype := mkCT false 64.

Definition width (t : ctype) : Z := Z.of_N (bits t).
Definition tmin (t : ctype) : Z :=
  if signed t then - 2 ^ (width t - 1) else 0.
Definition tmax (t : ctype) : Z :=
  if signed t then 2 ^ (width t - 1) - 1 else 2 ^ width t - 1.
Definition fits (t : ctype) (z : Z) : bool :=
  (tmin t <=? z) && (z <=? tmax t).

Definition ctype_eqb (a b : ctype) : bool :=
  Bool.eqb (signed a) (signed b) && N.eqb (bits a) (bits b).

(* ------------------------------------------------------------------ *)
(* (1) C11 evaluator                                                   *)
(* ------------------------------------------------------------------ *)

(* C11 6.4.4.1p5: the candidate list, in order. *)
Definition lit_candidates (r : radix) (usuf lsuf : bool) : list ctype :=
  let dec := match r with Dec => true | _ => false end in
  let all :=
    if usuf then (t_uint :: t_ulong :: nil)
    else if dec then (t_int :: t_long :: nil)
    else (t_int :: t_uint :: t_long :: t_ulong :: nil) in
  if lsuf then List.filter (fun t => N.eqb (bits t) 64) all else all.

Fixpoint first_fit (cands : list ctype) (v : Z) : option ctype :=
  match cands with
  | nil => None
  | cons t rest => if fits t v then Some t else first_fit rest v
  end.

Definition lit_type (r : radix) (v : Z) (usuf lsuf : bool) : option ctype :=
  if v <? 0 then None else first_fit (lit_candidates r usuf lsuf) v.

(* C11 6.3.1.8 usual arithmetic conversions, restricted to the four types. *)
Definition uac (a b : ctype) : ctype :=
  if Bool.eqb (signed a) (signed b) then
    (if (bits a <=? bits b)%N then b else a)
  else
    let u := if signed a then b else a in
    let s := if signed a then a else b in
    if (bits s <=? bits u)%N then u else s.

(* C11 6.3.1.3: conversion to unsigned reduces modulo 2^bits.  A conversion
   to a signed type only ever happens (inside uac) from a type all of whose
   values are representable, so it is the identity; Proofs.c_eval_in_range
   shows the value really fits. *)
Definition conv (t : ctype) (z : Z) : Z :=
  if signed t then z else z mod 2 ^ width t.

(* the result of an arithmetic operation whose exact value is z *)
Definition norm (t : ctype) (z : Z) : option (ctype * Z) :=
  if signed t then (if fits t z then Some (t, z) else None)
  else Some (t, z mod 2 ^ width t).

Definition c_un (o : unop) (t : ctype) (v : Z) : option (ctype * Z) :=
  match o with
  | UPlus => Some (t, v)
  | UNeg => norm t (- v)
  | UNot => Some (t, if signed t then - v - 1 else 2 ^ width t - 1 - v)
  end.

Definition is_shift (o : binop) : bool :=
  match o with BShl | BShr => true | _ => false end.

(* << and >> : C11 6.5.7.  The result has the promoted left operand's type;
   [n] is the value of the right operand (whatever its type). *)
Definition c_shift (o : binop) (t : ctype) (a n : Z) : option (ctype * Z) :=
  if (n <? 0) || (width t <=? n) then None
  else
    match o with
    | BShl =>
        if signed t then
          (if a <? 0 then None
           else if fits t (a * 2 ^ n) then Some (t, a * 2 ^ n) else None)
        else Some (t, (a * 2 ^ n) mod 2 ^ width t)
    | _ => Some (t, a / 2 ^ n)                 (* BShr *)
    end.

(* the other binary operators, on operands already converted to the common
   type [t] *)
Definition c_arith (o : binop) (t : ctype) (x y : Z) : option (ctype * Z) :=
  match o with
  | BAdd => norm t (x + y)
  | BSub => norm t (x - y)
  | BMul => norm t (x * y)
  | BDiv =>
      if y =? 0 then None
      else if signed t && (x =? tmin t) && (y =? -1) then None
      else Some (t, Z.quot x y)
  | BRem =>
      if y =? 0 then None
      else if signed t && (x =? tmin t) && (y =? -1) then None
      else Some (t, Z.rem x y)
  | BAnd => Some (t, Z.land x y)
  | BOr  => Some (t, Z.lor x y)
  | BXor => Some (t, Z.lxor x y)
  | BShl | BShr => None                        (* not reached *)
  end.

Definition c_bin (o : binop) (ta : ctype) (va : Z) (tb : ctype) (vb : Z)
  : option (ctype * Z) :=
  if is_shift o then c_shift o ta va vb
  else let t := uac ta tb in c_arith o t (conv t va) (conv t vb).

Fixpoint c_eval (e : expr) : option (ctype * Z) :=
  match e with
  | Lit r v u l =>
      match lit_type r v u l with Some t => Some (t, v) | None => None end
  | Un o a =>
      match c_eval a with Some (t, v) => c_un o t v | None => None end
  | Bin o a b =>
      match c_eval a with
      | Some (ta, va) =>
          match c_eval b with
          | Some (tb, vb) => c_bin o ta va tb vb
          | None => None
          end
      | None => None
      end
  end.

(* ------------------------------------------------------------------ *)
(* (2) cexpr 0.6 evaluator                                             *)
(* ------------------------------------------------------------------ *)
Inductive rs_result := RsInt (v : Z) | RsPanic | RsReject.

Definition wrap64 (z : Z) : Z := ((z + 2 ^ 63) mod 2 ^ 64) - 2 ^ 63.

(* u64 -> i64 reinterpretation ([i as i64]) *)
Definition to_i64 (v : Z) : Z := if v <? 2 ^ 63 then v else v - 2 ^ 64.

(* [Wrapping<i64> << (b.0 as usize)] = wrapping_shl((b as usize & 63) as u32) *)
Definition shamt (b : Z) : Z := Z.land (b mod 2 ^ 64) 63.

Definition rs_lit (v : Z) : rs_result :=
  if (v <? 0) || (2 ^ 64 <=? v) then RsReject else RsInt (to_i64 v).

Definition rs_un (o : unop) (v : Z) : Z :=
  match o with
  | UPlus => v
  | UNeg => wrap64 (- v)
  | UNot => - v - 1
  end.

Definition rs_bin (o : binop) (x y : Z) : rs_result :=
  match o with
  | BAdd => RsInt (wrap64 (x + y))
  | BSub => RsInt (wrap64 (x - y))
  | BMul => RsInt (wrap64 (x * y))
  | BDiv => if y =? 0 then RsPanic else RsInt (wrap64 (Z.quot x y))
  | BRem => if y =? 0 then RsPanic else RsInt (wrap64 (Z.rem x y))
  | BShl => RsInt (wrap64 (x * 2 ^ shamt y))
  | BShr => RsInt (x / 2 ^ shamt y)
  | BAnd => RsInt (Z.land x y)
  | BOr  => RsInt (Z.lor x y)
  | BXor => RsInt (Z.lxor x y)
  end.

Fixpoint rs_eval (e : expr) : rs_result :=
  match e with
  | Lit _ v _ _ => rs_lit v
  | Un o a =>
      match rs_eval a with RsInt v => RsInt (rs_un o v) | r => r end
  | Bin o a b =>
      match rs_eval a with
      | RsInt x =>
          match rs_eval b with RsInt y => rs_bin o x y | r => r end
      | r => r
      end
  end.

(* every / and % has a right operand that cexpr evaluates to a non-zero int *)
Fixpoint no_zero_divisor (e : expr) : bool :=
  match e with
  | Lit _ _ _ _ => true
  | Un _ a => no_zero_divisor a
  | Bin o a b =>
      no_zero_divisor a && no_zero_divisor b &&
      match o with
      | BDiv | BRem =>
          match rs_eval b with RsInt y => negb (y =? 0) | _ => false end
      | _ => true
      end
  end.

(* ------------------------------------------------------------------ *)
(* (3) the integer kind bindgen picks for the constant                 *)
(* ------------------------------------------------------------------ *)
Inductive ikind := I8 | I16 | I32 | I64 | U8 | U16 | U32 | U64.

Definition macro_kind (signed_default fit : bool) (value : Z) : ikind :=
  if (value <? 0) || signed_default then
    if (value <? - 2 ^ 31) || (value >? 2 ^ 31 - 1) then I64
    else if negb fit || (value <? - 2 ^ 15) || (value >? 2 ^ 15 - 1) then I32
    else if (value <? - 2 ^ 7) || (value >? 2 ^ 7 - 1) then I16
    else I8
  else if value >? 2 ^ 32 - 1 then U64
  else if negb fit || (value >? 2 ^ 16 - 1) then U32
  else if value >? 2 ^ 8 - 1 then U16
  else U8.

Definition kind_signed (k : ikind) : bool :=
  match k with I8 | I16 | I32 | I64 => true | _ => false end.
Definition kind_bits (k : ikind) : Z :=
  match k with
  | I8 | U8 => 8 | I16 | U16 => 16 | I32 | U32 => 32 | I64 | U64 => 64
  end.
Definition kind_min (k : ikind) : Z :=
  if kind_signed k then - 2 ^ (kind_bits k - 1) else 0.
Definition kind_max (k : ikind) : Z :=
  if kind_signed k then 2 ^ (kind_bits k - 1) - 1 else 2 ^ kind_bits k - 1.

(* ------------------------------------------------------------------ *)
(* (4) exact arithmetic and the benign fragment                        *)
(* ------------------------------------------------------------------ *)
Definition ideal_un (o : unop) (v : Z) : Z :=
  match o with
  | UPlus => v
  | UNeg => - v
  | UNot => - v - 1
  end.

Definition ideal_bin (o : binop) (x y : Z) : option Z :=
  match o with
  | BAdd => Some (x + y)
  | BSub => Some (x - y)
  | BMul => Some (x * y)
  | BDiv => if y =? 0 then None else Some (Z.quot x y)
  | BRem => if y =? 0 then None else Some (Z.rem x y)
  | BShl => if y <? 0 then None else Some (x * 2 ^ y)
  | BShr => if y <? 0 then None else Some (x / 2 ^ y)
  | BAnd => Some (Z.land x y)
  | BOr  => Some (Z.lor x y)
  | BXor => Some (Z.lxor x y)
  end.

Fixpoint ideal (e : expr) : option Z :=
  match e with
  | Lit _ v _ _ => Some v
  | Un o a =>
      match ideal a with Some v => Some (ideal_un o v) | None => None end
  | Bin o a b =>
      match ideal a with
      | Some x =>
          match ideal b with Some y => ideal_bin o x y | None => None end
      | None => None
      end
  end.

Definition in_i64 (z : Z) : bool := (- 2 ^ 63 <=? z) && (z <? 2 ^ 63).

(* One step of C evaluation on operand values [va], [vb] is benign when
     - the operand conversions (none for shifts) leave both values unchanged,
       i.e. no negative value becomes unsigned,
     - C defines the result (c_bin <> None; for shifts this contains
       0 <= vb < width ta),
     - the result is the exact one (nothing wrapped), and lies inside i64.
   Only C values of the operands are used, so vm_compute never sees a
   power with a huge exponent. *)
Definition benign_un (o : unop) (t : ctype) (v : Z) : bool :=
  match c_un o t v with
  | Some (_, r) => (ideal_un o v =? r) && in_i64 r
  | None => false
  end.

Definition benign_bin (o : binop) (ta : ctype) (va : Z) (tb : ctype) (vb : Z)
  : bool :=
  (is_shift o ||
   ((conv (uac ta tb) va =? va) && (conv (uac ta tb) vb =? vb))) &&
  match c_bin o ta va tb vb with
  | Some (_, r) =>
      match ideal_bin o va vb with
      | Some i => (i =? r) && in_i64 r
      | None => false
      end
  | None => false
  end.

Fixpoint benign (e : expr) : bool :=
  match e with
  | Lit r v u l =>
      match lit_type r v u l with Some _ => in_i64 v | None => false end
  | Un o a =>
      benign a &&
      match c_eval a with Some (t, v) => benign_un o t v | None => false end
  | Bin o a b =>
      benign a && benign b &&
      match c_eval a, c_eval b with
      | Some (ta, va), Some (tb, vb) => benign_bin o ta va tb vb
      | _, _ => false
      end
  end.

(* A syntactic class on which the two evaluators provably agree
   (Proofs.signed_only_faithful): every literal has a signed C type. *)
Fixpoint signed_only (e : expr) : bool :=
  match e with
  | Lit r v u l =>
      match lit_type r v u l with Some t => signed t | None => false end
  | Un _ a => signed_only a
  | Bin _ a b => signed_only a && signed_only b
  end.
