(* C04 / C14 — ABI selection: proofs of the statements in AbiProperties.v.  Finite case analysis throughout. *)
From Coq Require Import List Bool String.
From BG Require Import C04.Abi.
Import ListNotations.
Open Scope string_scope.

(* the shape of sig_abi once the chosen ABI is named: it emits exactly when the chosen ABI exists, the target has
   it, and it is not Win64 on a variadic function; and then it emits the chosen ABI *)
Definition chosen_abi (own ov : option abi) : option abi :=
  match ov with Some a => Some a | None => own end.

Lemma sig_abi_emit_inv : forall own ov variadic f a,
  sig_abi own ov variadic f = Emit a ->
  chosen_abi own ov = Some a /\ available f a = true /\ (a = AWin64 -> variadic = false).
Proof.
  intros own ov variadic f a H. unfold sig_abi in H. fold (chosen_abi own ov) in H.
  destruct (chosen_abi own ov) as [b|]; [|discriminate].
  destruct (available f b) eqn:E; cbn in H; [|discriminate].
  destruct b; destruct variadic; cbn in H; try discriminate;
    injection H as <-; (split; [reflexivity|split; [exact E|intro K; try reflexivity; discriminate K]]).
Qed.

Lemma sig_abi_emit_intro : forall own ov variadic f a,
  chosen_abi own ov = Some a -> available f a = true -> (a = AWin64 -> variadic = false) ->
  sig_abi own ov variadic f = Emit a.
Proof.
  intros own ov variadic f a Hc Ha Hw. unfold sig_abi. fold (chosen_abi own ov). rewrite Hc, Ha. cbn.
  destruct a; try reflexivity. rewrite (Hw eq_refl). reflexivity.
Qed.

Lemma emitted_abi_is_available : forall own ov variadic f a,
  sig_abi own ov variadic f = Emit a -> accepted_by_target f a = true.
Proof.
  intros own ov variadic f a H. unfold accepted_by_target.
  apply sig_abi_emit_inv in H. tauto.
Qed.

Lemma emitted_abi_is_the_declared_one : forall c variadic f a,
  sig_abi (get_abi c) None variadic f = Emit a -> get_abi c = Some a.
Proof.
  intros c variadic f a H. apply sig_abi_emit_inv in H. destruct H as [H _]. exact H.
Qed.

Lemma override_wins : forall own a variadic f,
  available f a = true -> (a = AWin64 -> variadic = false) ->
  sig_abi own (Some a) variadic f = Emit a.
Proof.
  intros own a variadic f Ha Hw. apply sig_abi_emit_intro; [reflexivity|exact Ha|exact Hw].
Qed.

Lemma unknown_convention_yields_no_declaration : forall c variadic f,
  get_abi c = None -> exists why, sig_abi (get_abi c) None variadic f = Unsupported why.
Proof.
  intros c variadic f H. rewrite H. exists "unknown". reflexivity.
Qed.

Lemma abi_monotone : forall own ov variadic f g a,
  (forall x, available f x = true -> available g x = true) ->
  sig_abi own ov variadic f = Emit a -> sig_abi own ov variadic g = Emit a.
Proof.
  intros own ov variadic f g a Hmono H.
  apply sig_abi_emit_inv in H. destruct H as [Hc [Ha Hw]].
  apply sig_abi_emit_intro; [exact Hc|apply Hmono; exact Ha|exact Hw].
Qed.

Lemma abi_str_roundtrip : forall a, abi_of_str (abi_str a) = Some a.
Proof. intros a. destruct a; vm_compute; reflexivity. Qed.

Lemma abi_str_injective : forall a b, abi_str a = abi_str b -> a = b.
Proof.
  intros a b H. apply (f_equal abi_of_str) in H. rewrite !abi_str_roundtrip in H.
  injection H as H. exact H.
Qed.

Lemma get_abi_collisions : forall c d, get_abi c = get_abi d -> get_abi c <> None -> c <> d ->
  (c = CDefault /\ d = CC_C) \/ (c = CC_C /\ d = CDefault) \/
  (c = CX86VectorCall /\ d = CAArch64VectorCall) \/ (c = CAArch64VectorCall /\ d = CX86VectorCall).
Proof.
  intros c d He Hn Hd.
  destruct c; cbn in Hn; try (exfalso; apply Hn; reflexivity);
    destruct d; cbn in He; try discriminate He; try (exfalso; apply Hd; reflexivity); tauto.
Qed.
