(* C04 / C14 — which `extern "<abi>"` a function or function-pointer type gets.
   ir/function.rs: get_abi (libclang calling convention -> ClangAbi) and FunctionSig::abi (override list,
   target feature gates, the Win64-variadic rule).  Definitions only. *)
From Coq Require Import List Bool String.
Import ListNotations.
Open Scope string_scope.

(* the calling conventions libclang reports (the CXCallingConv enumeration) *)
Inductive cc :=
| CDefault | CC_C | CX86StdCall | CX86FastCall | CX86ThisCall | CX86Pascal | CAAPCS | CAAPCS_VFP | CX86RegCall
| CIntelOclBicc | CWin64 | CX86_64SysV | CX86VectorCall | CSwift | CPreserveMost | CPreserveAll | CAArch64VectorCall
| CSwiftAsync | CInvalid | CUnexposed.

Inductive abi := AC | AStdcall | AEfiApi | AFastcall | AThisCall | AVectorcall | AAapcs | AWin64 | ACUnwind | ASystem.

(* ClangAbi: Known abi | Unknown cc *)
Definition get_abi (c : cc) : option abi :=
  match c with
  | CDefault | CC_C => Some AC
  | CX86StdCall => Some AStdcall
  | CX86FastCall => Some AFastcall
  | CX86ThisCall => Some AThisCall
  | CX86VectorCall | CAArch64VectorCall => Some AVectorcall
  | CAAPCS => Some AAapcs
  | CWin64 => Some AWin64
  | _ => None
  end.

(* impl Display for Abi: the string between the quotes of `extern "..."` *)
Definition abi_str (a : abi) : string :=
  match a with
  | AC => "C" | AStdcall => "stdcall" | AEfiApi => "efiapi" | AFastcall => "fastcall" | AThisCall => "thiscall"
  | AVectorcall => "vectorcall" | AAapcs => "aapcs" | AWin64 => "win64" | ACUnwind => "C-unwind" | ASystem => "system"
  end.

(* impl FromStr for Abi (--override-abi NAME=ABI) *)
Definition abi_of_str (s : string) : option abi :=
  if String.eqb s "C" then Some AC else if String.eqb s "stdcall" then Some AStdcall
  else if String.eqb s "efiapi" then Some AEfiApi else if String.eqb s "fastcall" then Some AFastcall
  else if String.eqb s "thiscall" then Some AThisCall else if String.eqb s "vectorcall" then Some AVectorcall
  else if String.eqb s "aapcs" then Some AAapcs else if String.eqb s "win64" then Some AWin64
  else if String.eqb s "C-unwind" then Some ACUnwind else if String.eqb s "system" then Some ASystem
  else None.

(* the four RustFeatures that gate an ABI *)
Record feats := { thiscall_abi : bool; vectorcall_abi : bool; c_unwind_abi : bool; abi_efiapi : bool }.

Definition available (f : feats) (a : abi) : bool :=
  match a with
  | AThisCall => thiscall_abi f
  | AVectorcall => vectorcall_abi f
  | ACUnwind => c_unwind_abi f
  | AEfiApi => abi_efiapi f
  | _ => true
  end.

Inductive outcome := Emit (a : abi) | Unsupported (why : string).

(* FunctionSig::abi.  [own] = self.abi (get_abi of the reported convention), [override] = the ABI of the first
   --override-abi entry whose pattern matches the function's name, [variadic] = self.is_variadic().
   An unknown convention is an error since fix 491449b6 (before: Ok(Unknown), and code generation panicked). *)
Definition sig_abi (own : option abi) (override : option abi) (variadic : bool) (f : feats) : outcome :=
  let chosen := match override with Some a => Some a | None => own end in
  match chosen with
  | None => Unsupported "unknown"
  | Some a =>
      if negb (available f a) then Unsupported (abi_str a)
      else match a with
           | AWin64 => if variadic then Unsupported "Win64" else Emit a
           | _ => Emit a
           end
  end.

(* the ABIs a toolchain of the given features accepts in `extern "..."` (what C14 calls "only features of the
   selected target") *)
Definition accepted_by_target (f : feats) (a : abi) : bool := available f a.
