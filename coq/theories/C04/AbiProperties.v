(* C04 / C14 — ABI selection: statements only. *)
From Coq Require Import List Bool String.
From BG Require Import C04.Abi C04.AbiProofs.
Import ListNotations.
Open Scope string_scope.

(* whatever clang reports and whatever the user overrides, an emitted ABI is one the selected target has *)
Theorem emitted_abi_is_available : forall own ov variadic f a,
  sig_abi own ov variadic f = Emit a -> accepted_by_target f a = true.
Proof. exact C04.AbiProofs.emitted_abi_is_available. Qed.
Print Assumptions emitted_abi_is_available.

(* without an override the ABI is the one of the C declaration's calling convention *)
Theorem emitted_abi_is_the_declared_one : forall c variadic f a,
  sig_abi (get_abi c) None variadic f = Emit a -> get_abi c = Some a.
Proof. exact C04.AbiProofs.emitted_abi_is_the_declared_one. Qed.
Print Assumptions emitted_abi_is_the_declared_one.

(* an override wins whenever the target has it (and it is not Win64 on a variadic function) *)
Theorem override_wins : forall own a variadic f,
  available f a = true -> (a = AWin64 -> variadic = false) ->
  sig_abi own (Some a) variadic f = Emit a.
Proof. exact C04.AbiProofs.override_wins. Qed.
Print Assumptions override_wins.

(* a convention bindgen has no ABI for never yields a declaration (it used to panic) *)
Theorem unknown_convention_yields_no_declaration : forall c variadic f,
  get_abi c = None -> exists why, sig_abi (get_abi c) None variadic f = Unsupported why.
Proof. exact C04.AbiProofs.unknown_convention_yields_no_declaration. Qed.
Print Assumptions unknown_convention_yields_no_declaration.

(* monotone in the features (C14): a newer target never loses a declaration and never changes its ABI *)
Theorem abi_monotone : forall own ov variadic f g a,
  (forall x, available f x = true -> available g x = true) ->
  sig_abi own ov variadic f = Emit a -> sig_abi own ov variadic g = Emit a.
Proof. exact C04.AbiProofs.abi_monotone. Qed.
Print Assumptions abi_monotone.

(* the ABI strings round-trip through --override-abi *)
Theorem abi_str_roundtrip : forall a, abi_of_str (abi_str a) = Some a.
Proof. exact C04.AbiProofs.abi_str_roundtrip. Qed.
Print Assumptions abi_str_roundtrip.

Theorem abi_str_injective : forall a b, abi_str a = abi_str b -> a = b.
Proof. exact C04.AbiProofs.abi_str_injective. Qed.
Print Assumptions abi_str_injective.

(* the conventions that are told apart in C but share one Rust ABI: exactly the two vector-call ones and
   Default / C *)
Theorem get_abi_collisions : forall c d, get_abi c = get_abi d -> get_abi c <> None -> c <> d ->
  (c = CDefault /\ d = CC_C) \/ (c = CC_C /\ d = CDefault) \/
  (c = CX86VectorCall /\ d = CAArch64VectorCall) \/ (c = CAArch64VectorCall /\ d = CX86VectorCall).
Proof. exact C04.AbiProofs.get_abi_collisions. Qed.
Print Assumptions get_abi_collisions.

Example abi_nonvacuous :
  sig_abi (get_abi CWin64) None false {| thiscall_abi := false; vectorcall_abi := false; c_unwind_abi := false; abi_efiapi := false |} = Emit AWin64 /\
  sig_abi (get_abi CX86ThisCall) None false {| thiscall_abi := false; vectorcall_abi := false; c_unwind_abi := false; abi_efiapi := false |} = Unsupported "thiscall" /\
  sig_abi (get_abi CDefault) (Some AEfiApi) false {| thiscall_abi := true; vectorcall_abi := false; c_unwind_abi := true; abi_efiapi := false |} = Unsupported "efiapi" /\
  sig_abi (get_abi CX86RegCall) None false {| thiscall_abi := true; vectorcall_abi := true; c_unwind_abi := true; abi_efiapi := true |} = Unsupported "unknown".
Proof. vm_compute. repeat split; reflexivity. Qed.
