(* C04 — property theorems (statements only; proofs in Proofs.v) *)
From Coq Require Import NArith List Bool.
From BG Require Import C04.Model C04.Proofs.
Import ListNotations.
Open Scope N_scope.

(* whenever the decision says "different", the attribute carries the C symbol verbatim *)
Theorem differing_names_link_mangled : forall md tp c can m ab,
  names_identical tp can m c = false -> bound_symbol md tp c can m None ab = m.
Proof. exact C04.Proofs.differing_names_link_mangled. Qed.
Print Assumptions differing_names_link_mangled.

(* an explicit link name (callback) always wins *)
Theorem explicit_link_name_wins : forall md tp c can m l ab,
  bound_symbol md tp c can m (Some l) ab = l.
Proof. exact C04.Proofs.explicit_link_name_wins. Qed.
Print Assumptions explicit_link_name_wins.

(* targets that add no prefix (ELF, 64-bit Windows, wasm ...): the declaration binds the mangled
   name for every pair of names and every convention; [tp] is the triple classification, which only
   has to be sound (it may say "no prefix" for a prefixed target) *)
Theorem no_prefix_target_correct : forall md tp c can m ab,
  has_prefix md = false -> (tp = true -> has_prefix md = true) ->
  bound_symbol md tp c can m None ab = m.
Proof. exact C04.Proofs.no_prefix_target_correct. Qed.
Print Assumptions no_prefix_target_correct.

(* every target, undecorated conventions and variables: right unless the Rust name coincides with
   the already-prefixed symbol on a prefixed target (see equal_on_prefixed_refuted) *)
Theorem binds_c_symbol_undecorated : forall md tp c can n ab,
  (tp = true -> has_prefix md = true) ->
  c <> CC_Stdcall -> c <> CC_Fastcall ->
  (has_prefix md = true -> can <> c_symbol md c n ab) ->
  bound_symbol md tp c can (c_symbol md c n ab) None ab = c_symbol md c n ab.
Proof. exact C04.Proofs.binds_c_symbol_undecorated. Qed.
Print Assumptions binds_c_symbol_undecorated.

(* stdcall / fastcall on 32-bit x86 Windows: right whenever the decoration clang printed is the
   decimal of the argument byte count rustc computes for the emitted signature *)
Theorem binds_decorated : forall tp c can m ab,
  (c = CC_Stdcall \/ c = CC_Fastcall) -> can <> m ->
  (forall ds, m = (match c with CC_Fastcall => at_sign | _ => underscore end) :: can ++ at_sign :: ds -> ds = dec ab) ->
  bound_symbol WinX86 tp c can m None ab = m.
Proof. exact C04.Proofs.binds_decorated. Qed.
Print Assumptions binds_decorated.

(* a plain C declaration whose Rust name is its C name: right on every target, for every
   convention, whatever the triple classification says *)
Theorem plain_unrenamed_correct : forall md tp c name ab,
  bound_symbol md tp c name (c_symbol md c (Plain name) ab) None ab = c_symbol md c (Plain name) ab.
Proof. exact C04.Proofs.plain_unrenamed_correct. Qed.
Print Assumptions plain_unrenamed_correct.

(* ... and on a prefixed target it gets no redundant attribute: the target's own mangling of the
   name is recognised for every convention bindgen knows *)
Theorem prefixed_plain_needs_no_attribute : forall md c name ab,
  has_prefix md = true -> c <> CC_Other ->
  (md = MachO -> c <> CC_Stdcall /\ c <> CC_Fastcall) ->
  link_attr true c name (llvm_mangle md c name ab) None = None.
Proof.
  intros md c name ab Hp Hc Hm. unfold link_attr.
  rewrite (C04.Proofs.mangled_recognised md c name ab Hp Hc Hm). reflexivity.
Qed.
Print Assumptions prefixed_plain_needs_no_attribute.

(* conventions bindgen does not know how to decorate always get the attribute *)
Theorem other_conv_always_links : forall tp can m,
  can <> m -> link_attr tp CC_Other can m None = Some m.
Proof. exact C04.Proofs.other_conv_always_links. Qed.
Print Assumptions other_conv_always_links.

(* the rule before 9285a69d: on ELF, `int foo(int) __asm__("_foo")` bound the symbol `foo` *)
Theorem old_rule_refuted : exists can m,
  bound_symbol_old ELF CC_C can m 0 <> m /\ bound_symbol ELF false CC_C can m None 0 = m.
Proof. exact C04.Proofs.old_rule_refuted. Qed.
Print Assumptions old_rule_refuted.

(* residual corner (known finding): on a prefixed target an asm label equal to the Rust name *)
Theorem equal_on_prefixed_refuted : exists md can n,
  has_prefix md = true /\
  bound_symbol md true CC_C can (c_symbol md CC_C n 0) None 0 <> c_symbol md CC_C n 0.
Proof. exact C04.Proofs.equal_on_prefixed_refuted. Qed.
Print Assumptions equal_on_prefixed_refuted.

(* when clang's mangling is unavailable or distrusted, [mangled] falls back to the C name and the
   true symbol is the target's mangling of that name *)
Theorem fallback_unrenamed_correct : forall md tp c name ab,
  bound_symbol md tp c name name None ab = llvm_mangle md c name ab.
Proof. exact C04.Proofs.fallback_unrenamed_correct. Qed.
Print Assumptions fallback_unrenamed_correct.

Theorem fallback_renamed_no_prefix_correct : forall md c can name ab,
  has_prefix md = false -> can <> name ->
  bound_symbol md false c can name None ab = llvm_mangle md c name ab.
Proof. exact C04.Proofs.fallback_renamed_no_prefix_correct. Qed.
Print Assumptions fallback_renamed_no_prefix_correct.

(* ... and a renamed item on a prefixed target gets a verbatim attribute without the prefix
   (known finding: --distrust-clang-mangling and a keyword-named function on Mach-O) *)
Theorem fallback_renamed_prefixed_refuted : exists md can name,
  has_prefix md = true /\ can <> name /\
  bound_symbol md true CC_C can name None 0 <> llvm_mangle md CC_C name 0.
Proof. exact C04.Proofs.fallback_renamed_prefixed_refuted. Qed.
Print Assumptions fallback_renamed_prefixed_refuted.

(* ---------- signatures ---------- *)
Theorem lower_keeps_arity_and_order : forall s i,
  length (r_args (lower_sig s)) = length (s_args s) /\
  nth_error (r_args (lower_sig s)) i = option_map lower_arg (nth_error (s_args s) i).
Proof. exact C04.Proofs.lower_keeps_arity_and_order. Qed.
Print Assumptions lower_keeps_arity_and_order.

Theorem lower_variadic_tail : forall s, r_dots (lower_sig s) = s_variadic s.
Proof. exact C04.Proofs.lower_variadic_tail. Qed.
Print Assumptions lower_variadic_tail.

Theorem lower_return : forall s,
  (s_divergent s = true -> r_ret (lower_sig s) = RNever) /\
  (s_divergent s = false -> s_ret s = CVoid -> r_ret (lower_sig s) = RUnit) /\
  (forall t, s_divergent s = false -> s_ret s = CValue t -> r_ret (lower_sig s) = RValue t).
Proof. exact C04.Proofs.lower_return. Qed.
Print Assumptions lower_return.

(* array parameters decay exactly as C adjusts them, constness included *)
Theorem lower_matches_c_adjustment : forall p, rarg_matches (c_adjust p) (lower_arg p).
Proof. exact C04.Proofs.lower_matches_c_adjustment. Qed.
Print Assumptions lower_matches_c_adjustment.
