(* C04 — proofs of the statements in Properties.v *)
From Coq Require Import NArith List Bool Lia.
From BG Require Import C04.Model.
From Coq Require Import PeanoNat.
Import ListNotations.
Open Scope N_scope.

(* ---------- helpers ---------- *)
Lemma str_eqb_eq : forall a b, str_eqb a b = true <-> a = b.
Proof.
  induction a as [|x a IH]; destruct b as [|y b]; simpl; split; intro H;
    try reflexivity; try discriminate.
  - apply andb_true_iff in H. destruct H as [H1 H2].
    apply N.eqb_eq in H1. apply IH in H2. subst. reflexivity.
  - inversion H; subst. apply andb_true_iff. split.
    + apply N.eqb_refl.
    + apply IH. reflexivity.
Qed.

Lemma str_eqb_refl : forall a, str_eqb a a = true.
Proof. intro a. apply str_eqb_eq. reflexivity. Qed.

Lemma str_eqb_neq : forall a b, a <> b -> str_eqb a b = false.
Proof.
  intros a b H. destruct (str_eqb a b) eqn:E; [|reflexivity].
  apply str_eqb_eq in E. contradiction.
Qed.

Lemma firstn_app_exact : forall (a b : str), firstn (length a) (a ++ b) = a.
Proof. induction a as [|x a IH]; intro b; simpl; [reflexivity|]. rewrite IH. reflexivity. Qed.

Lemma skipn_app_exact : forall (a b : str), skipn (length a) (a ++ b) = b.
Proof. induction a as [|x a IH]; intro b; simpl; [reflexivity|]. apply IH. Qed.

Lemma apc_other : forall can m, after_prefix_check can m CC_Other = false.
Proof. reflexivity. Qed.

(* what a successful prefix check says about the mangled name *)
Lemma apc_inv : forall can m c pfx sfx,
  conv_prefix c = Some (pfx, sfx) ->
  after_prefix_check can m c = true ->
  exists rest, m = pfx :: can ++ rest /\
    (if sfx then exists ds, rest = at_sign :: ds /\ ds <> [] /\ forallb is_digit ds = true
     else rest = []).
Proof.
  intros can m c pfx sfx Hc H. unfold after_prefix_check in H. rewrite Hc in H.
  destruct (Nat.ltb (length m) (length can + 1)); [discriminate|].
  destruct m as [|m0 rest]; [discriminate|].
  destruct (N.eqb_spec m0 pfx) as [->|]; cbn [negb] in H; [|discriminate].
  destruct (str_eqb (firstn (length can) rest) can) eqn:E; cbn [negb] in H; [|discriminate].
  apply str_eqb_eq in E.
  pose proof (firstn_skipn (length can) rest) as F. rewrite E in F.
  exists (skipn (length can) rest). split.
  - rewrite F. reflexivity.
  - destruct sfx.
    + destruct (skipn (length can) rest) as [|s0 [|d ds]]; try discriminate.
      cbn [tl] in H. apply andb_true_iff in H. destruct H as [H1 H2].
      apply N.eqb_eq in H1. subst s0. exists (d :: ds). split; [reflexivity|].
      split; [discriminate|assumption].
    + apply Nat.eqb_eq in H. cbn [length] in H.
      apply skipn_all2. lia.
Qed.

(* converses *)
Lemma apc_plain_intro : forall can c,
  (c = CC_C \/ c = CC_Var) -> after_prefix_check can (underscore :: can) c = true.
Proof.
  intros can c Hc. unfold after_prefix_check.
  assert (conv_prefix c = Some (underscore, false)) as -> by (destruct Hc; subst; reflexivity).
  destruct (Nat.ltb_spec (length (underscore :: can)) (length can + 1)) as [L|L];
    [cbn [length] in L; lia|].
  rewrite N.eqb_refl. cbn [negb].
  rewrite firstn_all, str_eqb_refl. cbn [negb length].
  apply Nat.eqb_eq. lia.
Qed.

Lemma apc_suffix_intro : forall can c pfx ds,
  conv_prefix c = Some (pfx, true) -> ds <> [] -> forallb is_digit ds = true ->
  after_prefix_check can (pfx :: can ++ at_sign :: ds) c = true.
Proof.
  intros can c pfx ds Hc Hne Hd. unfold after_prefix_check. rewrite Hc.
  destruct (Nat.ltb_spec (length (pfx :: can ++ at_sign :: ds)) (length can + 1)) as [L|L].
  { cbn [length] in L. rewrite app_length in L. cbn [length] in L. lia. }
  rewrite N.eqb_refl. cbn [negb].
  rewrite firstn_app_exact, str_eqb_refl, skipn_app_exact. cbn [negb tl].
  destruct ds as [|d ds]; [congruence|].
  rewrite N.eqb_refl. exact Hd.
Qed.

(* decimal printing yields digits, at least one *)
Lemma digit_ok : forall n, is_digit (48 + n mod 10) = true.
Proof.
  intro n. unfold is_digit.
  assert (n mod 10 < 10) by (apply N.mod_lt; discriminate).
  apply andb_true_iff. generalize dependent (n mod 10). intros r H. split; apply N.leb_le; lia.
Qed.

Lemma dec_aux_digits : forall fuel n acc,
  forallb is_digit acc = true -> forallb is_digit (dec_aux fuel n acc) = true.
Proof.
  induction fuel as [|f IH]; intros n acc H; cbn [dec_aux]; [assumption|].
  assert (forallb is_digit ((48 + n mod 10) :: acc) = true) as H'.
  { cbn [forallb]. rewrite digit_ok, H. reflexivity. }
  destruct (n / 10 =? 0); [assumption|]. apply IH. assumption.
Qed.

Lemma dec_aux_nonempty : forall fuel n acc, acc <> [] -> dec_aux fuel n acc <> [].
Proof.
  induction fuel as [|f IH]; intros n acc H; cbn [dec_aux]; [assumption|].
  destruct (n / 10 =? 0); [discriminate|]. apply IH. discriminate.
Qed.

Lemma dec_digits : forall n, forallb is_digit (dec n) = true.
Proof. intro n. apply dec_aux_digits. reflexivity. Qed.

Lemma dec_nonempty : forall n, dec n <> [].
Proof.
  assert (forall f n, dec_aux (S f) n [] <> []) as H.
  { intros f n. cbn [dec_aux].
    destruct (n / 10 =? 0); [discriminate|]. apply dec_aux_nonempty. discriminate. }
  intro n. apply H.
Qed.

(* on a prefixed target, the decision recognises exactly what the target's mangler produces
   (not needed for the theorems below; shows the "identical" branch is inhabited for every
   convention bindgen knows) *)
Lemma mangled_recognised : forall md c name ab,
  has_prefix md = true -> c <> CC_Other ->
  (md = MachO -> c <> CC_Stdcall /\ c <> CC_Fastcall) ->
  names_identical true name (llvm_mangle md c name ab) c = true.
Proof.
  intros md c name ab Hp Hc Hm. unfold names_identical.
  destruct (str_eqb name (llvm_mangle md c name ab)); [reflexivity|]. cbn [negb].
  destruct md; try discriminate.
  - destruct (Hm eq_refl). destruct c; try congruence;
      apply apc_plain_intro; auto.
  - destruct c; try congruence; cbn [llvm_mangle has_prefix app].
    + apply apc_plain_intro; auto.
    + apply apc_plain_intro; auto.
    + apply apc_suffix_intro; [reflexivity|apply dec_nonempty|apply dec_digits].
    + apply apc_suffix_intro; [reflexivity|apply dec_nonempty|apply dec_digits].
Qed.

(* ---------- the symbol a declaration binds ---------- *)
Lemma differing_names_link_mangled : forall md tp c can m ab,
  names_identical tp can m c = false -> bound_symbol md tp c can m None ab = m.
Proof.
  intros md tp c can m ab H. unfold bound_symbol, link_attr. rewrite H. reflexivity.
Qed.

Lemma explicit_link_name_wins : forall md tp c can m l ab,
  bound_symbol md tp c can m (Some l) ab = l.
Proof. reflexivity. Qed.

Lemma no_prefix_target_correct : forall md tp c can m ab,
  has_prefix md = false -> (tp = true -> has_prefix md = true) ->
  bound_symbol md tp c can m None ab = m.
Proof.
  intros md tp c can m ab Hp Htp.
  assert (tp = false) as ->.
  { destruct tp; [|reflexivity]. rewrite (Htp eq_refl) in Hp. discriminate. }
  unfold bound_symbol, link_attr, names_identical.
  destruct (str_eqb can m) eqn:E; [|reflexivity].
  apply str_eqb_eq in E. subst m.
  destruct md; try discriminate; destruct c; reflexivity.
Qed.

Lemma binds_undecorated_gen : forall md tp c can m ab,
  (tp = true -> has_prefix md = true) ->
  c <> CC_Stdcall -> c <> CC_Fastcall ->
  (has_prefix md = true -> can <> m) ->
  bound_symbol md tp c can m None ab = m.
Proof.
  intros md tp c can m ab Htp Hs Hf Hne.
  unfold bound_symbol, link_attr, names_identical.
  destruct (str_eqb can m) eqn:E.
  - apply str_eqb_eq in E. subst m.
    destruct md, c; try reflexivity; try congruence;
      exfalso; apply Hne; reflexivity.
  - destruct tp; cbn [negb]; [|reflexivity].
    destruct (after_prefix_check can m c) eqn:A; [|reflexivity].
    specialize (Htp eq_refl).
    destruct c; try congruence.
    + destruct (apc_inv can m CC_Var underscore false eq_refl A) as (rest & Hm & Hr).
      subst rest m. rewrite app_nil_r. destruct md; try discriminate; reflexivity.
    + destruct (apc_inv can m CC_C underscore false eq_refl A) as (rest & Hm & Hr).
      subst rest m. rewrite app_nil_r. destruct md; try discriminate; reflexivity.
    + rewrite apc_other in A. discriminate.
Qed.

Lemma binds_c_symbol_undecorated : forall md tp c can n ab,
  (tp = true -> has_prefix md = true) ->
  c <> CC_Stdcall -> c <> CC_Fastcall ->
  (has_prefix md = true -> can <> c_symbol md c n ab) ->
  bound_symbol md tp c can (c_symbol md c n ab) None ab = c_symbol md c n ab.
Proof. intros. apply binds_undecorated_gen; assumption. Qed.

Lemma binds_decorated : forall tp c can m ab,
  (c = CC_Stdcall \/ c = CC_Fastcall) -> can <> m ->
  (forall ds, m = (match c with CC_Fastcall => at_sign | _ => underscore end) :: can ++ at_sign :: ds -> ds = dec ab) ->
  bound_symbol WinX86 tp c can m None ab = m.
Proof.
  intros tp c can m ab Hc Hne Hds.
  unfold bound_symbol, link_attr, names_identical.
  rewrite (str_eqb_neq _ _ Hne).
  destruct tp; cbn [negb]; [|reflexivity].
  destruct (after_prefix_check can m c) eqn:A; [|reflexivity].
  destruct Hc; subst c.
  - destruct (apc_inv can m CC_Stdcall underscore true eq_refl A) as (rest & Hm & ds & Hr & _).
    subst rest. rewrite (Hds ds Hm) in Hm. subst m. reflexivity.
  - destruct (apc_inv can m CC_Fastcall at_sign true eq_refl A) as (rest & Hm & ds & Hr & _).
    subst rest. rewrite (Hds ds Hm) in Hm. subst m. reflexivity.
Qed.

Lemma plain_unrenamed_correct : forall md tp c name ab,
  bound_symbol md tp c name (c_symbol md c (Plain name) ab) None ab = c_symbol md c (Plain name) ab.
Proof.
  intros md tp c name ab. unfold bound_symbol, link_attr. cbn [c_symbol].
  destruct (names_identical tp name (llvm_mangle md c name ab) c); reflexivity.
Qed.

Lemma other_conv_always_links : forall tp can m,
  can <> m -> link_attr tp CC_Other can m None = Some m.
Proof.
  intros tp can m H. unfold link_attr, names_identical.
  rewrite (str_eqb_neq _ _ H), apc_other. destruct tp; reflexivity.
Qed.

Lemma old_rule_refuted : exists can m,
  bound_symbol_old ELF CC_C can m 0 <> m /\ bound_symbol ELF false CC_C can m None 0 = m.
Proof.
  exists [102;111;111], [95;102;111;111]. split.
  - vm_compute. discriminate.
  - vm_compute. reflexivity.
Qed.

Lemma equal_on_prefixed_refuted : exists md can n,
  has_prefix md = true /\
  bound_symbol md true CC_C can (c_symbol md CC_C n 0) None 0 <> c_symbol md CC_C n 0.
Proof.
  exists MachO, [102;111;111], (AsmLabel [102;111;111]). split.
  - reflexivity.
  - vm_compute. discriminate.
Qed.

Lemma fallback_unrenamed_correct : forall md tp c name ab,
  bound_symbol md tp c name name None ab = llvm_mangle md c name ab.
Proof.
  intros. unfold bound_symbol, link_attr, names_identical.
  rewrite str_eqb_refl. reflexivity.
Qed.

Lemma fallback_renamed_no_prefix_correct : forall md c can name ab,
  has_prefix md = false -> can <> name ->
  bound_symbol md false c can name None ab = llvm_mangle md c name ab.
Proof.
  intros md c can name ab Hp Hne. unfold bound_symbol, link_attr, names_identical.
  rewrite (str_eqb_neq _ _ Hne). cbn [negb].
  destruct md; try discriminate; destruct c; reflexivity.
Qed.

Lemma fallback_renamed_prefixed_refuted : exists md can name,
  has_prefix md = true /\ can <> name /\
  bound_symbol md true CC_C can name None 0 <> llvm_mangle md CC_C name 0.
Proof.
  exists MachO, [116;121;112;101;95], [116;121;112;101]. split; [reflexivity|]. split.
  - discriminate.
  - vm_compute. discriminate.
Qed.

(* ---------- signatures ---------- *)
Lemma lower_keeps_arity_and_order : forall s i,
  length (r_args (lower_sig s)) = length (s_args s) /\
  nth_error (r_args (lower_sig s)) i = option_map lower_arg (nth_error (s_args s) i).
Proof.
  intros s i. cbn [lower_sig r_args]. split.
  - apply map_length.
  - generalize (s_args s) as l. clear s.
    induction i as [|i IH]; intros [|p l]; cbn [map nth_error option_map]; try reflexivity.
    apply IH.
Qed.

Lemma lower_variadic_tail : forall s, r_dots (lower_sig s) = s_variadic s.
Proof. reflexivity. Qed.

Lemma lower_return : forall s,
  (s_divergent s = true -> r_ret (lower_sig s) = RNever) /\
  (s_divergent s = false -> s_ret s = CVoid -> r_ret (lower_sig s) = RUnit) /\
  (forall t, s_divergent s = false -> s_ret s = CValue t -> r_ret (lower_sig s) = RValue t).
Proof.
  intro s. cbn [lower_sig r_ret]. unfold lower_ret. repeat split.
  - intros ->. reflexivity.
  - intros -> ->. reflexivity.
  - intros t -> ->. reflexivity.
Qed.

Lemma lower_matches_c_adjustment : forall p, rarg_matches (c_adjust p) (lower_arg p).
Proof. intros [ec sc e|t|t]; cbn; auto. Qed.

(* ---------- non-vacuity ---------- *)
Example ex_identical_stdcall :
  names_identical true [102;111;111] [95;102;111;111;64;49;50] CC_Stdcall = true.
Proof. vm_compute; reflexivity. Qed.
Example ex_identical_no_prefix :
  names_identical false [102;111;111] [95;102;111;111;64;49;50] CC_Stdcall = false.
Proof. vm_compute; reflexivity. Qed.
Example ex_identical_stdcall_no_digits :
  names_identical true [102;111;111] [95;102;111;111;64] CC_Stdcall = false.
Proof. vm_compute; reflexivity. Qed.
Example ex_identical_c_prefixed :
  names_identical true [102;111;111] [95;102;111;111] CC_C = true.
Proof. vm_compute; reflexivity. Qed.
Example ex_identical_other :
  names_identical true [102;111;111] [95;102;111;111] CC_Other = false.
Proof. vm_compute; reflexivity. Qed.
Example ex_mangle_fastcall : llvm_mangle WinX86 CC_Fastcall [102] 8 = [64;102;64;56].
Proof. vm_compute; reflexivity. Qed.
Example ex_mangle_stdcall :
  llvm_mangle WinX86 CC_Stdcall [102;111;111] 12 = [95;102;111;111;64;49;50].
Proof. vm_compute; reflexivity. Qed.
Example ex_mangle_macho : llvm_mangle MachO CC_Stdcall [102;111;111] 12 = [95;102;111;111].
Proof. vm_compute; reflexivity. Qed.
Example ex_mangle_elf : llvm_mangle ELF CC_C [102;111;111] 0 = [102;111;111].
Proof. vm_compute; reflexivity. Qed.
Example ex_dec_0 : dec 0 = [48].
Proof. vm_compute; reflexivity. Qed.
Example ex_dec_120 : dec 120 = [49;50;48].
Proof. vm_compute; reflexivity. Qed.
Example ex_bound_stdcall :
  bound_symbol WinX86 true CC_Stdcall [102;111;111] [95;102;111;111;64;49;50] None 12
  = [95;102;111;111;64;49;50].
Proof. vm_compute; reflexivity. Qed.
(* the decoration hypothesis of binds_decorated is needed: clang says @8, rustc computes 12 *)
Example ex_bound_stdcall_mismatch :
  bound_symbol WinX86 true CC_Stdcall [102;111;111] [95;102;111;111;64;56] None 12
  = [95;102;111;111;64;49;50].
Proof. vm_compute; reflexivity. Qed.
(* x86_64-apple-darwin *)
Example ex_triple_darwin :
  triple_prefixes [120;56;54;95;54;52;45;97;112;112;108;101;45;100;97;114;119;105;110] = true.
Proof. vm_compute; reflexivity. Qed.
(* i686-pc-windows-msvc *)
Example ex_triple_win32 :
  triple_prefixes [105;54;56;54;45;112;99;45;119;105;110;100;111;119;115;45;109;115;118;99] = true.
Proof. vm_compute; reflexivity. Qed.
(* x86_64-pc-windows-msvc *)
Example ex_triple_win64 :
  triple_prefixes [120;56;54;95;54;52;45;112;99;45;119;105;110;100;111;119;115;45;109;115;118;99] = false.
Proof. vm_compute; reflexivity. Qed.
(* x86_64-unknown-linux-gnu *)
Example ex_triple_linux :
  triple_prefixes [120;56;54;95;54;52;45;117;110;107;110;111;119;110;45;108;105;110;117;120;45;103;110;117] = false.
Proof. vm_compute; reflexivity. Qed.
(* aarch64-apple-ios *)
Example ex_triple_ios :
  triple_prefixes [97;97;114;99;104;54;52;45;97;112;112;108;101;45;105;111;115] = true.
Proof. vm_compute; reflexivity. Qed.
