(* C04 — which linker symbol a generated declaration binds, and the shape of its signature.
   Definitions only.  Names are byte strings (list N).

   - [llvm_mangle]: what rustc/LLVM (and clang, for a C declaration without an asm label) turn a
     plain name into on a target: the global prefix of Mach-O and 32-bit x86 COFF, and the
     stdcall/fastcall decorations of 32-bit x86 COFF (LLVM Mangler.cpp, MM_MachO / MM_WinCOFFX86).
   - [names_identical]: utils::names_will_be_identical_after_mangling, as of fix 9285a69d
     ([names_identical_old]: before it).
   - [bound_symbol]: the symbol the emitted declaration resolves to: an explicit
     #[link_name = "\u{1}..."] is verbatim, otherwise the Rust identifier goes through [llvm_mangle].
   - [lower_*]: utils::fnsig_arguments_iter / fnsig_argument_type / fnsig_return_ty on an abstract
     C signature. *)
From Coq Require Import NArith List Bool.
Import ListNotations.
Open Scope N_scope.

Definition str := list N.

Fixpoint str_eqb (a b : str) : bool :=
  match a, b with
  | [], [] => true
  | x :: a', y :: b' => N.eqb x y && str_eqb a' b'
  | _, _ => false
  end.

(* ---------- targets and calling conventions ---------- *)
Inductive mode := ELF | MachO | WinX86 | Win64.
Definition has_prefix (md : mode) : bool := match md with MachO | WinX86 => true | _ => false end.

(* the argument of names_will_be_identical_after_mangling: None (a variable), C / C-unwind,
   stdcall, fastcall, anything else *)
Inductive cc := CC_Var | CC_C | CC_Stdcall | CC_Fastcall | CC_Other.

Definition underscore : N := 95.   (* '_' *)
Definition at_sign : N := 64.      (* '@' *)

(* decimal digits of n, most significant first; fuel = number of digits is at most 40 for N below 2^128 *)
Fixpoint dec_aux (fuel : nat) (n : N) (acc : str) : str :=
  match fuel with
  | O => acc
  | S f => let acc' := (48 + n mod 10) :: acc in
           if n / 10 =? 0 then acc' else dec_aux f (n / 10) acc'
  end.
Definition dec (n : N) : str := dec_aux 40 n [].

Definition llvm_mangle (md : mode) (c : cc) (name : str) (argbytes : N) : str :=
  match md, c with
  | WinX86, CC_Stdcall => underscore :: name ++ at_sign :: dec argbytes
  | WinX86, CC_Fastcall => at_sign :: name ++ at_sign :: dec argbytes
  | _, _ => (if has_prefix md then [underscore] else []) ++ name
  end.

(* ---------- names_will_be_identical_after_mangling ---------- *)
Definition is_digit (b : N) : bool := (48 <=? b) && (b <=? 57).

Definition conv_prefix (c : cc) : option (N * bool) :=
  match c with
  | CC_Var | CC_C => Some (underscore, false)
  | CC_Stdcall => Some (underscore, true)
  | CC_Fastcall => Some (at_sign, true)
  | CC_Other => None
  end.

Definition after_prefix_check (canonical mangled : str) (c : cc) : bool :=
  match conv_prefix c with
  | None => false
  | Some (pfx, expect_suffix) =>
      if Nat.ltb (length mangled) (length canonical + 1) then false else
      match mangled with
      | [] => false
      | m0 :: rest =>
          if negb (N.eqb m0 pfx) then false else
          if negb (str_eqb (firstn (length canonical) rest) canonical) then false else
          let suffix := skipn (length canonical) rest in
          if expect_suffix then
            match suffix with
            | s0 :: (_ :: _) as digits' =>
                N.eqb s0 at_sign && forallb is_digit (tl suffix)
            | _ => false
            end
          else Nat.eqb (length mangled) (length canonical + 1)
      end
  end.

Definition names_identical (underscore_prefix : bool) (canonical mangled : str) (c : cc) : bool :=
  if str_eqb canonical mangled then true
  else if negb underscore_prefix then false
  else after_prefix_check canonical mangled c.

(* before 9285a69d: the target was not consulted *)
Definition names_identical_old (canonical mangled : str) (c : cc) : bool :=
  if str_eqb canonical mangled then true else after_prefix_check canonical mangled c.

(* ---------- the symbol a declaration binds ---------- *)
(* [explicit]: Function::link_name / Var::link_name (a callback's generated_link_name_override);
   [mangled]: mangled_name().unwrap_or(name) *)
Definition link_attr (tp : bool) (c : cc) (canonical mangled : str) (explicit : option str) : option str :=
  match explicit with
  | Some l => Some l
  | None => if names_identical tp canonical mangled c then None else Some mangled
  end.

Definition bound_symbol (md : mode) (tp : bool) (c : cc) (canonical mangled : str)
           (explicit : option str) (argbytes : N) : str :=
  match link_attr tp c canonical mangled explicit with
  | Some l => l
  | None => llvm_mangle md c canonical argbytes
  end.

Definition bound_symbol_old (md : mode) (c : cc) (canonical mangled : str) (argbytes : N) : str :=
  if names_identical_old canonical mangled c then llvm_mangle md c canonical argbytes else mangled.

(* what the C compiler calls the entity: an asm label is verbatim, a C++ name is its ABI
   mangling (opaque here), a plain C name goes through the target's mangler *)
Inductive c_name := Plain (name : str) | AsmLabel (l : str) | Cxx (mangled : str).
Definition c_symbol (md : mode) (c : cc) (n : c_name) (argbytes : N) : str :=
  match n with
  | Plain name => llvm_mangle md c name argbytes
  | AsmLabel l => l
  | Cxx m => m
  end.

(* ---------- triple_prefixes_symbols_with_underscore ---------- *)
Definition dash : N := 45.
Fixpoint split_dash (s : str) (cur : str) : list str :=
  match s with
  | [] => [rev cur]
  | b :: s' => if N.eqb b dash then rev cur :: split_dash s' [] else split_dash s' (b :: cur)
  end.
Fixpoint starts_with (p s : str) : bool :=
  match p, s with
  | [], _ => true
  | x :: p', y :: s' => N.eqb x y && starts_with p' s'
  | _ :: _, [] => false
  end.
Definition s_apple : str := [97;112;112;108;101].
Definition s_darwin : str := [100;97;114;119;105;110].
Definition s_win : str := [119;105;110].
Definition s_mingw : str := [109;105;110;103;119].
Definition x86_archs : list str := [[105;51;56;54]; [105;52;56;54]; [105;53;56;54]; [105;54;56;54]].
Definition triple_prefixes (triple : str) : bool :=
  match split_dash triple [] with
  | [] => false
  | arch :: parts =>
      let is_x86 := existsb (str_eqb arch) x86_archs in
      existsb (fun p => str_eqb p s_apple || starts_with s_darwin p
                        || (is_x86 && (starts_with s_win p || starts_with s_mingw p))) parts
  end.

(* ---------- signature lowering ---------- *)
(* the part of a C parameter / return type that decides how it is lowered *)
Inductive cparam :=
| PArray (elem_const self_const : bool) (elem : N)   (* canonical type is an array of item [elem] *)
| PFnPtr (ty : N)                                    (* canonical type: pointer to a function type (through any typedefs) *)
| POther (ty : N).                                   (* anything else: the type itself *)

Inductive rarg :=
| RPtr (is_const : bool) (pointee : N)   (* *const T / *mut T to the element type *)
| RTy (ty : N).                          (* to_rust_ty_or_opaque of the type itself *)

Definition lower_arg (p : cparam) : rarg :=
  match p with
  | PArray ec sc e => RPtr (ec || sc) e
  | PFnPtr t => RTy t        (* the function pointer itself (Option<fn>): never one more `*mut` around it *)
  | POther t => RTy t
  end.

Inductive cret := CVoid | CValue (ty : N).
Inductive rret := RNever | RUnit | RValue (ty : N).

Record csig := { s_args : list cparam; s_variadic : bool; s_divergent : bool; s_ret : cret }.
Record rsig := { r_args : list rarg; r_dots : bool; r_ret : rret }.

Definition lower_ret (divergent : bool) (r : cret) : rret :=
  if divergent then RNever else match r with CVoid => RUnit | CValue t => RValue t end.

Definition lower_sig (s : csig) : rsig :=
  {| r_args := map lower_arg (s_args s); r_dots := s_variadic s; r_ret := lower_ret (s_divergent s) (s_ret s) |}.

(* C's own adjustment of parameter types (C11 6.7.6.3p7): "array of T" becomes "pointer to T",
   qualified by what is inside the brackets — for a typedef'd array with qualifiers they fall on the
   element type (6.7.3p9) *)
Inductive adjusted := APtr (pointee_const : bool) (pointee : N) | ASame (ty : N).
Definition c_adjust (p : cparam) : adjusted :=
  match p with
  | PArray ec sc e => APtr (ec || sc) e
  | PFnPtr t => ASame t
  | POther t => ASame t
  end.
Definition rarg_matches (a : adjusted) (r : rarg) : Prop :=
  match a, r with
  | APtr c e, RPtr c' e' => c = c' /\ e = e'
  | ASame t, RTy t' => t = t'
  | _, _ => False
  end.
