(* C13 — `module_raw_line`: a map from module names to the lines to put at the top of that module, built by
   repeated calls, printed as `--module-raw-line MODULE LINE` triples and parsed back by repeated calls.
   The map is a hash map: the ORDER OF MODULES in which it is iterated is arbitrary (here: any permutation
   [perm] of the keys), the order of the lines of one module is the order of the calls.  Definitions only. *)
From Coq Require Import List String Bool Permutation.
Import ListNotations.
Open Scope string_scope.

Definition mmap := list (string * list string).      (* association list, keys distinct *)

Fixpoint add_line (m : mmap) (modname line : string) : mmap :=
  match m with
  | [] => [(modname, [line])]
  | (k, ls) :: r => if String.eqb k modname then (k, (ls ++ [line])%list) :: r else (k, ls) :: add_line r modname line
  end.

(* Builder::module_raw_line called once per pair, in order *)
Definition build (calls : list (string * string)) : mmap :=
  fold_left (fun m c => add_line m (fst c) (snd c)) calls [].

Definition lines_of (m : mmap) (modname : string) : list string :=
  match find (fun e => String.eqb (fst e) modname) m with Some e => snd e | None => [] end.

(* as_args: for (module, lines) in map { for line in lines { push triple } }, the map iterated in the order [order] *)
Definition print (order : list string) (m : mmap) : list (string * string) :=
  flat_map (fun k => map (fun l => (k, l)) (lines_of m k)) order.

(* the seeded variant C13-3: all pairs sorted *)
Definition print_sorted (sort : list (string * string) -> list (string * string)) (order : list string) (m : mmap) :=
  sort (print order m).

Definition keys (m : mmap) : list string := map fst m.
