(* C13 — property theorems (statements only; proofs in Proofs.v), generic over any
   well-formed pair of tables and then instantiated with the tables regenerated from
   options/mod.rs and options/cli.rs (BGgen.C13_Table). *)
From Coq Require Import NArith List Bool.
From BG Require Import C13.Model C13.Proofs.
Import ListNotations.
Open Scope N_scope.

(* flags -> builder -> flags: parsing what was printed gives back every table-driven option.
   [representable rows cs o]: every row's value has a shape the flag syntax can carry, and
   [o] respects the secondary effects of the flags it prints (a configuration with
   derive_eq but not derive_partialeq is not reachable through the builder) *)
Theorem roundtrip : forall rows cs o,
  wf rows cs = true -> representable rows cs o = true ->
  exists o', parse rows cs (print rows o) = Some o' /\ agree_on rows o o'.
Proof. exact Proofs.roundtrip. Qed.
Print Assumptions roundtrip.

(* ... and therefore prints to the same flag list again *)
Theorem print_stable : forall rows cs o o',
  wf rows cs = true -> representable rows cs o = true ->
  parse rows cs (print rows o) = Some o' -> print rows o' = print rows o.
Proof. exact Proofs.print_stable. Qed.
Print Assumptions print_stable.

(* defaults are the same on both paths: no flags <-> default options *)
Theorem defaults_agree : forall rows cs,
  nodup_N (map p_field rows) = true ->
  parse rows cs [] = Some (defaults rows) /\ print rows (defaults rows) = [].
Proof. exact Proofs.defaults_agree. Qed.
Print Assumptions defaults_agree.

(* a value that looks like a flag cannot be carried: the one hazard of the syntax *)
Theorem dash_value_refuted : exists rows cs o,
  wf rows cs = true /\ parse rows cs (print rows o) = None.
Proof. exact Proofs.dash_value_refuted. Qed.
Print Assumptions dash_value_refuted.

(* a row whose flag clap does not know makes the round trip fail for some configuration *)
Theorem missing_flag_breaks : forall rows cs r,
  nodup_N (map p_field rows) = true ->
  In r rows -> find_crow cs (p_flag r) = None ->
  exists o, representable rows cs o = true /\ parse rows cs (print rows o) = None.
Proof. exact Proofs.missing_flag_breaks. Qed.
Print Assumptions missing_flag_breaks.

