(* C13 — the generic theorems instantiated with the tables regenerated from
   options/mod.rs and options/cli.rs on every run (BGgen.C13_Table). *)
From Coq Require Import NArith List Bool.
From BG Require Import C13.Model C13.Proofs.
From BGgen Require Import C13_Table.
Import ListNotations.
Open Scope N_scope.

(* ---- the tables bindgen ships today (regenerated on every run) ---- *)
Theorem shipped_tables_wf : wf prows crows = true.
Proof. vm_compute. reflexivity. Qed.
Print Assumptions shipped_tables_wf.

Theorem shipped_roundtrip : forall o,
  representable prows crows o = true ->
  exists o', parse prows crows (print prows o) = Some o' /\ agree_on prows o o'.
Proof. exact (fun o => Proofs.roundtrip prows crows o shipped_tables_wf). Qed.
Print Assumptions shipped_roundtrip.
