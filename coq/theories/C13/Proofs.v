(* C13 — proofs of the statements in Properties.v.  Stdlib only, no axioms, no
   functional extensionality (options are only ever compared pointwise). *)
From Coq Require Import NArith PeanoNat List Bool Lia.
From BG Require Import C13.Model.
Import ListNotations.
Open Scope N_scope.

(* ------------------------------------------------------------------ *)
(* strings                                                             *)
(* ------------------------------------------------------------------ *)
Lemma str_eqb_refl : forall a, str_eqb a a = true.
Proof.
  induction a as [|x a IH]; cbn [str_eqb]; [reflexivity|].
  rewrite N.eqb_refl, IH. reflexivity.
Qed.

Lemma str_eqb_eq : forall a b, str_eqb a b = true <-> a = b.
Proof.
  induction a as [|x a IH]; intros [|y b]; cbn [str_eqb]; split; intro H;
    try reflexivity; try discriminate.
  - apply andb_true_iff in H. destruct H as [Hxy Hab].
    apply N.eqb_eq in Hxy. apply IH in Hab. subst. reflexivity.
  - inversion H; subst. rewrite N.eqb_refl. cbn [andb]. apply str_eqb_refl.
Qed.

Lemma str_eqb_neq : forall a b, str_eqb a b = false <-> a <> b.
Proof.
  intros a b. split.
  - intros H E. apply str_eqb_eq in E. congruence.
  - intros H. destruct (str_eqb a b) eqn:E; [|reflexivity].
    apply str_eqb_eq in E. contradiction.
Qed.

Lemma existsb_str_false : forall x l y,
  existsb (str_eqb x) l = false -> In y l -> x <> y.
Proof.
  intros x l y H Hin E. subst y.
  assert (Ht : existsb (str_eqb x) l = true).
  { apply existsb_exists. exists x. split; [assumption|apply str_eqb_refl]. }
  congruence.
Qed.

Lemma existsb_N_false : forall x l y,
  existsb (N.eqb x) l = false -> In y l -> x <> y.
Proof.
  intros x l y H Hin E. subst y.
  assert (Ht : existsb (N.eqb x) l = true).
  { apply existsb_exists. exists x. split; [assumption|apply N.eqb_refl]. }
  congruence.
Qed.

(* ------------------------------------------------------------------ *)
(* tables                                                              *)
(* ------------------------------------------------------------------ *)
Lemma find_crow_spec : forall cs s c,
  find_crow cs s = Some c -> In c cs /\ c_long c = s.
Proof.
  induction cs as [|c0 cs IH]; intros s c H; cbn [find_crow] in H; [discriminate|].
  destruct (str_eqb (c_long c0) s) eqn:E.
  - inversion H; subst. split; [left; reflexivity|]. apply str_eqb_eq. exact E.
  - destruct (IH _ _ H) as [Hin Hl]. split; [right; exact Hin|exact Hl].
Qed.

Lemma nodup_fields_inj : forall rows r r',
  nodup_N (map p_field rows) = true ->
  In r rows -> In r' rows -> p_field r = p_field r' -> r = r'.
Proof.
  induction rows as [|r0 rows IH]; intros r r' Hnd Hr Hr' Hf; [destruct Hr|].
  cbn [map nodup_N] in Hnd. apply andb_true_iff in Hnd. destruct Hnd as [Hex Hnd].
  apply negb_true_iff in Hex.
  destruct Hr as [Hr|Hr]; destruct Hr' as [Hr'|Hr'].
  - congruence.
  - subst r0. exfalso.
    apply (existsb_N_false _ _ (p_field r') Hex); [|exact Hf].
    apply in_map. exact Hr'.
  - subst r0. exfalso.
    apply (existsb_N_false _ _ (p_field r) Hex); [|symmetry; exact Hf].
    apply in_map. exact Hr.
  - apply IH; assumption.
Qed.

Lemma defaults_at : forall rows r,
  nodup_N (map p_field rows) = true -> In r rows ->
  defaults rows (p_field r) = default_of (p_kind r).
Proof.
  intros rows r Hnd Hin. unfold defaults.
  destruct (find (fun r0 => p_field r0 =? p_field r) rows) as [r0|] eqn:E.
  - apply find_some in E. destruct E as [Hin0 Heq]. apply N.eqb_eq in Heq.
    rewrite (nodup_fields_inj rows r0 r Hnd Hin0 Hin Heq). reflexivity.
  - exfalso. pose proof (find_none _ _ E r Hin) as Hn. cbn beta in Hn.
    rewrite N.eqb_refl in Hn. discriminate.
Qed.

(* what [row_matches] says, case by case *)
Lemma row_matches_inv : forall r c,
  row_matches r c = true ->
  p_flag r = c_long c /\ p_field r = c_field c /\
  ( (p_kind r = PFlag /\ c_arity c = CBool /\ c_effect c = SetBool true)
  \/ (p_kind r = PNegFlag /\ c_arity c = CBool /\ c_effect c = SetBool false)
  \/ (p_kind r = POpt /\ c_arity c = COpt /\ c_effect c = SetSome)
  \/ (p_kind r = PMulti /\ c_arity c = CVec /\ c_effect c = Push)).
Proof.
  intros r c H. unfold row_matches in H.
  apply andb_true_iff in H. destruct H as [H Hk].
  apply andb_true_iff in H. destruct H as [Hs Hf].
  apply str_eqb_eq in Hs. apply N.eqb_eq in Hf.
  split; [exact Hs|]. split; [exact Hf|].
  destruct (p_kind r), (c_arity c), (c_effect c) as [[|]| |]; try discriminate;
    auto 10.
Qed.

Lemma row_ok_inv : forall cs r,
  row_ok cs r = true ->
  exists c, find_crow cs (p_flag r) = Some c /\ row_matches r c = true.
Proof.
  intros cs r H. unfold row_ok in H. apply andb_true_iff in H. destruct H as [H _].
  destruct (find_crow cs (p_flag r)) as [c|]; [|discriminate].
  apply andb_true_iff in H. destruct H as [Hm _]. exists c. split; [reflexivity|exact Hm].
Qed.

Lemma representable_inv : forall rows cs o r,
  representable rows cs o = true -> In r rows ->
  value_ok (p_kind r) (o (p_field r)) = true /\ also_ok cs r o = true.
Proof.
  intros rows cs o r H Hin. unfold representable in H.
  pose proof (proj1 (forallb_forall _ _) H r Hin) as Hr. cbn beta in Hr.
  apply andb_true_iff in Hr. exact Hr.
Qed.

Lemma value_eqb_bool : forall v b, value_eqb v (VBool b) = true -> v = VBool b.
Proof.
  intros [b'|[s|]|l] b H; cbn [value_eqb] in H; try discriminate.
  apply Bool.eqb_prop in H. subst b'. reflexivity.
Qed.

Lemma prow_dec : forall a b : prow, a = b \/ a <> b.
Proof.
  intros [f1 k1 s1] [f2 k2 s2].
  destruct (N.eq_dec f1 f2) as [E|E]; [subst f2|right; congruence].
  assert (Hk : k1 = k2 \/ k1 <> k2) by (destruct k1, k2; auto; right; discriminate).
  destruct Hk as [Hk|Hk]; [subst k2|right; congruence].
  destruct (str_eqb s1 s2) eqn:Es.
  - apply str_eqb_eq in Es. subst s2. left. reflexivity.
  - apply str_eqb_neq in Es. right. congruence.
Qed.

Section Tables.
Variable cs : list crow.
Variable o : options.

(* the occurrences clap produces for what one row prints *)
Definition occs_of_row (r : prow) : list occ :=
  match find_crow cs (p_flag r) with
  | None => []
  | Some c =>
    match p_kind r, o (p_field r) with
    | PFlag, VBool true => [OFlag c]
    | PNegFlag, VBool false => [OFlag c]
    | POpt, VOpt (Some v) => [OVal c v]
    | PMulti, VList l => map (OVal c) l
    | _, _ => []
    end
  end.

Lemma occs_of_row_crow : forall r x,
  In x (occs_of_row r) -> find_crow cs (p_flag r) = Some (occ_crow x).
Proof.
  intros r x Hin. unfold occs_of_row in Hin.
  destruct (find_crow cs (p_flag r)) as [c|]; [|destruct Hin].
  destruct (p_kind r), (o (p_field r)) as [[|]|[v|]|l]; cbn [In] in Hin;
    try contradiction;
    try (destruct Hin as [Hin|[]]; subst x; reflexivity).
  apply in_map_iff in Hin. destruct Hin as [v [Hx _]]. subst x. reflexivity.
Qed.

(* ---- clap on printed argument lists ---- *)
Definition clap_ok (args : list str) (l : list occ) : Prop :=
  forall fuel, (length args <= fuel)%nat -> clap cs fuel args = Some l.

Lemma clap_ok_nil : clap_ok [] [].
Proof. intros [|fuel] _; reflexivity. Qed.

Lemma clap_ok_flag : forall a c rest l,
  find_crow cs a = Some c -> c_arity c = CBool ->
  clap_ok rest l -> clap_ok (a :: rest) (OFlag c :: l).
Proof.
  intros a c rest l Hf Ha Hrest [|fuel] Hlen; cbn [length] in Hlen; [lia|].
  cbn [clap]. rewrite Hf, Ha. rewrite (Hrest fuel) by lia. reflexivity.
Qed.

Lemma clap_ok_val : forall a c v rest l,
  find_crow cs a = Some c -> c_arity c <> CBool -> starts_with_dash v = false ->
  clap_ok rest l -> clap_ok (a :: v :: rest) (OVal c v :: l).
Proof.
  intros a c v rest l Hf Ha Hv Hrest [|fuel] Hlen; cbn [length] in Hlen; [lia|].
  cbn [clap]. rewrite Hf.
  destruct (c_arity c); [congruence| |]; rewrite Hv, (Hrest fuel) by lia; reflexivity.
Qed.

Lemma clap_ok_multi : forall a c l rest tl,
  find_crow cs a = Some c -> c_arity c <> CBool ->
  forallb (fun s => negb (starts_with_dash s)) l = true ->
  clap_ok rest tl ->
  clap_ok (flat_map (fun v => [a; v]) l ++ rest) (map (OVal c) l ++ tl).
Proof.
  intros a c l rest tl Hf Ha. induction l as [|v l IH]; intros Hl Hrest.
  - exact Hrest.
  - cbn [forallb] in Hl. apply andb_true_iff in Hl. destruct Hl as [Hv Hl].
    apply negb_true_iff in Hv.
    cbn [flat_map map app]. apply clap_ok_val; auto.
Qed.

Lemma clap_ok_row : forall r rest tl,
  row_ok cs r = true -> value_ok (p_kind r) (o (p_field r)) = true ->
  clap_ok rest tl ->
  clap_ok (print_row r o ++ rest) (occs_of_row r ++ tl).
Proof.
  intros r rest tl Hok Hv Hrest.
  destruct (row_ok_inv _ _ Hok) as [c [Hf Hm]].
  unfold occs_of_row, print_row. rewrite Hf.
  destruct (row_matches_inv _ _ Hm) as [_ [_ Hk]].
  destruct Hk as [[Hk [Ha He]]|[[Hk [Ha He]]|[[Hk [Ha He]]|[Hk [Ha He]]]]];
    rewrite Hk in *; destruct (o (p_field r)) as [[|]|[v|]|l];
    cbn [value_ok] in Hv; try discriminate; cbn [app]; try exact Hrest.
  - apply clap_ok_flag; assumption.
  - apply clap_ok_flag; assumption.
  - apply negb_true_iff in Hv. apply clap_ok_val; try assumption. congruence.
  - apply clap_ok_multi; try assumption. congruence.
Qed.

Lemma clap_ok_print : forall rows,
  forallb (row_ok cs) rows = true -> representable rows cs o = true ->
  clap_ok (print rows o) (flat_map occs_of_row rows).
Proof.
  induction rows as [|r rows IH]; intros Hok Hrep.
  - apply clap_ok_nil.
  - cbn [forallb] in Hok. apply andb_true_iff in Hok. destruct Hok as [Hr Hok].
    unfold representable in Hrep. cbn [forallb] in Hrep.
    apply andb_true_iff in Hrep. destruct Hrep as [Hv Hrep].
    apply andb_true_iff in Hv. destruct Hv as [Hv _].
    unfold print. cbn [flat_map]. apply clap_ok_row; [exact Hr|exact Hv|].
    apply IH; assumption.
Qed.

(* ---- no_dup_single ---- *)
Lemma count_opt_app : forall c l1 l2,
  count_opt c (l1 ++ l2) = (count_opt c l1 + count_opt c l2)%nat.
Proof.
  intros c l1 l2. induction l1 as [|x l1 IH]; [reflexivity|].
  cbn [app count_opt]. destruct x as [c'|c' v]; [exact IH|]. rewrite IH. lia.
Qed.

Lemma count_opt_other : forall c l,
  (forall x, In x l -> c_long (occ_crow x) <> c_long c) -> count_opt c l = O.
Proof.
  intros c l. induction l as [|x l IH]; intros H; [reflexivity|].
  cbn [count_opt]. destruct x as [c'|c' v].
  - apply IH. intros y Hy. apply H. right. exact Hy.
  - assert (E : str_eqb (c_long c) (c_long c') = false).
    { apply str_eqb_neq. intro E. apply (H (OVal c' v)); [left; reflexivity|].
      cbn [occ_crow]. congruence. }
    rewrite E. rewrite IH; [reflexivity|]. intros y Hy. apply H. right. exact Hy.
Qed.

Lemma occs_of_row_long : forall r x,
  In x (occs_of_row r) -> c_long (occ_crow x) = p_flag r.
Proof.
  intros r x Hin. apply occs_of_row_crow in Hin.
  apply find_crow_spec in Hin. tauto.
Qed.

Lemma count_opt_rows_zero : forall c rows,
  (forall r, In r rows -> p_flag r <> c_long c) ->
  count_opt c (flat_map occs_of_row rows) = O.
Proof.
  intros c rows H. apply count_opt_other. intros x Hx.
  apply in_flat_map in Hx. destruct Hx as [r [Hr Hx]].
  rewrite (occs_of_row_long _ _ Hx). apply H. exact Hr.
Qed.

Lemma count_opt_popt_row : forall c r,
  p_kind r = POpt -> (count_opt c (occs_of_row r) <= 1)%nat.
Proof.
  intros c r Hk. unfold occs_of_row.
  destruct (find_crow cs (p_flag r)) as [c'|]; [|cbn; lia].
  rewrite Hk. destruct (o (p_field r)) as [b|[v|]|l]; cbn [count_opt]; try lia.
  destruct (str_eqb (c_long c) (c_long c')); lia.
Qed.

Lemma count_opt_rows_le1 : forall c rows,
  nodup_str (map p_flag rows) = true ->
  (forall r, In r rows -> p_flag r = c_long c -> p_kind r = POpt) ->
  (count_opt c (flat_map occs_of_row rows) <= 1)%nat.
Proof.
  intros c. induction rows as [|r rows IH]; intros Hnd Hk; [cbn; lia|].
  cbn [map nodup_str] in Hnd. apply andb_true_iff in Hnd. destruct Hnd as [Hex Hnd].
  apply negb_true_iff in Hex.
  cbn [flat_map]. rewrite count_opt_app.
  destruct (str_eqb (p_flag r) (c_long c)) eqn:E.
  - apply str_eqb_eq in E.
    rewrite (count_opt_rows_zero c rows).
    + pose proof (count_opt_popt_row c r (Hk r (or_introl eq_refl) E)). lia.
    + intros r' Hr' E'. apply (existsb_str_false _ _ (p_flag r') Hex).
      * apply in_map. exact Hr'.
      * congruence.
  - apply str_eqb_neq in E.
    rewrite (count_opt_other c (occs_of_row r)).
    + apply IH; [exact Hnd|]. intros r' Hr'. apply Hk. right. exact Hr'.
    + intros x Hx. rewrite (occs_of_row_long _ _ Hx). exact E.
Qed.

Lemma no_dup_single_print : forall rows,
  forallb (row_ok cs) rows = true -> nodup_str (map p_flag rows) = true ->
  no_dup_single (flat_map occs_of_row rows) = true.
Proof.
  intros rows Hok Hnd. unfold no_dup_single. apply forallb_forall.
  intros x Hx. destruct x as [c|c v]; [reflexivity|].
  destruct (c_arity c) eqn:Ha; try reflexivity.
  apply Nat.leb_le. apply count_opt_rows_le1; [exact Hnd|].
  intros r' Hr' Hfl.
  apply in_flat_map in Hx. destruct Hx as [r [Hr Hx]].
  pose proof (occs_of_row_crow _ _ Hx) as Hf. cbn [occ_crow] in Hf.
  destruct (find_crow_spec _ _ _ Hf) as [_ Hl].
  assert (Hf' : find_crow cs (p_flag r') = Some c) by (rewrite Hfl, Hl; exact Hf).
  pose proof (proj1 (forallb_forall _ _) Hok r' Hr') as Hok'.
  destruct (row_ok_inv _ _ Hok') as [c2 [Hf2 Hm]].
  rewrite Hf' in Hf2. inversion Hf2; subst c2.
  destruct (row_matches_inv _ _ Hm) as [_ [_ Hk]].
  destruct Hk as [[Hk [Ha' He]]|[[Hk [Ha' He]]|[[Hk [Ha' He]]|[Hk [Ha' He]]]]];
    congruence.
Qed.

(* ---- apply_all, one field at a time ---- *)
Lemma upd_same : forall o1 f v, upd o1 f v f = v.
Proof. intros o1 f v. unfold upd. rewrite N.eqb_refl. reflexivity. Qed.

Lemma upd_other : forall o1 f g v, f <> g -> upd o1 f v g = o1 g.
Proof.
  intros o1 f g v H. unfold upd.
  destruct (g =? f) eqn:E; [|reflexivity]. apply N.eqb_eq in E. congruence.
Qed.

(* the secondary effects of a flag either leave a field alone or set it to a listed boolean *)
Lemma set_also_fold : forall f l o1,
  fold_left set_also l o1 f = o1 f \/
  exists b, In (f, b) l /\ fold_left set_also l o1 f = VBool b.
Proof.
  intros f l. induction l as [|[g b] l IH]; intros o1; [left; reflexivity|].
  cbn [fold_left]. destruct (IH (set_also o1 (g, b))) as [H|[b' [Hin H]]].
  - rewrite H. unfold set_also. cbn [fst snd].
    destruct (N.eq_dec g f) as [E|E].
    + subst g. right. exists b. split; [left; reflexivity|apply upd_same].
    + left. apply upd_other. exact E.
  - right. exists b'. split; [right; exact Hin|exact H].
Qed.

Definition also_holds (c : crow) : Prop :=
  forall f b, In (f, b) (c_also c) -> o f = VBool b.

Lemma also_ok_occ : forall r x c,
  also_ok cs r o = true -> In x (occs_of_row r) ->
  find_crow cs (p_flag r) = Some c -> also_holds c.
Proof.
  intros r x c Ha Hx Hf f b Hin.
  assert (Hp : print_row r o <> []).
  { unfold occs_of_row in Hx. rewrite Hf in Hx. unfold print_row.
    destruct (p_kind r), (o (p_field r)) as [[|]|[v|]|l]; cbn [In] in Hx;
      try contradiction; try discriminate.
    destruct l as [|v l]; [destruct Hx|]. cbn [flat_map app]. discriminate. }
  unfold also_ok in Ha. rewrite Hf in Ha.
  destruct (print_row r o) as [|a0 l0]; [congruence|].
  pose proof (proj1 (forallb_forall _ _) Ha (f, b) Hin) as Hb. cbn [fst snd] in Hb.
  apply value_eqb_bool. exact Hb.
Qed.

(* an occurrence printed by a row with another field: leaves [f] alone, or sets it to a
   boolean that [o] already has there *)
Lemma occ_other : forall f r x o1,
  row_ok cs r = true -> also_ok cs r o = true ->
  In x (occs_of_row r) -> p_field r <> f ->
  apply_occ o1 x f = o1 f \/ exists b, o f = VBool b /\ apply_occ o1 x f = VBool b.
Proof.
  intros f r x o1 Hok Ha Hx Hne.
  pose proof (occs_of_row_crow _ _ Hx) as Hf.
  destruct (row_ok_inv _ _ Hok) as [c [Hf' Hm]].
  rewrite Hf in Hf'. inversion Hf'; subst c. clear Hf'.
  destruct (row_matches_inv _ _ Hm) as [_ [Hfd _]].
  pose proof (also_ok_occ r x _ Ha Hx Hf) as Hal.
  rewrite Hfd in Hne.
  destruct x as [c|c v]; cbn [occ_crow] in *; cbn [apply_occ].
  - match goal with |- fold_left set_also ?l ?o2 f = _ \/ _ =>
      destruct (set_also_fold f l o2) as [H|[b [Hin H]]] end.
    + left. rewrite H. destruct (c_effect c); try reflexivity. apply upd_other. exact Hne.
    + right. exists b. split; [apply (Hal f b Hin)|exact H].
  - left. destruct (c_effect c); try reflexivity.
    + apply upd_other. exact Hne.
    + destruct (o1 (c_field c)); apply upd_other; exact Hne.
Qed.

(* the single occurrence a bool/option row prints sets its field to what [o] has *)
Lemma occ_own_set : forall r c x o1,
  find_crow cs (p_flag r) = Some c -> row_matches r c = true ->
  value_ok (p_kind r) (o (p_field r)) = true -> also_ok cs r o = true ->
  p_kind r <> PMulti -> In x (occs_of_row r) ->
  apply_occ o1 x (p_field r) = o (p_field r).
Proof.
  intros r c x o1 Hf Hm Hv Ha Hnm Hx.
  pose proof (also_ok_occ r x c Ha Hx Hf) as Hal.
  unfold occs_of_row in Hx. rewrite Hf in Hx.
  destruct (row_matches_inv _ _ Hm) as [_ [Hfd Hk]].
  assert (Hbool : forall bv o2, o (p_field r) = VBool bv -> o2 (p_field r) = VBool bv ->
            fold_left set_also (c_also c) o2 (p_field r) = VBool bv).
  { intros bv o2 Ho H2.
    destruct (set_also_fold (p_field r) (c_also c) o2) as [H|[b [Hin H]]].
    - rewrite H. exact H2.
    - rewrite H. rewrite <- (Hal _ _ Hin). exact Ho. }
  destruct Hk as [[Hk [Hr He]]|[[Hk [Hr He]]|[[Hk [Hr He]]|[Hk [Hr He]]]]];
    [| | |contradiction]; rewrite Hk in *;
    destruct (o (p_field r)) as [[|]|[v|]|l] eqn:Ho; cbn [value_ok] in Hv;
    try discriminate; cbn [In] in Hx; try contradiction;
    destruct Hx as [Hx|[]]; subst x; cbn [apply_occ]; rewrite He.
  - apply Hbool; [reflexivity|]. rewrite <- Hfd. apply upd_same.
  - apply Hbool; [reflexivity|]. rewrite <- Hfd. apply upd_same.
  - rewrite <- Hfd. apply upd_same.
Qed.

Definition keeps (f : N) (x : occ) : Prop := forall o1, apply_occ o1 x f = o1 f.
Definition safe (f : N) (x : occ) : Prop :=
  forall o1, apply_occ o1 x f = o1 f \/ apply_occ o1 x f = o f.

Lemma fold_keeps : forall f l o1,
  (forall x, In x l -> keeps f x) -> fold_left apply_occ l o1 f = o1 f.
Proof.
  intros f l. induction l as [|x l IH]; intros o1 H; [reflexivity|].
  cbn [fold_left]. rewrite IH.
  - apply (H x). left. reflexivity.
  - intros y Hy. apply H. right. exact Hy.
Qed.

Lemma fold_safe : forall f l o1,
  (forall x, In x l -> safe f x) -> o1 f = o f -> fold_left apply_occ l o1 f = o f.
Proof.
  intros f l. induction l as [|x l IH]; intros o1 H H1; [exact H1|].
  cbn [fold_left]. apply IH.
  - intros y Hy. apply H. right. exact Hy.
  - destruct (H x (or_introl eq_refl) o1) as [E|E]; rewrite E; [exact H1|reflexivity].
Qed.

Lemma fold_safe_set : forall f l x0,
  (forall x, In x l -> safe f x) -> In x0 l ->
  (forall o1, apply_occ o1 x0 f = o f) ->
  forall o1, fold_left apply_occ l o1 f = o f.
Proof.
  intros f l x0. induction l as [|x l IH]; intros H Hin Hset o1; [destruct Hin|].
  cbn [fold_left]. destruct Hin as [Hin|Hin].
  - subst x. apply fold_safe; [|apply Hset].
    intros y Hy. apply H. right. exact Hy.
  - apply IH; [|exact Hin|exact Hset]. intros y Hy. apply H. right. exact Hy.
Qed.

Definition sel (c : crow) (x : occ) : bool := str_eqb (c_long (occ_crow x)) (c_long c).

Lemma apply_all_cons : forall c cs' occs o1,
  apply_all (c :: cs') occs o1 =
  apply_all cs' occs (fold_left apply_occ (filter (sel c) occs) o1).
Proof. reflexivity. Qed.

Lemma apply_all_keeps : forall f occs cs' o1,
  (forall c' x, In c' cs' -> In x occs -> sel c' x = true -> keeps f x) ->
  apply_all cs' occs o1 f = o1 f.
Proof.
  intros f occs. induction cs' as [|c' cs' IH]; intros o1 H; [reflexivity|].
  rewrite apply_all_cons. rewrite IH.
  - apply fold_keeps. intros x Hx. apply filter_In in Hx. destruct Hx as [Hx Hs].
    apply (H c' x); [left; reflexivity|exact Hx|exact Hs].
  - intros c'' x Hc Hx Hs. apply (H c'' x); [right; exact Hc|exact Hx|exact Hs].
Qed.

Lemma apply_all_safe : forall f occs cs' o1,
  (forall x, In x occs -> safe f x) -> o1 f = o f ->
  apply_all cs' occs o1 f = o f.
Proof.
  intros f occs. induction cs' as [|c' cs' IH]; intros o1 H H1; [exact H1|].
  rewrite apply_all_cons. apply IH; [exact H|].
  apply fold_safe; [|exact H1].
  intros x Hx. apply filter_In in Hx. apply H. tauto.
Qed.

Lemma apply_all_safe_set : forall f occs c x0,
  (forall x, In x occs -> safe f x) -> In x0 occs -> sel c x0 = true ->
  (forall o1, apply_occ o1 x0 f = o f) ->
  forall cs', In c cs' -> forall o1, apply_all cs' occs o1 f = o f.
Proof.
  intros f occs c x0 H Hx0 Hs Hset.
  induction cs' as [|c0 cs' IH]; intros Hin o1; [destruct Hin|].
  rewrite apply_all_cons. destruct Hin as [Hin|Hin].
  - subst c0. apply apply_all_safe; [exact H|].
    apply (fold_safe_set f _ x0); [| |exact Hset].
    + intros x Hx. apply filter_In in Hx. apply H. tauto.
    + apply filter_In. split; assumption.
  - apply IH. exact Hin.
Qed.

Lemma fold_push : forall c l o1 l0,
  c_effect c = Push -> o1 (c_field c) = VList l0 ->
  fold_left apply_occ (map (OVal c) l) o1 (c_field c) = VList (l0 ++ l).
Proof.
  intros c l. induction l as [|v l IH]; intros o1 l0 He H0.
  - cbn [map fold_left]. rewrite app_nil_r. exact H0.
  - cbn [map fold_left]. rewrite (IH _ (l0 ++ [v]) He).
    + rewrite <- app_assoc. reflexivity.
    + cbn [apply_occ]. rewrite He, H0. apply upd_same.
Qed.

Lemma filter_all : forall (A : Type) (p : A -> bool) l,
  (forall x, In x l -> p x = true) -> filter p l = l.
Proof.
  intros A p. induction l as [|x l IH]; intros H; [reflexivity|].
  cbn [filter]. rewrite (H x (or_introl eq_refl)). rewrite IH; [reflexivity|].
  intros y Hy. apply H. right. exact Hy.
Qed.

Lemma filter_none : forall (A : Type) (p : A -> bool) l,
  (forall x, In x l -> p x = false) -> filter p l = [].
Proof.
  intros A p. induction l as [|x l IH]; intros H; [reflexivity|].
  cbn [filter]. rewrite (H x (or_introl eq_refl)). apply IH.
  intros y Hy. apply H. right. exact Hy.
Qed.

Lemma filter_rows_none : forall c rows,
  (forall r, In r rows -> p_flag r <> c_long c) ->
  filter (sel c) (flat_map occs_of_row rows) = [].
Proof.
  intros c rows H. apply filter_none. intros x Hx.
  apply in_flat_map in Hx. destruct Hx as [r [Hr Hx]].
  unfold sel. apply str_eqb_neq. rewrite (occs_of_row_long _ _ Hx). apply H. exact Hr.
Qed.

Lemma filter_rows_own : forall c rows r,
  nodup_str (map p_flag rows) = true -> In r rows -> p_flag r = c_long c ->
  filter (sel c) (flat_map occs_of_row rows) = occs_of_row r.
Proof.
  intros c. induction rows as [|r0 rows IH]; intros r Hnd Hin Hfl; [destruct Hin|].
  cbn [map nodup_str] in Hnd. apply andb_true_iff in Hnd. destruct Hnd as [Hex Hnd].
  apply negb_true_iff in Hex.
  cbn [flat_map]. rewrite filter_app.
  destruct Hin as [Hin|Hin].
  - subst r0. rewrite filter_all.
    + rewrite filter_rows_none; [apply app_nil_r|].
      intros r' Hr' E. apply (existsb_str_false _ _ (p_flag r') Hex).
      * apply in_map. exact Hr'.
      * congruence.
    + intros x Hx. unfold sel. apply str_eqb_eq.
      rewrite (occs_of_row_long _ _ Hx). exact Hfl.
  - rewrite filter_none.
    + cbn [app]. apply IH; assumption.
    + intros x Hx. unfold sel. apply str_eqb_neq.
      rewrite (occs_of_row_long _ _ Hx). rewrite <- Hfl.
      apply (existsb_str_false _ _ (p_flag r) Hex). apply in_map. exact Hin.
Qed.

(* a row that prints nothing holds its default *)
Lemma occs_nil_default : forall r c,
  find_crow cs (p_flag r) = Some c ->
  value_ok (p_kind r) (o (p_field r)) = true -> occs_of_row r = [] ->
  o (p_field r) = default_of (p_kind r).
Proof.
  intros r c Hf Hv Hn. unfold occs_of_row in Hn. rewrite Hf in Hn.
  destruct (p_kind r), (o (p_field r)) as [[|]|[v|]|l]; cbn [value_ok] in Hv;
    try discriminate; try reflexivity.
  destruct l; [reflexivity|discriminate].
Qed.

Lemma apply_all_field : forall rows r c,
  forallb (row_ok cs) rows = true -> representable rows cs o = true ->
  nodup_str (map p_flag rows) = true -> nodup_N (map p_field rows) = true ->
  In r rows -> find_crow cs (p_flag r) = Some c -> row_matches r c = true ->
  forall cs', nodup_str (map c_long cs') = true -> In c cs' ->
  forall o1, o1 (p_field r) = default_of (p_kind r) ->
  apply_all cs' (flat_map occs_of_row rows) o1 (p_field r) = o (p_field r).
Proof.
  intros rows r c Hok Hrep Hndf Hndn Hin Hf Hm cs' Hndc Hinc o1 Hd.
  destruct (find_crow_spec _ _ _ Hf) as [_ Hlong].
  destruct (representable_inv _ _ _ r Hrep Hin) as [Hv Ha].
  (* what occurrences printed by other rows do to this field *)
  assert (Hoth : forall r' x o2, In r' rows -> In x (occs_of_row r') -> r' <> r ->
            apply_occ o2 x (p_field r) = o2 (p_field r) \/
            exists b, o (p_field r) = VBool b /\ apply_occ o2 x (p_field r) = VBool b).
  { intros r' x o2 Hr' Hx Hne.
    destruct (representable_inv _ _ _ r' Hrep Hr') as [_ Ha'].
    apply (occ_other (p_field r) r'); try assumption.
    - apply (proj1 (forallb_forall _ _) Hok r' Hr').
    - intro E. apply Hne. apply (nodup_fields_inj rows); assumption. }
  assert (Hkd : p_kind r = PMulti \/ p_kind r <> PMulti)
    by (destruct (p_kind r); auto; right; discriminate).
  destruct Hkd as [Hk|Hnm].
  - (* PMulti: nothing else touches the field; the row's own pushes rebuild the list *)
    rewrite Hk in Hv, Hd. cbn [default_of] in Hd.
    destruct (o (p_field r)) as [b|ov|l] eqn:Ho; cbn [value_ok] in Hv; try discriminate.
    destruct (row_matches_inv _ _ Hm) as [_ [Hfd Hkk]].
    assert (He : c_effect c = Push).
    { destruct Hkk as [[Hk' _]|[[Hk' _]|[[Hk' _]|[_ [_ He]]]]]; congruence. }
    assert (Hharm : forall c' x, In x (flat_map occs_of_row rows) -> sel c' x = true ->
                      c_long c' <> c_long c -> keeps (p_field r) x).
    { intros c' x Hx Hs Hne o2.
      apply in_flat_map in Hx. destruct Hx as [r' [Hr' Hx]].
      destruct (prow_dec r' r) as [E|E].
      - subst r'. exfalso. apply Hne. unfold sel in Hs. apply str_eqb_eq in Hs.
        rewrite <- Hs. rewrite (occs_of_row_long _ _ Hx). congruence.
      - destruct (Hoth r' x o2 Hr' Hx E) as [H|[b [Hb _]]]; [exact H|congruence]. }
    clear Hoth. revert o1 Hd.
    induction cs' as [|c0 cs' IH]; intros o1 Hd; [destruct Hinc|].
    cbn [map nodup_str] in Hndc. apply andb_true_iff in Hndc. destruct Hndc as [Hex Hndc].
    apply negb_true_iff in Hex.
    rewrite apply_all_cons.
    destruct Hinc as [Hinc|Hinc].
    + subst c0. rewrite apply_all_keeps.
      * rewrite (filter_rows_own c rows r Hndf Hin (eq_sym Hlong)).
        unfold occs_of_row. rewrite Hf, Hk, Ho. rewrite Hfd. rewrite Hfd in Hd.
        apply (fold_push c l o1 [] He Hd).
      * intros c' x Hc' Hx Hs. apply (Hharm c' x Hx Hs).
        intro E. apply (existsb_str_false _ _ (c_long c') Hex).
        -- apply in_map. exact Hc'.
        -- congruence.
    + apply IH; [exact Hndc|exact Hinc|].
      rewrite fold_keeps; [exact Hd|].
      intros x Hx. apply filter_In in Hx. destruct Hx as [Hx Hs].
      apply (Hharm c0 x Hx Hs).
      apply (existsb_str_false _ _ (c_long c) Hex). apply in_map. exact Hinc.
  - (* PFlag / PNegFlag / POpt: every printed occurrence either leaves the field alone or
       sets it to what [o] has; the row's own occurrence, if any, sets it *)
    assert (Hown : forall x o2, In x (occs_of_row r) ->
              apply_occ o2 x (p_field r) = o (p_field r)).
    { intros x o2 Hx. apply (occ_own_set r c); assumption. }
    assert (Hsafe : forall x, In x (flat_map occs_of_row rows) -> safe (p_field r) x).
    { intros x Hx o2. apply in_flat_map in Hx. destruct Hx as [r' [Hr' Hx]].
      destruct (prow_dec r' r) as [E|E].
      - subst r'. right. apply Hown. exact Hx.
      - destruct (Hoth r' x o2 Hr' Hx E) as [H|[b [Hb H]]]; [left; exact H|right; congruence]. }
    assert (Hcase : occs_of_row r = [] \/ exists x0, In x0 (occs_of_row r)).
    { destruct (occs_of_row r) as [|x0 l0]; [left; reflexivity|].
      right. exists x0. left. reflexivity. }
    destruct Hcase as [Eo|[x0 Hx0]].
    + apply apply_all_safe; [exact Hsafe|].
      rewrite Hd. symmetry. apply (occs_nil_default r c); assumption.
    + apply (apply_all_safe_set (p_field r) _ c x0); try assumption.
      * apply in_flat_map. exists r. split; assumption.
      * unfold sel. apply str_eqb_eq. rewrite (occs_of_row_long r x0 Hx0). congruence.
      * intros o2. apply Hown. exact Hx0.
Qed.

End Tables.

Lemma wf_inv : forall rows cs, wf rows cs = true ->
  forallb (row_ok cs) rows = true /\ nodup_str (map p_flag rows) = true /\
  nodup_N (map p_field rows) = true /\ nodup_str (map c_long cs) = true.
Proof.
  intros rows cs H. unfold wf in H.
  apply andb_true_iff in H. destruct H as [H H4].
  apply andb_true_iff in H. destruct H as [H H3].
  apply andb_true_iff in H. destruct H as [H1 H2]. auto.
Qed.

(* parse of a printed list, computed *)
Lemma parse_print : forall rows cs o,
  wf rows cs = true -> representable rows cs o = true ->
  parse rows cs (print rows o) =
  Some (apply_all cs (flat_map (occs_of_row cs o) rows) (defaults rows)).
Proof.
  intros rows cs o Hwf Hrep.
  destruct (wf_inv _ _ Hwf) as [Hok [Hndf [Hndn Hndc]]].
  unfold parse.
  rewrite (clap_ok_print cs o rows Hok Hrep (S (length (print rows o)))) by lia.
  rewrite (no_dup_single_print cs o rows Hok Hndf). reflexivity.
Qed.

Lemma parse_print_agree : forall rows cs o,
  wf rows cs = true -> representable rows cs o = true ->
  agree_on rows o (apply_all cs (flat_map (occs_of_row cs o) rows) (defaults rows)).
Proof.
  intros rows cs o Hwf Hrep r Hin.
  destruct (wf_inv _ _ Hwf) as [Hok [Hndf [Hndn Hndc]]].
  pose proof (proj1 (forallb_forall _ _) Hok r Hin) as Hr.
  destruct (row_ok_inv _ _ Hr) as [c [Hf Hm]].
  destruct (find_crow_spec _ _ _ Hf) as [Hinc _].
  apply (apply_all_field cs o rows r c); try assumption.
  apply defaults_at; assumption.
Qed.

(* ------------------------------------------------------------------ *)
(* the theorems of Properties.v                                        *)
(* ------------------------------------------------------------------ *)
Lemma roundtrip : forall rows cs o,
  wf rows cs = true -> representable rows cs o = true ->
  exists o', parse rows cs (print rows o) = Some o' /\ agree_on rows o o'.
Proof.
  intros rows cs o Hwf Hrep.
  exists (apply_all cs (flat_map (occs_of_row cs o) rows) (defaults rows)).
  split; [apply parse_print; assumption|apply parse_print_agree; assumption].
Qed.

Lemma print_agree : forall rows o o',
  agree_on rows o o' -> print rows o' = print rows o.
Proof.
  unfold print. induction rows as [|r rows IH]; intros o o' H; [reflexivity|].
  cbn [flat_map]. rewrite (IH o o').
  - unfold print_row. rewrite (H r (or_introl eq_refl)). reflexivity.
  - intros r' Hr'. apply H. right. exact Hr'.
Qed.

Lemma print_stable : forall rows cs o o',
  wf rows cs = true -> representable rows cs o = true ->
  parse rows cs (print rows o) = Some o' -> print rows o' = print rows o.
Proof.
  intros rows cs o o' Hwf Hrep Hp.
  destruct (roundtrip rows cs o Hwf Hrep) as [o'' [Hp' Hag]].
  rewrite Hp in Hp'. inversion Hp'; subst o''.
  apply print_agree. exact Hag.
Qed.

(* ---- defaults ---- *)
Lemma apply_all_nil : forall cs o, apply_all cs [] o = o.
Proof.
  induction cs as [|c cs IH]; intros o; [reflexivity|].
  rewrite apply_all_cons. cbn [filter fold_left]. apply IH.
Qed.

Lemma defaults_parse : forall rows cs, parse rows cs [] = Some (defaults rows).
Proof.
  intros rows cs. unfold parse. cbn [length clap no_dup_single forallb].
  rewrite apply_all_nil. reflexivity.
Qed.

Lemma print_row_default : forall r o,
  o (p_field r) = default_of (p_kind r) -> print_row r o = [].
Proof.
  intros r o H. unfold print_row. rewrite H. destruct (p_kind r); reflexivity.
Qed.

Lemma print_nil : forall rows o,
  (forall r, In r rows -> print_row r o = []) -> print rows o = [].
Proof.
  unfold print. induction rows as [|r rows IH]; intros o H; [reflexivity|].
  cbn [flat_map]. rewrite (H r (or_introl eq_refl)). cbn [app]. apply IH.
  intros r' Hr'. apply H. right. exact Hr'.
Qed.

(* without a hypothesis on [rows] the second half is false when two print rows share a
   field (see [defaults_agree_counterexample]).  With distinct fields (a conjunct of
   [wf]) it holds. *)
Lemma defaults_agree : forall rows cs,
  nodup_N (map p_field rows) = true ->
  parse rows cs [] = Some (defaults rows) /\ print rows (defaults rows) = [].
Proof.
  intros rows cs Hnd. split; [apply defaults_parse|].
  apply print_nil. intros r Hr. apply print_row_default. apply defaults_at; assumption.
Qed.

Definition defaults_agree_fixed := defaults_agree.

Lemma defaults_agree_wf : forall rows cs,
  wf rows cs = true ->
  parse rows cs [] = Some (defaults rows) /\ print rows (defaults rows) = [].
Proof.
  intros rows cs Hwf. apply defaults_agree.
  destruct (wf_inv _ _ Hwf) as [_ [_ [H _]]]. exact H.
Qed.

Definition cex_rows : list prow :=
  [ {| p_field := 1; p_kind := PNegFlag; p_flag := [45;45;97] |};
    {| p_field := 1; p_kind := PFlag;    p_flag := [45;45;98] |} ].

Example defaults_agree_counterexample :
  print cex_rows (defaults cex_rows) = [[45;45;98]] /\
  ~ (forall rows cs,
       parse rows cs [] = Some (defaults rows) /\ print rows (defaults rows) = []).
Proof.
  split; [vm_compute; reflexivity|].
  intros H. destruct (H cex_rows []) as [_ Hp]. vm_compute in Hp. discriminate.
Qed.

(* ---- the dash hazard ---- *)
Lemma dash_value_refuted : exists rows cs o,
  wf rows cs = true /\ parse rows cs (print rows o) = None.
Proof.
  exists [ {| p_field := 0; p_kind := POpt; p_flag := [45;45;97] |} ].
  exists [ {| c_long := [45;45;97]; c_arity := COpt; c_field := 0; c_effect := SetSome;
              c_also := [] |} ].
  exists (fun _ => VOpt (Some [45;120])).
  split; vm_compute; reflexivity.
Qed.

(* ---- a flag clap does not know ---- *)
Definition trigger (k : pkind) : value :=
  match k with
  | PFlag => VBool true | PNegFlag => VBool false
  | POpt => VOpt (Some [97]) | PMulti => VList [[97]]
  end.

Definition only (rows : list prow) (r : prow) : options :=
  fun f => if f =? p_field r then trigger (p_kind r) else defaults rows f.

Lemma print_only_aux : forall rows0 r rows,
  (forall r', In r' rows -> r' <> r ->
     only rows0 r (p_field r') = default_of (p_kind r')) ->
  nodup_N (map p_field rows) = true -> In r rows ->
  print rows (only rows0 r) = print_row r (only rows0 r).
Proof.
  intros rows0 r. induction rows as [|r0 rows IH]; intros Hd Hnd Hin; [destruct Hin|].
  cbn [map nodup_N] in Hnd. apply andb_true_iff in Hnd. destruct Hnd as [Hex Hnd].
  apply negb_true_iff in Hex.
  unfold print. cbn [flat_map]. fold (print rows (only rows0 r)).
  destruct Hin as [Hin|Hin].
  - subst r0. rewrite print_nil; [apply app_nil_r|].
    intros r' Hr'. apply print_row_default. apply Hd; [right; exact Hr'|].
    intro E. subst r'. apply (existsb_N_false _ _ (p_field r) Hex); [|reflexivity].
    apply in_map. exact Hr'.
  - rewrite print_row_default.
    + cbn [app]. apply IH; [|exact Hnd|exact Hin].
      intros r' Hr'. apply Hd. right. exact Hr'.
    + apply Hd; [left; reflexivity|].
      intro E. subst r0. apply (existsb_N_false _ _ (p_field r) Hex); [|reflexivity].
      apply in_map. exact Hin.
Qed.

Lemma only_other : forall rows r r',
  nodup_N (map p_field rows) = true -> In r rows -> In r' rows -> r' <> r ->
  only rows r (p_field r') = default_of (p_kind r').
Proof.
  intros rows r r' Hnd Hr Hr' Hne. unfold only.
  destruct (p_field r' =? p_field r) eqn:E.
  - apply N.eqb_eq in E. exfalso. apply Hne.
    apply (nodup_fields_inj rows); assumption.
  - apply defaults_at; assumption.
Qed.

Lemma missing_flag_breaks : forall rows cs r,
  nodup_N (map p_field rows) = true ->
  In r rows -> find_crow cs (p_flag r) = None ->
  exists o, representable rows cs o = true /\ parse rows cs (print rows o) = None.
Proof.
  intros rows cs r Hnd Hin Hf. exists (only rows r). split.
  - unfold representable. apply forallb_forall. intros r' Hr'.
    apply andb_true_iff.
    destruct (p_field r' =? p_field r) eqn:E.
    + apply N.eqb_eq in E.
      rewrite (nodup_fields_inj rows r' r Hnd Hr' Hin E). split.
      * unfold only. rewrite N.eqb_refl. destruct (p_kind r); reflexivity.
      * unfold also_ok. rewrite Hf. destruct (print_row r (only rows r)); reflexivity.
    + assert (Hd : only rows r (p_field r') = default_of (p_kind r')).
      { apply only_other; try assumption.
        intro E'. subst r'. rewrite N.eqb_refl in E. discriminate. }
      split.
      * rewrite Hd. destruct (p_kind r'); reflexivity.
      * unfold also_ok. rewrite (print_row_default r' _ Hd). reflexivity.
  - rewrite (print_only_aux rows r rows); try assumption.
    + unfold parse, print_row, only. rewrite N.eqb_refl.
      destruct (p_kind r); cbn [trigger flat_map app length clap]; rewrite Hf; reflexivity.
    + intros r' Hr' Hne. apply only_other; assumption.
Qed.

(* ------------------------------------------------------------------ *)
(* non-vacuity: a concrete 7-row table, clap rows in another order,    *)
(* with extra clap rows that touch printed fields but are never        *)
(* printed, and two flags with secondary effects: [--a] also sets      *)
(* field 6 (its own row [--f] comes EARLIER in the clap table) and     *)
(* [--g] also clears field 2 (its own row [--b], a negated flag whose  *)
(* default is true, comes LATER in the clap table)                     *)
(* ------------------------------------------------------------------ *)
Module NonVacuous.
Definition fa := [45;45;97]. Definition fb := [45;45;98]. Definition fc := [45;45;99].
Definition fd := [45;45;100]. Definition fe := [45;45;101]. Definition ff := [45;45;102].
Definition fg := [45;45;103].
Definition rows : list prow :=
  [ {| p_field := 1; p_kind := PFlag;    p_flag := fa |};
    {| p_field := 2; p_kind := PNegFlag; p_flag := fb |};
    {| p_field := 3; p_kind := POpt;     p_flag := fc |};
    {| p_field := 4; p_kind := PMulti;   p_flag := fd |};
    {| p_field := 5; p_kind := PMulti;   p_flag := fe |};
    {| p_field := 6; p_kind := PFlag;    p_flag := ff |};
    {| p_field := 7; p_kind := PFlag;    p_flag := fg |} ].
Definition cs : list crow :=
  [ {| c_long := [45;45;120]; c_arity := CBool; c_field := 1; c_effect := SetBool false; c_also := [] |};
    {| c_long := fg; c_arity := CBool; c_field := 7; c_effect := SetBool true; c_also := [(2, false)] |};
    {| c_long := ff; c_arity := CBool; c_field := 6; c_effect := SetBool true; c_also := [] |};
    {| c_long := fe; c_arity := CVec;  c_field := 5; c_effect := Push; c_also := [] |};
    {| c_long := fd; c_arity := CVec;  c_field := 4; c_effect := Push; c_also := [] |};
    {| c_long := [45;45;121]; c_arity := CVec; c_field := 4; c_effect := Push; c_also := [] |};
    {| c_long := fc; c_arity := COpt;  c_field := 3; c_effect := SetSome; c_also := [] |};
    {| c_long := [45;45;122]; c_arity := COpt; c_field := 3; c_effect := SetSome; c_also := [] |};
    {| c_long := fb; c_arity := CBool; c_field := 2; c_effect := SetBool false; c_also := [] |};
    {| c_long := [45;45;119]; c_arity := CBool; c_field := 2; c_effect := SetBool true; c_also := [(1, false)] |};
    {| c_long := fa; c_arity := CBool; c_field := 1; c_effect := SetBool true; c_also := [(6, true)] |} ].
Definition o : options :=
  fun f => match f with
           | 1 => VBool true | 2 => VBool false | 3 => VOpt (Some [])
           | 4 => VList [[97]; []; [97;45]; [97]] | 5 => VList [[100]]
           | 6 => VBool true | 7 => VBool true
           | _ => VBool true
           end.
Definition fields := map p_field rows.
Definition view (x : option options) := option_map (fun o' => map o' fields) x.

Example wf_nonvacuous : wf rows cs = true.
Proof. vm_compute. reflexivity. Qed.

Example representable_nonvacuous :
  representable rows cs o = true /\ print rows o <> [] /\
  map o fields <> map (defaults rows) fields.
Proof. repeat split; vm_compute; discriminate. Qed.

Example roundtrip_nonvacuous :
  view (parse rows cs (print rows o)) = Some (map o fields).
Proof. vm_compute. reflexivity. Qed.

Example print_stable_nonvacuous :
  option_map (print rows) (parse rows cs (print rows o)) = Some (print rows o).
Proof. vm_compute. reflexivity. Qed.

(* the secondary-effect side condition of [representable] cannot be dropped: [o_bad] has
   well-shaped values everywhere but has field 6 false although [--a] (printed, field 1)
   also sets it; the parse succeeds and gives field 6 = true.  The same happens for the
   negated flag: [o_bad2] has field 2 true although [--g] clears it. *)
Definition o_bad : options := fun f => if f =? 6 then VBool false else o f.
Definition o_bad2 : options := fun f => if f =? 2 then VBool true else o f.

Example also_condition_needed :
  wf rows cs = true /\
  forallb (fun r => value_ok (p_kind r) (o_bad (p_field r))) rows = true /\
  representable rows cs o_bad = false /\
  view (parse rows cs (print rows o_bad)) = Some (map o fields) /\
  o_bad 6 <> o 6 /\
  forallb (fun r => value_ok (p_kind r) (o_bad2 (p_field r))) rows = true /\
  representable rows cs o_bad2 = false /\
  option_map (fun o' => o' 2) (parse rows cs (print rows o_bad2)) = Some (VBool false).
Proof. repeat split; vm_compute; try reflexivity; discriminate. Qed.

Example missing_flag_nonvacuous :
  find_crow (tl (tl (tl cs))) fg = None /\
  forallb (fun r => match parse rows [] (print rows (only rows r)) with
                    | None => representable rows [] (only rows r) | Some _ => false end)
          rows = true.
Proof. split; vm_compute; reflexivity. Qed.
End NonVacuous.
