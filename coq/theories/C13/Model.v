(* C13 — model of Builder::command_line_flags (options/mod.rs, as_args.rs) and of
   builder_from_flags (options/cli.rs: clap parsing + apply_args!) for the option
   rows whose conversion is table-driven ("simple" rows: bare flags, negated flags,
   optional values, repeated values).  The table is regenerated from the source on
   every run (coq/gen/C13_Table.v).  Definitions only.  Strings are byte lists. *)
From Coq Require Import NArith List Bool.
Import ListNotations.
Open Scope N_scope.

Definition str := list N.
Fixpoint str_eqb (a b : str) : bool :=
  match a, b with
  | [], [] => true
  | x :: a', y :: b' => (x =? y) && str_eqb a' b'
  | _, _ => false
  end.

Inductive value := VBool (b : bool) | VOpt (o : option str) | VList (l : list str).

(* ---- printing side: one row per BindgenOptions field with a table-driven as_args ---- *)
Inductive pkind :=
| PFlag      (* bool, printed as the bare flag when true          (default false) *)
| PNegFlag   (* bool, printed as the bare flag when false         (default true)  *)
| POpt       (* Option<String|PathBuf>: flag value when Some *)
| PMulti.    (* RegexSet / Vec: flag value for every item, in order *)

Record prow := { p_field : N; p_kind : pkind; p_flag : str }.

Definition default_of (k : pkind) : value :=
  match k with
  | PFlag => VBool false | PNegFlag => VBool true | POpt => VOpt None | PMulti => VList []
  end.

Definition options := N -> value.

Definition print_row (r : prow) (o : options) : list str :=
  match p_kind r, o (p_field r) with
  | PFlag, VBool true => [p_flag r]
  | PNegFlag, VBool false => [p_flag r]
  | POpt, VOpt (Some v) => [p_flag r; v]
  | PMulti, VList l => flat_map (fun v => [p_flag r; v]) l
  | _, _ => []
  end.

Definition print (rows : list prow) (o : options) : list str :=
  flat_map (fun r => print_row r o) rows.

(* ---- parsing side: one row per clap argument with a long name ---- *)
Inductive carity := CBool | COpt | CVec.
(* what the builder method that apply_args! attaches to the argument does to its field *)
Inductive effect :=
| SetBool (b : bool)   (* method(doit) called with the flag's `true`, or a closure passing a constant *)
| SetSome              (* field = Some(value) *)
| Push.                (* field.insert(value) / push(value) *)

(* [c_also]: further fields the builder method sets to a constant boolean when the flag
   occurs (derive_eq(true) also sets derive_partialeq, derive_ord(true) also sets
   derive_partialord); empty for most rows, only acted upon for bare flags. *)
Record crow := { c_long : str; c_arity : carity; c_field : N; c_effect : effect;
                 c_also : list (N * bool) }.

Fixpoint find_crow (cs : list crow) (flag : str) : option crow :=
  match cs with
  | [] => None
  | c :: t => if str_eqb (c_long c) flag then Some c else find_crow t flag
  end.

Definition DASH : N := 45.
Definition starts_with_dash (s : str) : bool :=
  match s with c :: _ => c =? DASH | [] => false end.

(* clap: occurrences, left to right.  A value-taking flag consumes the next argument
   unless that looks like a flag (clap rejects it: "unexpected argument"); a
   single-valued option given twice is an error. *)
Inductive occ := OFlag (c : crow) | OVal (c : crow) (v : str).

Fixpoint clap (cs : list crow) (fuel : nat) (args : list str) : option (list occ) :=
  match fuel with
  | O => match args with [] => Some [] | _ => None end
  | S fuel' =>
    match args with
    | [] => Some []
    | a :: rest =>
      match find_crow cs a with
      | None => None
      | Some c =>
        match c_arity c with
        | CBool => option_map (cons (OFlag c)) (clap cs fuel' rest)
        | _ =>
          match rest with
          | v :: rest' =>
              if starts_with_dash v then None
              else option_map (cons (OVal c v)) (clap cs fuel' rest')
          | [] => None
          end
        end
      end
    end
  end.

Fixpoint count_opt (c : crow) (l : list occ) : nat :=
  match l with
  | [] => O
  | OVal c' _ :: t => (if str_eqb (c_long c) (c_long c') then 1 else 0)%nat + count_opt c t
  | _ :: t => count_opt c t
  end.

Definition no_dup_single (l : list occ) : bool :=
  forallb (fun o => match o with
                    | OVal c _ => match c_arity c with COpt => Nat.leb (count_opt c l) 1 | _ => true end
                    | _ => true end) l.

Definition upd (o : options) (f : N) (v : value) : options :=
  fun g => if g =? f then v else o g.

(* apply_args!: for each clap argument in table order, apply its occurrences in
   command-line order *)
Definition set_also (o : options) (fb : N * bool) : options :=
  upd o (fst fb) (VBool (snd fb)).

Definition apply_occ (o : options) (x : occ) : options :=
  match x with
  | OFlag c =>
      fold_left set_also (c_also c)
                (match c_effect c with SetBool b => upd o (c_field c) (VBool b) | _ => o end)
  | OVal c v =>
      match c_effect c with
      | SetSome => upd o (c_field c) (VOpt (Some v))
      | Push => match o (c_field c) with
                | VList l => upd o (c_field c) (VList (l ++ [v]))
                | _ => upd o (c_field c) (VList [v])
                end
      | SetBool _ => o
      end
  end.

Definition occ_crow (x : occ) : crow := match x with OFlag c => c | OVal c _ => c end.

Definition apply_all (cs : list crow) (occs : list occ) (o : options) : options :=
  fold_left (fun o c =>
               fold_left apply_occ
                         (filter (fun x => str_eqb (c_long (occ_crow x)) (c_long c)) occs) o)
            cs o.

Definition defaults (rows : list prow) : options :=
  fun f => match find (fun r => p_field r =? f) rows with
           | Some r => default_of (p_kind r)
           | None => VBool false
           end.

Definition parse (rows : list prow) (cs : list crow) (args : list str) : option options :=
  match clap cs (S (length args)) args with
  | Some occs => if no_dup_single occs then Some (apply_all cs occs (defaults rows)) else None
  | None => None
  end.

(* ---- well-formedness of the extracted tables (decidable; checked by vm_compute) ---- *)
Definition row_matches (r : prow) (c : crow) : bool :=
  str_eqb (p_flag r) (c_long c) && (p_field r =? c_field c) &&
  match p_kind r, c_arity c, c_effect c with
  | PFlag, CBool, SetBool true => true
  | PNegFlag, CBool, SetBool false => true
  | POpt, COpt, SetSome => true
  | PMulti, CVec, Push => true
  | _, _, _ => false
  end.

Fixpoint nodup_str (l : list str) : bool :=
  match l with
  | [] => true
  | x :: t => negb (existsb (str_eqb x) t) && nodup_str t
  end.
Fixpoint nodup_N (l : list N) : bool :=
  match l with
  | [] => true
  | x :: t => negb (existsb (N.eqb x) t) && nodup_N t
  end.

(* every printed flag is a clap argument of the right arity whose builder method sets
   the same field the same way; flags and fields are not shared between rows; a flag
   is not confusable with a value; a flag's secondary effects are on other fields *)
Definition also_distinct (c : crow) : bool :=
  forallb (fun fb => negb (fst fb =? c_field c)) (c_also c).

Definition row_ok (cs : list crow) (r : prow) : bool :=
  match find_crow cs (p_flag r) with
  | Some c => row_matches r c && also_distinct c
  | None => false
  end && starts_with_dash (p_flag r).

(* clap rows that touch a printed field without being that row's own flag (e.g. both
   --with-derive-default and --no-derive-default exist) are harmless for the round trip
   because print never emits them; they are outside [wf]. *)
Definition wf (rows : list prow) (cs : list crow) : bool :=
  forallb (row_ok cs) rows
  && nodup_str (map p_flag rows) && nodup_N (map p_field rows)
  && nodup_str (map c_long cs).

(* rows that fail, for the witness search *)
Definition bad_rows (rows : list prow) (cs : list crow) : list N :=
  map p_field (filter (fun r => negb (row_ok cs r)) rows).

(* ---- which option values the flag syntax can carry ---- *)
Definition value_ok (k : pkind) (v : value) : bool :=
  match k, v with
  | PFlag, VBool _ => true
  | PNegFlag, VBool _ => true
  | POpt, VOpt None => true
  | POpt, VOpt (Some s) => negb (starts_with_dash s)
  | PMulti, VList l => forallb (fun s => negb (starts_with_dash s)) l
  | _, _ => false
  end.

Definition value_eqb (a b : value) : bool :=
  match a, b with
  | VBool x, VBool y => Bool.eqb x y
  | VOpt None, VOpt None => true
  | VOpt (Some x), VOpt (Some y) => str_eqb x y
  | VList x, VList y =>
      (fix go (a b : list str) : bool :=
         match a, b with
         | [], [] => true
         | s :: a', t :: b' => str_eqb s t && go a' b'
         | _, _ => false
         end) x y
  | _, _ => false
  end.

(* a configuration is only reachable through the builder if it respects the secondary
   effects: whenever a row prints under [o], every (f, b) its flag also sets holds in [o] *)
Definition also_ok (cs : list crow) (r : prow) (o : options) : bool :=
  match print_row r o with
  | [] => true
  | _ :: _ =>
    match find_crow cs (p_flag r) with
    | Some c => forallb (fun fb => value_eqb (o (fst fb)) (VBool (snd fb))) (c_also c)
    | None => true
    end
  end.

Definition representable (rows : list prow) (cs : list crow) (o : options) : bool :=
  forallb (fun r => value_ok (p_kind r) (o (p_field r)) && also_ok cs r o) rows.

Definition agree_on (rows : list prow) (o o' : options) : Prop :=
  forall r, In r rows -> o' (p_field r) = o (p_field r).
