(* C13 — module raw lines round trip: proofs of the statements in ModuleLinesProperties.v. *)
From Coq Require Import List String Bool Permutation.
From BG Require Import C13.ModuleLines.
Import ListNotations.
Open Scope list_scope.

(* ---------- add_line / lines_of ---------- *)

Lemma lines_of_add_same : forall m k l,
  lines_of (add_line m k l) k = lines_of m k ++ [l].
Proof.
  intros m k l. unfold lines_of. induction m as [|[k0 ls] r IH]; simpl.
  - rewrite String.eqb_refl. reflexivity.
  - destruct (String.eqb k0 k) eqn:E; simpl; rewrite E; simpl.
    + reflexivity.
    + exact IH.
Qed.

Lemma lines_of_add_other : forall m k l k',
  k' <> k -> lines_of (add_line m k l) k' = lines_of m k'.
Proof.
  intros m k l k' H. unfold lines_of. induction m as [|[k0 ls] r IH]; simpl.
  - destruct (String.eqb k k') eqn:E.
    + apply String.eqb_eq in E. congruence.
    + reflexivity.
  - destruct (String.eqb k0 k) eqn:E; simpl.
    + apply String.eqb_eq in E. subst k0.
      destruct (String.eqb k k') eqn:E2.
      * apply String.eqb_eq in E2. congruence.
      * reflexivity.
    + destruct (String.eqb k0 k'); auto.
Qed.

Lemma lines_of_fold : forall calls m0 k,
  lines_of (fold_left (fun m c => add_line m (fst c) (snd c)) calls m0) k
  = lines_of m0 k ++ map snd (filter (fun c : string * string => String.eqb (fst c) k) calls).
Proof.
  induction calls as [|[a b] r IH]; intros m0 k; simpl.
  - rewrite app_nil_r. reflexivity.
  - rewrite IH. destruct (String.eqb a k) eqn:E.
    + apply String.eqb_eq in E. subst a. rewrite lines_of_add_same. simpl.
      rewrite <- app_assoc. reflexivity.
    + rewrite lines_of_add_other; [reflexivity|].
      intro; subst a. rewrite String.eqb_refl in E. discriminate.
Qed.

Lemma lines_of_build : forall calls modname,
  lines_of (build calls) modname = map snd (filter (fun c => String.eqb (fst c) modname) calls).
Proof.
  intros calls k. unfold build. rewrite lines_of_fold. reflexivity.
Qed.

(* ---------- keys ---------- *)

Lemma keys_add_in : forall m k l x,
  In x (keys (add_line m k l)) -> x = k \/ In x (keys m).
Proof.
  unfold keys. induction m as [|[k0 ls] r IH]; intros k l x H; simpl in *.
  - destruct H as [H|[]]. left; congruence.
  - destruct (String.eqb k0 k) eqn:E; simpl in *.
    + right. exact H.
    + destruct H as [H|H].
      * right; left; exact H.
      * apply IH in H. destruct H; [left|right; right]; assumption.
Qed.

Lemma keys_add_nodup : forall m k l,
  NoDup (keys m) -> NoDup (keys (add_line m k l)).
Proof.
  induction m as [|[k0 ls] r IH]; intros k l H.
  - simpl. constructor; [intros []|constructor].
  - simpl. destruct (String.eqb k0 k) eqn:E.
    + exact H.
    + change (NoDup (k0 :: keys (add_line r k l))).
      change (NoDup (k0 :: keys r)) in H. inversion H as [|? ? Hn Hd]; subst.
      constructor.
      * intro Hin. apply keys_add_in in Hin. destruct Hin as [Hin|Hin].
        -- subst k0. rewrite String.eqb_refl in E. discriminate.
        -- exact (Hn Hin).
      * apply IH. exact Hd.
Qed.

Lemma keys_fold_nodup : forall calls m0,
  NoDup (keys m0) -> NoDup (keys (fold_left (fun m c => add_line m (fst c) (snd c)) calls m0)).
Proof.
  induction calls as [|c r IH]; intros m0 H; simpl.
  - exact H.
  - apply IH. apply keys_add_nodup. exact H.
Qed.

Lemma keys_build_nodup : forall calls, NoDup (keys (build calls)).
Proof.
  intro calls. unfold build. apply keys_fold_nodup. constructor.
Qed.

Lemma lines_of_not_key : forall m k, ~ In k (keys m) -> lines_of m k = [].
Proof.
  unfold lines_of, keys. induction m as [|[k0 ls] r IH]; intros k H; simpl in *.
  - reflexivity.
  - destruct (String.eqb k0 k) eqn:E.
    + apply String.eqb_eq in E. exfalso. apply H. left. exact E.
    + apply IH. intro Hin. apply H. right. exact Hin.
Qed.

(* ---------- filtering the printed pairs ---------- *)

Lemma filter_block_same : forall k (ls : list string),
  map snd (filter (fun c : string * string => String.eqb (fst c) k) (map (fun l => (k, l)) ls)) = ls.
Proof.
  intros k ls. induction ls as [|l r IH]; simpl.
  - reflexivity.
  - rewrite String.eqb_refl. simpl. rewrite IH. reflexivity.
Qed.

Lemma filter_block_other : forall k k' (ls : list string),
  k' <> k ->
  filter (fun c : string * string => String.eqb (fst c) k) (map (fun l => (k', l)) ls) = [].
Proof.
  intros k k' ls H. induction ls as [|l r IH]; simpl.
  - reflexivity.
  - destruct (String.eqb k' k) eqn:E.
    + apply String.eqb_eq in E. congruence.
    + exact IH.
Qed.

Lemma filter_print_absent : forall order m k,
  ~ In k order ->
  filter (fun c : string * string => String.eqb (fst c) k) (print order m) = [].
Proof.
  unfold print. induction order as [|a r IH]; intros m k H; simpl.
  - reflexivity.
  - rewrite filter_app. rewrite filter_block_other.
    + simpl. apply IH. intro Hin. apply H. right. exact Hin.
    + intro; subst a. apply H. left. reflexivity.
Qed.

Lemma filter_print_present : forall order m k,
  NoDup order -> In k order ->
  map snd (filter (fun c : string * string => String.eqb (fst c) k) (print order m)) = lines_of m k.
Proof.
  induction order as [|a r IH]; intros m k Hnd Hin.
  - destruct Hin.
  - inversion Hnd as [|? ? Hn Hd]; subst.
    change (print (a :: r) m) with (map (fun l => (a, l)) (lines_of m a) ++ print r m).
    rewrite filter_app, map_app.
    destruct (string_dec a k) as [Heq|Hne].
    + subst a. rewrite filter_block_same. rewrite filter_print_absent by exact Hn.
      simpl. apply app_nil_r.
    + rewrite filter_block_other by exact Hne. simpl.
      destruct Hin as [Hin|Hin]; [congruence|].
      apply IH; assumption.
Qed.

(* ---------- the round trip ---------- *)

Lemma module_lines_roundtrip : forall calls order modname,
  Permutation order (keys (build calls)) ->
  lines_of (build (print order (build calls))) modname = lines_of (build calls) modname.
Proof.
  intros calls order k HP.
  rewrite (lines_of_build (print order (build calls)) k).
  assert (Hnd : NoDup order).
  { eapply Permutation_NoDup; [apply Permutation_sym; exact HP|apply keys_build_nodup]. }
  destruct (in_dec string_dec k order) as [Hin|Hnin].
  - apply filter_print_present; assumption.
  - rewrite filter_print_absent by exact Hnin. simpl.
    symmetry. apply lines_of_not_key. intro Hk. apply Hnin.
    eapply Permutation_in; [apply Permutation_sym; exact HP|exact Hk].
Qed.

(* ---------- the seeded variant is refuted ---------- *)

Lemma sorted_print_refuted : exists calls modname,
  let sort := fun l : list (string * string) => rev l in     (* any re-ordering will do: reversal is the smallest *)
  lines_of (build (print_sorted sort (keys (build calls)) (build calls))) modname <> lines_of (build calls) modname.
Proof.
  exists [("root"%string, "a"%string); ("root"%string, "b"%string)], "root"%string.
  vm_compute. intro H. discriminate H.
Qed.
