(* C13 — module raw lines round trip: statements only. *)
From Coq Require Import List String Bool Permutation.
From BG Require Import C13.ModuleLines C13.ModuleLinesProofs.
Import ListNotations.
Open Scope string_scope.

(* whatever order the hash map is iterated in when the flags are printed, the configuration rebuilt from the flags
   gives every module the same lines in the same order *)
Theorem module_lines_roundtrip : forall calls order modname,
  Permutation order (keys (build calls)) ->
  lines_of (build (print order (build calls))) modname = lines_of (build calls) modname.
Proof. exact C13.ModuleLinesProofs.module_lines_roundtrip. Qed.
Print Assumptions module_lines_roundtrip.

(* the lines of a module are the lines of the calls that name it, in call order *)
Theorem lines_of_build : forall calls modname,
  lines_of (build calls) modname = map snd (filter (fun c => String.eqb (fst c) modname) calls).
Proof. exact C13.ModuleLinesProofs.lines_of_build. Qed.
Print Assumptions lines_of_build.

(* printing the pairs sorted (seeded change C13-3) does not round-trip: the lines of one module change order *)
Theorem sorted_print_refuted : exists calls modname,
  let sort := fun l : list (string * string) => rev l in     (* any re-ordering will do: reversal is the smallest *)
  lines_of (build (print_sorted sort (keys (build calls)) (build calls))) modname <> lines_of (build calls) modname.
Proof. exact C13.ModuleLinesProofs.sorted_print_refuted. Qed.
Print Assumptions sorted_print_refuted.

Example module_lines_example :
  let calls := [("root", "pub type Zz = u8;"); ("root::ns", "use super::*;"); ("root", "pub type Aa = u16;")] in
  lines_of (build calls) "root" = ["pub type Zz = u8;"; "pub type Aa = u16;"] /\
  print ["root::ns"; "root"] (build calls) = [("root::ns", "use super::*;"); ("root", "pub type Zz = u8;"); ("root", "pub type Aa = u16;")].
Proof. vm_compute. repeat split; reflexivity. Qed.
