(* C18 — proofs of the properties stated in Properties.v. *)
From Coq Require Import NArith List Bool Permutation Sorted Lia.
From BG Require Import C18.Model.
Import ListNotations.
Open Scope N_scope.

(* ------------------------------------------------------------------ *)
(* induction principle for the nested inductive [item]                  *)
(* ------------------------------------------------------------------ *)

Fixpoint item_ind' (P : item -> Prop)
  (HP : forall k id, P (Plain k id))
  (HF : forall k u fs, P (Foreign k u fs))
  (HN : forall id, P (Module id None))
  (HS : forall id c, Forall P c -> P (Module id (Some c)))
  (i : item) {struct i} : P i :=
  match i with
  | Plain k id => HP k id
  | Foreign k u fs => HF k u fs
  | Module id None => HN id
  | Module id (Some c) =>
      HS id c
        ((fix go (l : list item) : Forall P l :=
            match l with
            | [] => Forall_nil P
            | x :: t => Forall_cons x (item_ind' P HP HF HN HS x) (go t)
            end) c)
  end.

(* ------------------------------------------------------------------ *)
(* generic list facts                                                   *)
(* ------------------------------------------------------------------ *)

Lemma filter_comm : forall {A} (p q : A -> bool) (l : list A),
  filter p (filter q l) = filter q (filter p l).
Proof.
  intros A p q l. induction l as [|a t IH]; [reflexivity|].
  cbn [filter]. destruct (q a) eqn:Hq; destruct (p a) eqn:Hp; cbn [filter];
    rewrite ?Hq, ?Hp, IH; reflexivity.
Qed.

Lemma Forall_filter : forall {A} (P : A -> Prop) (f : A -> bool) (l : list A),
  Forall P l -> Forall P (filter f l).
Proof.
  intros A P f l H. apply Forall_forall. intros x Hx.
  apply filter_In in Hx. destruct Hx as [Hx _].
  rewrite Forall_forall in H. apply H. exact Hx.
Qed.

Lemma flat_map_map : forall {A B C} (f : B -> list C) (g : A -> B) (l : list A),
  flat_map f (map g l) = flat_map (fun x => f (g x)) l.
Proof.
  intros A B C f g l. induction l as [|a t IH]; [reflexivity|].
  cbn [map flat_map]. rewrite IH. reflexivity.
Qed.

Lemma flat_map_perm_pointwise : forall {A B} (f g : A -> list B) (l : list A),
  Forall (fun x => Permutation (f x) (g x)) l ->
  Permutation (flat_map f l) (flat_map g l).
Proof.
  intros A B f g l H. induction H as [|x t Hx Ht IH]; [constructor|].
  cbn [flat_map]. apply Permutation_app; assumption.
Qed.

Lemma map_id_in : forall {A} (f : A -> A) (l : list A),
  (forall x, In x l -> f x = x) -> map f l = l.
Proof.
  intros A f l H. rewrite <- (map_id l) at 2. apply map_ext_in. exact H.
Qed.

(* ------------------------------------------------------------------ *)
(* merge: characterisation of merge_scan                                *)
(* ------------------------------------------------------------------ *)

Definition triple := (N * bool * list N)%type.

Definition fblocks (l : list item) : list triple :=
  flat_map (fun i => match i with Foreign k u fs => [(k, u, fs)] | _ => [] end) l.

Definition absorb1 (b : list triple) (t : triple) : list triple :=
  match t with (k, u, fs) => absorb b k u fs end.

Definition absorb_all (b : list triple) (ts : list triple) : list triple :=
  fold_left absorb1 ts b.

Definition bkeys (b : list triple) : list N := map (fun t => fst (fst t)) b.

Definition bleaves (b : list triple) : list (N * bool * N) :=
  flat_map (fun t => match t with (k, u, fs) => map (fun f => (k, u, f)) fs end) b.

Definition kus (b : list triple) : list (N * bool) :=
  map (fun t => (fst (fst t), snd (fst t))) b.

Lemma merge_scan_char : forall items others blocks,
  merge_scan items others blocks =
  (others ++ non_foreign items, absorb_all blocks (fblocks items)).
Proof.
  induction items as [|i rest IH]; intros others blocks.
  - cbn. rewrite app_nil_r. reflexivity.
  - destruct i as [k id|k u fs|id c]; cbn [merge_scan]; rewrite IH.
    + unfold non_foreign. cbn. rewrite <- app_assoc. reflexivity.
    + reflexivity.
    + unfold non_foreign. cbn. rewrite <- app_assoc. reflexivity.
Qed.

Lemma merge_level_char : forall l,
  merge_level l = non_foreign l ++ map block_item (absorb_all [] (fblocks l)).
Proof.
  intros l. unfold merge_level. rewrite merge_scan_char. reflexivity.
Qed.

(* --- simple facts about the observations --- *)

Lemma is_foreign_block_item : forall t, is_foreign (block_item t) = true.
Proof. intros [[k u] fs]. reflexivity. Qed.

Lemma non_foreign_app : forall a b, non_foreign (a ++ b) = non_foreign a ++ non_foreign b.
Proof. intros a b. unfold non_foreign. apply filter_app. Qed.

Lemma non_foreign_blocks : forall b, non_foreign (map block_item b) = [].
Proof.
  induction b as [|t b IH]; [reflexivity|].
  cbn [map]. unfold non_foreign in *. cbn [filter].
  rewrite is_foreign_block_item. cbn [negb]. exact IH.
Qed.

Lemma non_foreign_idem : forall l, non_foreign (non_foreign l) = non_foreign l.
Proof.
  induction l as [|i t IH]; [reflexivity|].
  unfold non_foreign in *. destruct i as [k id|k u fs|id c]; cbn; rewrite IH; reflexivity.
Qed.

Lemma foreign_of_non_foreign : forall l, filter is_foreign (non_foreign l) = [].
Proof.
  induction l as [|i t IH]; [reflexivity|].
  unfold non_foreign in *. destruct i as [k id|k u fs|id c]; cbn; exact IH.
Qed.

Lemma foreign_of_blocks : forall b, filter is_foreign (map block_item b) = map block_item b.
Proof.
  induction b as [|t b IH]; [reflexivity|].
  cbn [map filter]. rewrite is_foreign_block_item, IH. reflexivity.
Qed.

Lemma blocks_of_fblocks : forall l, map block_item (fblocks l) = filter is_foreign l.
Proof.
  induction l as [|i t IH]; [reflexivity|].
  unfold fblocks in *. destruct i as [k id|k u fs|id c]; cbn; rewrite ?IH; reflexivity.
Qed.

Lemma bkeys_fblocks : forall l, bkeys (fblocks l) = block_keys l.
Proof.
  induction l as [|i t IH]; [reflexivity|].
  unfold fblocks, block_keys, bkeys in *.
  destruct i as [k id|k u fs|id c]; cbn; rewrite ?IH; reflexivity.
Qed.

Lemma bleaves_fblocks : forall l, bleaves (fblocks l) = foreign_leaves l.
Proof.
  induction l as [|i t IH]; [reflexivity|].
  unfold fblocks, foreign_leaves, bleaves in *.
  destruct i as [k id|k u fs|id c]; cbn; rewrite ?app_nil_r, ?IH; reflexivity.
Qed.

Lemma block_keys_app : forall a b, block_keys (a ++ b) = block_keys a ++ block_keys b.
Proof. intros a b. unfold block_keys. apply flat_map_app. Qed.

Lemma block_keys_non_foreign : forall l, block_keys (non_foreign l) = [].
Proof.
  induction l as [|i t IH]; [reflexivity|].
  unfold block_keys, non_foreign in *.
  destruct i as [k id|k u fs|id c]; cbn; exact IH.
Qed.

Lemma block_keys_blocks : forall b, block_keys (map block_item b) = bkeys b.
Proof.
  induction b as [|[[k u] fs] b IH]; [reflexivity|].
  unfold block_keys, bkeys in *. cbn. rewrite IH. reflexivity.
Qed.

Lemma foreign_leaves_app : forall a b,
  foreign_leaves (a ++ b) = foreign_leaves a ++ foreign_leaves b.
Proof. intros a b. unfold foreign_leaves. apply flat_map_app. Qed.

Lemma foreign_leaves_non_foreign : forall l, foreign_leaves (non_foreign l) = [].
Proof.
  induction l as [|i t IH]; [reflexivity|].
  unfold foreign_leaves, non_foreign in *.
  destruct i as [k id|k u fs|id c]; cbn; exact IH.
Qed.

Lemma foreign_leaves_blocks : forall b, foreign_leaves (map block_item b) = bleaves b.
Proof.
  induction b as [|[[k u] fs] b IH]; [reflexivity|].
  unfold foreign_leaves, bleaves in *. cbn. rewrite IH. reflexivity.
Qed.

Lemma foreign_leaves_merge_level : forall l,
  foreign_leaves (merge_level l) = bleaves (absorb_all [] (fblocks l)).
Proof.
  intros l. rewrite merge_level_char, foreign_leaves_app,
    foreign_leaves_non_foreign, foreign_leaves_blocks. reflexivity.
Qed.

(* ---------------- merge_level_non_foreign ---------------- *)

Lemma merge_level_non_foreign : forall l,
  non_foreign (merge_level l) = non_foreign l.
Proof.
  intros l. rewrite merge_level_char, non_foreign_app, non_foreign_idem,
    non_foreign_blocks, app_nil_r. reflexivity.
Qed.

(* ---------------- keys of absorb ---------------- *)

Lemma absorb_keys_in : forall b k u fs,
  In k (bkeys b) -> bkeys (absorb b k u fs) = bkeys b.
Proof.
  induction b as [|[[k0 u0] fs0] b IH]; intros k u fs Hin.
  - destruct Hin.
  - cbn [absorb]. destruct (k0 =? k) eqn:E.
    + reflexivity.
    + unfold bkeys in *. cbn [map fst]. f_equal. apply IH.
      cbn [map fst] in Hin. destruct Hin as [Hin|Hin].
      * apply N.eqb_neq in E. contradiction.
      * exact Hin.
Qed.

Lemma absorb_notin : forall b k u fs,
  ~ In k (bkeys b) -> absorb b k u fs = b ++ [(k, u, fs)].
Proof.
  induction b as [|[[k0 u0] fs0] b IH]; intros k u fs Hnin.
  - reflexivity.
  - cbn [absorb]. destruct (k0 =? k) eqn:E.
    + apply N.eqb_eq in E. exfalso. apply Hnin. left. exact E.
    + cbn [app]. f_equal. apply IH. intros Hin. apply Hnin. right. exact Hin.
Qed.

Lemma bkeys_app : forall a b, bkeys (a ++ b) = bkeys a ++ bkeys b.
Proof. intros a b. unfold bkeys. apply map_app. Qed.

Lemma absorb_nodup : forall b k u fs,
  NoDup (bkeys b) -> NoDup (bkeys (absorb b k u fs)).
Proof.
  intros b k u fs Hnd. destruct (in_dec N.eq_dec k (bkeys b)) as [Hin|Hnin].
  - rewrite absorb_keys_in by exact Hin. exact Hnd.
  - rewrite absorb_notin by exact Hnin. rewrite bkeys_app. cbn.
    apply (Permutation_NoDup (Permutation_cons_append (bkeys b) k)).
    constructor; assumption.
Qed.

Lemma absorb_all_nodup : forall ts b,
  NoDup (bkeys b) -> NoDup (bkeys (absorb_all b ts)).
Proof.
  induction ts as [|[[k u] fs] ts IH]; intros b Hnd.
  - exact Hnd.
  - cbn. apply IH. apply absorb_nodup. exact Hnd.
Qed.

(* ---------------- merge_level_distinct_keys ---------------- *)

Lemma block_keys_merge_level : forall l,
  block_keys (merge_level l) = bkeys (absorb_all [] (fblocks l)).
Proof.
  intros l. rewrite merge_level_char, block_keys_app, block_keys_non_foreign,
    block_keys_blocks. reflexivity.
Qed.

Lemma merge_level_distinct_keys : forall l, NoDup (block_keys (merge_level l)).
Proof.
  intros l. rewrite block_keys_merge_level. apply absorb_all_nodup. constructor.
Qed.

(* ---------------- merge_level_keys_preserved ---------------- *)

Definition pk (k : N) (ls : list (N * bool * N)) : list N :=
  map snd (filter (fun t => fst (fst t) =? k) ls).

Lemma pk_app : forall k a b, pk k (a ++ b) = pk k a ++ pk k b.
Proof. intros k a b. unfold pk. rewrite filter_app, map_app. reflexivity. Qed.

Lemma pk_block : forall k' k u fs,
  pk k' (map (fun f => (k, u, f)) fs) = if k =? k' then fs else [].
Proof.
  intros k' k u fs. unfold pk. induction fs as [|f fs IH].
  - destruct (k =? k'); reflexivity.
  - cbn [map filter fst]. destruct (k =? k') eqn:E.
    + cbn [map snd]. rewrite IH. reflexivity.
    + exact IH.
Qed.

Lemma pk_notin : forall b k, ~ In k (bkeys b) -> pk k (bleaves b) = [].
Proof.
  induction b as [|[[k0 u0] fs0] b IH]; intros k Hnin.
  - reflexivity.
  - unfold bleaves in *. cbn [flat_map]. rewrite pk_app, pk_block.
    destruct (k0 =? k) eqn:E.
    + apply N.eqb_eq in E. exfalso. apply Hnin. left. exact E.
    + cbn [app]. apply IH. intros Hin. apply Hnin. right. exact Hin.
Qed.

Lemma bleaves_cons : forall k u fs b,
  bleaves ((k, u, fs) :: b) = map (fun f => (k, u, f)) fs ++ bleaves b.
Proof. reflexivity. Qed.

Lemma absorb_pk : forall b k u fs k',
  NoDup (bkeys b) ->
  pk k' (bleaves (absorb b k u fs)) =
  pk k' (bleaves b) ++ (if k =? k' then fs else []).
Proof.
  induction b as [|[[k0 u0] fs0] b IH]; intros k u fs k' Hnd.
  - cbn [absorb]. rewrite bleaves_cons, pk_app, pk_block.
    cbn. rewrite app_nil_r. reflexivity.
  - cbn [absorb]. inversion Hnd as [|x xs Hnin Hnd' Heq]; subst.
    destruct (k0 =? k) eqn:E.
    + apply N.eqb_eq in E. subst k0.
      rewrite !bleaves_cons, !pk_app, !pk_block.
      destruct (k =? k') eqn:E'.
      * apply N.eqb_eq in E'. subst k'.
        rewrite (pk_notin b k Hnin). rewrite !app_nil_r. reflexivity.
      * rewrite app_nil_r. reflexivity.
    + rewrite !bleaves_cons, !pk_app. rewrite IH by exact Hnd'.
      rewrite app_assoc. reflexivity.
Qed.

Lemma absorb_all_pk : forall ts b k,
  NoDup (bkeys b) ->
  pk k (bleaves (absorb_all b ts)) = pk k (bleaves b) ++ pk k (bleaves ts).
Proof.
  induction ts as [|[[k0 u0] fs0] ts IH]; intros b k Hnd.
  - cbn. rewrite app_nil_r. reflexivity.
  - cbn [absorb_all fold_left absorb1]. fold (absorb_all (absorb b k0 u0 fs0) ts).
    rewrite IH by (apply absorb_nodup; exact Hnd).
    rewrite absorb_pk by exact Hnd.
    rewrite bleaves_cons, pk_app, pk_block, app_assoc. reflexivity.
Qed.

Lemma merge_level_keys_preserved : forall l k,
  map snd (filter (fun t => fst (fst t) =? k) (foreign_leaves (merge_level l))) =
  map snd (filter (fun t => fst (fst t) =? k) (foreign_leaves l)).
Proof.
  intros l k. change (pk k (foreign_leaves (merge_level l)) = pk k (foreign_leaves l)).
  rewrite foreign_leaves_merge_level, absorb_all_pk by constructor.
  rewrite bleaves_fblocks. reflexivity.
Qed.

(* ---------------- merge_level_multiset ---------------- *)

Definition functional (l : list (N * bool)) : Prop :=
  forall k u u', In (k, u) l -> In (k, u') l -> u = u'.

Lemma functional_incl : forall a b, incl a b -> functional b -> functional a.
Proof.
  intros a b Hincl Hf k u u' H1 H2. apply (Hf k); apply Hincl; assumption.
Qed.

Lemma absorb_kus_incl : forall b k u fs,
  incl (kus (absorb b k u fs)) (kus b ++ [(k, u)]).
Proof.
  induction b as [|[[k0 u0] fs0] b IH]; intros k u fs.
  - cbn. apply incl_refl.
  - cbn [absorb]. destruct (k0 =? k).
    + unfold kus. cbn [map fst snd]. intros x Hx. apply in_or_app. left. exact Hx.
    + unfold kus in *. cbn [map fst snd app]. intros x [Hx|Hx].
      * left. exact Hx.
      * right. apply (IH k u fs). exact Hx.
Qed.

Lemma absorb_perm : forall b k u fs,
  (forall u', In (k, u') (kus b) -> u' = u) ->
  Permutation (bleaves (absorb b k u fs)) (bleaves b ++ map (fun f => (k, u, f)) fs).
Proof.
  induction b as [|[[k0 u0] fs0] b IH]; intros k u fs Hc.
  - cbn [absorb]. rewrite bleaves_cons. cbn. rewrite app_nil_r. apply Permutation_refl.
  - cbn [absorb]. destruct (k0 =? k) eqn:E.
    + apply N.eqb_eq in E. subst k0.
      assert (Hu : u0 = u). { apply Hc. left. reflexivity. }
      subst u0. rewrite !bleaves_cons, map_app, <- !app_assoc.
      apply Permutation_app_head. apply Permutation_app_comm.
    + rewrite !bleaves_cons, <- app_assoc. apply Permutation_app_head.
      apply IH. intros u' Hin. apply Hc. right. exact Hin.
Qed.

Lemma kus_app : forall a b, kus (a ++ b) = kus a ++ kus b.
Proof. intros a b. unfold kus. apply map_app. Qed.

Lemma absorb_all_perm : forall ts b,
  functional (kus b ++ kus ts) ->
  Permutation (bleaves (absorb_all b ts)) (bleaves b ++ bleaves ts).
Proof.
  induction ts as [|[[k u] fs] ts IH]; intros b Hf.
  - cbn. rewrite app_nil_r. apply Permutation_refl.
  - cbn [absorb_all fold_left absorb1]. fold (absorb_all (absorb b k u fs) ts).
    eapply Permutation_trans.
    + apply IH. apply (functional_incl _ (kus b ++ kus ((k, u, fs) :: ts))); [|exact Hf].
      apply incl_app.
      * intros x Hx. apply absorb_kus_incl in Hx. apply in_app_or in Hx.
        apply in_or_app. destruct Hx as [Hx|[Hx|[]]].
        -- left. exact Hx.
        -- right. left. exact Hx.
      * intros x Hx. apply in_or_app. right. right. exact Hx.
    + rewrite bleaves_cons, app_assoc. apply Permutation_app_tail.
      apply absorb_perm. intros u' Hin. apply (Hf k).
      * apply in_or_app. left. exact Hin.
      * apply in_or_app. right. left. reflexivity.
Qed.

Lemma kus_fblocks_in : forall l k u,
  In (k, u) (kus (fblocks l)) -> exists fs, In (Foreign k u fs) l.
Proof.
  induction l as [|i t IH]; intros k u Hin.
  - destruct Hin.
  - destruct i as [k0 id|k0 u0 fs0|id c].
    + destruct (IH k u Hin) as [fs Hfs]. exists fs. right. exact Hfs.
    + cbn in Hin. destruct Hin as [Heq|Hin].
      * inversion Heq; subst. exists fs0. left. reflexivity.
      * destruct (IH k u Hin) as [fs Hfs]. exists fs. right. exact Hfs.
    + destruct (IH k u Hin) as [fs Hfs]. exists fs. right. exact Hfs.
Qed.

Lemma consistent_functional : forall l,
  unsafety_consistent l = true -> functional (kus (fblocks l)).
Proof.
  induction l as [|i t IH]; intros Huc.
  - intros k u u' [].
  - destruct i as [k0 id|k0 u0 fs0|id c].
    + apply IH. exact Huc.
    + cbn [unsafety_consistent] in Huc. apply andb_prop in Huc.
      destruct Huc as [Hall Huc]. specialize (IH Huc).
      assert (Hhead : forall u', In (k0, u') (kus (fblocks t)) -> u0 = u').
      { intros u' Hin. destruct (kus_fblocks_in t k0 u' Hin) as [fs Hfs].
        rewrite forallb_forall in Hall. specialize (Hall _ Hfs). cbn in Hall.
        rewrite N.eqb_refl in Hall. cbn in Hall. apply Bool.eqb_prop. exact Hall. }
      intros k u u' H1 H2. cbn in H1, H2.
      destruct H1 as [H1|H1]; destruct H2 as [H2|H2].
      * congruence.
      * inversion H1; subst. apply Hhead. exact H2.
      * inversion H2; subst. symmetry. apply Hhead. exact H1.
      * apply (IH k); assumption.
    + apply IH. exact Huc.
Qed.

Lemma merge_level_multiset : forall l,
  unsafety_consistent l = true ->
  Permutation (foreign_leaves (merge_level l)) (foreign_leaves l).
Proof.
  intros l Huc. rewrite foreign_leaves_merge_level, <- bleaves_fblocks.
  apply (absorb_all_perm (fblocks l) []). cbn [kus map app].
  apply consistent_functional. exact Huc.
Qed.

Lemma merge_level_multiset_refuted : exists l,
  ~ Permutation (foreign_leaves (merge_level l)) (foreign_leaves l).
Proof.
  exists [Foreign 1 true [5]; Foreign 1 false [6]].
  intros HP. apply Permutation_sym in HP.
  assert (Hin : In (1, false, 6) (foreign_leaves (merge_level [Foreign 1 true [5]; Foreign 1 false [6]]))).
  { apply (Permutation_in _ HP). cbn. right. left. reflexivity. }
  cbn in Hin. destruct Hin as [H|[H|[]]]; discriminate H.
Qed.

(* ---------------- merge_level_map_commute ---------------- *)

Definition module_local (g : item -> item) : Prop :=
  forall i, match i with
            | Module id _ => exists c', g i = Module id c'
            | _ => g i = i
            end.

Lemma fblocks_map : forall g l, module_local g -> fblocks (map g l) = fblocks l.
Proof.
  intros g l Hg. induction l as [|i t IH]; [reflexivity|].
  unfold fblocks in *. cbn [map flat_map]. rewrite IH. f_equal.
  specialize (Hg i). destruct i as [k id|k u fs|id c].
  - rewrite Hg. reflexivity.
  - rewrite Hg. reflexivity.
  - destruct Hg as [c' Hc']. rewrite Hc'. reflexivity.
Qed.

Lemma non_foreign_map : forall g l, module_local g ->
  non_foreign (map g l) = map g (non_foreign l).
Proof.
  intros g l Hg. induction l as [|i t IH]; [reflexivity|].
  unfold non_foreign in *. cbn [map filter]. rewrite IH.
  pose proof (Hg i) as Hi. destruct i as [k id|k u fs|id c].
  - rewrite Hi. cbn [is_foreign negb]. cbn [map]. rewrite Hi. reflexivity.
  - rewrite Hi. cbn [is_foreign negb]. reflexivity.
  - destruct Hi as [c' Hc']. rewrite Hc'. cbn [is_foreign negb]. cbn [map].
    rewrite Hc'. reflexivity.
Qed.

Lemma map_blocks_fixed : forall g b, module_local g ->
  map g (map block_item b) = map block_item b.
Proof.
  intros g b Hg. induction b as [|[[k u] fs] b IH]; [reflexivity|].
  cbn [map block_item]. rewrite IH. f_equal. apply (Hg (Foreign k u fs)).
Qed.

Lemma merge_level_map_commute' : forall g l, module_local g ->
  merge_level (map g l) = map g (merge_level l).
Proof.
  intros g l Hg. rewrite !merge_level_char, map_app.
  rewrite (fblocks_map g l Hg), (non_foreign_map g l Hg), (map_blocks_fixed g _ Hg).
  reflexivity.
Qed.

Lemma merge_level_map_commute : forall (g : item -> item) (l : list item),
  (forall i, match i with
             | Module id _ => exists c', g i = Module id c'
             | _ => g i = i
             end) ->
  merge_level (map g l) = map g (merge_level l).
Proof. intros g l Hg. apply merge_level_map_commute'. exact Hg. Qed.

Lemma merge_deep_item_local : module_local merge_deep_item.
Proof. intros [k id|k u fs|id [c|]]; cbn; eauto. Qed.

Lemma sort_deep_item_local : forall rk, module_local (sort_deep_item rk).
Proof. intros rk [k id|k u fs|id [c|]]; cbn; eauto. Qed.

Lemma module_local_foreign : forall g i, module_local g -> is_foreign i = true -> g i = i.
Proof.
  intros g i Hg Hi. specialize (Hg i). destruct i as [k id|k u fs|id c]; try discriminate Hi.
  exact Hg.
Qed.

Lemma module_local_compose : forall f g, module_local f -> module_local g ->
  module_local (fun i => f (g i)).
Proof.
  intros f g Hf Hg i. pose proof (Hg i) as Hi. destruct i as [k id|k u fs|id c].
  - rewrite Hi. apply (Hf (Plain k id)).
  - rewrite Hi. apply (Hf (Foreign k u fs)).
  - destruct Hi as [c' Hc']. rewrite Hc'. apply (Hf (Module id c')).
Qed.

(* ------------------------------------------------------------------ *)
(* sorting                                                              *)
(* ------------------------------------------------------------------ *)

Lemma insert_perm : forall rk x l, Permutation (insert rk x l) (x :: l).
Proof.
  intros rk x l. induction l as [|y t IH]; [apply Permutation_refl|].
  cbn [insert]. destruct (rk x <=? rk y).
  - apply Permutation_refl.
  - eapply Permutation_trans; [apply perm_skip; exact IH|apply perm_swap].
Qed.

Lemma sort_level_perm : forall rk l, Permutation (sort_level rk l) l.
Proof.
  intros rk l. induction l as [|x t IH]; [constructor|].
  unfold sort_level in *. cbn [fold_right].
  eapply Permutation_trans; [apply insert_perm|apply perm_skip; exact IH].
Qed.

Lemma insert_sorted : forall rk x l,
  StronglySorted (fun a b => rk a <= rk b) l ->
  StronglySorted (fun a b => rk a <= rk b) (insert rk x l).
Proof.
  intros rk x l HS. induction HS as [|y t HSt IH Hall].
  - cbn. constructor; constructor.
  - cbn [insert]. destruct (rk x <=? rk y) eqn:E.
    + apply N.leb_le in E. constructor.
      * constructor; assumption.
      * constructor; [exact E|].
        apply (Forall_impl (fun b => rk x <= rk b)) with (2 := Hall).
        intros a Ha. lia.
    + apply N.leb_gt in E. constructor; [exact IH|].
      apply (Permutation_Forall (Permutation_sym (insert_perm rk x t))).
      constructor; [lia|exact Hall].
Qed.

Lemma sort_level_sorted : forall rk l,
  StronglySorted (fun a b => rk a <= rk b) (sort_level rk l).
Proof.
  intros rk l. induction l as [|x t IH]; [constructor|].
  unfold sort_level in *. cbn [fold_right]. apply insert_sorted. exact IH.
Qed.

Lemma insert_filter : forall rk x l r,
  filter (fun i => rk i =? r) (insert rk x l) =
  if rk x =? r then x :: filter (fun i => rk i =? r) l
  else filter (fun i => rk i =? r) l.
Proof.
  intros rk x l r. induction l as [|y t IH].
  - cbn. destruct (rk x =? r); reflexivity.
  - cbn [insert]. destruct (rk x <=? rk y) eqn:E.
    + cbn [filter]. reflexivity.
    + cbn [filter]. rewrite IH. apply N.leb_gt in E.
      destruct (rk x =? r) eqn:Ex; destruct (rk y =? r) eqn:Ey; try reflexivity.
      apply N.eqb_eq in Ex. apply N.eqb_eq in Ey. lia.
Qed.

Lemma sort_level_stable : forall rk l r,
  filter (fun i => rk i =? r) (sort_level rk l) = filter (fun i => rk i =? r) l.
Proof.
  intros rk l r. induction l as [|x t IH]; [reflexivity|].
  unfold sort_level in *. cbn [fold_right]. rewrite insert_filter, IH.
  cbn [filter]. reflexivity.
Qed.

(* a sorted list is determined by its per-rank subsequences *)
Lemma sorted_filter_ext : forall (rk : item -> N) (l1 l2 : list item),
  StronglySorted (fun a b => rk a <= rk b) l1 ->
  StronglySorted (fun a b => rk a <= rk b) l2 ->
  (forall r, filter (fun i => rk i =? r) l1 = filter (fun i => rk i =? r) l2) ->
  l1 = l2.
Proof.
  intros rk l1. induction l1 as [|x t1 IH]; intros l2 S1 S2 H.
  - destruct l2 as [|y t2]; [reflexivity|].
    specialize (H (rk y)). cbn [filter] in H. rewrite N.eqb_refl in H. discriminate H.
  - destruct l2 as [|y t2].
    + specialize (H (rk x)). cbn [filter] in H. rewrite N.eqb_refl in H. discriminate H.
    + inversion S1 as [|x' t1' S1t A1 Heq1]; subst.
      inversion S2 as [|y' t2' S2t A2 Heq2]; subst.
      assert (Hyx : rk y <= rk x).
      { pose proof (H (rk x)) as Hx. cbn [filter] in Hx. rewrite N.eqb_refl in Hx.
        assert (Hin : In x (y :: t2)).
        { assert (Hin' : In x (if rk y =? rk x then y :: filter (fun i => rk i =? rk x) t2
                                else filter (fun i => rk i =? rk x) t2)).
          { rewrite <- Hx. left. reflexivity. }
          destruct (rk y =? rk x).
          - destruct Hin' as [Hin'|Hin']; [left; exact Hin'|].
            right. apply filter_In in Hin'. apply Hin'.
          - right. apply filter_In in Hin'. apply Hin'. }
        destruct Hin as [Hin|Hin].
        - subst. lia.
        - rewrite Forall_forall in A2. apply A2. exact Hin. }
      assert (Hxy : rk x <= rk y).
      { pose proof (H (rk y)) as Hy. cbn [filter] in Hy. rewrite N.eqb_refl in Hy.
        assert (Hin : In y (x :: t1)).
        { assert (Hin' : In y (if rk x =? rk y then x :: filter (fun i => rk i =? rk y) t1
                                else filter (fun i => rk i =? rk y) t1)).
          { rewrite Hy. left. reflexivity. }
          destruct (rk x =? rk y).
          - destruct Hin' as [Hin'|Hin']; [left; exact Hin'|].
            right. apply filter_In in Hin'. apply Hin'.
          - right. apply filter_In in Hin'. apply Hin'. }
        destruct Hin as [Hin|Hin].
        - subst. lia.
        - rewrite Forall_forall in A1. apply A1. exact Hin. }
      assert (Hrk : rk y = rk x) by lia.
      assert (Hxy' : x = y).
      { pose proof (H (rk x)) as Hx. cbn [filter] in Hx.
        rewrite Hrk, N.eqb_refl in Hx. inversion Hx. reflexivity. }
      subst y. f_equal. apply IH; [exact S1t|exact S2t|].
      intros r. specialize (H r). cbn [filter] in H.
      destruct (rk x =? r); [inversion H; reflexivity|exact H].
Qed.

Lemma sort_level_ext : forall rk a b,
  (forall r, filter (fun i => rk i =? r) a = filter (fun i => rk i =? r) b) ->
  sort_level rk a = sort_level rk b.
Proof.
  intros rk a b H. apply (sorted_filter_ext rk); try apply sort_level_sorted.
  intros r. rewrite !sort_level_stable. apply H.
Qed.

Lemma sort_level_sorted_id : forall rk l,
  StronglySorted (fun a b => rk a <= rk b) l -> sort_level rk l = l.
Proof.
  intros rk l HS. apply (sorted_filter_ext rk); [apply sort_level_sorted|exact HS|].
  intros r. apply sort_level_stable.
Qed.

Lemma sort_level_idem : forall rk l, sort_level rk (sort_level rk l) = sort_level rk l.
Proof. intros rk l. apply sort_level_sorted_id. apply sort_level_sorted. Qed.

(* ------------------------------------------------------------------ *)
(* idempotence on one level                                             *)
(* ------------------------------------------------------------------ *)

Lemma absorb_all_distinct : forall ts b,
  NoDup (bkeys b ++ bkeys ts) -> absorb_all b ts = b ++ ts.
Proof.
  induction ts as [|[[k u] fs] ts IH]; intros b Hnd.
  - cbn. rewrite app_nil_r. reflexivity.
  - cbn [absorb_all fold_left absorb1]. fold (absorb_all (absorb b k u fs) ts).
    unfold bkeys at 2 in Hnd. cbn [map fst] in Hnd. fold (bkeys ts) in Hnd.
    assert (Hnin : ~ In k (bkeys b)).
    { apply NoDup_remove_2 in Hnd. intros Hin. apply Hnd. apply in_or_app. left. exact Hin. }
    rewrite (absorb_notin b k u fs Hnin). rewrite IH.
    + rewrite <- app_assoc. reflexivity.
    + rewrite bkeys_app, <- app_assoc. exact Hnd.
Qed.

Lemma merge_level_distinct : forall l,
  NoDup (block_keys l) -> merge_level l = non_foreign l ++ filter is_foreign l.
Proof.
  intros l Hnd. rewrite merge_level_char. f_equal.
  rewrite absorb_all_distinct.
  - cbn [app]. apply blocks_of_fblocks.
  - cbn [bkeys map app]. rewrite bkeys_fblocks. exact Hnd.
Qed.

Lemma split_id : forall a b,
  Forall (fun i => is_foreign i = false) a ->
  Forall (fun i => is_foreign i = true) b ->
  non_foreign (a ++ b) ++ filter is_foreign (a ++ b) = a ++ b.
Proof.
  intros a b Ha Hb.
  assert (Ha1 : non_foreign a = a /\ filter is_foreign a = []).
  { induction Ha as [|x t Hx Ht [IH1 IH2]]; [split; reflexivity|].
    unfold non_foreign in *. cbn [filter]. rewrite Hx. cbn [negb].
    rewrite IH1, IH2. split; reflexivity. }
  assert (Hb1 : non_foreign b = [] /\ filter is_foreign b = b).
  { induction Hb as [|x t Hx Ht [IH1 IH2]]; [split; reflexivity|].
    unfold non_foreign in *. cbn [filter]. rewrite Hx. cbn [negb].
    rewrite IH1, IH2. split; reflexivity. }
  destruct Ha1 as [Ha1 Ha2]. destruct Hb1 as [Hb1 Hb2].
  rewrite non_foreign_app, filter_app, Ha1, Ha2, Hb1, Hb2, app_nil_r. reflexivity.
Qed.

Lemma non_foreign_all : forall l, Forall (fun i => is_foreign i = false) (non_foreign l).
Proof.
  intros l. apply Forall_forall. intros x Hx. unfold non_foreign in Hx.
  apply filter_In in Hx. destruct Hx as [_ Hx]. destruct (is_foreign x); [discriminate Hx|reflexivity].
Qed.

Lemma blocks_all : forall b, Forall (fun i => is_foreign i = true) (map block_item b).
Proof.
  intros b. apply Forall_forall. intros x Hx. apply in_map_iff in Hx.
  destruct Hx as [t [Ht _]]. subst x. apply is_foreign_block_item.
Qed.

Lemma merge_level_idem : forall l, merge_level (merge_level l) = merge_level l.
Proof.
  intros l. rewrite (merge_level_distinct _ (merge_level_distinct_keys l)).
  rewrite merge_level_char. apply split_id; [apply non_foreign_all|apply blocks_all].
Qed.

(* sort . merge is idempotent on one level *)
Lemma sort_merge_idem : forall rk l,
  sort_level rk (merge_level (sort_level rk (merge_level l))) =
  sort_level rk (merge_level l).
Proof.
  intros rk l.
  set (X := merge_level l). set (L1 := sort_level rk X).
  assert (Hnd : NoDup (block_keys L1)).
  { apply (Permutation_NoDup (l := block_keys X)).
    - unfold block_keys. apply Permutation_flat_map. apply Permutation_sym.
      apply sort_level_perm.
    - apply merge_level_distinct_keys. }
  rewrite (merge_level_distinct L1 Hnd).
  transitivity (sort_level rk L1); [|unfold L1; apply sort_level_idem].
  apply sort_level_ext. intros r.
  rewrite filter_app. unfold non_foreign.
  rewrite (filter_comm _ (fun i => negb (is_foreign i)) L1).
  rewrite (filter_comm _ is_foreign L1).
  unfold L1. rewrite sort_level_stable. unfold X. rewrite merge_level_char, filter_app.
  apply split_id.
  - apply Forall_filter. apply non_foreign_all.
  - apply Forall_filter. apply blocks_all.
Qed.

Lemma merge_level_In : forall x l, In x (merge_level l) -> In x l \/ is_foreign x = true.
Proof.
  intros x l Hin. rewrite merge_level_char in Hin. apply in_app_or in Hin.
  destruct Hin as [Hin|Hin].
  - left. unfold non_foreign in Hin. apply filter_In in Hin. apply Hin.
  - right. apply in_map_iff in Hin. destruct Hin as [t [Ht _]]. subst x.
    apply is_foreign_block_item.
Qed.

(* level idempotence in the presence of a per-item function *)
Lemma level_idem_ms : forall rk P l,
  module_local P ->
  Forall (fun y => P (P y) = P y) l ->
  sort_level rk (merge_level (map P (sort_level rk (merge_level (map P l))))) =
  sort_level rk (merge_level (map P l)).
Proof.
  intros rk P l HP Hl.
  rewrite (map_id_in P (sort_level rk (merge_level (map P l)))).
  - apply sort_merge_idem.
  - intros x Hx. apply (Permutation_in _ (sort_level_perm rk _)) in Hx.
    apply merge_level_In in Hx. destruct Hx as [Hx|Hx].
    + apply in_map_iff in Hx. destruct Hx as [y [Hy Hyl]]. subst x.
      rewrite Forall_forall in Hl. apply Hl. exact Hyl.
    + apply module_local_foreign; assumption.
Qed.

Lemma level_idem_m : forall P l,
  module_local P ->
  Forall (fun y => P (P y) = P y) l ->
  merge_level (map P (merge_level (map P l))) = merge_level (map P l).
Proof.
  intros P l HP Hl.
  rewrite (map_id_in P (merge_level (map P l))).
  - apply merge_level_idem.
  - intros x Hx. apply merge_level_In in Hx. destruct Hx as [Hx|Hx].
    + apply in_map_iff in Hx. destruct Hx as [y [Hy Hyl]]. subst x.
      rewrite Forall_forall in Hl. apply Hl. exact Hyl.
    + apply module_local_foreign; assumption.
Qed.

Lemma level_idem_s : forall rk P l,
  Forall (fun y => P (P y) = P y) l ->
  sort_level rk (map P (sort_level rk (map P l))) = sort_level rk (map P l).
Proof.
  intros rk P l Hl.
  rewrite (map_id_in P (sort_level rk (map P l))).
  - apply sort_level_idem.
  - intros x Hx. apply (Permutation_in _ (sort_level_perm rk _)) in Hx.
    apply in_map_iff in Hx. destruct Hx as [y [Hy Hyl]]. subst x.
    rewrite Forall_forall in Hl. apply Hl. exact Hyl.
Qed.

(* ------------------------------------------------------------------ *)
(* nested modules: idempotence                                          *)
(* ------------------------------------------------------------------ *)

Lemma merge_deep_item_idem : forall i,
  merge_deep_item (merge_deep_item i) = merge_deep_item i.
Proof.
  induction i as [k id|k u fs|id|id c IH] using item_ind'; try reflexivity.
  cbn [merge_deep_item]. do 2 f_equal.
  apply level_idem_m; [apply merge_deep_item_local|exact IH].
Qed.

Lemma sort_deep_item_idem : forall rk i,
  sort_deep_item rk (sort_deep_item rk i) = sort_deep_item rk i.
Proof.
  intros rk. induction i as [k id|k u fs|id|id c IH] using item_ind'; try reflexivity.
  cbn [sort_deep_item]. do 2 f_equal.
  apply level_idem_s. exact IH.
Qed.

Definition both_item (rk : item -> N) (i : item) : item :=
  sort_deep_item rk (merge_deep_item i).

Lemma both_item_local : forall rk, module_local (both_item rk).
Proof.
  intros rk. unfold both_item.
  apply (module_local_compose (sort_deep_item rk) merge_deep_item);
    [apply sort_deep_item_local|apply merge_deep_item_local].
Qed.

Lemma both_level : forall rk l,
  sort_level rk (map (sort_deep_item rk) (merge_level (map merge_deep_item l))) =
  sort_level rk (merge_level (map (both_item rk) l)).
Proof.
  intros rk l.
  rewrite <- (merge_level_map_commute' (sort_deep_item rk) _ (sort_deep_item_local rk)).
  rewrite map_map. reflexivity.
Qed.

Lemma both_level_idem : forall rk l,
  Forall (fun y => both_item rk (both_item rk y) = both_item rk y) l ->
  sort_level rk (map (sort_deep_item rk) (merge_level (map merge_deep_item
    (sort_level rk (map (sort_deep_item rk) (merge_level (map merge_deep_item l))))))) =
  sort_level rk (map (sort_deep_item rk) (merge_level (map merge_deep_item l))).
Proof.
  intros rk l Hl. rewrite !both_level.
  apply level_idem_ms; [apply both_item_local|exact Hl].
Qed.

Lemma both_item_idem : forall rk i,
  both_item rk (both_item rk i) = both_item rk i.
Proof.
  intros rk. induction i as [k id|k u fs|id|id c IH] using item_ind'; try reflexivity.
  unfold both_item. cbn [merge_deep_item sort_deep_item]. do 2 f_equal.
  apply both_level_idem. exact IH.
Qed.

Lemma passes_idempotent : forall rk m s l,
  passes rk m s (passes rk m s l) = passes rk m s l.
Proof.
  intros rk m s l. destruct m; destruct s; unfold passes, merge_deep, sort_deep.
  - apply both_level_idem. apply Forall_forall. intros y _. apply both_item_idem.
  - apply level_idem_m; [apply merge_deep_item_local|].
    apply Forall_forall. intros y _. apply merge_deep_item_idem.
  - apply level_idem_s. apply Forall_forall. intros y _. apply sort_deep_item_idem.
  - reflexivity.
Qed.

Lemma passes_off : forall rk l, passes rk false false l = l.
Proof. intros rk l. reflexivity. Qed.

(* ------------------------------------------------------------------ *)
(* nested modules: leaves                                               *)
(* ------------------------------------------------------------------ *)

Definition inj_leaf (p : list N) (t : N * bool * N) : list N * leaf :=
  match t with (k, u, f) => (p, LForeign k u f) end.

Lemma leaves_split : forall p l,
  Permutation (flat_map (leaves_item p) l)
    (flat_map (leaves_item p) (non_foreign l) ++ flat_map (leaves_item p) (filter is_foreign l)).
Proof.
  intros p l. induction l as [|i t IH]; [constructor|].
  unfold non_foreign in *. destruct i as [k id|k u fs|id c].
  - cbn [filter is_foreign negb flat_map]. rewrite <- app_assoc.
    apply Permutation_app_head. exact IH.
  - cbn [filter is_foreign negb flat_map].
    eapply Permutation_trans; [apply Permutation_app_head; exact IH|].
    apply Permutation_app_swap_app.
  - cbn [filter is_foreign negb flat_map]. rewrite <- app_assoc.
    apply Permutation_app_head. exact IH.
Qed.

Lemma foreign_part_leaves : forall p l,
  flat_map (leaves_item p) (filter is_foreign l) = map (inj_leaf p) (foreign_leaves l).
Proof.
  intros p l. induction l as [|i t IH]; [reflexivity|].
  unfold foreign_leaves in *. destruct i as [k id|k u fs|id c].
  - cbn [filter is_foreign flat_map app]. exact IH.
  - cbn [filter is_foreign flat_map leaves_item]. rewrite IH, map_app, map_map.
    reflexivity.
  - cbn [filter is_foreign flat_map app]. exact IH.
Qed.

Lemma level_leaves_merge : forall p l,
  unsafety_consistent l = true ->
  Permutation (flat_map (leaves_item p) (merge_level l)) (flat_map (leaves_item p) l).
Proof.
  intros p l Huc.
  eapply Permutation_trans; [apply leaves_split|].
  eapply Permutation_trans; [|apply Permutation_sym; apply leaves_split].
  rewrite merge_level_non_foreign. apply Permutation_app_head.
  rewrite !foreign_part_leaves. apply Permutation_map.
  apply merge_level_multiset. exact Huc.
Qed.

Lemma consistent_map : forall g l, module_local g ->
  unsafety_consistent (map g l) = unsafety_consistent l.
Proof.
  intros g l Hg.
  assert (Hall : forall (f : N -> bool -> bool) t,
    forallb (fun j => match j with Foreign k' u' _ => f k' u' | _ => true end) (map g t) =
    forallb (fun j => match j with Foreign k' u' _ => f k' u' | _ => true end) t).
  { intros f t. induction t as [|j t IHt]; [reflexivity|].
    cbn [map forallb]. rewrite IHt. f_equal.
    pose proof (Hg j) as Hj. destruct j as [k id|k u fs|id c].
    - rewrite Hj. reflexivity.
    - rewrite Hj. reflexivity.
    - destruct Hj as [c' Hc']. rewrite Hc'. reflexivity. }
  induction l as [|i t IH]; [reflexivity|].
  cbn [map]. pose proof (Hg i) as Hi. destruct i as [k id|k u fs|id c].
  - rewrite Hi. cbn [unsafety_consistent]. exact IH.
  - rewrite Hi. cbn [unsafety_consistent]. rewrite IH.
    rewrite (Hall (fun k' u' => negb (k =? k') || Bool.eqb u u') t). reflexivity.
  - destruct Hi as [c' Hc']. rewrite Hc'. cbn [unsafety_consistent]. exact IH.
Qed.

Lemma merge_deep_level_leaves : forall c,
  Forall (fun i => deep_consistent_item i = true ->
            forall p, Permutation (leaves_item p (merge_deep_item i)) (leaves_item p i)) c ->
  unsafety_consistent c = true ->
  forallb deep_consistent_item c = true ->
  forall p, Permutation (flat_map (leaves_item p) (merge_level (map merge_deep_item c)))
                        (flat_map (leaves_item p) c).
Proof.
  intros c HF Huc Hdc p.
  eapply Permutation_trans.
  - apply level_leaves_merge.
    rewrite (consistent_map _ _ merge_deep_item_local). exact Huc.
  - rewrite flat_map_map. apply flat_map_perm_pointwise.
    rewrite forallb_forall in Hdc. rewrite Forall_forall in HF.
    apply Forall_forall. intros x Hx. apply HF; [exact Hx|]. apply Hdc. exact Hx.
Qed.

Lemma merge_deep_item_leaves : forall i,
  deep_consistent_item i = true ->
  forall p, Permutation (leaves_item p (merge_deep_item i)) (leaves_item p i).
Proof.
  induction i as [k id|k u fs|id|id c IH] using item_ind'; intros Hdc p;
    try apply Permutation_refl.
  cbn [deep_consistent_item] in Hdc. apply andb_prop in Hdc. destruct Hdc as [Huc Hdc].
  cbn [merge_deep_item leaves_item]. apply perm_skip.
  apply merge_deep_level_leaves; assumption.
Qed.

Lemma merge_deep_leaves : forall l,
  deep_consistent l = true ->
  Permutation (leaves (merge_deep l)) (leaves l).
Proof.
  intros l Hdc. unfold deep_consistent in Hdc. apply andb_prop in Hdc.
  destruct Hdc as [Huc Hdc]. unfold leaves, merge_deep.
  apply merge_deep_level_leaves; [|exact Huc|exact Hdc].
  apply Forall_forall. intros x _. apply merge_deep_item_leaves.
Qed.

Lemma sort_deep_level_leaves : forall rk c,
  Forall (fun i => forall p, Permutation (leaves_item p (sort_deep_item rk i)) (leaves_item p i)) c ->
  forall p, Permutation (flat_map (leaves_item p) (sort_level rk (map (sort_deep_item rk) c)))
                        (flat_map (leaves_item p) c).
Proof.
  intros rk c HF p.
  eapply Permutation_trans.
  - apply Permutation_flat_map. apply sort_level_perm.
  - rewrite flat_map_map. apply flat_map_perm_pointwise.
    rewrite Forall_forall in HF. apply Forall_forall. intros x Hx.
    apply HF. exact Hx.
Qed.

Lemma sort_deep_item_leaves : forall rk i p,
  Permutation (leaves_item p (sort_deep_item rk i)) (leaves_item p i).
Proof.
  intros rk. induction i as [k id|k u fs|id|id c IH] using item_ind'; intros p;
    try apply Permutation_refl.
  cbn [sort_deep_item leaves_item]. apply perm_skip.
  apply sort_deep_level_leaves. exact IH.
Qed.

Lemma sort_deep_leaves : forall rk l, Permutation (leaves (sort_deep rk l)) (leaves l).
Proof.
  intros rk l. unfold leaves, sort_deep. apply sort_deep_level_leaves.
  apply Forall_forall. intros x _. apply sort_deep_item_leaves.
Qed.

Lemma passes_leaves : forall rk m s l,
  deep_consistent l = true ->
  Permutation (leaves (passes rk m s l)) (leaves l).
Proof.
  intros rk m s l Hdc. destruct m; destruct s; unfold passes.
  - eapply Permutation_trans; [apply sort_deep_leaves|apply merge_deep_leaves; exact Hdc].
  - apply merge_deep_leaves. exact Hdc.
  - apply sort_deep_leaves.
  - apply Permutation_refl.
Qed.

(* ------------------------------------------------------------------ *)
(* non-vacuity                                                          *)
(* ------------------------------------------------------------------ *)

Definition ex_rk : item -> N :=
  rank_of [(14, 0); (0, 1); (2, 0); (9, 3); (4, 5); (7, 2); (3, 6)] 4.

Definition ex_tree : list item :=
  [Foreign 1 false [10];
   Plain 3 1;
   Module 6 (Some [Foreign 1 true [20]; Plain 9 2; Foreign 2 true []; Plain 0 3;
                   Foreign 1 true [21; 22];
                   Module 7 (Some [Plain 3 4; Foreign 3 false [30]; Plain 14 5;
                                   Foreign 3 false [31]])]);
   Foreign 1 false [11];
   Plain 14 6;
   Module 8 None].

Example deep_consistent_nonvacuous : deep_consistent ex_tree = true.
Proof. vm_compute. reflexivity. Qed.

Example passes_nonvacuous :
  passes ex_rk true true ex_tree =
  [Plain 14 6;
   Module 6 (Some [Plain 0 3;
                   Module 7 (Some [Plain 14 5; Foreign 3 false [30; 31]; Plain 3 4]);
                   Plain 9 2; Foreign 1 true [20; 21; 22]; Foreign 2 true []]);
   Module 8 None;
   Foreign 1 false [10; 11];
   Plain 3 1].
Proof. vm_compute. reflexivity. Qed.

Example passes_changes_nonvacuous : passes ex_rk true true ex_tree <> ex_tree.
Proof. vm_compute. discriminate. Qed.

Example merge_only_changes_nonvacuous : passes ex_rk true false ex_tree <> ex_tree.
Proof. vm_compute. discriminate. Qed.

Example sort_only_changes_nonvacuous : passes ex_rk false true ex_tree <> ex_tree.
Proof. vm_compute. discriminate. Qed.

(* the consistency hypothesis is not always satisfied *)
Example unsafety_consistent_fails_nonvacuous :
  unsafety_consistent [Foreign 1 true [5]; Foreign 1 false [6]] = false.
Proof. vm_compute. reflexivity. Qed.

(* an empty block with the wrong unsafety also breaks consistency, and survives merging *)
Example empty_block_nonvacuous :
  merge_level [Foreign 1 true []; Plain 0 0; Foreign 1 false [6]] =
  [Plain 0 0; Foreign 1 true [6]].
Proof. vm_compute. reflexivity. Qed.

(* blocks need not end up last after sorting: rank 5 < rank 6 *)
Example blocks_not_last_nonvacuous :
  passes ex_rk true true [Plain 3 1; Foreign 1 false [10]; Plain 3 2] =
  [Foreign 1 false [10]; Plain 3 1; Plain 3 2].
Proof. vm_compute. reflexivity. Qed.
