(* C18 — when the merge key includes the block's unsafety (the code after the
   "fix:" commit compares attrs, abi AND unsafety) the correspondence run feeds the
   model keys of the form 2*k + (1 if unsafe), and the consistency hypothesis of
   the multiset theorems holds for every input. *)
From Coq Require Import NArith List Bool Permutation Lia.
From BG Require Import C18.Model C18.Proofs.
Import ListNotations.
Open Scope N_scope.

Definition keyed_item (i : item) : bool :=
  match i with Foreign k u _ => Bool.eqb (N.odd k) u | _ => true end.
Definition keyed (l : list item) : bool := forallb keyed_item l.

Fixpoint deep_keyed_item (i : item) : bool :=
  match i with
  | Module _ (Some c) => forallb keyed_item c && forallb deep_keyed_item c
  | _ => true
  end.
Definition deep_keyed (l : list item) : bool := keyed l && forallb deep_keyed_item l.

Lemma keyed_consistent l : keyed l = true -> unsafety_consistent l = true.
Proof.
  induction l as [|i l IH]; intros Hk; [reflexivity|].
  cbn [keyed forallb] in Hk. apply andb_true_iff in Hk as [Hi Hl].
  specialize (IH Hl). destruct i as [k id|k u fs|id c]; cbn [unsafety_consistent]; try exact IH.
  apply andb_true_iff. split; [|exact IH].
  apply forallb_forall. intros j Hj. unfold keyed in Hl. rewrite forallb_forall in Hl.
  specialize (Hl _ Hj). destruct j as [k' id'|k' u' fs'|id' c']; try reflexivity.
  cbn [keyed_item] in Hi, Hl. destruct (N.eqb_spec k k') as [->|Hne]; cbn [negb orb]; [|reflexivity].
  apply eqb_prop in Hi. apply eqb_prop in Hl. subst. apply eqb_reflx.
Qed.

Lemma deep_keyed_item_consistent : forall i, deep_keyed_item i = true -> deep_consistent_item i = true.
Proof.
  apply (Proofs.item_ind' (fun i => deep_keyed_item i = true -> deep_consistent_item i = true)).
  - intros; reflexivity.
  - intros; reflexivity.
  - intros id H. reflexivity.
  - intros id c IH H. cbn [deep_keyed_item] in H. cbn [deep_consistent_item].
    apply andb_true_iff in H as [Hk Hd]. apply andb_true_iff. split.
    + apply keyed_consistent. exact Hk.
    + apply forallb_forall. intros x Hx. rewrite Forall_forall in IH. apply IH; [exact Hx|].
      rewrite forallb_forall in Hd. apply Hd. exact Hx.
Qed.

Lemma deep_keyed_consistent l : deep_keyed l = true -> deep_consistent l = true.
Proof.
  unfold deep_keyed, deep_consistent. intros H. apply andb_true_iff in H as [Hk Hd].
  apply andb_true_iff. split; [apply keyed_consistent; exact Hk|].
  apply forallb_forall. intros x Hx. apply deep_keyed_item_consistent.
  rewrite forallb_forall in Hd. apply Hd. exact Hx.
Qed.

Lemma merge_level_multiset_keyed l :
  keyed l = true -> Permutation (foreign_leaves (merge_level l)) (foreign_leaves l).
Proof. intros H. apply Proofs.merge_level_multiset. apply keyed_consistent. exact H. Qed.

Lemma passes_leaves_keyed rk m s l :
  deep_keyed l = true -> Permutation (leaves (passes rk m s l)) (leaves l).
Proof. intros H. apply Proofs.passes_leaves. apply deep_keyed_consistent. exact H. Qed.
