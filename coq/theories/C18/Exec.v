(* C18 — executable helpers for the correspondence run (no proofs). *)
From Coq Require Import NArith List Bool.
From BG Require Import C18.Model.
Import ListNotations.
Open Scope N_scope.

Fixpoint nlist_eqb (a b : list N) : bool :=
  match a, b with
  | [], [] => true
  | x :: a', y :: b' => (x =? y) && nlist_eqb a' b'
  | _, _ => false
  end.

Fixpoint item_eqb (a b : item) {struct a} : bool :=
  match a, b with
  | Plain k i, Plain k' i' => (k =? k') && (i =? i')
  | Foreign k u fs, Foreign k' u' fs' => (k =? k') && Bool.eqb u u' && nlist_eqb fs fs'
  | Module i None, Module i' None => i =? i'
  | Module i (Some c), Module i' (Some c') =>
      (i =? i') &&
      (fix go (l : list item) (l' : list item) {struct l} : bool :=
         match l, l' with
         | [], [] => true
         | x :: t, y :: t' => item_eqb x y && go t t'
         | _, _ => false
         end) c c'
  | _, _ => false
  end.

Fixpoint items_eqb (l l' : list item) : bool :=
  match l, l' with
  | [], [] => true
  | x :: t, y :: t' => item_eqb x y && items_eqb t t'
  | _, _ => false
  end.

(* a case: (merge?, sort?, input tree, tree the implementation produced) *)
Definition case := (bool * bool * list item * list item)%type.

Fixpoint mismatches (rk : item -> N) (i : N) (cs : list case) : list N :=
  match cs with
  | [] => []
  | (m, s, input, output) :: rest =>
      (if items_eqb (passes rk m s input) output then [] else [i])
      ++ mismatches rk (i + 1) rest
  end.
