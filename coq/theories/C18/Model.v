(* C18 — model of bindgen/codegen/postprocessing/{merge_extern_blocks,sort_semantically,mod}.rs.
   Definitions only.

   An item is one of
     Plain kind id            any item that is neither a module nor an extern block;
                              [kind] is the syn::Item variant (index below), [id] its identity
     Foreign key unsafety fs  an extern block; [key] stands for the pair (attrs, abi) the code
                              compares, [fs] are the foreign items (fn / static) by identity
     Module id content        mod m { ... } (Some) or mod m; (None)

   syn::Item variants, in declaration order:
     0 Const 1 Enum 2 ExternCrate 3 Fn 4 ForeignMod 5 Impl 6 Macro 7 Mod 8 Static 9 Struct
     10 Trait 11 TraitAlias 12 Type 13 Union 14 Use 15 Verbatim ; 16 = anything else (`_` arm) *)
From Coq Require Import NArith List Bool.
Import ListNotations.
Open Scope N_scope.

Inductive item :=
| Plain (kind id : N)
| Foreign (key : N) (unsafety : bool) (fitems : list N)
| Module (id : N) (content : option (list item)).

Definition K_ForeignMod : N := 4.
Definition K_Mod : N := 7.

Definition kind_of (i : item) : N :=
  match i with Plain k _ => k | Foreign _ _ _ => K_ForeignMod | Module _ _ => K_Mod end.

Definition is_foreign (i : item) : bool :=
  match i with Foreign _ _ _ => true | _ => false end.

(* ---------- merge_extern_blocks::visit_items on one module level ---------- *)
(* extern_blocks: first block whose (attrs, abi) equals the key absorbs the items *)
Fixpoint absorb (blocks : list (N * bool * list N)) (key : N) (u : bool) (fs : list N)
  : list (N * bool * list N) :=
  match blocks with
  | [] => [(key, u, fs)]
  | (k, bu, bfs) :: rest =>
      if k =? key then (k, bu, bfs ++ fs) :: rest
      else (k, bu, bfs) :: absorb rest key u fs
  end.

Fixpoint merge_scan (items : list item) (others : list item)
         (blocks : list (N * bool * list N)) : list item * list (N * bool * list N) :=
  match items with
  | [] => (others, blocks)
  | Foreign k u fs :: rest => merge_scan rest others (absorb blocks k u fs)
  | i :: rest => merge_scan rest (others ++ [i]) blocks
  end.

Definition block_item (b : N * bool * list N) : item :=
  match b with (k, u, fs) => Foreign k u fs end.

Definition merge_level (items : list item) : list item :=
  let (others, blocks) := merge_scan items [] [] in
  others ++ map block_item blocks.

(* the visitor: this level, then every nested module.  (The code merges a level
   before descending; the two orders commute because merging neither looks into
   nor reorders modules relative to one another — [merge_level_map_commute] in
   Proofs.v — and this order is the structurally recursive one.) *)
Fixpoint merge_deep_item (i : item) : item :=
  match i with
  | Module id (Some c) => Module id (Some (merge_level (map merge_deep_item c)))
  | _ => i
  end.
Definition merge_deep (items : list item) : list item :=
  merge_level (map merge_deep_item items).

(* ---------- sort_semantically::visit_items ---------- *)
(* rank table (kind -> sort key) is regenerated from the match in sort_semantically.rs *)
Definition rank_of (tbl : list (N * N)) (dflt : N) (i : item) : N :=
  match find (fun p => fst p =? kind_of i) tbl with
  | Some p => snd p
  | None => dflt
  end.

(* slice::sort_by_key is a stable sort; stable insertion sort is the same function *)
Fixpoint insert (rk : item -> N) (x : item) (l : list item) : list item :=
  match l with
  | [] => [x]
  | y :: t => if rk x <=? rk y then x :: y :: t else y :: insert rk x t
  end.
Definition sort_level (rk : item -> N) (l : list item) : list item :=
  fold_right (insert rk) [] l.

Fixpoint sort_deep_item (rk : item -> N) (i : item) : item :=
  match i with
  | Module id (Some c) => Module id (Some (sort_level rk (map (sort_deep_item rk) c)))
  | _ => i
  end.
Definition sort_deep (rk : item -> N) (items : list item) : list item :=
  sort_level rk (map (sort_deep_item rk) items).

(* ---------- postprocessing::postprocessing: PASSES in order ---------- *)
Definition passes (rk : item -> N) (do_merge do_sort : bool) (items : list item)
  : list item :=
  let items := if do_merge then merge_deep items else items in
  if do_sort then sort_deep rk items else items.

(* ---------- observations used by the specification ---------- *)
(* foreign items of one level with the (attrs,abi) key and the unsafety of the block they sit in *)
Definition foreign_leaves (items : list item) : list (N * bool * N) :=
  flat_map (fun i => match i with
                     | Foreign k u fs => map (fun f => (k, u, f)) fs
                     | _ => []
                     end) items.

Definition non_foreign (items : list item) : list item :=
  filter (fun i => negb (is_foreign i)) items.

Definition block_keys (items : list item) : list N :=
  flat_map (fun i => match i with Foreign k _ _ => [k] | _ => [] end) items.

(* blocks that share a key also share their unsafety (true of everything bindgen
   itself emits for one module: all `unsafe extern` or none) *)
Fixpoint unsafety_consistent (items : list item) : bool :=
  match items with
  | [] => true
  | Foreign k u _ :: rest =>
      forallb (fun j => match j with
                        | Foreign k' u' _ => negb (k =? k') || Bool.eqb u u'
                        | _ => true end) rest
      && unsafety_consistent rest
  | _ :: rest => unsafety_consistent rest
  end.

(* everything reachable, with the path of module ids leading to it:
   (path, inl plain-or-module-marker) / (path, inr foreign leaf) *)
Inductive leaf :=
| LPlain (kind id : N)
| LModule (id : N) (has_body : bool)
| LForeign (key : N) (unsafety : bool) (f : N)
| LBlock (key : N) (unsafety : bool).   (* the block itself (it may be empty) *)

Fixpoint leaves_item (path : list N) (i : item) : list (list N * leaf) :=
  match i with
  | Plain k id => [(path, LPlain k id)]
  | Foreign k u fs => map (fun f => (path, LForeign k u f)) fs
  | Module id None => [(path, LModule id false)]
  | Module id (Some c) =>
      (path, LModule id true) :: flat_map (leaves_item (path ++ [id])) c
  end.
Definition leaves (items : list item) : list (list N * leaf) :=
  flat_map (leaves_item []) items.

Fixpoint deep_consistent_item (i : item) : bool :=
  match i with
  | Module _ (Some c) => unsafety_consistent c && forallb deep_consistent_item c
  | _ => true
  end.
Definition deep_consistent (items : list item) : bool :=
  unsafety_consistent items && forallb deep_consistent_item items.
