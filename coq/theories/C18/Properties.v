(* C18 — property theorems (statements only; proofs in Proofs.v). *)
From Coq Require Import NArith List Bool Permutation Sorted.
From BG Require Import C18.Model C18.Proofs C18.Keyed.
Import ListNotations.
Open Scope N_scope.

(* ---------------- merging, one module level ---------------- *)

(* items that are not extern blocks keep their identity and their order *)
Theorem merge_level_non_foreign : forall l,
  non_foreign (merge_level l) = non_foreign l.
Proof. exact Proofs.merge_level_non_foreign. Qed.
Print Assumptions merge_level_non_foreign.

(* every foreign item stays under the same (attrs, abi) key, none lost, none invented,
   and per key the foreign items keep their relative order *)
Theorem merge_level_keys_preserved : forall l k,
  map snd (filter (fun t => fst (fst t) =? k) (foreign_leaves (merge_level l))) =
  map snd (filter (fun t => fst (fst t) =? k) (foreign_leaves l)).
Proof. exact Proofs.merge_level_keys_preserved. Qed.
Print Assumptions merge_level_keys_preserved.

(* after merging there is at most one block per key *)
Theorem merge_level_distinct_keys : forall l, NoDup (block_keys (merge_level l)).
Proof. exact Proofs.merge_level_distinct_keys. Qed.
Print Assumptions merge_level_distinct_keys.

(* full statement: the multiset of (key, unsafety, foreign item) is unchanged.
   It needs blocks of equal key to agree on unsafety ... *)
Theorem merge_level_multiset_partial : forall l,
  unsafety_consistent l = true ->
  Permutation (foreign_leaves (merge_level l)) (foreign_leaves l).
Proof. exact Proofs.merge_level_multiset. Qed.
Print Assumptions merge_level_multiset_partial.

(* ... because the code's merge key ignores unsafety: *)
Theorem merge_level_multiset_refuted : exists l,
  ~ Permutation (foreign_leaves (merge_level l)) (foreign_leaves l).
Proof. exact Proofs.merge_level_multiset_refuted. Qed.
Print Assumptions merge_level_multiset_refuted.

(* when the merge key itself distinguishes unsafe from safe blocks (keys of the form
   2*k + unsafety: the code after the fix compares attrs, abi and unsafety) the full
   statement holds with no hypothesis on the input *)
Theorem merge_level_multiset_keyed : forall l,
  keyed l = true -> Permutation (foreign_leaves (merge_level l)) (foreign_leaves l).
Proof. exact Keyed.merge_level_multiset_keyed. Qed.
Print Assumptions merge_level_multiset_keyed.

Theorem passes_leaves_keyed : forall rk m s l,
  deep_keyed l = true -> Permutation (leaves (passes rk m s l)) (leaves l).
Proof. exact Keyed.passes_leaves_keyed. Qed.
Print Assumptions passes_leaves_keyed.

(* ---------------- sorting, one module level ---------------- *)

Theorem sort_level_perm : forall rk l, Permutation (sort_level rk l) l.
Proof. exact Proofs.sort_level_perm. Qed.
Print Assumptions sort_level_perm.

Theorem sort_level_sorted : forall rk l,
  StronglySorted (fun a b => rk a <= rk b) (sort_level rk l).
Proof. exact Proofs.sort_level_sorted. Qed.
Print Assumptions sort_level_sorted.

(* items of the same kind rank keep their relative order *)
Theorem sort_level_stable : forall rk l r,
  filter (fun i => rk i =? r) (sort_level rk l) = filter (fun i => rk i =? r) l.
Proof. exact Proofs.sort_level_stable. Qed.
Print Assumptions sort_level_stable.

(* ---------------- whole file (nested modules) ---------------- *)

(* the passes only regroup: per module path the same leaves, as a multiset *)
Theorem passes_leaves_partial : forall rk m s l,
  deep_consistent l = true ->
  Permutation (leaves (passes rk m s l)) (leaves l).
Proof. exact Proofs.passes_leaves. Qed.
Print Assumptions passes_leaves_partial.

(* sorting alone never needs the consistency hypothesis *)
Theorem sort_deep_leaves : forall rk l, Permutation (leaves (sort_deep rk l)) (leaves l).
Proof. exact Proofs.sort_deep_leaves. Qed.
Print Assumptions sort_deep_leaves.

(* applying the passes to already processed bindings changes nothing *)
Theorem passes_idempotent : forall rk m s l,
  passes rk m s (passes rk m s l) = passes rk m s l.
Proof. exact Proofs.passes_idempotent. Qed.
Print Assumptions passes_idempotent.

(* with both passes off nothing changes at all *)
Theorem passes_off : forall rk l, passes rk false false l = l.
Proof. exact Proofs.passes_off. Qed.
Print Assumptions passes_off.
