(* C02 — how bindgen lays out a C struct as a Rust `#[repr(C)]` struct.

   Transcribed from
     bindgen/codegen/struct_layout.rs   (align_to, StructLayoutTracker)
     bindgen/codegen/helpers.rs         (blob)
     bindgen/ir/layout.rs               (Layout::for_size_internal)
     bindgen/codegen/mod.rs             (impl CodeGenerator for CompInfo, non-opaque
                                         struct path: add_tail_padding, pad_struct,
                                         requires_explicit_align, repr attributes)
   Executable definitions only.  Every size, offset and alignment is an [N] in BYTES
   (the one exception: [offset_bits] of [SawField], which is in BITS as in the source).

   Level of abstraction.
   * `usize` is modelled by [N]: additions never overflow and `a - b` is TRUNCATED
     subtraction.  The source subtracts without a check in `add_tail_padding`
     (`comp_layout.size - self.latest_offset`), which panics (debug) or wraps
     (release) when the tracker is already past the size clang reported; the model
     yields 0 there.  All other subtractions of the source are guarded.
   * `x % 0` panics in Rust and is `x` in Coq; the source guards every such place
     (`align_to` returns early, `align_to_latest_field` takes `max(1, align)`).
   * A layout is a pair (size, align); the `packed` bit of `Layout` is never read by
     the code modelled here.
   * Token streams are abstracted to the (size, align) handed to `helpers::blob`. *)
From Coq Require Import NArith List Bool.
Import ListNotations.
Open Scope N_scope.

(* ------------------------------------------------------------------ 1. helpers *)

Definition MAX_GUARANTEED_ALIGN : N := 8.

(* struct_layout.rs: pub(crate) fn align_to(size, align) *)
Definition align_to (size align : N) : N :=
  if align =? 0 then size
  else
    let rem := size mod align in
    if rem =? 0 then size
    else size + align - rem.

(* helpers.rs: blob(ctx, layout, ffi_safe).  The Rust type written is
     align <= 4 : uN            when len = 1      (N = 8 * align)
                  [uN; len]     otherwise, possibly wrapped in the repr(C) newtype
                                __BindgenOpaqueArray<..> (same size and alignment)
                  with len = size / align
     align >  4 : __BindgenOpaqueArrayA<[u8; size]>, a #[repr(C, align(A))] newtype
   where align = max(layout.align, 1).
   Quirk not visible in (size, align): for align = 3 the source panics
   (`known_type_for_size(3).unwrap()`), and a non power of two A > 4 is rejected by
   rustc; the functions below are total and simply compute. *)
Definition blob_align (size align : N) : N := N.max align 1.

Definition blob_size (size align : N) : N :=
  let a := N.max align 1 in
  if a <=? 4 then (size / a) * a
  else align_to size a.

(* layout.rs: Layout::for_size_internal(ptr_size, size):
     let mut next_align = 2;
     while size % next_align == 0 && next_align <= ptr_size { next_align *= 2; }
     Layout { size, align: next_align / 2 }
   The loop runs at most log2(ptr_size) times; the fuel is one more than that
   (Proofs.for_size_internal_fuel_ok: the loop always leaves through its condition). *)
Fixpoint for_size_loop (fuel : nat) (ptr_size size next_align : N) : N :=
  match fuel with
  | O => next_align
  | S f =>
      if (size mod next_align =? 0) && (next_align <=? ptr_size)
      then for_size_loop f ptr_size size (next_align * 2)
      else next_align
  end.

Definition for_size_internal (ptr_size size : N) : N * N :=
  (size, for_size_loop (S (N.to_nat (N.log2 ptr_size))) ptr_size size 2 / 2).

(* ------------------------------------------------------------------ 2. tracker *)

Record tstate := {
  latest_offset : N;
  padding_count : N;
  latest_field_layout : option (N * N);
  max_field_align : N;
  last_field_was_bitfield : bool;
  last_field_was_flexible_array : bool
}.

(* what is constant during the life of one StructLayoutTracker *)
Record tenv := {
  is_packed : bool;               (* self.is_packed *)
  is_union : bool;                (* self.comp.is_union() *)
  is_rust_union : bool;           (* self.is_rust_union *)
  known_layout : option (N * N);  (* self.known_type_layout *)
  force_explicit_padding : bool;  (* ctx.options().force_explicit_padding *)
  ptr_size : N;                   (* ctx.target_pointer_size() *)
  legacy_padding_align : bool
    (* NOT in the source: [true] selects the rule `padding_align = min(align, 8)` that
       saw_field_with_layout had before the fix of the padding-blob defect (kept to
       state what the fix repaired); [false] is the current source *)
}.

Inductive call :=
| SawVtable
| SawBase (layout : option (N * N))           (* base_ty.layout(ctx) *)
| SawBitfieldUnit (size align : N)
| SawField (size align : N) (offset_bits : option N)   (* saw_field_with_layout *)
| SawFlexibleArray
| AddTailPadding (size align : N)             (* comp_layout *)
| PadStruct (size align : N).                 (* layout *)

(* StructLayoutTracker::new *)
Definition init_state : tstate :=
  {| latest_offset := 0; padding_count := 0; latest_field_layout := None;
     max_field_align := 0; last_field_was_bitfield := false;
     last_field_was_flexible_array := false |}.

Definition with_offset (st : tstate) (o : N) : tstate :=
  {| latest_offset := o;
     padding_count := padding_count st;
     latest_field_layout := latest_field_layout st;
     max_field_align := max_field_align st;
     last_field_was_bitfield := last_field_was_bitfield st;
     last_field_was_flexible_array := last_field_was_flexible_array st |}.

(* fn padding_bytes(&self, layout) *)
Definition padding_bytes (st : tstate) (align : N) : N :=
  align_to (latest_offset st) align - latest_offset st.

(* fn padding_field(&mut self, layout): the layout goes to helpers::blob unchanged *)
Definition padding_field (st : tstate) (l : N * N) : tstate * (N * N) :=
  ({| latest_offset := latest_offset st;
      padding_count := padding_count st + 1;
      latest_field_layout := latest_field_layout st;
      max_field_align := N.max (max_field_align st) (snd l);
      last_field_was_bitfield := last_field_was_bitfield st;
      last_field_was_flexible_array := last_field_was_flexible_array st |}, l).

(* fn align_to_latest_field(&mut self, new_field_layout) -> bool *)
Definition align_to_latest_field (env : tenv) (st : tstate) (new_size new_align : N)
  : tstate * bool :=
  if is_packed env then (st, false)
  else
    match latest_field_layout st with
    | None => (st, false)
    | Some (lsize, lalign) =>
        let align := N.max 1 lalign in
        if last_field_was_bitfield st
           && (new_align <=? lsize mod align)
           && (new_size <=? lsize mod align)
        then (st, true)
        else (with_offset st (latest_offset st + padding_bytes st lalign), false)
    end.

(* saw_field: the over-aligned-array adjustment that was applied before saw_field_with_layout
   UNTIL fix f7a3d75d removed it from the source (saw_field now passes the type's own layout on).
   [arr] = Some ((inner_size, inner_align), len) when the canonical type of the field
   is an array whose element type has a layout.
   Kept to state what the adjustment did: Properties.array_hack_harmless shows it changed nothing
   for element types that carry their alignment in Rust; it was harmful for element types whose
   Rust spelling is LESS aligned than the C type (vector types become arrays of the lane type,
   over-aligned scalar typedefs become plain aliases) - a situation this model (the Rust field
   has the C member's alignment) does not express; props/c02.py covers it end to end with the
   V / A / W record family. *)
Definition array_adjust (field_layout : N * N) (arr : option ((N * N) * N)) : N * N :=
  match arr with
  | Some ((isize, ialign), len) =>
      if MAX_GUARANTEED_ALIGN <? ialign
      then (align_to isize ialign * len, MAX_GUARANTEED_ALIGN)
      else field_layout
  | None => field_layout
  end.

Definition saw_field_with_layout (env : tenv) (st : tstate)
    (fsize falign : N) (field_offset : option N) : tstate * option (N * N) :=
  let '(st1, will_merge_with_bitfield) := align_to_latest_field env st fsize falign in
  let fallback :=
    if will_merge_with_bitfield || (falign =? 0) || is_union env then 0
    else if negb (is_packed env) then padding_bytes st1 falign
    else match known_layout env with
         | Some (_, lalign) =>
             let lalign' := if falign <? lalign then falign else lalign in
             padding_bytes st1 lalign'
         | None => 0
         end in
  let pad_bytes :=
    match field_offset with
    | Some offset =>
        if latest_offset st1 <? offset / 8
        then offset / 8 - latest_offset st1
        else fallback
    | None => fallback
    end in
  let st2 := with_offset st1 (latest_offset st1 + pad_bytes) in
  let padding_layout :=
    if is_packed env || is_union env then None
    else
      let force_padding := force_explicit_padding env in
      let need_padding :=
        force_padding || (falign <=? pad_bytes) || (MAX_GUARANTEED_ALIGN <? falign) in
      let padding_align :=
        if force_padding then 1
        else
          let align := N.min falign MAX_GUARANTEED_ALIGN in
          if legacy_padding_align env then align
          else
            (* `self.latest_offset - padding_bytes`, after latest_offset was advanced *)
            let start := latest_offset st2 - pad_bytes in
            if (1 <? align)
               && (negb (start mod align =? 0) || negb (pad_bytes mod align =? 0))
            then 1
            else align in
      if need_padding && negb (pad_bytes =? 0)
      then Some (pad_bytes, padding_align)
      else None in
  let st3 :=
    {| latest_offset :=
         if is_union env then N.max (latest_offset st2) fsize
         else latest_offset st2 + fsize;
       padding_count := padding_count st2;
       latest_field_layout := Some (fsize, falign);
       max_field_align := N.max (max_field_align st2) falign;
       last_field_was_bitfield := false;
       last_field_was_flexible_array := last_field_was_flexible_array st2 |} in
  match padding_layout with
  | Some l => let '(st4, l') := padding_field st3 l in (st4, Some l')
  | None => (st3, None)
  end.

Definition repr_align : bool := true.   (* `let repr_align = true;` in the source *)

Definition step (env : tenv) (st : tstate) (c : call) : tstate * option (N * N) :=
  match c with
  | SawVtable =>
      let p := ptr_size env in
      ({| latest_offset := latest_offset st + p;
          padding_count := padding_count st;
          latest_field_layout := Some (p, p);
          max_field_align := p;                         (* assignment, not max *)
          last_field_was_bitfield := last_field_was_bitfield st;
          last_field_was_flexible_array := last_field_was_flexible_array st |}, None)
  | SawBase None => (st, None)
  | SawBase (Some (size, align)) =>
      let '(st1, _) := align_to_latest_field env st size align in
      ({| latest_offset := latest_offset st1 + (padding_bytes st1 align + size);
          padding_count := padding_count st1;
          latest_field_layout := Some (size, align);
          max_field_align := N.max (max_field_align st1) align;
          last_field_was_bitfield := last_field_was_bitfield st1;
          last_field_was_flexible_array := last_field_was_flexible_array st1 |}, None)
  | SawBitfieldUnit size align =>
      let '(st1, _) := align_to_latest_field env st size align in
      ({| latest_offset := latest_offset st1 + size;
          padding_count := padding_count st1;
          latest_field_layout := Some (size, align);
          max_field_align := N.max (max_field_align st1) align;
          last_field_was_bitfield := true;
          last_field_was_flexible_array := last_field_was_flexible_array st1 |}, None)
  | SawField size align offset_bits =>
      saw_field_with_layout env st size align offset_bits
  | SawFlexibleArray =>
      ({| latest_offset := latest_offset st;
          padding_count := padding_count st;
          latest_field_layout := latest_field_layout st;
          max_field_align := max_field_align st;
          last_field_was_bitfield := last_field_was_bitfield st;
          last_field_was_flexible_array := true |}, None)
  | AddTailPadding size _ =>
      if negb (force_explicit_padding env) then (st, None)
      else if is_union env then (st, None)   (* `self.comp.is_union()` since fix 1ace9416 (was: self.is_rust_union) *)
      else if last_field_was_flexible_array st then (st, None)
      else if latest_offset st =? size then (st, None)
      else
        (* `comp_layout.size - self.latest_offset`: unchecked in the source *)
        let '(st1, l) := padding_field st (size - latest_offset st, 0) in
        (* since the fix of the double tail padding (add_tail_padding advances latest_offset): the tail is accounted for,
           pad_struct has nothing left to add *)
        ({| latest_offset := size;
            padding_count := padding_count st1;
            latest_field_layout := latest_field_layout st1;
            max_field_align := max_field_align st1;
            last_field_was_bitfield := last_field_was_bitfield st1;
            last_field_was_flexible_array := last_field_was_flexible_array st1 |}, Some l)
  | PadStruct size align =>
      if size <? latest_offset st then (st, None)
      else
        let pad_bytes := size - latest_offset st in
        if pad_bytes =? 0 then (st, None)
        else if (align <=? pad_bytes)
             || (last_field_was_bitfield st
                 && match latest_field_layout st with
                    | Some (_, la) => la <=? pad_bytes
                    | None => false            (* `.unwrap()` would panic *)
                    end)
             || (negb repr_align && (MAX_GUARANTEED_ALIGN <? align))
        then
          let l :=
            if is_packed env then (pad_bytes, 1)
            else if last_field_was_bitfield st || (MAX_GUARANTEED_ALIGN <? align)
            then for_size_internal (ptr_size env) pad_bytes
            else (pad_bytes, align) in
          let '(st1, l') := padding_field st l in
          (st1, Some l')
        else (st, None)
  end.

(* fn requires_explicit_align(&self, layout) *)
Definition requires_explicit_align (st : tstate) (l : N * N) : bool :=
  if repr_align && (16 <=? max_field_align st) then true
  else if snd l <=? max_field_align st then false
  else repr_align || (snd l <=? MAX_GUARANTEED_ALIGN).

Definition run (env : tenv) (st : tstate) (cs : list call)
  : tstate * list (option (N * N)) :=
  fold_left (fun acc c => let '(s, out) := acc in
                          let '(s', o) := step env s c in (s', out ++ [o]))
            cs (st, []).

(* ------------------------------------------------------------------ 3. Rust side *)
(* The Rust Reference, "Type layout", "The C representation", #[repr(C)] structs:
     start with a current offset of 0; for each field in declaration order, pad the
     current offset up to a multiple of the field's alignment, that is the field's
     offset, then advance by the field's size; the struct's alignment is the largest
     field alignment (at least 1, raised by repr(align(N))); the size is the current
     offset rounded up to the struct's alignment.
   Written independently of bindgen's [align_to]. *)

Inductive rfield := RField (size align : N).

Definition rf_size (f : rfield) : N := let 'RField s _ := f in s.
Definition rf_align (f : rfield) : N := let 'RField _ a := f in a.

Definition round_up (x a : N) : N := ((x + (a - 1)) / a) * a.

Fixpoint rust_offsets_from (cur : N) (fs : list rfield) : list N :=
  match fs with
  | [] => []
  | f :: r =>
      let o := round_up cur (rf_align f) in
      o :: rust_offsets_from (o + rf_size f) r
  end.

Fixpoint rust_end_from (cur : N) (fs : list rfield) : N :=
  match fs with
  | [] => cur
  | f :: r => rust_end_from (round_up cur (rf_align f) + rf_size f) r
  end.

Definition rust_offsets (fs : list rfield) : list N := rust_offsets_from 0 fs.

Definition rust_max_align (fs : list rfield) : N :=
  fold_right (fun f acc => N.max (rf_align f) acc) 1 fs.

Definition rust_size_align (explicit : option N) (fs : list rfield) : N * N :=
  let al := N.max (rust_max_align fs)
                  (match explicit with Some a => a | None => 1 end) in
  (round_up (rust_end_from 0 fs) al, al).

(* offsets of the fields flagged [true] *)
Definition member_offsets (fs : list (bool * rfield)) : list N :=
  map snd (filter (fun p => fst p)
                  (combine (map fst fs) (rust_offsets (map snd fs)))).

(* ------------------------------------------------------------------ 4. emission *)

Record member := { m_size : N; m_align : N; m_offset : N (* C byte offset *) }.

Definition blob_field (l : N * N) : rfield :=
  RField (blob_size (fst l) (snd l)) (blob_align (fst l) (snd l)).

Definition opt_blob (o : option (N * N)) : list (bool * rfield) :=
  match o with
  | Some l => [(false, blob_field l)]
  | None => []
  end.

(* Each member comes with the layout the tracker is TOLD for it (the result of
   [array_adjust] in saw_field); the Rust field written for the member has the
   member's own size and alignment: the model assumes the Rust type bindgen picks for
   a member has the size and alignment clang reported for it. *)
Fixpoint emit_members (env : tenv) (st : tstate) (tms : list (member * (N * N)))
  : tstate * list (bool * rfield) :=
  match tms with
  | [] => (st, [])
  | (m, told) :: r =>
      let '(st1, pad) :=
        step env st (SawField (fst told) (snd told) (Some (8 * m_offset m))) in
      let '(st2, fs) := emit_members env st1 r in
      (st2, opt_blob pad ++ (true, RField (m_size m) (m_align m)) :: fs)
  end.

(* fields, #[repr(align(N))], and whether the `layout.align == 1 => packed = true`
   branch was taken *)
Definition emit_with (env : tenv) (c_size c_align : N) (tms : list (member * (N * N)))
  : list (bool * rfield) * option N * bool :=
  let '(st1, fs) := emit_members env init_state tms in
  let '(st2, tail) := step env st1 (AddTailPadding c_size c_align) in
  let '(st3, pad) := step env st2 (PadStruct c_size c_align) in
  let req := requires_explicit_align st3 (c_size, c_align) in
  (fs ++ opt_blob tail ++ opt_blob pad,
   if req then (if c_align =? 1 then None else Some c_align) else None,
   req && (c_align =? 1)).

Definition plain_view (m : member) : N * N := (m_size m, m_align m).
Definition plain_tag (m : member) : member * (N * N) := (m, plain_view m).

Definition emit_full (env : tenv) (c_size c_align : N) (ms : list member) :=
  emit_with env c_size c_align (map plain_tag ms).

Definition emit (env : tenv) (c_size c_align : N) (ms : list member)
  : list (bool * rfield) * option N :=
  fst (emit_full env c_size c_align ms).

(* members that may be arrays: [am_elem] = Some ((elem_size, elem_align), len) when the
   canonical type of the member is an array whose element type has a layout *)
Record amember := { am_member : member; am_elem : option ((N * N) * N) }.

(* what saw_field tells the tracker *)
Definition array_view (x : amember) : N * N :=
  array_adjust (plain_view (am_member x)) (am_elem x).
Definition array_tag (x : amember) : member * (N * N) := (am_member x, array_view x).

(* the tracker runs with the adjusted layout, the Rust field ([T; len]) has the true one *)
Definition emit_arrays (env : tenv) (c_size c_align : N) (xs : list amember)
  : list (bool * rfield) * option N :=
  fst (emit_with env c_size c_align (map array_tag xs)).

(* the member's layout is the layout of an array of its elements *)
Definition array_consistent (x : amember) : bool :=
  match am_elem x with
  | None => true
  | Some ((es, ea), len) =>
      (m_size (am_member x) =? es * len) && (m_align (am_member x) =? ea)
      && (es mod ea =? 0)
  end.

(* the environment of a plain C struct whose layout clang knows, on a 64-bit target *)
Definition layout_env (force legacy : bool) (c_size c_align : N) : tenv :=
  {| is_packed := false; is_union := false; is_rust_union := false;
     known_layout := Some (c_size, c_align);
     force_explicit_padding := force; ptr_size := 8;
     legacy_padding_align := legacy |}.

Definition plain_env (force : bool) (c_size c_align : N) : tenv :=
  layout_env force false c_size c_align.

(* the same before the fix of padding_align *)
Definition legacy_env (c_size c_align : N) : tenv := layout_env false true c_size c_align.

(* ------------------------------------------------------------------ 5. C side *)
(* System V / Itanium natural layout of a struct without attributes or bit-fields. *)

Definition is_pow2 (a : N) : bool := (0 <? a) && (a =? 2 ^ N.log2 a).

Definition member_ok (m : member) : bool :=
  is_pow2 (m_align m) && (0 <? m_size m) && (m_size m mod m_align m =? 0).

Fixpoint offsets_natural (cur : N) (ms : list member) : bool :=
  match ms with
  | [] => true
  | m :: r =>
      (m_offset m =? round_up cur (m_align m))
      && offsets_natural (m_offset m + m_size m) r
  end.

Fixpoint c_end (cur : N) (ms : list member) : N :=
  match ms with
  | [] => cur
  | m :: r => c_end (m_offset m + m_size m) r
  end.

Definition c_max_align (ms : list member) : N :=
  fold_right (fun m acc => N.max (m_align m) acc) 1 ms.

Definition c_natural (c_size c_align : N) (ms : list member) : bool :=
  forallb member_ok ms
  && offsets_natural 0 ms
  && (c_align =? c_max_align ms)
  && (c_size =? round_up (c_end 0 ms) c_align)
  && (0 <? c_size).

(* the weakest side condition, UNDER THE LEGACY RULE (legacy_padding_align = true),
   for members whose alignment exceeds 8 (the current rule needs none):
   such a member either needs no padding in front of it, or the padding starts at a
   multiple of 8 (it then is a multiple of 8 long, the member's offset being one). *)
Fixpoint gaps_ok_from (cur : N) (ms : list member) : bool :=
  match ms with
  | [] => true
  | m :: r =>
      ((m_align m <=? MAX_GUARANTEED_ALIGN) || (m_offset m =? cur) || (cur mod 8 =? 0))
      && gaps_ok_from (m_offset m + m_size m) r
  end.

Definition gaps_ok (ms : list member) : bool := gaps_ok_from 0 ms.

(* ------------------------------------------------------------------ 6. sample structs *)

Definition mk (s a o : N) : member := {| m_size := s; m_align := a; m_offset := o |}.

(* struct { int a; char b; long double c; }  on x86-64: size 32, align 16 *)
Definition witness_ms : list member := [mk 4 4 0; mk 1 1 4; mk 16 16 16].

(* struct { char c; long double a[2]; }: size 48, align 16; the tracker is told the
   array-adjusted layout (32, 8) for `a`, whose Rust type [u128; 2] is 16-aligned *)
Definition array_witness : list amember :=
  [ {| am_member := mk 1 1 0; am_elem := None |};
    {| am_member := mk 32 16 16; am_elem := Some ((16, 16), 2) |} ].
