(* C02 — property theorems (statements only; proofs in Proofs.v).
   How bindgen lays out a C struct as a Rust #[repr(C)] struct: bindgen's tracker
   (struct_layout.rs), its padding blobs (helpers.rs `blob`), rustc's repr(C)
   algorithm (Rust Reference) and the natural C layout, all in Model.v. *)
From Coq Require Import NArith List Bool.
From BG Require Import C02.Model C02.Proofs.
Import ListNotations.
Open Scope N_scope.

(* ------------------------------------------------------------------ helpers *)

Theorem align_to_least_multiple : forall s a, 0 < a ->
  s <= align_to s a /\ (align_to s a) mod a = 0 /\ align_to s a < s + a.
Proof. exact Proofs.align_to_least_multiple. Qed.
Print Assumptions align_to_least_multiple.

(* bindgen's align_to is the Rust Reference's "round up to a multiple of" *)
Theorem align_to_round_up : forall s a, 0 < a -> align_to s a = round_up s a.
Proof. exact Proofs.align_to_round_up. Qed.
Print Assumptions align_to_round_up.

(* no power-of-two or [0 < s] hypothesis is needed in the model; in the source
   a = 3 panics and a non power of two above 4 is rejected by rustc *)
Theorem blob_exact : forall s a, 0 < a -> s mod a = 0 ->
  blob_size s a = s /\ blob_align s a = a.
Proof. exact Proofs.blob_exact. Qed.
Print Assumptions blob_exact.

Theorem blob_size_general : forall s a,
  (0 < a -> blob_size s a = (if a <=? 4 then (s / a) * a else round_up s a) /\
            blob_align s a = a) /\
  (a = 0 -> blob_size s a = s /\ blob_align s a = 1).
Proof. exact Proofs.blob_size_general. Qed.
Print Assumptions blob_size_general.

(* so a blob whose size is not a multiple of its alignment never has the size asked for *)
Theorem blob_size_le4_loses : forall s a, 0 < a -> a <= 4 -> s mod a <> 0 -> blob_size s a < s.
Proof. exact Proofs.blob_size_le4_loses. Qed.
Print Assumptions blob_size_le4_loses.

Theorem blob_size_gt4_gains : forall s a, 4 < a -> s mod a <> 0 -> s < blob_size s a.
Proof. exact Proofs.blob_size_gt4_gains. Qed.
Print Assumptions blob_size_gt4_gains.

(* the fuel of the model's for_size_internal loop never runs out *)
Theorem for_size_internal_fuel_ok : forall p size,
  let r := for_size_loop (S (N.to_nat (N.log2 p))) p size 2 in
  (size mod r =? 0) && (r <=? p) = false.
Proof. exact Proofs.for_size_internal_fuel_ok. Qed.
Print Assumptions for_size_internal_fuel_ok.

(* ------------------------------------------------------------------ layout agreement *)

(* the current source (padding_align falls back to 1 when the gap does not start at,
   or is not, a multiple of min(align, 8)): every natural struct comes out right,
   whatever the alignments of its members *)
Theorem natural_layout : forall c_size c_align ms,
  c_natural c_size c_align ms = true ->
  let '(fs, ea) := emit (plain_env false c_size c_align) c_size c_align ms in
  member_offsets fs = map m_offset ms /\
  rust_size_align ea (map snd fs) = (c_size, c_align).
Proof. exact Proofs.natural_layout. Qed.
Print Assumptions natural_layout.

(* the same with --explicit-padding *)
Theorem explicit_padding_partial : forall c_size c_align ms,
  c_natural c_size c_align ms = true ->
  let '(fs, ea) := emit (plain_env true c_size c_align) c_size c_align ms in
  member_offsets fs = map m_offset ms /\
  rust_size_align ea (map snd fs) = (c_size, c_align).
Proof. exact Proofs.explicit_padding_partial. Qed.
Print Assumptions explicit_padding_partial.

(* attributes of a natural struct: never the `align == 1 => packed` branch, and
   #[repr(align(N))] exactly when N >= 16 *)
Theorem natural_attributes : forall force c_size c_align ms,
  c_natural c_size c_align ms = true ->
  snd (emit_full (plain_env force c_size c_align) c_size c_align ms) = false /\
  snd (emit (plain_env force c_size c_align) c_size c_align ms)
    = (if 16 <=? c_align then Some c_align else None).
Proof. exact Proofs.natural_attributes. Qed.
Print Assumptions natural_attributes.

(* whenever add_tail_padding emits a field it leaves the tracker at the end of the struct,
   and the pad_struct that follows (same layout) emits nothing: whatever the environment and
   the state, the tail is never padded twice *)
Theorem tail_padding_then_pad_struct_adds_nothing : forall env st size align st1 l,
  step env st (AddTailPadding size align) = (st1, Some l) ->
  latest_offset st1 = size /\
  snd (step env st1 (PadStruct size align)) = None.
Proof. exact Proofs.tail_padding_then_pad_struct_adds_nothing. Qed.
Print Assumptions tail_padding_then_pad_struct_adds_nothing.

(* ------------------------------------------------------------------ before the fix *)
(* [legacy_env]: padding_align = min(align, 8) as saw_field_with_layout had it.
   struct { int a; char b; long double c; } got the padding blob
   __BindgenOpaqueArray8<[u8; 11]>, which is 16 bytes long and starts at 8, so `c`
   landed at 32 instead of 16 and the struct was 48 bytes instead of 32 *)
Theorem natural_layout_old_refuted :
  c_natural 32 16 witness_ms = true /\
  emit (legacy_env 32 16) 32 16 witness_ms =
    ([(true, RField 4 4); (true, RField 1 1); (false, RField 16 8); (true, RField 16 16)],
     Some 16) /\
  member_offsets (fst (emit (legacy_env 32 16) 32 16 witness_ms)) = [0; 4; 32] /\
  map m_offset witness_ms = [0; 4; 16] /\
  rust_size_align (Some 16)
    (map snd (fst (emit (legacy_env 32 16) 32 16 witness_ms))) = (48, 16) /\
  ~ (forall c_size c_align ms,
       c_natural c_size c_align ms = true ->
       let '(fs, ea) := emit (legacy_env c_size c_align) c_size c_align ms in
       member_offsets fs = map m_offset ms /\
       rust_size_align ea (map snd fs) = (c_size, c_align)).
Proof. exact Proofs.natural_layout_old_refuted. Qed.
Print Assumptions natural_layout_old_refuted.

Theorem natural_layout_old_overaligned_partial : forall c_size c_align ms,
  c_natural c_size c_align ms = true ->
  gaps_ok ms = true ->
  let '(fs, ea) := emit (legacy_env c_size c_align) c_size c_align ms in
  member_offsets fs = map m_offset ms /\
  rust_size_align ea (map snd fs) = (c_size, c_align).
Proof. exact Proofs.natural_layout_old_overaligned_partial. Qed.
Print Assumptions natural_layout_old_overaligned_partial.

(* the class of the fixed finding: the old rule was wrong exactly on [gaps_ok ms = false] *)
Theorem natural_layout_old_overaligned_exact : forall c_size c_align ms,
  c_natural c_size c_align ms = true ->
  (member_offsets (fst (emit (legacy_env c_size c_align) c_size c_align ms))
     = map m_offset ms
   <-> gaps_ok ms = true).
Proof. exact Proofs.natural_layout_old_overaligned_exact. Qed.
Print Assumptions natural_layout_old_overaligned_exact.

(* ------------------------------------------------------------------ the array adjustment
   (a rule of the source until fix f7a3d75d; see the comment at Model.array_adjust) *)

Theorem array_hack_harmless_when_elem_align_le_8 : forall fl es ea len,
  ea <= 8 -> array_adjust fl (Some ((es, ea), len)) = fl.
Proof. exact Proofs.array_hack_harmless_when_elem_align_le_8. Qed.
Print Assumptions array_hack_harmless_when_elem_align_le_8.

(* `array_hack_refuted` as asked is FALSE for the current source: the fix of
   padding_align also repaired the witness.  What holds instead: *)
Theorem array_hack_harmless : forall c_size c_align xs,
  c_natural c_size c_align (map am_member xs) = true ->
  forallb array_consistent xs = true ->
  let '(fs, ea) := emit_arrays (plain_env false c_size c_align) c_size c_align xs in
  member_offsets fs = map m_offset (map am_member xs) /\
  rust_size_align ea (map snd fs) = (c_size, c_align).
Proof. exact Proofs.array_hack_harmless. Qed.
Print Assumptions array_hack_harmless.

(* ... and the refutation for the old rule: struct { char c; long double a[2]; } had
   `a` at 32 and size 64 instead of 16 and 48; the last conjunct is the current output *)
Theorem array_hack_old_refuted :
  c_natural 48 16 (map am_member array_witness) = true /\
  forallb array_consistent array_witness = true /\
  map array_view array_witness = [(1, 1); (32, 8)] /\
  emit_arrays (legacy_env 48 16) 48 16 array_witness
    = ([(true, RField 1 1); (false, RField 16 8); (true, RField 32 16)], Some 16) /\
  member_offsets (fst (emit_arrays (legacy_env 48 16) 48 16 array_witness)) = [0; 32] /\
  map m_offset (map am_member array_witness) = [0; 16] /\
  rust_size_align (Some 16)
    (map snd (fst (emit_arrays (legacy_env 48 16) 48 16 array_witness))) = (64, 16) /\
  emit_arrays (plain_env false 48 16) 48 16 array_witness
    = ([(true, RField 1 1); (false, RField 15 1); (true, RField 32 16)], Some 16).
Proof. exact Proofs.array_hack_old_refuted. Qed.
Print Assumptions array_hack_old_refuted.

(* ------------------------------------------------------------------ non-vacuity, witnesses *)

Example c_natural_nonvacuous :
  c_natural 8 4 [mk 1 1 0; mk 4 4 4] = true /\
  c_natural 8 4 [mk 4 4 0; mk 1 1 4] = true /\
  c_natural 24 8 [mk 1 1 0; mk 8 8 8; mk 1 1 16] = true /\
  c_natural 16 8 [mk 8 8 0; mk 1 1 8; mk 2 2 10; mk 4 4 12] = true /\
  c_natural 16 4 [mk 1 1 0; mk 12 4 4] = true /\
  c_natural 32 8 [mk 1 1 0; mk 24 8 8] = true /\
  c_natural 32 16 [mk 1 1 0; mk 16 16 16] = true /\
  c_natural 4 4 [mk 4 4 0] = true /\
  c_natural 0 1 [] = false /\
  c_natural 8 4 [mk 1 1 0; mk 4 4 1] = false /\
  c_natural 12 4 [mk 1 1 0; mk 4 4 4] = false.
Proof. exact Proofs.c_natural_nonvacuous. Qed.
Print Assumptions c_natural_nonvacuous.

Example natural_layout_nonvacuous :
  emit (plain_env false 24 8) 24 8 [mk 1 1 0; mk 8 8 8; mk 1 1 16]
    = ([(true, RField 1 1); (true, RField 8 8); (true, RField 1 1)], None) /\
  c_natural 32 16 witness_ms = true /\
  emit (plain_env false 32 16) 32 16 witness_ms
    = ([(true, RField 4 4); (true, RField 1 1); (false, RField 11 1); (true, RField 16 16)],
       Some 16) /\
  c_natural 32 16 [mk 8 8 0; mk 16 16 16] = true /\
  emit (plain_env false 32 16) 32 16 [mk 8 8 0; mk 16 16 16]
    = ([(true, RField 8 8); (false, RField 8 8); (true, RField 16 16)], Some 16).
Proof. exact Proofs.natural_layout_nonvacuous. Qed.
Print Assumptions natural_layout_nonvacuous.

Example natural_layout_old_nonvacuous :
  gaps_ok [mk 8 8 0; mk 16 16 16] = true /\
  emit (legacy_env 32 16) 32 16 [mk 8 8 0; mk 16 16 16]
    = ([(true, RField 8 8); (false, RField 8 8); (true, RField 16 16)], Some 16) /\
  gaps_ok witness_ms = false /\
  gaps_ok [mk 1 1 0; mk 16 16 16] = false.
Proof. exact Proofs.natural_layout_old_nonvacuous. Qed.
Print Assumptions natural_layout_old_nonvacuous.

Example explicit_padding_nonvacuous :
  emit (plain_env true 32 16) 32 16 witness_ms
    = ([(true, RField 4 4); (true, RField 1 1); (false, RField 11 1); (true, RField 16 16)],
       Some 16) /\
  emit (plain_env true 24 8) 24 8 [mk 1 1 0; mk 8 8 8; mk 1 1 16]
    = ([(true, RField 1 1); (false, RField 7 1); (true, RField 8 8); (true, RField 1 1);
        (false, RField 7 1)], None).
Proof. exact Proofs.explicit_padding_nonvacuous. Qed.
Print Assumptions explicit_padding_nonvacuous.

Example array_hack_nonvacuous :
  array_adjust (32, 16) (Some ((16, 16), 2)) = (32, 8) /\
  array_adjust (96, 16) (Some ((48, 16), 2)) = (96, 8) /\
  array_adjust (16, 8) (Some ((8, 8), 2)) = (16, 8) /\
  array_adjust (12, 4) None = (12, 4).
Proof. exact Proofs.array_hack_nonvacuous. Qed.
Print Assumptions array_hack_nonvacuous.

Example blob_nonvacuous :
  blob_size 11 8 = 16 /\ blob_align 11 8 = 8 /\
  blob_size 7 4 = 4 /\ blob_size 7 2 = 6 /\
  blob_size 5 0 = 5 /\ blob_align 5 0 = 1 /\
  blob_size 24 8 = 24 /\ blob_size 12 4 = 12.
Proof. exact Proofs.blob_nonvacuous. Qed.
Print Assumptions blob_nonvacuous.

Example align_to_nonvacuous :
  align_to 1 1 = 1 /\ align_to 1 2 = 2 /\ align_to 1 4 = 4 /\ align_to 5 1 = 5 /\
  align_to 17 4 = 20 /\ align_to 17 0 = 17.
Proof. exact Proofs.align_to_nonvacuous. Qed.
Print Assumptions align_to_nonvacuous.

Example for_size_internal_nonvacuous :
  for_size_internal 8 8 = (8, 8) /\ for_size_internal 8 24 = (24, 8) /\
  for_size_internal 8 3 = (3, 1) /\ for_size_internal 8 12 = (12, 4) /\
  for_size_internal 4 24 = (24, 4) /\ for_size_internal 8 0 = (0, 8).
Proof. exact Proofs.for_size_internal_nonvacuous. Qed.
Print Assumptions for_size_internal_nonvacuous.

(* struct { int a : 1; } with --explicit-padding: since the fix (add_tail_padding advances
   latest_offset), the tail is padded once; before it pad_struct added the same 3 bytes again *)
Example explicit_padding_bitfield_single_tail :
  snd (run (plain_env true 4 4) init_state
         [SawBitfieldUnit 1 1; AddTailPadding 4 4; PadStruct 4 4])
    = [None; Some (3, 0); None] /\
  rust_size_align None [RField 1 1; blob_field (3, 0)] = (4, 1).
Proof. exact Proofs.explicit_padding_bitfield_single_tail. Qed.
Print Assumptions explicit_padding_bitfield_single_tail.
