(* C02 — members whose Rust spelling is LESS aligned than the C type.  Definitions only.
   The main theorem of Properties.v (natural_layout) assumes that the Rust type written for a member has
   the alignment clang reports for it.  Two kinds of member break that assumption:
     - GCC vector types become arrays of the lane type ([f32; 4] is 4-aligned, the C vector 16),
     - scalar typedefs with an alignment attribute become plain aliases (aint16 -> c_int).
   The tracker is still TOLD the C layout (saw_field), and puts explicit padding in front of such a member
   because `field_layout.align > MAX_GUARANTEED_ALIGN` forces it; rustc lays the member out by the lower
   alignment.  [lralign] is the alignment of the Rust type. *)
From Coq Require Import NArith List Bool.
From BG Require Import C02.Model.
Import ListNotations.
Open Scope N_scope.

Record lmember := { lm : member; lralign : N }.

Fixpoint emit_members_l (env : tenv) (st : tstate) (ms : list lmember)
  : tstate * list (bool * rfield) :=
  match ms with
  | [] => (st, [])
  | x :: r =>
      let m := lm x in
      let '(st1, pad) := step env st (SawField (m_size m) (m_align m) (Some (8 * m_offset m))) in
      let '(st2, fs) := emit_members_l env st1 r in
      (st2, opt_blob pad ++ (true, RField (m_size m) (lralign x)) :: fs)
  end.

Definition emit_l (env : tenv) (c_size c_align : N) (ms : list lmember)
  : list (bool * rfield) * option N :=
  let '(st1, fs) := emit_members_l env init_state ms in
  let '(st2, tail) := step env st1 (AddTailPadding c_size c_align) in
  let '(st3, pad) := step env st2 (PadStruct c_size c_align) in
  let req := requires_explicit_align st3 (c_size, c_align) in
  (fs ++ opt_blob tail ++ opt_blob pad,
   if req then (if c_align =? 1 then None else Some c_align) else None).

(* a member is either spelled with its C alignment, or it is over-aligned in C (above 8, hence at least 16)
   and its Rust spelling has a smaller power-of-two alignment that divides its size *)
Definition lowered_ok (x : lmember) : bool :=
  (lralign x =? m_align (lm x))
  || ((MAX_GUARANTEED_ALIGN <? m_align (lm x)) && is_pow2 (lralign x) && (lralign x <? m_align (lm x))
      && (m_size (lm x) mod lralign x =? 0)).
