(* C02 — lowered member alignments: proofs of the statements of LowerProperties.v.
   Reuses the tracker-side lemmas of Proofs.v (Inv, step_field, pad_of, pad_rust_ok, tail_steps,
   req_align_gen); only the Rust side of the loop over the members is new, the Rust field of a member
   having alignment [lralign] instead of [m_align]. *)
From Coq Require Import NArith ZArith List Bool Lia.
From BG Require Import C02.Model C02.Proofs C02.Lower.
Import ListNotations.
Open Scope N_scope.

Ltac Zify.zify_post_hook ::= Z.div_mod_to_equations.

(* ------------------------------------------------------------------ powers of two *)

Lemma pow2_eq : forall a, is_pow2 a = true -> a = 2 ^ N.log2 a.
Proof.
  intros a H. unfold is_pow2 in H. apply andb_prop in H as [_ H]. now apply N.eqb_eq in H.
Qed.

Lemma pow2_divides : forall r a, is_pow2 r = true -> is_pow2 a = true -> r <= a -> a mod r = 0.
Proof.
  intros r a Hr Ha Hle.
  pose proof (pow2_pos r Hr) as Hr0.
  pose proof (N.log2_le_mono r a Hle) as Hl.
  rewrite (pow2_eq a Ha), (pow2_eq r Hr).
  replace (N.log2 a) with ((N.log2 a - N.log2 r) + N.log2 r) by lia.
  rewrite N.pow_add_r. apply N.mod_mul.
  rewrite <- (pow2_eq r Hr). lia.
Qed.

(* ------------------------------------------------------------------ the unlowered emission *)

Definition unlower (m : member) : lmember := {| lm := m; lralign := m_align m |}.

Lemma emit_members_l_unlowered : forall env ms st,
  emit_members_l env st (map unlower ms) = emit_members env st (map plain_tag ms).
Proof.
  intros env. induction ms as [|m r IH]; intros st; [reflexivity|].
  cbn [map unlower plain_tag plain_view emit_members_l emit_members lm lralign fst snd].
  destruct (step env st _) as [st1 pad]. now rewrite IH.
Qed.

Lemma emit_l_unlowered : forall env c_size c_align ms,
  emit_l env c_size c_align (map (fun m => {| lm := m; lralign := m_align m |}) ms) = emit env c_size c_align ms.
Proof.
  intros env cs ca ms. fold unlower.
  unfold emit_l, emit, emit_full, emit_with.
  rewrite emit_members_l_unlowered.
  destruct (emit_members env init_state (map plain_tag ms)) as [st1 fs].
  destruct (step env st1 _) as [st2 tail].
  destruct (step env st2 _) as [st3 pad].
  reflexivity.
Qed.

(* ------------------------------------------------------------------ one member, Rust side *)

(* the padding in front of a member of C alignment [a] whose Rust spelling has alignment [r]:
   the Rust field lands on the C offset, and the blob is no more aligned than the C member *)
Lemma pad_rust_l : forall force off a r o,
  0 < a -> o = align_to off a -> (8 < a -> a mod 8 = 0) ->
  r = a \/ (8 < a /\ 0 < r /\ a mod r = 0) ->
  let l := map snd (opt_blob (pad_of force false off a o)) in
  round_up (rust_end_from off l) r = o /\ rust_max_align l <= a.
Proof.
  intros force off a r o Ha Ho H8 [->|(Hgt & Hr & Har)].
  - assert (Hc : force || negb false = true \/
                 (a = a /\ (a <=? 8) || (o =? off) || (off mod 8 =? 0) = true))
      by (left; apply orb_true_r).
    destruct (pad_rust_ok force false off a a o Ha Ho (or_introl eq_refl) H8 Hc) as [P1 P2].
    cbn zeta in *. split; [exact P1|lia].
  - destruct (align_to_least_multiple off a Ha) as (H1 & H2 & H3). rewrite <- Ho in *.
    assert (Hor : o mod r = 0) by (apply (mod0_trans o a r); auto).
    unfold pad_of.
    destruct (N.ltb_spec 8 a) as [_|]; [|lia]. rewrite orb_true_r. cbn [andb].
    destruct (N.eqb_spec (o - off) 0) as [Eg|Eg]; cbn [negb].
    + cbn [opt_blob map rust_end_from]. rewrite rust_max_align_nil.
      assert (off = o) as -> by lia. split; [now apply round_up_fix|lia].
    + pose proof (pad_align_le force false off a (o - off) Ha) as Hpl.
      set (al := pad_align force false off a (o - off)) in *.
      assert (Hfit : al = 1 \/ (off mod al = 0 /\ (o - off) mod al = 0)).
      { unfold al, pad_align. destruct force; [now left|].
        destruct (N.ltb_spec 1 (N.min a 8)) as [_|Hle]; cbn [andb]; [|left; lia].
        destruct (N.eqb_spec (off mod N.min a 8) 0) as [E1|E1]; cbn [negb orb]; [|now left].
        destruct (N.eqb_spec ((o - off) mod N.min a 8) 0) as [E2|E2]; cbn [negb]; [|now left].
        right. now split. }
      assert (Hg : (o - off) mod al = 0)
        by (destruct Hfit as [->|[_ H]]; [apply N.mod_1_r|exact H]).
      assert (Hf : off mod al = 0)
        by (destruct Hfit as [->|[H _]]; [apply N.mod_1_r|exact H]).
      cbn [opt_blob map snd]. rewrite rust_max_align_cons, rust_max_align_nil.
      cbn [blob_field fst snd rust_end_from rf_align rf_size].
      destruct (blob_exact (o - off) al ltac:(lia) Hg) as [-> ->].
      rewrite (round_up_fix off al ltac:(lia) Hf).
      replace (off + (o - off)) with o by lia.
      split; [now apply round_up_fix|lia].
Qed.

(* ------------------------------------------------------------------ the loop over the members *)

Definition maxral (xs : list lmember) : N :=
  fold_right (fun x acc => N.max (lralign x) acc) 0 xs.

Lemma lowered_ok_elim : forall x, member_ok (lm x) = true -> lowered_ok x = true ->
  lralign x = m_align (lm x) \/
  (8 < m_align (lm x) /\ 0 < lralign x /\ lralign x < m_align (lm x)
   /\ m_align (lm x) mod lralign x = 0).
Proof.
  intros x Hm H. destruct (member_ok_elim _ Hm) as (Hp & _ & _).
  unfold lowered_ok, MAX_GUARANTEED_ALIGN in H. apply orb_prop in H as [H|H].
  - left. now apply N.eqb_eq in H.
  - right. apply andb_prop in H as [H _]. apply andb_prop in H as [H H3].
    apply andb_prop in H as [H1 H2]. apply N.ltb_lt in H1. apply N.ltb_lt in H3.
    pose proof (pow2_pos _ H2).
    repeat split; auto. apply pow2_divides; auto. lia.
Qed.

Lemma loop_ok_l : forall force cs ca xs st off,
  Inv st off ->
  forallb member_ok (map lm xs) = true ->
  offsets_natural off (map lm xs) = true ->
  forallb lowered_ok xs = true ->
  forall st' fs,
  emit_members_l (layout_env force false cs ca) st xs = (st', fs) ->
  Inv st' (c_end off (map lm xs)) /\
  max_field_align st' = N.max (max_field_align st) (maxal (map lm xs)) /\
  last_field_was_flexible_array st' = last_field_was_flexible_array st /\
  moffs off fs = map m_offset (map lm xs) /\
  rust_end_from off (map snd fs) = c_end off (map lm xs) /\
  rust_max_align (map snd fs) <= N.max 1 (maxal (map lm xs)) /\
  N.max 1 (maxral xs) <= rust_max_align (map snd fs).
Proof.
  intros force cs ca. induction xs as [|x r IH]; intros st off HI Hok Hnat Hlow st' fs.
  - cbn [emit_members_l]. intros H. injection H as <- <-.
    cbn [c_end maxal maxral fold_right map moffs rust_end_from]. rewrite rust_max_align_nil.
    repeat split; try apply HI; lia.
  - cbn [emit_members_l map] in *.
    cbn [forallb] in Hok. apply andb_prop in Hok as [Hm Hok].
    cbn [forallb] in Hlow. apply andb_prop in Hlow as [Hx Hlow].
    destruct (member_ok_elim _ Hm) as (Hp & Hs & Hsa).
    pose proof (pow2_pos _ Hp) as Ha.
    pose proof (pow2_gt8_mod8 _ Hp) as H8.
    cbn [offsets_natural] in Hnat. apply andb_prop in Hnat as [Ho Hnat].
    apply N.eqb_eq in Ho. rewrite <- align_to_round_up in Ho by exact Ha.
    destruct (step _ st _) as [st1 pad] eqn:Es.
    destruct (step_field force false cs ca st off _ _ _ _ HI Ha Hsa Ho (or_introl eq_refl) H8
                st1 pad Es) as (-> & HI1 & Hm1 & Hf1).
    destruct (emit_members_l _ st1 r) as [st2 fs2] eqn:Ee.
    destruct (IH st1 _ HI1 Hok Hnat Hlow st2 fs2 Ee) as (J1 & J2 & J3 & J4 & J5 & J6 & J7).
    intros H. injection H as <- <-.
    assert (Hr : lralign x = m_align (lm x) \/
                 (8 < m_align (lm x) /\ 0 < lralign x /\ m_align (lm x) mod lralign x = 0)).
    { destruct (lowered_ok_elim x Hm Hx) as [E|(E1 & E2 & E3 & E4)]; [now left|right; auto]. }
    assert (Hrle : lralign x <= m_align (lm x)).
    { destruct (lowered_ok_elim x Hm Hx) as [E|(E1 & E2 & E3 & E4)]; lia. }
    destruct (pad_rust_l force off _ _ _ Ha Ho H8 Hr) as [P1 P2].
    cbn zeta in P1, P2.
    cbn [c_end maxal maxral fold_right].
    fold (maxal (map lm r)). fold (maxral r).
    split; [exact J1|]. split; [rewrite J2, Hm1; lia|]. split; [congruence|].
    split; [|split; [|split]].
    + rewrite moffs_app, moffs_opt_blob. cbn [app moffs rf_align rf_size].
      rewrite P1. cbn [app]. now rewrite J4.
    + rewrite map_app, rust_end_app. cbn [map snd rust_end_from rf_align rf_size].
      rewrite P1. exact J5.
    + rewrite map_app, rust_max_align_app. cbn [map snd].
      rewrite rust_max_align_cons. cbn [rf_align]. lia.
    + rewrite map_app, rust_max_align_app. cbn [map snd].
      rewrite rust_max_align_cons. cbn [rf_align]. lia.
Qed.

(* below 16 nothing can be lowered *)
Lemma maxral_small : forall xs,
  forallb member_ok (map lm xs) = true -> forallb lowered_ok xs = true ->
  maxal (map lm xs) <= 8 -> maxral xs = maxal (map lm xs).
Proof.
  induction xs as [|x r IH]; intros Hok Hlow Hle; [reflexivity|].
  cbn [map forallb] in Hok. apply andb_prop in Hok as [Hm Hok].
  cbn [forallb] in Hlow. apply andb_prop in Hlow as [Hx Hlow].
  unfold maxral, maxal in *. cbn [map fold_right] in *.
  rewrite IH by (auto; lia).
  destruct (lowered_ok_elim x Hm Hx) as [E|(E1 & _)]; lia.
Qed.

Lemma maxal_pow2 : forall ms, forallb member_ok ms = true -> ms <> [] -> is_pow2 (maxal ms) = true.
Proof.
  induction ms as [|m r IH]; intros Hok Hne; [contradiction|].
  cbn [forallb] in Hok. apply andb_prop in Hok as [Hm Hok].
  destruct (member_ok_elim m Hm) as (Hp & _ & _).
  unfold maxal in *. cbn [fold_right].
  destruct r as [|m' r'].
  - cbn [fold_right]. pose proof (pow2_pos _ Hp). now replace (N.max (m_align m) 0) with (m_align m) by lia.
  - specialize (IH Hok ltac:(congruence)).
    destruct (N.max_spec (m_align m) (fold_right (fun m acc => N.max (m_align m) acc) 0 (m' :: r')))
      as [[_ ->]|[_ ->]]; assumption.
Qed.

(* a power of two above 8 is at least 16 *)
Lemma pow2_gt8_ge16 : forall a, is_pow2 a = true -> 8 < a -> 16 <= a.
Proof.
  intros a Hp H. pose proof (pow2_gt8_mod8 a Hp H) as Hm.
  destruct (N.le_gt_cases 16 a) as [|Hlt]; [assumption|].
  assert (Hd : 16 mod a = 0).
  { apply pow2_divides; [exact Hp|reflexivity|lia]. }
  pose proof (pow2_pos a Hp).
  pose proof (mod0_mul a 8 ltac:(lia) Hm). pose proof (mod0_mul 16 a ltac:(lia) Hd). nia.
Qed.

(* ------------------------------------------------------------------ the theorem *)

Lemma natural_layout_lowered : forall force c_size c_align ms,
  c_natural c_size c_align (map lm ms) = true ->
  forallb lowered_ok ms = true ->
  let '(fs, ea) := emit_l (plain_env force c_size c_align) c_size c_align ms in
  member_offsets fs = map m_offset (map lm ms) /\
  rust_size_align ea (map snd fs) = (c_size, c_align).
Proof.
  intros force cs ca xs Hnat Hlow.
  set (ms := map lm xs) in *.
  pose proof (c_natural_ca cs ca ms Hnat) as Hca.
  unfold c_natural in Hnat.
  apply andb_prop in Hnat as [Hnat Hpos]. apply andb_prop in Hnat as [Hnat Hcs].
  apply andb_prop in Hnat as [Hnat _]. apply andb_prop in Hnat as [Hok Hoff].
  apply N.ltb_lt in Hpos. apply N.eqb_eq in Hcs.
  assert (Hne : ms <> []).
  { intros E. rewrite E in Hcs. cbn [c_end] in Hcs. unfold round_up in Hcs.
    assert (Hz : (0 + (ca - 1)) / ca * ca = 0).
    { destruct (N.eq_dec ca 0) as [->|Hz]; [reflexivity|].
      rewrite N.add_0_l, N.div_small by lia. reflexivity. }
    lia. }
  pose proof (maxal_pos ms Hok Hne) as Hm1.
  pose proof (maxal_pow2 ms Hok Hne) as Hp2. rewrite <- Hca in Hp2, Hm1.
  assert (Hca0 : 0 < ca) by lia.
  destruct (round_up_bounds (c_end 0 ms) ca Hca0) as (B1 & B2 & B3). rewrite <- Hcs in *.
  unfold emit_l, plain_env.
  destruct (emit_members_l _ init_state xs) as [st1 fs1] eqn:Ee.
  destruct (loop_ok_l force cs ca xs init_state 0 Inv_init Hok Hoff Hlow st1 fs1 Ee)
    as (J1 & J2 & J3 & J4 & J5 & J6 & J7).
  fold ms in J1, J2, J4, J5, J6.
  cbn [init_state max_field_align last_field_was_flexible_array] in J2, J3.
  rewrite <- Hca in J2, J6.
  replace (N.max 0 ca) with ca in J2 by lia.
  replace (N.max 1 ca) with ca in J6 by lia.
  destruct (step _ st1 (AddTailPadding cs ca)) as [st2 tail] eqn:E2.
  destruct (step _ st2 (PadStruct cs ca)) as [st3 pad] eqn:E3.
  destruct (tail_steps force false cs ca st1 _ J1 J3 B1 ltac:(lia) st2 tail st3 pad E2 E3)
    as (-> & -> & Hmfa).
  rewrite J2 in Hmfa.
  rewrite (req_align_eq st3 cs ca Hmfa).
  cbn [opt_blob]. rewrite app_nil_r.
  split.
  - rewrite member_offsets_moffs, moffs_app, moffs_opt_blob, app_nil_r. exact J4.
  - unfold rust_size_align.
    rewrite map_app, rust_max_align_app, rust_end_app, J5.
    assert (Htl : rust_max_align (map snd (opt_blob (tail_of force cs (c_end 0 ms)))) = 1).
    { unfold tail_of. destruct (force && negb (c_end 0 ms =? cs)); [|reflexivity].
      cbn [opt_blob map snd]. rewrite rust_max_align_cons, rust_max_align_nil.
      cbn [blob_field fst snd rf_align]. destruct (blob_align0 (cs - c_end 0 ms)) as [_ ->].
      reflexivity. }
    rewrite Htl.
    assert (Hal : N.max (N.max (rust_max_align (map snd fs1)) 1)
                        (match (if 16 <=? ca then if ca =? 1 then None else Some ca else None)
                         with Some a => a | None => 1 end) = ca).
    { destruct (N.leb_spec 16 ca) as [H16|H16].
      - destruct (N.eqb_spec ca 1) as [|_]; [lia|]. lia.
      - assert (Hle8 : ca <= 8).
        { destruct (N.le_gt_cases ca 8) as [|Hgt]; [assumption|].
          pose proof (pow2_gt8_ge16 ca Hp2 Hgt). lia. }
        rewrite Hca in Hle8.
        pose proof (maxral_small xs Hok Hlow Hle8) as Er. fold ms in Er.
        rewrite Er, <- Hca in J7. lia. }
    rewrite Hal. f_equal.
    unfold tail_of. destruct force; cbn [andb].
    + destruct (N.eqb_spec (c_end 0 ms) cs) as [E|E]; cbn [negb opt_blob map rust_end_from].
      * rewrite E. now apply round_up_fix.
      * cbn [snd blob_field fst rf_align rf_size].
        destruct (blob_align0 (cs - c_end 0 ms)) as [-> ->]. rewrite round_up_1.
        replace (c_end 0 ms + (cs - c_end 0 ms)) with cs by lia. now apply round_up_fix.
    + cbn [opt_blob map rust_end_from]. now symmetry.
Qed.

(* ------------------------------------------------------------------ the bound "above 8" *)

Lemma lowered_align8_refuted :
  let ms := [ {| lm := {| m_size := 1; m_align := 1; m_offset := 0 |}; lralign := 1 |};
              {| lm := {| m_size := 8; m_align := 8; m_offset := 8 |}; lralign := 4 |} ] in
  c_natural 16 8 (map lm ms) = true /\
  (let '(fs, ea) := emit_l (plain_env false 16 8) 16 8 ms in
   member_offsets fs = [0; 4] /\ rust_size_align ea (map snd fs) = (12, 4)).
Proof. vm_compute. repeat split; reflexivity. Qed.
