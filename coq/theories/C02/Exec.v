(* C02 — executable entry points for the correspondence harness (definitions only).
   [replay_mismatch] replays a logged sequence of StructLayoutTracker calls (hook H3,
   `TRK` lines) through [step] and compares, call by call, the state the Rust tracker
   logged and the padding layout it handed to `padding_field`. *)
From Coq Require Import NArith List Bool.
From BG Require Import C02.Model.
Import ListNotations.
Open Scope N_scope.

(* latest_offset, max_field_align, last_field_was_bitfield, latest_field_layout,
   padding_count *)
Definition sview := (N * N * bool * option (N * N) * N)%type.

Definition view_of (s : tstate) : sview :=
  (latest_offset s, max_field_align s, last_field_was_bitfield s,
   latest_field_layout s, padding_count s).

Definition layout_eqb (a b : N * N) : bool :=
  (fst a =? fst b) && (snd a =? snd b).

Definition olayout_eqb (a b : option (N * N)) : bool :=
  match a, b with
  | None, None => true
  | Some x, Some y => layout_eqb x y
  | _, _ => false
  end.

Definition sview_eqb (a b : sview) : bool :=
  let '(o1, m1, b1, l1, p1) := a in
  let '(o2, m2, b2, l2, p2) := b in
  (o1 =? o2) && (m1 =? m2) && Bool.eqb b1 b2 && olayout_eqb l1 l2 && (p1 =? p2).

(* 0 when every call agrees, otherwise the index of the first diverging call *)
Fixpoint replay_from (env : tenv) (st : tstate) (idx : N)
    (steps : list (call * option sview * option (N * N))) : N :=
  match steps with
  | [] => 0
  | (c, expected_view, expected_pad) :: r =>
      let '(st', pad) := step env st c in
      if match expected_view with
         | Some v => sview_eqb (view_of st') v
         | None => true
         end
         && olayout_eqb pad expected_pad
      then replay_from env st' (idx + 1) r
      else idx
  end.

(* env4 = (is_packed, is_union, is_rust_union, known_layout); `force` is the
   force_explicit_padding option the run was made with (logged by add_tail_padding), the
   pointer size 8, and the padding rule the current one *)
Definition replay_mismatch_f (force : bool) (env4 : bool * bool * bool * option (N * N))
    (steps : list (call * option sview * option (N * N))) : N :=
  let '(packed, union, rust_union, known) := env4 in
  replay_from
    {| is_packed := packed; is_union := union; is_rust_union := rust_union;
       known_layout := known; force_explicit_padding := force; ptr_size := 8;
       legacy_padding_align := false |}
    init_state 1 steps.

Definition replay_mismatch := replay_mismatch_f false.
