(* C02 — proofs about the struct layout model (see Model.v). *)
From Coq Require Import NArith ZArith List Bool Lia.
From BG Require Import C02.Model.
Import ListNotations.
Open Scope N_scope.

Ltac Zify.zify_post_hook ::= Z.div_mod_to_equations.

(* ------------------------------------------------------------------ arithmetic *)

Lemma mod0_mul : forall x a, 0 < a -> x mod a = 0 -> x = (x / a) * a.
Proof.
  intros x a Ha Hx. pose proof (N.div_mod' x a) as Hd. rewrite Hx in Hd. lia.
Qed.

Lemma mul_mod0 : forall q a, 0 < a -> (q * a) mod a = 0.
Proof. intros q a Ha. apply N.mod_mul. lia. Qed.

Lemma multiple_unique : forall a x y,
  0 < a -> x mod a = 0 -> y mod a = 0 -> x < y + a -> y < x + a -> x = y.
Proof.
  intros a x y Ha Hx Hy Hxy Hyx.
  rewrite (mod0_mul x a Ha Hx) in *. rewrite (mod0_mul y a Ha Hy) in *.
  assert (Hq : x / a = y / a) by nia. now rewrite Hq.
Qed.

Lemma add_mod0 : forall x y a, 0 < a -> x mod a = 0 -> y mod a = 0 -> (x + y) mod a = 0.
Proof.
  intros x y a Ha Hx Hy.
  rewrite (mod0_mul x a Ha Hx), (mod0_mul y a Ha Hy), <- N.mul_add_distr_r.
  now apply mul_mod0.
Qed.

Lemma sub_mod0 : forall x y a, 0 < a -> x mod a = 0 -> y mod a = 0 -> (x - y) mod a = 0.
Proof.
  intros x y a Ha Hx Hy.
  rewrite (mod0_mul x a Ha Hx), (mod0_mul y a Ha Hy), <- N.mul_sub_distr_r.
  now apply mul_mod0.
Qed.

Lemma mod0_trans : forall x a b, 0 < a -> 0 < b -> a mod b = 0 -> x mod a = 0 -> x mod b = 0.
Proof.
  intros x a b Ha Hb Hab Hx.
  rewrite (mod0_mul x a Ha Hx), (mod0_mul a b Hb Hab), N.mul_assoc.
  now apply mul_mod0.
Qed.

Lemma round_up_bounds : forall s a, 0 < a ->
  s <= round_up s a /\ (round_up s a) mod a = 0 /\ round_up s a < s + a.
Proof.
  intros s a Ha. unfold round_up.
  split; [|split].
  - pose proof (N.div_mod' (s + (a - 1)) a) as Hd.
    pose proof (N.mod_lt (s + (a - 1)) a) as Hl. lia.
  - now apply mul_mod0.
  - pose proof (N.div_mod' (s + (a - 1)) a) as Hd. lia.
Qed.

Lemma align_to_least_multiple : forall s a, 0 < a ->
  s <= align_to s a /\ (align_to s a) mod a = 0 /\ align_to s a < s + a.
Proof.
  intros s a Ha. unfold align_to.
  destruct (N.eqb_spec a 0) as [E|_]; [lia|].
  destruct (N.eqb_spec (s mod a) 0) as [E|E].
  - repeat split; [lia | exact E | lia].
  - pose proof (N.mod_lt s a) as Hl.
    pose proof (N.div_mod' s a) as Hd.
    split; [lia|split; [|lia]].
    replace (s + a - s mod a) with ((s / a + 1) * a) by lia.
    now apply mul_mod0.
Qed.

Lemma align_to_round_up : forall s a, 0 < a -> align_to s a = round_up s a.
Proof.
  intros s a Ha.
  destruct (align_to_least_multiple s a Ha) as (H1 & H2 & H3).
  destruct (round_up_bounds s a Ha) as (H4 & H5 & H6).
  apply (multiple_unique a); auto; lia.
Qed.

Lemma align_to_zero : forall s, align_to s 0 = s.
Proof. reflexivity. Qed.

Lemma align_to_fix : forall s a, s mod a = 0 -> align_to s a = s.
Proof.
  intros s a H. unfold align_to. rewrite H.
  now destruct (a =? 0).
Qed.

Lemma round_up_fix : forall s a, 0 < a -> s mod a = 0 -> round_up s a = s.
Proof. intros s a Ha H. rewrite <- align_to_round_up by exact Ha. now apply align_to_fix. Qed.

Lemma round_up_1 : forall s, round_up s 1 = s.
Proof. intros s. apply round_up_fix; [lia|]. apply N.mod_1_r. Qed.

Lemma align_to_least : forall s a m, 0 < a -> s <= m -> m mod a = 0 -> align_to s a <= m.
Proof.
  intros s a m Ha Hsm Hm.
  destruct (align_to_least_multiple s a Ha) as (H1 & H2 & H3).
  pose proof (mod0_mul m a Ha Hm) as Em. pose proof (mod0_mul _ a Ha H2) as Ea.
  set (qm := m / a) in *. set (qa := align_to s a / a) in *.
  destruct (N.le_gt_cases qa qm) as [Hq|Hq].
  - rewrite Em, Ea. now apply N.mul_le_mono_r.
  - assert (Hc : (qm + 1) * a <= qa * a) by (apply N.mul_le_mono_r; lia). lia.
Qed.

(* ------------------------------------------------------------------ blob *)

Lemma blob_size_max : forall s a,
  blob_size s a =
    if N.max a 1 <=? 4 then (s / N.max a 1) * N.max a 1 else round_up s (N.max a 1).
Proof.
  intros s a. unfold blob_size. destruct (N.max a 1 <=? 4); [reflexivity|].
  apply align_to_round_up. lia.
Qed.

Lemma blob_exact : forall s a, 0 < a -> s mod a = 0 ->
  blob_size s a = s /\ blob_align s a = a.
Proof.
  intros s a Ha Hs. unfold blob_size, blob_align.
  replace (N.max a 1) with a by lia. split; [|reflexivity].
  destruct (a <=? 4).
  - symmetry. now apply mod0_mul.
  - now apply align_to_fix.
Qed.

(* blob(size, 0), as used by add_tail_padding, is `[u8; size]` *)
Lemma blob_align0 : forall s, blob_size s 0 = s /\ blob_align s 0 = 1.
Proof.
  intros s. unfold blob_size, blob_align. change (N.max 0 1) with 1.
  change (1 <=? 4) with true. cbn iota. split; [|reflexivity].
  rewrite N.div_1_r. lia.
Qed.

Theorem blob_size_general : forall s a,
  (0 < a -> blob_size s a = (if a <=? 4 then (s / a) * a else round_up s a) /\
            blob_align s a = a) /\
  (a = 0 -> blob_size s a = s /\ blob_align s a = 1).
Proof.
  intros s a. split.
  - intros Ha. rewrite blob_size_max. unfold blob_align.
    replace (N.max a 1) with a by lia. now split.
  - intros ->. apply blob_align0.
Qed.

Lemma blob_size_le4_loses : forall s a, 0 < a -> a <= 4 -> s mod a <> 0 -> blob_size s a < s.
Proof.
  intros s a Ha H4 Hs. unfold blob_size. replace (N.max a 1) with a by lia.
  destruct (N.leb_spec a 4) as [_|]; [|lia].
  pose proof (N.div_mod' s a). lia.
Qed.

Lemma blob_size_gt4_gains : forall s a, 4 < a -> s mod a <> 0 -> s < blob_size s a.
Proof.
  intros s a Ha Hs. unfold blob_size. replace (N.max a 1) with a by lia.
  destruct (N.leb_spec a 4) as [|_]; [lia|].
  destruct (align_to_least_multiple s a ltac:(lia)) as (H1 & H2 & H3).
  destruct (N.eq_dec (align_to s a) s) as [E|E]; [|lia].
  rewrite E in H2. contradiction.
Qed.

(* ------------------------------------------------------------------ for_size_internal *)

Lemma for_size_loop_exits : forall fuel p size k,
  p < 2 ^ (k + N.of_nat fuel) ->
  let r := for_size_loop fuel p size (2 ^ k) in
  (size mod r =? 0) && (r <=? p) = false.
Proof.
  induction fuel as [|f IH]; intros p size k Hp; cbn [for_size_loop].
  - cbn zeta. rewrite N.add_0_r in Hp.
    destruct (N.leb_spec (2 ^ k) p) as [H|H]; [lia|]. apply andb_false_r.
  - destruct ((size mod 2 ^ k =? 0) && (2 ^ k <=? p)) eqn:E; [|exact E].
    replace (2 ^ k * 2) with (2 ^ (k + 1)) by (rewrite N.pow_add_r; reflexivity).
    apply IH. replace (k + 1 + N.of_nat f) with (k + N.of_nat (S f)) by lia. exact Hp.
Qed.

(* the fuel never runs out: the loop leaves through its own condition *)
Lemma for_size_internal_fuel_ok : forall p size,
  let r := for_size_loop (S (N.to_nat (N.log2 p))) p size 2 in
  (size mod r =? 0) && (r <=? p) = false.
Proof.
  intros p size. change 2 with (2 ^ 1) at 1. apply for_size_loop_exits.
  rewrite Nat2N.inj_succ, N2Nat.id.
  destruct (N.eq_dec p 0) as [->|Hp]; [reflexivity|].
  pose proof (N.log2_spec p ltac:(lia)) as [_ H].
  replace (1 + N.succ (N.log2 p)) with (N.succ (N.succ (N.log2 p))) by lia.
  rewrite (N.pow_succ_r' 2 (N.succ (N.log2 p))). lia.
Qed.

(* ------------------------------------------------------------------ powers of two *)

Lemma pow2_pos : forall a, is_pow2 a = true -> 0 < a.
Proof.
  intros a H. unfold is_pow2 in H. apply andb_prop in H as [H _].
  now apply N.ltb_lt in H.
Qed.

Lemma pow2_gt8_mod8 : forall a, is_pow2 a = true -> 8 < a -> a mod 8 = 0.
Proof.
  intros a H Ha. unfold is_pow2 in H. apply andb_prop in H as [_ H].
  apply N.eqb_eq in H. set (n := N.log2 a) in *.
  destruct (N.le_gt_cases n 3) as [Hn|Hn].
  - assert (Hp : 2 ^ n <= 2 ^ 3) by (apply N.pow_le_mono_r; lia).
    change (2 ^ 3) with 8 in Hp. lia.
  - rewrite H. replace n with ((n - 3) + 3) by lia. rewrite N.pow_add_r.
    change (2 ^ 3) with 8. apply N.mod_mul. lia.
Qed.

(* ------------------------------------------------------------------ Rust side, structural *)

(* offsets of the fields flagged true, computed in one pass *)
Fixpoint moffs (cur : N) (fs : list (bool * rfield)) : list N :=
  match fs with
  | [] => []
  | (b, f) :: r =>
      let o := round_up cur (rf_align f) in
      (if b then [o] else []) ++ moffs (o + rf_size f) r
  end.

Lemma member_offsets_from_moffs : forall fs cur,
  map snd (filter (fun p : bool * N => fst p)
             (combine (map fst fs) (rust_offsets_from cur (map snd fs)))) = moffs cur fs.
Proof.
  induction fs as [|[b f] r IH]; intros cur; [reflexivity|].
  cbn [map fst snd rust_offsets_from combine filter moffs].
  destruct b; cbn [map snd app]; now rewrite IH.
Qed.

Lemma member_offsets_moffs : forall fs, member_offsets fs = moffs 0 fs.
Proof. intros fs. apply member_offsets_from_moffs. Qed.

Lemma rust_end_app : forall l1 l2 cur,
  rust_end_from cur (l1 ++ l2) = rust_end_from (rust_end_from cur l1) l2.
Proof.
  induction l1 as [|f r IH]; intros l2 cur; [reflexivity|].
  cbn [app rust_end_from]. apply IH.
Qed.

Lemma rust_max_align_ge1 : forall l, 1 <= rust_max_align l.
Proof. unfold rust_max_align. induction l as [|g s IHs]; cbn [fold_right]; lia. Qed.

Lemma rust_max_align_cons : forall f l,
  rust_max_align (f :: l) = N.max (rf_align f) (rust_max_align l).
Proof. reflexivity. Qed.

Lemma rust_max_align_nil : rust_max_align [] = 1.
Proof. reflexivity. Qed.

Lemma rust_max_align_app : forall l1 l2,
  rust_max_align (l1 ++ l2) = N.max (rust_max_align l1) (rust_max_align l2).
Proof.
  induction l1 as [|f r IH]; intros l2.
  - cbn [app]. rewrite rust_max_align_nil. pose proof (rust_max_align_ge1 l2). lia.
  - cbn [app]. rewrite !rust_max_align_cons, IH. lia.
Qed.

Lemma moffs_app : forall l1 l2 cur,
  moffs cur (l1 ++ l2) = moffs cur l1 ++ moffs (rust_end_from cur (map snd l1)) l2.
Proof.
  induction l1 as [|[b f] r IH]; intros l2 cur; [reflexivity|].
  cbn [app moffs map snd rust_end_from]. rewrite IH. now rewrite app_assoc.
Qed.

Lemma moffs_opt_blob : forall o cur, moffs cur (opt_blob o) = [].
Proof. intros [l|] cur; reflexivity. Qed.

(* ------------------------------------------------------------------ tracker invariant *)

(* between two plain members: the tracker is exactly at the end of the previous
   member, which is a multiple of that member's alignment, and no bit-field is open *)
Definition Inv (st : tstate) (off : N) : Prop :=
  latest_offset st = off /\
  last_field_was_bitfield st = false /\
  match latest_field_layout st with
  | None => True
  | Some (_, la) => align_to off la = off
  end.

Lemma Inv_init : Inv init_state 0.
Proof. repeat split. Qed.

Lemma with_offset_same : forall st, with_offset st (latest_offset st + 0) = st.
Proof. intros [lo pc lfl mfa lbf lfa]. unfold with_offset.
  cbn [latest_offset padding_count latest_field_layout max_field_align
       last_field_was_bitfield last_field_was_flexible_array].
  now rewrite N.add_0_r.
Qed.

Lemma atlf_inv : forall env st off s a,
  Inv st off -> is_packed env = false ->
  align_to_latest_field env st s a = (st, false).
Proof.
  intros env st off s a (Ho & Hb & Hl) Hp. unfold align_to_latest_field.
  rewrite Hp, Hb. destruct (latest_field_layout st) as [[ls la]|]; [|reflexivity].
  cbn [andb]. unfold padding_bytes. rewrite Ho, Hl, N.sub_diag, <- Ho.
  now rewrite with_offset_same.
Qed.

(* the padding decision of saw_field_with_layout for a member placed naturally;
   [ta] is the alignment the tracker is told, [off] the end of the previous member,
   [o] the member's offset *)
Definition pad_align (force legacy : bool) (off ta gap : N) : N :=
  if force then 1
  else if legacy then N.min ta 8
  else if (1 <? N.min ta 8)
          && (negb (off mod N.min ta 8 =? 0) || negb (gap mod N.min ta 8 =? 0))
       then 1
       else N.min ta 8.

Definition pad_of (force legacy : bool) (off ta o : N) : option (N * N) :=
  if (force || (ta <=? o - off) || (8 <? ta)) && negb (o - off =? 0)
  then Some (o - off, pad_align force legacy off ta (o - off))
  else None.

(* what the tracker may be told about a member of alignment [a]: the truth, or 8 for
   an over-aligned array (saw_field's adjustment) *)
Definition told_ok (a ta : N) : Prop := ta = a \/ (ta = 8 /\ 8 < a).

Lemma pad_align_le : forall force legacy off ta gap,
  0 < ta -> 0 < pad_align force legacy off ta gap <= ta.
Proof.
  intros force legacy off ta gap Ht. unfold pad_align.
  destruct force; [lia|]. destruct legacy; [lia|].
  destruct ((1 <? N.min ta 8) && _); lia.
Qed.

Lemma step_field : forall force legacy cs ca st off s a ta o,
  Inv st off -> 0 < a -> s mod a = 0 -> o = align_to off a ->
  told_ok a ta -> (8 < a -> a mod 8 = 0) ->
  forall st' pad,
  step (layout_env force legacy cs ca) st (SawField s ta (Some (8 * o))) = (st', pad) ->
  pad = pad_of force legacy off ta o /\
  Inv st' (o + s) /\
  max_field_align st' = N.max (max_field_align st) ta /\
  last_field_was_flexible_array st' = last_field_was_flexible_array st.
Proof.
  intros force legacy cs ca st off s a ta o HI Ha Hs Ho Ht H8 st' pad.
  destruct (align_to_least_multiple off a Ha) as (H1 & H2 & H3). rewrite <- Ho in *.
  assert (Hta : 0 < ta) by (destruct Ht as [->|[-> _]]; lia).
  assert (Hota : o mod ta = 0).
  { destruct Ht as [->|[-> Hgt]]; [exact H2|]. apply (mod0_trans o a 8); auto; lia. }
  assert (Hsta : s mod ta = 0).
  { destruct Ht as [->|[-> Hgt]]; [exact Hs|]. apply (mod0_trans s a 8); auto; lia. }
  cbn [step]. unfold saw_field_with_layout.
  rewrite (atlf_inv _ st off s ta HI) by reflexivity.
  destruct HI as (Hlo & Hbf & Hl).
  cbn [layout_env is_packed is_union force_explicit_padding known_layout
       legacy_padding_align orb negb].
  replace (8 * o / 8) with o by (rewrite N.mul_comm, N.div_mul; lia).
  destruct (N.eqb_spec ta 0) as [E|_]; [lia|].
  cbn [orb]. unfold padding_bytes. rewrite Hlo.
  replace (if off <? o then o - off else align_to off ta - off) with (o - off).
  2:{ destruct (N.ltb_spec off o) as [|Hge]; [reflexivity|].
      assert (o = off) as -> by lia. rewrite (align_to_fix off ta Hota). reflexivity. }
  unfold MAX_GUARANTEED_ALIGN, with_offset.
  cbn [latest_offset padding_count latest_field_layout max_field_align
       last_field_was_bitfield last_field_was_flexible_array].
  rewrite N.add_sub.
  assert (Hinv : align_to (off + (o - off) + s) ta = off + (o - off) + s).
  { apply align_to_fix. replace (off + (o - off)) with o by lia. now apply add_mod0. }
  pose proof (pad_align_le force legacy off ta (o - off) Hta) as Hpl.
  unfold pad_of. fold (pad_align force legacy off ta (o - off)).
  unfold padding_field.
  destruct ((force || (ta <=? o - off) || (8 <? ta)) && negb (o - off =? 0)).
  - intros H. injection H as <- <-.
    cbn [latest_offset padding_count latest_field_layout max_field_align
         last_field_was_bitfield last_field_was_flexible_array snd].
    replace (off + (o - off)) with o in * by lia.
    repeat split; [exact Hinv|]. lia.
  - intros H. injection H as <- <-.
    cbn [latest_offset padding_count latest_field_layout max_field_align
         last_field_was_bitfield last_field_was_flexible_array].
    replace (off + (o - off)) with o in * by lia.
    repeat split. exact Hinv.
Qed.

(* ------------------------------------------------------------------ one member, Rust side *)

Definition member_gap_ok (cur : N) (m : member) : bool :=
  (m_align m <=? 8) || (m_offset m =? cur) || (cur mod 8 =? 0).

Lemma gaps_ok_from_cons : forall cur m r,
  gaps_ok_from cur (m :: r) = member_gap_ok cur m && gaps_ok_from (m_offset m + m_size m) r.
Proof. reflexivity. Qed.

(* a blob that starts where the previous member ends and is exactly as long as the gap *)
Lemma blob_fits : forall off gap al a o,
  0 < al -> al <= a -> o = off + gap -> o mod a = 0 ->
  al = 1 \/ (off mod al = 0 /\ gap mod al = 0) ->
  let l := map snd (opt_blob (Some (gap, al))) in
  round_up (rust_end_from off l) a = o /\ N.max a (rust_max_align l) = a.
Proof.
  intros off gap al a o Hal Hle Ho Hoa Hfit.
  assert (Hg : gap mod al = 0) by (destruct Hfit as [->|[_ H]]; [apply N.mod_1_r|exact H]).
  assert (Hf : off mod al = 0) by (destruct Hfit as [->|[H _]]; [apply N.mod_1_r|exact H]).
  cbn [opt_blob map snd]. rewrite rust_max_align_cons, rust_max_align_nil.
  cbn [blob_field fst snd rust_end_from rf_align rf_size].
  destruct (blob_exact gap al Hal Hg) as [-> ->].
  rewrite (round_up_fix off al Hal Hf), <- Ho.
  split; [|lia]. apply round_up_fix; [lia|exact Hoa].
Qed.

Lemma pad_rust_ok : forall force legacy off a ta o,
  0 < a -> o = align_to off a -> told_ok a ta -> (8 < a -> a mod 8 = 0) ->
  force || negb legacy = true \/
    (ta = a /\ (a <=? 8) || (o =? off) || (off mod 8 =? 0) = true) ->
  let l := map snd (opt_blob (pad_of force legacy off ta o)) in
  round_up (rust_end_from off l) a = o /\ N.max a (rust_max_align l) = a.
Proof.
  intros force legacy off a ta o Ha Ho Ht H8 Hc.
  destruct (align_to_least_multiple off a Ha) as (H1 & H2 & H3). rewrite <- Ho in *.
  assert (Hta : 0 < ta <= a) by (destruct Ht as [->|[-> ?]]; lia).
  unfold pad_of.
  destruct ((force || (ta <=? o - off) || (8 <? ta)) && negb (o - off =? 0)) eqn:Hneed.
  - apply andb_prop in Hneed as [Hneed Hgap].
    apply negb_true_iff, N.eqb_neq in Hgap.
    pose proof (pad_align_le force legacy off ta (o - off) ltac:(lia)) as Hpl.
    apply (blob_fits off (o - off) _ a o); [lia|lia|lia|exact H2|].
    unfold pad_align in *. destruct force; [now left|]. cbn [orb] in Hneed, Hc.
    destruct legacy.
    + cbn [negb] in Hc. destruct Hc as [Hc|[-> Hc]]; [discriminate|].
      destruct (N.leb_spec a (o - off)) as [|_]; [lia|]. cbn [orb] in Hneed.
      apply N.ltb_lt in Hneed.
      destruct (N.leb_spec a 8) as [|_]; [lia|].
      destruct (N.eqb_spec o off) as [|_]; [lia|]. cbn [orb] in Hc. apply N.eqb_eq in Hc.
      replace (N.min a 8) with 8 by lia. right. split; [exact Hc|].
      apply sub_mod0; [lia| |exact Hc]. apply (mod0_trans o a 8); auto; lia.
    + destruct (N.ltb_spec 1 (N.min ta 8)) as [Hgt|Hle]; cbn [andb].
      * destruct (N.eqb_spec (off mod N.min ta 8) 0) as [E1|E1]; cbn [negb orb];
          [|now left].
        destruct (N.eqb_spec ((o - off) mod N.min ta 8) 0) as [E2|E2]; cbn [negb];
          [|now left].
        right. now split.
      * left. lia.
  - cbn [opt_blob map rust_end_from]. rewrite rust_max_align_nil.
    split; [|lia]. rewrite <- align_to_round_up by exact Ha. now symmetry.
Qed.

Lemma pad_rust_bad : forall off a o,
  is_pow2 a = true -> o = align_to off a ->
  (a <=? 8) || (o =? off) || (off mod 8 =? 0) = false ->
  let l := map snd (opt_blob (pad_of false true off a o)) in
  o < round_up (rust_end_from off l) a.
Proof.
  intros off a o Hp Ho Hc.
  pose proof (pow2_pos a Hp) as Ha.
  destruct (align_to_least_multiple off a Ha) as (H1 & H2 & H3). rewrite <- Ho in *.
  apply orb_false_elim in Hc as [Hc H8]. apply orb_false_elim in Hc as [Hle Heq].
  apply N.leb_gt in Hle. apply N.eqb_neq in Heq. apply N.eqb_neq in H8.
  unfold pad_of, pad_align. cbn [orb].
  destruct (N.ltb_spec 8 a) as [_|]; [|lia]. rewrite orb_true_r.
  destruct (N.eqb_spec (o - off) 0) as [|_]; [lia|]. cbn [andb negb].
  replace (N.min a 8) with 8 by lia.
  cbn [opt_blob map snd blob_field fst rust_end_from rf_align rf_size].
  unfold blob_align. change (N.max 8 1) with 8.
  destruct (round_up_bounds off 8 ltac:(lia)) as (R1 & R2 & R3).
  assert (R4 : round_up off 8 <> off) by (intros E; rewrite E in R2; contradiction).
  rewrite blob_size_max. change (N.max 8 1) with 8. change (8 <=? 4) with false. cbn iota.
  destruct (round_up_bounds (o - off) 8 ltac:(lia)) as (G1 & _ & _).
  destruct (round_up_bounds (round_up off 8 + round_up (o - off) 8) a Ha) as (E1 & _ & _).
  lia.
Qed.

(* ------------------------------------------------------------------ the loop over the members *)

Definition maxal (ms : list member) : N :=
  fold_right (fun m acc => N.max (m_align m) acc) 0 ms.

Definition maxtold (tms : list (member * (N * N))) : N :=
  fold_right (fun p acc => N.max (snd (snd p)) acc) 0 tms.

Lemma c_max_align_maxal : forall ms, c_max_align ms = N.max 1 (maxal ms).
Proof.
  unfold c_max_align, maxal. induction ms as [|m r IH]; [reflexivity|].
  cbn [fold_right]. rewrite IH. lia.
Qed.

Lemma member_ok_elim : forall m, member_ok m = true ->
  is_pow2 (m_align m) = true /\ 0 < m_size m /\ m_size m mod m_align m = 0.
Proof.
  intros m H. unfold member_ok in H.
  apply andb_prop in H as [H H3]. apply andb_prop in H as [H1 H2].
  apply N.ltb_lt in H2. apply N.eqb_eq in H3. auto.
Qed.

(* what the loop needs to know about the layouts told to the tracker; [always] says
   that the padding blobs fit whatever the gaps are (explicit padding, or the fixed
   padding_align rule) *)
Fixpoint tms_ok (always : bool) (cur : N) (tms : list (member * (N * N))) : Prop :=
  match tms with
  | [] => True
  | (m, t) :: r =>
      fst t = m_size m /\ told_ok (m_align m) (snd t) /\
      (always = true \/ (snd t = m_align m /\ member_gap_ok cur m = true)) /\
      tms_ok always (m_offset m + m_size m) r
  end.

Lemma loop_ok : forall force legacy cs ca tms st off,
  Inv st off ->
  forallb member_ok (map fst tms) = true ->
  offsets_natural off (map fst tms) = true ->
  tms_ok (force || negb legacy) off tms ->
  forall st' fs,
  emit_members (layout_env force legacy cs ca) st tms = (st', fs) ->
  Inv st' (c_end off (map fst tms)) /\
  max_field_align st' = N.max (max_field_align st) (maxtold tms) /\
  last_field_was_flexible_array st' = last_field_was_flexible_array st /\
  moffs off fs = map m_offset (map fst tms) /\
  rust_end_from off (map snd fs) = c_end off (map fst tms) /\
  N.max 1 (maxal (map fst tms)) = rust_max_align (map snd fs).
Proof.
  intros force legacy cs ca. induction tms as [|[m [ts ta]] r IH];
    intros st off HI Hok Hnat Htm st' fs.
  - cbn [emit_members]. intros H. injection H as <- <-.
    cbn [c_end maxal maxtold fold_right map moffs rust_end_from]. rewrite rust_max_align_nil.
    repeat split; try apply HI; lia.
  - cbn [emit_members fst snd map] in *.
    cbn [forallb] in Hok. apply andb_prop in Hok as [Hm Hok].
    destruct (member_ok_elim m Hm) as (Hp & Hs & Hsa).
    pose proof (pow2_pos _ Hp) as Ha.
    pose proof (pow2_gt8_mod8 _ Hp) as H8.
    cbn [offsets_natural] in Hnat. apply andb_prop in Hnat as [Ho Hnat].
    apply N.eqb_eq in Ho. rewrite <- align_to_round_up in Ho by exact Ha.
    cbn [tms_ok fst snd] in Htm. destruct Htm as (-> & Htold & Hg & Htm).
    destruct (step _ st _) as [st1 pad] eqn:Es.
    destruct (step_field force legacy cs ca st off _ _ ta _ HI Ha Hsa Ho Htold H8 st1 pad Es)
      as (-> & HI1 & Hm1 & Hf1).
    destruct (emit_members _ st1 r) as [st2 fs2] eqn:Ee.
    destruct (IH st1 _ HI1 Hok Hnat Htm st2 fs2 Ee) as (J1 & J2 & J3 & J4 & J5 & J6).
    intros H. injection H as <- <-.
    assert (Hg' : force || negb legacy = true \/
              (ta = m_align m /\
               (m_align m <=? 8) || (m_offset m =? off) || (off mod 8 =? 0) = true)).
    { destruct Hg as [Hg|[Hg1 Hg2]]; [now left|right]. now split. }
    destruct (pad_rust_ok force legacy off _ ta _ Ha Ho Htold H8 Hg') as [P1 P2].
    cbn zeta in P1, P2.
    cbn [c_end maxal maxtold fold_right map fst snd].
    fold (maxal (map fst r)). fold (maxtold r).
    split; [exact J1|]. split; [rewrite J2, Hm1; lia|]. split; [congruence|].
    split; [|split].
    + rewrite moffs_app, moffs_opt_blob. cbn [app moffs rf_align rf_size].
      rewrite P1. cbn [app]. now rewrite J4.
    + rewrite map_app, rust_end_app. cbn [map snd rust_end_from rf_align rf_size].
      rewrite P1. exact J5.
    + rewrite map_app, rust_max_align_app. cbn [map snd].
      rewrite rust_max_align_cons, <- J6. cbn [rf_align]. lia.
Qed.

(* the converse for the legacy rule: a member violating the side condition lands at a
   larger offset *)
Lemma loop_nec : forall cs ca ms st off,
  Inv st off ->
  forallb member_ok ms = true ->
  offsets_natural off ms = true ->
  forall st' fs,
  emit_members (legacy_env cs ca) st (map plain_tag ms) = (st', fs) ->
  moffs off fs = map m_offset ms ->
  gaps_ok_from off ms = true.
Proof.
  intros cs ca. induction ms as [|m r IH]; intros st off HI Hok Hnat st' fs; [reflexivity|].
  cbn [map plain_tag emit_members plain_view fst snd].
  cbn [forallb] in Hok. apply andb_prop in Hok as [Hm Hok].
  destruct (member_ok_elim m Hm) as (Hp & Hs & Hsa).
  pose proof (pow2_pos _ Hp) as Ha.
  pose proof (pow2_gt8_mod8 _ Hp) as H8.
  cbn [offsets_natural] in Hnat. apply andb_prop in Hnat as [Ho Hnat].
  apply N.eqb_eq in Ho. rewrite <- align_to_round_up in Ho by exact Ha.
  destruct (step _ st _) as [st1 pad] eqn:Es.
  destruct (step_field false true cs ca st off _ _ _ _ HI Ha Hsa Ho (or_introl eq_refl) H8
              st1 pad Es) as (-> & HI1 & Hm1 & Hf1).
  fold (plain_tag) in *.
  destruct (emit_members _ st1 (map plain_tag r)) as [st2 fs2] eqn:Ee.
  intros H. injection H as <- <-.
  rewrite moffs_app, moffs_opt_blob. cbn [app moffs rf_align rf_size map].
  intros Heq. injection Heq as Hhd Htl.
  rewrite gaps_ok_from_cons. unfold member_gap_ok.
  destruct ((m_align m <=? 8) || (m_offset m =? off) || (off mod 8 =? 0)) eqn:Hc.
  - cbn [andb].
    destruct (pad_rust_ok false true off _ _ _ Ha Ho (or_introl eq_refl) H8
                (or_intror (conj eq_refl Hc))) as [P1 _].
    cbn zeta in P1. rewrite P1 in Htl.
    exact (IH st1 _ HI1 Hok Hnat st2 fs2 Ee Htl).
  - pose proof (pad_rust_bad off _ _ Hp Ho Hc) as P. cbn zeta in P. lia.
Qed.

(* ------------------------------------------------------------------ the end of the struct *)

Definition tail_of (force : bool) (cs e : N) : option (N * N) :=
  if force && negb (e =? cs) then Some (cs - e, 0) else None.

Lemma tail_steps : forall force legacy cs ca st e,
  Inv st e -> last_field_was_flexible_array st = false ->
  e <= cs -> cs - e < ca ->
  forall st2 tail st3 pad,
  step (layout_env force legacy cs ca) st (AddTailPadding cs ca) = (st2, tail) ->
  step (layout_env force legacy cs ca) st2 (PadStruct cs ca) = (st3, pad) ->
  tail = tail_of force cs e /\ pad = None /\ max_field_align st3 = max_field_align st.
Proof.
  intros force legacy cs ca [lo pc lfl mfa lbf lfa] e (Hlo & Hbf & _) Hfa Hle Hlt st2 tail st3 pad.
  cbn [latest_offset last_field_was_bitfield last_field_was_flexible_array] in Hlo, Hbf, Hfa.
  subst lo lbf lfa. unfold tail_of.
  assert (Hpad : forall lo' pc' mfa' st3 pad, lo' <= cs -> cs - lo' < ca ->
    step (layout_env force legacy cs ca)
      {| latest_offset := lo'; padding_count := pc'; latest_field_layout := lfl;
         max_field_align := mfa'; last_field_was_bitfield := false;
         last_field_was_flexible_array := false |} (PadStruct cs ca) = (st3, pad) ->
    pad = None /\ max_field_align st3 = mfa').
  { intros lo' pc' mfa' s3 p Hle' Hlt'.
    cbn [step latest_offset last_field_was_bitfield andb orb repr_align negb].
    destruct (N.ltb_spec cs lo') as [|_]; [lia|].
    destruct (cs - lo' =? 0); [intros H; injection H as <- <-; now split|].
    destruct (N.leb_spec ca (cs - lo')) as [|_]; [lia|].
    cbn [orb]. intros H; injection H as <- <-; now split. }
  cbn [step layout_env force_explicit_padding is_union is_rust_union latest_offset
       last_field_was_flexible_array].
  destruct force; cbn [negb andb].
  - destruct (e =? cs); cbn [negb].
    + intros H; injection H as <- <-. intros H2. apply Hpad in H2 as [-> ->]; [|lia|lia].
      now repeat split.
    + unfold padding_field. cbn [latest_offset padding_count latest_field_layout
        max_field_align last_field_was_bitfield last_field_was_flexible_array snd].
      intros H; injection H as <- <-. intros H2. apply Hpad in H2 as [-> ->]; [|lia|lia].
      repeat split. lia.
  - intros H; injection H as <- <-. intros H2. apply Hpad in H2 as [-> ->]; [|lia|lia].
    now repeat split.
Qed.

(* whenever add_tail_padding emits a field it leaves the tracker at the end of the struct,
   and the pad_struct that follows (same layout) emits nothing: no side condition *)
Theorem tail_padding_then_pad_struct_adds_nothing : forall env st size align st1 l,
  step env st (AddTailPadding size align) = (st1, Some l) ->
  latest_offset st1 = size /\
  snd (step env st1 (PadStruct size align)) = None.
Proof.
  intros env st size align st1 l H.
  assert (Hlo : latest_offset st1 = size).
  { cbn [step] in H.
    destruct (negb (force_explicit_padding env)); [discriminate H|].
    destruct (is_union env); [discriminate H|].
    destruct (last_field_was_flexible_array st); [discriminate H|].
    destruct (latest_offset st =? size); [discriminate H|].
    unfold padding_field in H. injection H as <- _. reflexivity. }
  split; [exact Hlo|].
  cbn [step]. rewrite Hlo, N.ltb_irrefl, N.sub_diag. reflexivity.
Qed.

Lemma maxal_pos : forall ms, forallb member_ok ms = true -> ms <> [] -> 1 <= maxal ms.
Proof.
  intros [|m r] Hok Hne; [contradiction|].
  cbn [forallb] in Hok. apply andb_prop in Hok as [Hm _].
  destruct (member_ok_elim m Hm) as (Hp & _ & _). pose proof (pow2_pos _ Hp).
  unfold maxal. cbn [fold_right]. lia.
Qed.

Lemma maxtold_bounds : forall always tms cur,
  forallb member_ok (map fst tms) = true -> tms_ok always cur tms ->
  maxtold tms <= maxal (map fst tms) /\ (tms <> [] -> 1 <= maxtold tms).
Proof.
  intros always. induction tms as [|[m [ts ta]] r IH]; intros cur Hok Htm.
  - split; [reflexivity|congruence].
  - cbn [map fst forallb] in Hok. apply andb_prop in Hok as [Hm Hok].
    destruct (member_ok_elim m Hm) as (Hp & _ & _). pose proof (pow2_pos _ Hp) as Ha.
    cbn [tms_ok fst snd] in Htm. destruct Htm as (_ & Htold & _ & Htm).
    destruct (IH _ Hok Htm) as [I1 _].
    unfold maxtold, maxal in *. cbn [map fst snd fold_right].
    destruct Htold as [->|[-> Hgt]]; split; intros; lia.
Qed.

Lemma req_align_eq : forall st cs ca, max_field_align st = ca ->
  requires_explicit_align st (cs, ca) = (16 <=? ca).
Proof.
  intros st cs ca H. unfold requires_explicit_align. cbn [repr_align andb snd orb].
  rewrite H. destruct (16 <=? ca); [reflexivity|]. now rewrite N.leb_refl.
Qed.

Lemma req_align_gen : forall st cs ca,
  requires_explicit_align st (cs, ca)
  = (16 <=? max_field_align st) || (max_field_align st <? ca).
Proof.
  intros st cs ca. unfold requires_explicit_align. cbn [repr_align andb snd orb].
  destruct (16 <=? max_field_align st); [reflexivity|]. cbn [orb].
  rewrite N.ltb_antisym. now destruct (ca <=? max_field_align st).
Qed.

(* everything at once; [pk] is the `layout.align == 1 => packed` quirk *)
Theorem layout_gen : forall force legacy cs ca tms,
  c_natural cs ca (map fst tms) = true ->
  tms_ok (force || negb legacy) 0 tms ->
  forall fs ea pk,
  emit_with (layout_env force legacy cs ca) cs ca tms = (fs, ea, pk) ->
  member_offsets fs = map m_offset (map fst tms) /\
  rust_size_align ea (map snd fs) = (cs, ca) /\
  pk = false /\
  ea = (if (16 <=? maxtold tms) || (maxtold tms <? ca) then Some ca else None) /\
  maxtold tms <= ca.
Proof.
  intros force legacy cs ca tms Hnat Htm fs ea pk.
  set (ms := map fst tms) in *.
  unfold c_natural in Hnat.
  apply andb_prop in Hnat as [Hnat Hpos]. apply andb_prop in Hnat as [Hnat Hcs].
  apply andb_prop in Hnat as [Hnat Hca]. apply andb_prop in Hnat as [Hok Hoff].
  apply N.ltb_lt in Hpos. apply N.eqb_eq in Hcs. apply N.eqb_eq in Hca.
  assert (Hne : ms <> []).
  { intros E. rewrite E in Hcs. cbn [c_end] in Hcs. unfold round_up in Hcs.
    assert (Hz : (0 + (ca - 1)) / ca * ca = 0).
    { destruct (N.eq_dec ca 0) as [->|Hz]; [reflexivity|].
      rewrite N.add_0_l, N.div_small by lia. reflexivity. }
    lia. }
  assert (Hne' : tms <> []) by (intros E; apply Hne; unfold ms; now rewrite E).
  pose proof (maxal_pos ms Hok Hne) as Hm1.
  destruct (maxtold_bounds _ tms 0 Hok Htm) as [Mt1 Mt2]. specialize (Mt2 Hne').
  fold ms in Mt1.
  rewrite c_max_align_maxal in Hca. replace (N.max 1 (maxal ms)) with (maxal ms) in Hca by lia.
  assert (Hca0 : 0 < ca) by lia.
  destruct (round_up_bounds (c_end 0 ms) ca Hca0) as (B1 & B2 & B3). rewrite <- Hcs in *.
  unfold emit_with.
  destruct (emit_members _ init_state tms) as [st1 fs1] eqn:Ee.
  destruct (loop_ok force legacy cs ca tms init_state 0 Inv_init Hok Hoff Htm st1 fs1 Ee)
    as (J1 & J2 & J3 & J4 & J5 & J6).
  fold ms in J1, J4, J5, J6.
  cbn [init_state max_field_align last_field_was_flexible_array] in J2, J3.
  replace (N.max 0 (maxtold tms)) with (maxtold tms) in J2 by lia.
  replace (N.max 1 (maxal ms)) with ca in J6 by lia.
  destruct (step _ st1 (AddTailPadding cs ca)) as [st2 tail] eqn:E2.
  destruct (step _ st2 (PadStruct cs ca)) as [st3 pad] eqn:E3.
  destruct (tail_steps force legacy cs ca st1 _ J1 J3 B1 ltac:(lia) st2 tail st3 pad E2 E3)
    as (-> & -> & Hmfa).
  rewrite J2 in Hmfa.
  rewrite (req_align_gen st3 cs ca), Hmfa.
  set (req := (16 <=? maxtold tms) || (maxtold tms <? ca)).
  assert (Hreq1 : req = true -> ca <> 1).
  { unfold req. intros H E. apply orb_prop in H as [H|H].
    - apply N.leb_le in H. lia.
    - apply N.ltb_lt in H. lia. }
  assert (Hea : (if req then if ca =? 1 then None else Some ca else None)
                = (if req then Some ca else None)).
  { destruct req; [|reflexivity]. destruct (N.eqb_spec ca 1) as [E|_]; [|reflexivity].
    now destruct (Hreq1 eq_refl). }
  rewrite Hea.
  intros H. injection H as <- <- <-.
  cbn [opt_blob]. rewrite app_nil_r.
  split; [|split; [|split; [|split]]].
  - rewrite member_offsets_moffs, moffs_app, moffs_opt_blob, app_nil_r. exact J4.
  - unfold rust_size_align.
    rewrite map_app, rust_max_align_app, rust_end_app, J5, <- J6.
    assert (Hal : N.max (N.max ca (rust_max_align (map snd (opt_blob (tail_of force cs (c_end 0 ms))))))
                        (match (if req then Some ca else None) with Some a => a | None => 1 end)
                  = ca).
    { assert (rust_max_align (map snd (opt_blob (tail_of force cs (c_end 0 ms)))) = 1) as ->.
      { unfold tail_of. destruct (force && negb (c_end 0 ms =? cs)); [|reflexivity].
        cbn [opt_blob map snd]. rewrite rust_max_align_cons, rust_max_align_nil.
        cbn [blob_field fst snd rf_align]. destruct (blob_align0 (cs - c_end 0 ms)) as [_ ->].
        reflexivity. }
      destruct req; lia. }
    rewrite Hal. f_equal.
    unfold tail_of. destruct force; cbn [andb].
    + destruct (N.eqb_spec (c_end 0 ms) cs) as [E|E]; cbn [negb opt_blob map rust_end_from].
      * rewrite E. now apply round_up_fix.
      * cbn [snd blob_field fst rf_align rf_size].
        destruct (blob_align0 (cs - c_end 0 ms)) as [-> ->]. rewrite round_up_1.
        replace (c_end 0 ms + (cs - c_end 0 ms)) with cs by lia. now apply round_up_fix.
    + cbn [opt_blob map rust_end_from]. now symmetry.
  - destruct req eqn:Er; cbn [andb]; [|reflexivity].
    destruct (N.eqb_spec ca 1) as [E|_]; [|reflexivity]. now destruct (Hreq1 eq_refl).
  - reflexivity.
  - lia.
Qed.

(* ------------------------------------------------------------------ plain members, arrays *)

Lemma map_fst_plain : forall ms, map fst (map plain_tag ms) = ms.
Proof. induction ms as [|m r IH]; [reflexivity|]. cbn [map plain_tag fst]. now rewrite IH. Qed.

Lemma maxtold_plain : forall ms, maxtold (map plain_tag ms) = maxal ms.
Proof.
  unfold maxtold, maxal. induction ms as [|m r IH]; [reflexivity|].
  cbn [map plain_tag plain_view fold_right snd]. now rewrite IH.
Qed.

Lemma tms_ok_plain : forall always ms cur,
  always = true \/ gaps_ok_from cur ms = true ->
  tms_ok always cur (map plain_tag ms).
Proof.
  intros always. induction ms as [|m r IH]; intros cur H; [exact I|].
  cbn [map plain_tag tms_ok plain_view fst snd].
  split; [reflexivity|]. split; [now left|].
  destruct H as [H|H].
  - split; [now left|]. apply IH. now left.
  - rewrite gaps_ok_from_cons in H. apply andb_prop in H as [H1 H2].
    split; [right; now split|]. apply IH. now right.
Qed.

Lemma map_fst_array : forall xs, map fst (map array_tag xs) = map am_member xs.
Proof. induction xs as [|x r IH]; [reflexivity|]. cbn [map array_tag fst]. now rewrite IH. Qed.

Theorem array_hack_harmless_when_elem_align_le_8 : forall fl es ea len,
  ea <= 8 -> array_adjust fl (Some ((es, ea), len)) = fl.
Proof.
  intros fl es ea len H. unfold array_adjust, MAX_GUARANTEED_ALIGN.
  destruct (N.ltb_spec 8 ea); [lia|reflexivity].
Qed.

Lemma tms_ok_arrays : forall xs cur,
  forallb array_consistent xs = true ->
  tms_ok true cur (map array_tag xs).
Proof.
  induction xs as [|x r IH]; intros cur H; [exact I|].
  cbn [forallb] in H. apply andb_prop in H as [Hx H].
  cbn [map array_tag tms_ok fst snd].
  assert (Hv : fst (array_view x) = m_size (am_member x) /\
               told_ok (m_align (am_member x)) (snd (array_view x))).
  { unfold array_view, array_consistent, array_adjust, plain_view, MAX_GUARANTEED_ALIGN in *.
    destruct (am_elem x) as [[[es ea] len]|]; [|split; [reflexivity|now left]].
    apply andb_prop in Hx as [Hx H3]. apply andb_prop in Hx as [H1 H2].
    apply N.eqb_eq in H1. apply N.eqb_eq in H2. apply N.eqb_eq in H3.
    destruct (N.ltb_spec 8 ea) as [Hgt|Hle]; cbn [fst snd]; [|split; [reflexivity|now left]].
    rewrite (align_to_fix es ea H3). split; [now symmetry|]. right. split; [reflexivity|lia]. }
  destruct Hv as [Hv1 Hv2].
  split; [exact Hv1|]. split; [exact Hv2|]. split; [now left|]. now apply IH.
Qed.

(* ------------------------------------------------------------------ the named theorems *)

Lemma emit_split : forall env cs ca ms fs ea pk,
  emit_full env cs ca ms = (fs, ea, pk) -> emit env cs ca ms = (fs, ea).
Proof. intros env cs ca ms fs ea pk H. unfold emit. now rewrite H. Qed.

Lemma c_natural_ca : forall cs ca ms, c_natural cs ca ms = true -> ca = maxal ms.
Proof.
  intros cs ca ms Hnat. unfold c_natural in Hnat.
  apply andb_prop in Hnat as [Hnat Hpos]. apply andb_prop in Hnat as [Hnat Hcs].
  apply andb_prop in Hnat as [Hnat Hca]. apply andb_prop in Hnat as [Hok Hoff].
  apply N.ltb_lt in Hpos. apply N.eqb_eq in Hcs. apply N.eqb_eq in Hca.
  assert (Hne : ms <> []).
  { intros E. rewrite E in Hcs. cbn [c_end] in Hcs. unfold round_up in Hcs.
    assert (Hz : (0 + (ca - 1)) / ca * ca = 0).
    { destruct (N.eq_dec ca 0) as [->|Hz]; [reflexivity|].
      rewrite N.add_0_l, N.div_small by lia. reflexivity. }
    lia. }
  pose proof (maxal_pos ms Hok Hne) as Hm1.
  rewrite c_max_align_maxal in Hca. lia.
Qed.

(* plain members, any of the three settings in which the padding blobs fit *)
Lemma layout_plain : forall force legacy cs ca ms,
  c_natural cs ca ms = true ->
  force || negb legacy = true \/ gaps_ok ms = true ->
  forall fs ea pk,
  emit_full (layout_env force legacy cs ca) cs ca ms = (fs, ea, pk) ->
  member_offsets fs = map m_offset ms /\
  rust_size_align ea (map snd fs) = (cs, ca) /\
  pk = false /\
  ea = (if 16 <=? ca then Some ca else None).
Proof.
  intros force legacy cs ca ms Hnat Hc fs ea pk E. unfold emit_full in E.
  pose proof (map_fst_plain ms) as Hms.
  assert (Hnat' : c_natural cs ca (map fst (map plain_tag ms)) = true) by now rewrite Hms.
  pose proof (tms_ok_plain (force || negb legacy) ms 0 Hc) as Htm.
  destruct (layout_gen force legacy cs ca _ Hnat' Htm fs ea pk E) as (H1 & H2 & H3 & H4 & _).
  rewrite Hms in H1. rewrite maxtold_plain in H4.
  repeat split; auto.
  rewrite H4.
  pose proof (c_natural_ca cs ca ms Hnat) as Hca.
  rewrite <- Hca, N.ltb_irrefl, orb_false_r. reflexivity.
Qed.

(* the current source: no restriction on the alignments *)
Theorem natural_layout : forall c_size c_align ms,
  c_natural c_size c_align ms = true ->
  let '(fs, ea) := emit (plain_env false c_size c_align) c_size c_align ms in
  member_offsets fs = map m_offset ms /\
  rust_size_align ea (map snd fs) = (c_size, c_align).
Proof.
  intros cs ca ms Hnat.
  destruct (emit_full (plain_env false cs ca) cs ca ms) as [[fs ea] pk] eqn:E.
  rewrite (emit_split _ _ _ _ _ _ _ E).
  destruct (layout_plain false false cs ca ms Hnat (or_introl eq_refl) fs ea pk E)
    as (H1 & H2 & _). now split.
Qed.

Theorem explicit_padding_partial : forall c_size c_align ms,
  c_natural c_size c_align ms = true ->
  let '(fs, ea) := emit (plain_env true c_size c_align) c_size c_align ms in
  member_offsets fs = map m_offset ms /\
  rust_size_align ea (map snd fs) = (c_size, c_align).
Proof.
  intros cs ca ms Hnat.
  destruct (emit_full (plain_env true cs ca) cs ca ms) as [[fs ea] pk] eqn:E.
  rewrite (emit_split _ _ _ _ _ _ _ E).
  destruct (layout_plain true false cs ca ms Hnat (or_introl eq_refl) fs ea pk E)
    as (H1 & H2 & _). now split.
Qed.

(* the attribute decisions for a natural struct: `packed` is never forced and
   #[repr(align(N))] is written exactly for alignments >= 16 *)
Theorem natural_attributes : forall force c_size c_align ms,
  c_natural c_size c_align ms = true ->
  snd (emit_full (plain_env force c_size c_align) c_size c_align ms) = false /\
  snd (emit (plain_env force c_size c_align) c_size c_align ms)
    = (if 16 <=? c_align then Some c_align else None).
Proof.
  intros force cs ca ms Hnat.
  destruct (emit_full (plain_env force cs ca) cs ca ms) as [[fs ea] pk] eqn:E.
  rewrite (emit_split _ _ _ _ _ _ _ E). cbn [snd].
  assert (Hc : force || negb false = true) by apply orb_true_r.
  destruct (layout_plain force false cs ca ms Hnat (or_introl Hc) fs ea pk E)
    as (_ & _ & H3 & H4). now split.
Qed.

(* --- the rule before the fix: padding_align = min(align, 8) --- *)

Theorem natural_layout_old_overaligned_partial : forall c_size c_align ms,
  c_natural c_size c_align ms = true ->
  gaps_ok ms = true ->
  let '(fs, ea) := emit (legacy_env c_size c_align) c_size c_align ms in
  member_offsets fs = map m_offset ms /\
  rust_size_align ea (map snd fs) = (c_size, c_align).
Proof.
  intros cs ca ms Hnat Hg.
  destruct (emit_full (legacy_env cs ca) cs ca ms) as [[fs ea] pk] eqn:E.
  rewrite (emit_split _ _ _ _ _ _ _ E).
  destruct (layout_plain false true cs ca ms Hnat (or_intror Hg) fs ea pk E)
    as (H1 & H2 & _). now split.
Qed.

(* [gaps_ok] is exactly the class of natural structs the old rule got right *)
Theorem natural_layout_old_overaligned_exact : forall c_size c_align ms,
  c_natural c_size c_align ms = true ->
  (member_offsets (fst (emit (legacy_env c_size c_align) c_size c_align ms))
     = map m_offset ms
   <-> gaps_ok ms = true).
Proof.
  intros cs ca ms Hnat. split.
  - intros Heq. unfold gaps_ok.
    pose proof Hnat as Hn. unfold c_natural in Hn.
    apply andb_prop in Hn as [Hn _]. apply andb_prop in Hn as [Hn _].
    apply andb_prop in Hn as [Hn _]. apply andb_prop in Hn as [Hok Hoff].
    unfold emit, emit_full, emit_with in Heq.
    destruct (emit_members _ init_state (map plain_tag ms)) as [st1 fs1] eqn:Ee.
    destruct (step _ st1 _) as [st2 tail] eqn:E2.
    destruct (step _ st2 _) as [st3 pad] eqn:E3.
    cbn [fst] in Heq.
    rewrite member_offsets_moffs, moffs_app in Heq.
    assert (Hz : forall c, moffs c (opt_blob tail ++ opt_blob pad) = []).
    { intros c. rewrite moffs_app, !moffs_opt_blob. reflexivity. }
    rewrite Hz, app_nil_r in Heq.
    exact (loop_nec cs ca ms init_state 0 Inv_init Hok Hoff st1 fs1 Ee Heq).
  - intros Hg. pose proof (natural_layout_old_overaligned_partial cs ca ms Hnat Hg) as H.
    destruct (emit _ cs ca ms) as [fs ea]. cbn [fst]. apply H.
Qed.

Theorem natural_layout_old_refuted :
  c_natural 32 16 witness_ms = true /\
  emit (legacy_env 32 16) 32 16 witness_ms =
    ([(true, RField 4 4); (true, RField 1 1); (false, RField 16 8); (true, RField 16 16)],
     Some 16) /\
  member_offsets (fst (emit (legacy_env 32 16) 32 16 witness_ms)) = [0; 4; 32] /\
  map m_offset witness_ms = [0; 4; 16] /\
  rust_size_align (Some 16)
    (map snd (fst (emit (legacy_env 32 16) 32 16 witness_ms))) = (48, 16) /\
  ~ (forall c_size c_align ms,
       c_natural c_size c_align ms = true ->
       let '(fs, ea) := emit (legacy_env c_size c_align) c_size c_align ms in
       member_offsets fs = map m_offset ms /\
       rust_size_align ea (map snd fs) = (c_size, c_align)).
Proof.
  split; [vm_compute; reflexivity|]. split; [vm_compute; reflexivity|].
  split; [vm_compute; reflexivity|]. split; [vm_compute; reflexivity|].
  split; [vm_compute; reflexivity|].
  intros H. specialize (H 32 16 witness_ms eq_refl).
  vm_compute in H. destruct H as [H _]. discriminate H.
Qed.

(* --- saw_field's over-aligned-array adjustment --- *)

(* with the current padding rule the adjustment is harmless for natural structs: the
   tracker is told alignment 8 for the array, but the padding in front of it is exact
   and the Rust array type carries its own alignment *)
Theorem array_hack_harmless : forall c_size c_align xs,
  c_natural c_size c_align (map am_member xs) = true ->
  forallb array_consistent xs = true ->
  let '(fs, ea) := emit_arrays (plain_env false c_size c_align) c_size c_align xs in
  member_offsets fs = map m_offset (map am_member xs) /\
  rust_size_align ea (map snd fs) = (c_size, c_align).
Proof.
  intros cs ca xs Hnat Hcons. unfold emit_arrays.
  destruct (emit_with (plain_env false cs ca) cs ca (map array_tag xs)) as [[fs ea] pk] eqn:E.
  cbn [fst].
  pose proof (map_fst_array xs) as Hms.
  assert (Hnat' : c_natural cs ca (map fst (map array_tag xs)) = true) by now rewrite Hms.
  destruct (layout_gen false false cs ca _ Hnat' (tms_ok_arrays xs 0 Hcons) fs ea pk E)
    as (H1 & H2 & _).
  rewrite Hms in H1. now split.
Qed.

(* with the old rule it was not: struct { char c; long double a[2]; } *)
Theorem array_hack_old_refuted :
  c_natural 48 16 (map am_member array_witness) = true /\
  forallb array_consistent array_witness = true /\
  map array_view array_witness = [(1, 1); (32, 8)] /\
  emit_arrays (legacy_env 48 16) 48 16 array_witness
    = ([(true, RField 1 1); (false, RField 16 8); (true, RField 32 16)], Some 16) /\
  member_offsets (fst (emit_arrays (legacy_env 48 16) 48 16 array_witness)) = [0; 32] /\
  map m_offset (map am_member array_witness) = [0; 16] /\
  rust_size_align (Some 16)
    (map snd (fst (emit_arrays (legacy_env 48 16) 48 16 array_witness))) = (64, 16) /\
  emit_arrays (plain_env false 48 16) 48 16 array_witness
    = ([(true, RField 1 1); (false, RField 15 1); (true, RField 32 16)], Some 16).
Proof. repeat split; vm_compute; reflexivity. Qed.

(* ------------------------------------------------------------------ examples *)

Example c_natural_nonvacuous :
  c_natural 8 4 [mk 1 1 0; mk 4 4 4] = true /\
  c_natural 8 4 [mk 4 4 0; mk 1 1 4] = true /\
  c_natural 24 8 [mk 1 1 0; mk 8 8 8; mk 1 1 16] = true /\
  c_natural 16 8 [mk 8 8 0; mk 1 1 8; mk 2 2 10; mk 4 4 12] = true /\
  c_natural 16 4 [mk 1 1 0; mk 12 4 4] = true /\
  c_natural 32 8 [mk 1 1 0; mk 24 8 8] = true /\
  c_natural 32 16 [mk 1 1 0; mk 16 16 16] = true /\
  c_natural 4 4 [mk 4 4 0] = true /\
  c_natural 0 1 [] = false /\
  c_natural 8 4 [mk 1 1 0; mk 4 4 1] = false /\
  c_natural 12 4 [mk 1 1 0; mk 4 4 4] = false.
Proof. repeat split; vm_compute; reflexivity. Qed.

(* the three shapes of padding in front of an over-aligned member under the current
   rule: none emitted for small members, [u8; 11] when the gap is unaligned,
   __BindgenOpaqueArray8<[u8; 8]> when start and length are multiples of 8 *)
Example natural_layout_nonvacuous :
  emit (plain_env false 24 8) 24 8 [mk 1 1 0; mk 8 8 8; mk 1 1 16]
    = ([(true, RField 1 1); (true, RField 8 8); (true, RField 1 1)], None) /\
  c_natural 32 16 witness_ms = true /\
  emit (plain_env false 32 16) 32 16 witness_ms
    = ([(true, RField 4 4); (true, RField 1 1); (false, RField 11 1); (true, RField 16 16)],
       Some 16) /\
  c_natural 32 16 [mk 8 8 0; mk 16 16 16] = true /\
  emit (plain_env false 32 16) 32 16 [mk 8 8 0; mk 16 16 16]
    = ([(true, RField 8 8); (false, RField 8 8); (true, RField 16 16)], Some 16).
Proof. repeat split; vm_compute; reflexivity. Qed.

Example natural_layout_old_nonvacuous :
  gaps_ok [mk 8 8 0; mk 16 16 16] = true /\
  emit (legacy_env 32 16) 32 16 [mk 8 8 0; mk 16 16 16]
    = ([(true, RField 8 8); (false, RField 8 8); (true, RField 16 16)], Some 16) /\
  gaps_ok witness_ms = false /\
  gaps_ok [mk 1 1 0; mk 16 16 16] = false.
Proof. repeat split; vm_compute; reflexivity. Qed.

Example explicit_padding_nonvacuous :
  emit (plain_env true 32 16) 32 16 witness_ms
    = ([(true, RField 4 4); (true, RField 1 1); (false, RField 11 1); (true, RField 16 16)],
       Some 16) /\
  emit (plain_env true 24 8) 24 8 [mk 1 1 0; mk 8 8 8; mk 1 1 16]
    = ([(true, RField 1 1); (false, RField 7 1); (true, RField 8 8); (true, RField 1 1);
        (false, RField 7 1)], None).
Proof. split; vm_compute; reflexivity. Qed.

Example array_hack_nonvacuous :
  array_adjust (32, 16) (Some ((16, 16), 2)) = (32, 8) /\
  array_adjust (96, 16) (Some ((48, 16), 2)) = (96, 8) /\
  array_adjust (16, 8) (Some ((8, 8), 2)) = (16, 8) /\
  array_adjust (12, 4) None = (12, 4).
Proof. repeat split; vm_compute; reflexivity. Qed.

Example blob_nonvacuous :
  blob_size 11 8 = 16 /\ blob_align 11 8 = 8 /\      (* grows *)
  blob_size 7 4 = 4 /\ blob_size 7 2 = 6 /\          (* shrinks *)
  blob_size 5 0 = 5 /\ blob_align 5 0 = 1 /\
  blob_size 24 8 = 24 /\ blob_size 12 4 = 12.
Proof. repeat split; vm_compute; reflexivity. Qed.

Example align_to_nonvacuous :
  align_to 1 1 = 1 /\ align_to 1 2 = 2 /\ align_to 1 4 = 4 /\ align_to 5 1 = 5 /\
  align_to 17 4 = 20 /\ align_to 17 0 = 17.
Proof. repeat split; vm_compute; reflexivity. Qed.

Example for_size_internal_nonvacuous :
  for_size_internal 8 8 = (8, 8) /\ for_size_internal 8 24 = (24, 8) /\
  for_size_internal 8 3 = (3, 1) /\ for_size_internal 8 12 = (12, 4) /\
  for_size_internal 4 24 = (24, 4) /\ for_size_internal 8 0 = (0, 8).
Proof. repeat split; vm_compute; reflexivity. Qed.

(* struct { int a : 1; } with --explicit-padding: add_tail_padding emits 3 bytes and
   advances latest_offset to the size; since the fix, the tail is padded once
   (before it, pad_struct emitted the same 3 bytes again: size 7 instead of 4) *)
Example explicit_padding_bitfield_single_tail :
  snd (run (plain_env true 4 4) init_state
         [SawBitfieldUnit 1 1; AddTailPadding 4 4; PadStruct 4 4])
    = [None; Some (3, 0); None] /\
  rust_size_align None [RField 1 1; blob_field (3, 0)] = (4, 1).
Proof. split; vm_compute; reflexivity. Qed.
