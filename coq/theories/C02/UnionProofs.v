(* C02 — unions: proofs of the statements of UnionProperties.v (definitions in Union.v). *)
From Coq Require Import NArith ZArith List Bool Lia.
From BG Require Import C02.Model C02.Proofs C02.Union.
Import ListNotations.
Open Scope N_scope.

Ltac Zify.zify_post_hook ::= Z.div_mod_to_equations.

Arguments N.add : simpl never.
Arguments N.sub : simpl never.
Arguments N.mul : simpl never.
Arguments N.div : simpl never.
Arguments N.modulo : simpl never.
Arguments N.max : simpl never.

(* ------------------------------------------------------------------ the tracker on a union *)

(* the strictest alignment the tracker has seen (it starts from 0, [max_align] from 1) *)
Definition maxa (ms : list (N * N)) : N := fold_right (fun m acc => N.max (snd m) acc) 0 ms.

Lemma max_align_maxa : forall ms, max_align ms = N.max 1 (maxa ms).
Proof.
  unfold max_align, maxa. induction ms as [|m r IH]; cbn [fold_right]; [reflexivity|].
  rewrite IH. lia.
Qed.

Lemma atlf_max_field_align : forall env st s a,
  max_field_align (fst (align_to_latest_field env st s a)) = max_field_align st.
Proof.
  intros env st s a. unfold align_to_latest_field.
  destruct (is_packed env); [reflexivity|].
  destruct (latest_field_layout st) as [[ls la]|]; [|reflexivity].
  destruct (last_field_was_bitfield st && _ && _); reflexivity.
Qed.

(* one member of a union: never a padding field in front of it, and the alignment is recorded *)
Lemma union_step_field : forall ru force cs ca st s a off st' pad,
  step (union_env ru force cs ca) st (SawField s a off) = (st', pad) ->
  pad = None /\ max_field_align st' = N.max (max_field_align st) a.
Proof.
  intros ru force cs ca st s a off st' pad.
  cbn [step]. unfold saw_field_with_layout.
  pose proof (atlf_max_field_align (union_env ru force cs ca) st s a) as Hm.
  destruct (align_to_latest_field (union_env ru force cs ca) st s a) as [st1 w].
  cbn [fst] in Hm.
  cbn [union_env is_packed is_union orb].
  intros H. injection H as <- <-.
  split; [reflexivity|].
  unfold with_offset. cbn [max_field_align]. now rewrite Hm.
Qed.

Lemma see_members_inv : forall ru force cs ca ms st st' pads,
  see_members (union_env ru force cs ca) st ms = (st', pads) ->
  Forall (fun p => p = None) pads /\
  max_field_align st' = N.max (max_field_align st) (maxa ms).
Proof.
  intros ru force cs ca. induction ms as [|m r IH]; intros st st' pads.
  - cbn [see_members]. intros H. injection H as <- <-.
    split; [constructor|]. unfold maxa. cbn [fold_right]. lia.
  - cbn [see_members].
    destruct (step (union_env ru force cs ca) st (SawField (fst m) (snd m) (Some 0)))
      as [st1 pad] eqn:E1.
    destruct (see_members (union_env ru force cs ca) st1 r) as [st2 pads'] eqn:E2.
    intros H. injection H as <- <-.
    destruct (union_step_field _ _ _ _ _ _ _ _ _ _ E1) as [-> Hm1].
    destruct (IH _ _ _ E2) as [Hp Hm2].
    split; [constructor; [reflexivity|exact Hp]|].
    rewrite Hm2, Hm1. unfold maxa. cbn [fold_right]. fold (maxa r). lia.
Qed.

(* add_tail_padding on a union (current source): nothing *)
Lemma union_tail_new : forall ru force cs ca st,
  tail_padding false (union_env ru force cs ca) st cs ca = (st, None).
Proof.
  intros ru force cs ca st. unfold tail_padding. cbn [step union_env force_explicit_padding is_union].
  destruct force; reflexivity.
Qed.

(* the alignment of the emitted type, whatever requires_explicit_align answers:
   [A] is the alignment the fields give *)
Lemma explicit_align_ok : forall st cs ca A,
  A <= ca -> 1 <= A -> max_field_align st <= A ->
  N.max A (match (if requires_explicit_align st (cs, ca) then Some ca else None) with
           | Some a => a | None => 1 end) = ca.
Proof.
  intros st cs ca A HA H1 Hm.
  unfold requires_explicit_align, repr_align, MAX_GUARANTEED_ALIGN. cbn [snd andb orb].
  destruct (16 <=? max_field_align st); [lia|].
  destruct (N.leb_spec ca (max_field_align st)); lia.
Qed.

(* ------------------------------------------------------------------ c_union_natural *)

Lemma c_union_natural_elim : forall cs ca ms, c_union_natural cs ca ms = true ->
  max_align ms <= ca /\ cs = round_up (max_size ms) ca /\ 0 < ca /\ cs mod ca = 0.
Proof.
  intros cs ca ms H. unfold c_union_natural in H.
  apply andb_true_iff in H. destruct H as [H _].
  apply andb_true_iff in H. destruct H as [Ha Hs].
  apply N.leb_le in Ha. apply N.eqb_eq in Hs.
  assert (Hpos : 0 < ca).
  { rewrite max_align_maxa in Ha. lia. }
  repeat split; auto.
  rewrite Hs. now destruct (round_up_bounds (max_size ms) ca Hpos) as (_ & H2 & _).
Qed.

(* ------------------------------------------------------------------ form (a) *)

Lemma rust_max_align_members : forall ms : list (N * N),
  rust_max_align (map (fun m => RField (fst m) (snd m)) ms) = max_align ms.
Proof.
  unfold rust_max_align, max_align.
  induction ms as [|m r IH]; cbn [map fold_right rf_align]; [reflexivity|]. now rewrite IH.
Qed.

Lemma max_rf_size_members : forall ms : list (N * N),
  fold_right (fun f acc => N.max (rf_size f) acc) 0 (map (fun m => RField (fst m) (snd m)) ms)
  = max_size ms.
Proof.
  unfold max_size.
  induction ms as [|m r IH]; cbn [map fold_right rf_size]; [reflexivity|]. now rewrite IH.
Qed.

Lemma Forall_none_snoc : forall pads : list (option (N * N)),
  Forall (fun p => p = None) pads -> Forall (fun p => p = None) (pads ++ [None]).
Proof.
  intros pads H. apply Forall_app. split; [exact H|]. constructor; [reflexivity|constructor].
Qed.

Lemma rust_union_layout : forall force c_size c_align ms,
  ms <> [] -> c_union_natural c_size c_align ms = true ->
  let '(fs, explicit, pads) := emit_rust_union force c_size c_align ms in
  rust_union_size_align explicit fs = (c_size, c_align) /\
  Forall (fun p => p = None) pads.
Proof.
  intros force cs ca ms _ Hnat.
  destruct (c_union_natural_elim _ _ _ Hnat) as (Hal & Hcs & Hpos & Hmod).
  unfold emit_rust_union. cbv zeta.
  destruct (see_members (union_env true force cs ca) init_state ms) as [st1 pads] eqn:E1.
  rewrite union_tail_new.
  destruct (see_members_inv _ _ _ _ _ _ _ _ E1) as [Hp Hm].
  cbn [init_state max_field_align] in Hm.
  split; [|now apply Forall_none_snoc].
  unfold rust_union_size_align.
  rewrite rust_max_align_members, max_rf_size_members.
  rewrite explicit_align_ok.
  - now rewrite <- Hcs.
  - exact Hal.
  - rewrite max_align_maxa. lia.
  - rewrite Hm, max_align_maxa. lia.
Qed.

(* ------------------------------------------------------------------ form (b) *)

Lemma rust_max_align_markers : forall ms : list (N * N),
  rust_max_align (map (fun _ => RField 0 1) ms) = 1.
Proof.
  unfold rust_max_align.
  induction ms as [|m r IH]; cbn [map fold_right rf_align]; [reflexivity|]. rewrite IH. reflexivity.
Qed.

Lemma round_up_0 : forall a, round_up 0 a = 0.
Proof.
  intros a. destruct (N.eq_dec a 0) as [->|Hne]; [reflexivity|].
  apply round_up_fix; [lia|]. apply N.mod_0_l. exact Hne.
Qed.

Lemma rust_end_markers : forall ms : list (N * N),
  rust_end_from 0 (map (fun _ => RField 0 1) ms) = 0.
Proof.
  induction ms as [|m r IH]; cbn [map rust_end_from rf_align rf_size]; [reflexivity|].
  rewrite round_up_0, N.add_0_r. exact IH.
Qed.

Lemma rust_offsets_markers : forall (ms : list (N * N)) l,
  Forall (fun o => o = 0) (rust_offsets_from 0 l) ->
  Forall (fun o => o = 0) (rust_offsets_from 0 (map (fun _ => RField 0 1) ms ++ l)).
Proof.
  intros ms l Hl.
  induction ms as [|m r IH]; cbn [map app rust_offsets_from rf_align rf_size]; [exact Hl|].
  rewrite round_up_0, N.add_0_r. constructor; [reflexivity|exact IH].
Qed.

Lemma wrapper_union_layout : forall force c_size c_align ms,
  ms <> [] -> c_union_natural c_size c_align ms = true ->
  let '(fs, explicit, pads) := emit_wrapper_union false force c_size c_align ms in
  rust_size_align explicit fs = (c_size, c_align) /\
  Forall (fun o => o = 0) (rust_offsets fs) /\
  Forall (fun p => p = None) pads.
Proof.
  intros force cs ca ms _ Hnat.
  destruct (c_union_natural_elim _ _ _ Hnat) as (Hal & Hcs & Hpos & Hmod).
  unfold emit_wrapper_union. cbv zeta.
  destruct (see_members (union_env false force cs ca) init_state ms) as [st1 pads] eqn:E1.
  rewrite union_tail_new.
  destruct (see_members_inv _ _ _ _ _ _ _ _ E1) as [Hp Hm].
  cbn [init_state max_field_align] in Hm.
  cbn [app].
  destruct (blob_exact cs ca Hpos Hmod) as [Hbs Hba].
  unfold blob_field. cbn [fst snd]. rewrite Hbs, Hba.
  split; [|split; [|now apply Forall_none_snoc]].
  - unfold rust_size_align.
    rewrite rust_max_align_app, rust_max_align_markers, rust_end_app, rust_end_markers.
    rewrite rust_max_align_cons, rust_max_align_nil.
    cbn [rust_end_from rf_align rf_size].
    rewrite round_up_0, N.add_0_l.
    replace (N.max 1 (N.max ca 1)) with ca by lia.
    rewrite explicit_align_ok.
    + now rewrite (round_up_fix cs ca Hpos Hmod).
    + lia.
    + lia.
    + rewrite max_align_maxa in Hal. lia.
  - unfold rust_offsets. apply rust_offsets_markers.
    cbn [rust_offsets_from rf_align rf_size]. rewrite round_up_0.
    constructor; [reflexivity|constructor].
Qed.

(* ------------------------------------------------------------------ the old tail rule *)

Lemma wrapper_union_old_refuted : exists c_size c_align ms,
  ms <> [] /\ c_union_natural c_size c_align ms = true /\
  let '(fs, explicit, pads) := emit_wrapper_union true true c_size c_align ms in
  rust_size_align explicit fs <> (c_size, c_align).
Proof.
  exists 16, 8, [(1, 1); (8, 8); (9, 1)].
  split; [discriminate|]. split; [vm_compute; reflexivity|].
  vm_compute. discriminate.
Qed.

Lemma wrapper_union_old_same_without_explicit_padding : forall c_size c_align ms,
  emit_wrapper_union true false c_size c_align ms = emit_wrapper_union false false c_size c_align ms.
Proof.
  intros cs ca ms. unfold emit_wrapper_union. cbv zeta.
  destruct (see_members (union_env false false cs ca) init_state ms) as [st1 pads].
  rewrite union_tail_new.
  unfold tail_padding. cbn [union_env force_explicit_padding negb]. reflexivity.
Qed.
