(* C02 — unions: statements only, each closed by [exact <lemma of UnionProofs.v>]. *)
From Coq Require Import NArith List Bool.
From BG Require Import C02.Model C02.Union C02.UnionProofs.
Import ListNotations.
Open Scope N_scope.

(* form (a): a Rust union has C's size and alignment, and no padding field is ever inserted in it,
   for every natural C union (alignment possibly raised by an attribute), with and without
   --explicit-padding *)
Theorem rust_union_layout : forall force c_size c_align ms,
  ms <> [] -> c_union_natural c_size c_align ms = true ->
  let '(fs, explicit, pads) := emit_rust_union force c_size c_align ms in
  rust_union_size_align explicit fs = (c_size, c_align) /\
  Forall (fun p => p = None) pads.
Proof. exact C02.UnionProofs.rust_union_layout. Qed.
Print Assumptions rust_union_layout.

(* form (b): the struct that stands for the union has C's size and alignment, all markers and the blob
   at offset 0 ... when the alignment is one rustc can give a blob (1, 2, 4, 8 through the element
   type; above 4 through the aligned newtype) *)
Theorem wrapper_union_layout : forall force c_size c_align ms,
  ms <> [] -> c_union_natural c_size c_align ms = true ->
  let '(fs, explicit, pads) := emit_wrapper_union false force c_size c_align ms in
  rust_size_align explicit fs = (c_size, c_align) /\
  Forall (fun o => o = 0) (rust_offsets fs) /\
  Forall (fun p => p = None) pads.
Proof. exact C02.UnionProofs.wrapper_union_layout. Qed.
Print Assumptions wrapper_union_layout.

(* before the repair: with --explicit-padding a union whose largest member is smaller than the union
   (its size is rounded up to the alignment) got a padding field in front of the blob *)
Theorem wrapper_union_old_refuted : exists c_size c_align ms,
  ms <> [] /\ c_union_natural c_size c_align ms = true /\
  let '(fs, explicit, pads) := emit_wrapper_union true true c_size c_align ms in
  rust_size_align explicit fs <> (c_size, c_align).
Proof. exact C02.UnionProofs.wrapper_union_old_refuted. Qed.
Print Assumptions wrapper_union_old_refuted.

(* without --explicit-padding the old and the new rule coincide *)
Theorem wrapper_union_old_same_without_explicit_padding : forall c_size c_align ms,
  emit_wrapper_union true false c_size c_align ms = emit_wrapper_union false false c_size c_align ms.
Proof. exact C02.UnionProofs.wrapper_union_old_same_without_explicit_padding. Qed.
Print Assumptions wrapper_union_old_same_without_explicit_padding.

Example union_nonvacuous :
  c_union_natural 16 8 [(1, 1); (8, 8); (9, 1)] = true /\
  emit_wrapper_union false true 16 8 [(1, 1); (8, 8); (9, 1)] =
    ([RField 0 1; RField 0 1; RField 0 1; RField 16 8], None, [None; None; None; None]) /\
  emit_wrapper_union true true 16 8 [(1, 1); (8, 8); (9, 1)] =
    ([RField 0 1; RField 0 1; RField 0 1; RField 7 1; RField 16 8], None, [None; None; None; Some (7, 0)]).
Proof. vm_compute. repeat split; reflexivity. Qed.
