(* C02 — unions.  Definitions only.
   A C union is emitted in one of two forms (codegen/mod.rs, impl CodeGenerator for CompInfo):
     (a) a Rust `#[repr(C)] union` with one field per member (StructLayoutTracker::is_rust_union), or
     (b) a `#[repr(C)] struct` whose members are zero-sized `__BindgenUnionField<T>` markers followed by
         one blob `bindgen_union_field` of the union's own layout (helpers::blob(ctx, layout)).
   In both forms the tracker sees every member (saw_field) and the explicit alignment is decided by
   requires_explicit_align; with --explicit-padding, add_tail_padding runs before the blob is pushed. *)
From Coq Require Import NArith List Bool.
From BG Require Import C02.Model.
Import ListNotations.
Open Scope N_scope.

(* ---- the C side: every member at offset 0 (C11 6.7.2.1p16), size = the largest member rounded up to
   the union's alignment, alignment = the strictest member alignment unless raised by an attribute ---- *)
Definition max_size (ms : list (N * N)) : N := fold_right (fun m acc => N.max (fst m) acc) 0 ms.
Definition max_align (ms : list (N * N)) : N := fold_right (fun m acc => N.max (snd m) acc) 1 ms.

Definition c_union_natural (c_size c_align : N) (ms : list (N * N)) : bool :=
  (max_align ms <=? c_align) && (c_size =? round_up (max_size ms) c_align) &&
  forallb (fun m => (0 <? snd m) && (fst m mod snd m =? 0)) ms.

(* ---- the Rust side.  Reference, "Type layout", #[repr(C)] unions: the size is the maximum size of
   its fields rounded up to its alignment, the alignment the maximum alignment of its fields (raised
   by repr(align)); every field at offset 0 ---- *)
Definition rust_union_size_align (explicit : option N) (fs : list rfield) : N * N :=
  let al := N.max (rust_max_align fs) (match explicit with Some a => a | None => 1 end) in
  (round_up (fold_right (fun f acc => N.max (rf_size f) acc) 0 fs) al, al).

(* ---- emission ---- *)
Definition union_env (rust_union force : bool) (c_size c_align : N) : tenv :=
  {| is_packed := false; is_union := true; is_rust_union := rust_union;
     known_layout := Some (c_size, c_align); force_explicit_padding := force; ptr_size := 8;
     legacy_padding_align := false |}.

(* the tracker sees every member at bit offset 0 *)
Fixpoint see_members (env : tenv) (st : tstate) (ms : list (N * N)) : tstate * list (option (N * N)) :=
  match ms with
  | [] => (st, [])
  | m :: r =>
      let '(st1, pad) := step env st (SawField (fst m) (snd m) (Some 0)) in
      let '(st2, pads) := see_members env st1 r in
      (st2, pad :: pads)
  end.

(* [old_tail] = true selects add_tail_padding as it was before the repair (it only returned early for
   Rust unions); false is the current source (it returns early for every union) *)
Definition tail_padding (old_tail : bool) (env : tenv) (st : tstate) (c_size c_align : N) : tstate * option (N * N) :=
  if old_tail then
    if negb (force_explicit_padding env) then (st, None)
    else if is_rust_union env then (st, None)
    else if last_field_was_flexible_array st then (st, None)
    else if latest_offset st =? c_size then (st, None)
    else let '(st1, l) := padding_field st (c_size - latest_offset st, 0) in (st1, Some l)
  else step env st (AddTailPadding c_size c_align).

(* form (a): fields = the members themselves; explicit alignment from requires_explicit_align *)
Definition emit_rust_union (force : bool) (c_size c_align : N) (ms : list (N * N)) : list rfield * option N * list (option (N * N)) :=
  let env := union_env true force c_size c_align in
  let '(st1, pads) := see_members env init_state ms in
  let '(st2, tail) := tail_padding false env st1 c_size c_align in
  (map (fun m => RField (fst m) (snd m)) ms,
   if requires_explicit_align st2 (c_size, c_align) then Some c_align else None,
   pads ++ [tail]).

(* form (b): zero-sized markers (size 0, alignment 1: a PhantomData wrapper), the tail padding if any,
   then the blob of the union's layout *)
Definition emit_wrapper_union (old_tail force : bool) (c_size c_align : N) (ms : list (N * N)) : list rfield * option N * list (option (N * N)) :=
  let env := union_env false force c_size c_align in
  let '(st1, pads) := see_members env init_state ms in
  let '(st2, tail) := tail_padding old_tail env st1 c_size c_align in
  (map (fun _ => RField 0 1) ms
     ++ match tail with Some l => [blob_field l] | None => [] end
     ++ [blob_field (c_size, c_align)],
   if requires_explicit_align st2 (c_size, c_align) then Some c_align else None,
   pads ++ [tail]).
