(* C02 — lowered member alignments: statements only. *)
From Coq Require Import NArith List Bool.
From BG Require Import C02.Model C02.Lower C02.LowerProofs.
Import ListNotations.
Open Scope N_scope.

(* natural_layout carries over to structs with vector-typed / over-aligned-typedef members: whenever the lowered
   members are over-aligned in C (alignment above 8), every member sits at its C offset and the struct has C's size
   and alignment -- with and without --explicit-padding *)
Theorem natural_layout_lowered : forall force c_size c_align ms,
  c_natural c_size c_align (map lm ms) = true ->
  forallb lowered_ok ms = true ->
  let '(fs, ea) := emit_l (plain_env force c_size c_align) c_size c_align ms in
  member_offsets fs = map m_offset (map lm ms) /\
  rust_size_align ea (map snd fs) = (c_size, c_align).
Proof. exact C02.LowerProofs.natural_layout_lowered. Qed.
Print Assumptions natural_layout_lowered.

(* with all members at their C alignment this is the emission of Properties.natural_layout *)
Theorem emit_l_unlowered : forall env c_size c_align ms,
  emit_l env c_size c_align (map (fun m => {| lm := m; lralign := m_align m |}) ms) = emit env c_size c_align ms.
Proof. exact C02.LowerProofs.emit_l_unlowered. Qed.
Print Assumptions emit_l_unlowered.

(* the bound "above 8" is needed: an 8-byte vector of two floats (`typedef float v2f __attribute__((vector_size(8)));`,
   C alignment 8, Rust spelling [f32; 2] with alignment 4) in `struct { char c; v2f v; }`: C has v at 8, size 16,
   alignment 8; no padding is forced (the gap of 7 is below the alignment and the alignment is not above 8), the Rust
   struct has v at 4, size 12, alignment 4 (known finding C02-layout:vector8) *)
Theorem lowered_align8_refuted :
  let ms := [ {| lm := {| m_size := 1; m_align := 1; m_offset := 0 |}; lralign := 1 |};
              {| lm := {| m_size := 8; m_align := 8; m_offset := 8 |}; lralign := 4 |} ] in
  c_natural 16 8 (map lm ms) = true /\
  (let '(fs, ea) := emit_l (plain_env false 16 8) 16 8 ms in
   member_offsets fs = [0; 4] /\ rust_size_align ea (map snd fs) = (12, 4)).
Proof. exact C02.LowerProofs.lowered_align8_refuted. Qed.
Print Assumptions lowered_align8_refuted.

(* struct { long a; char b; v4f v; char t; } (the demonstration of seeded change C02-3) *)
Example lowered_nonvacuous :
  let ms := [ {| lm := {| m_size := 8; m_align := 8; m_offset := 0 |}; lralign := 8 |};
              {| lm := {| m_size := 1; m_align := 1; m_offset := 8 |}; lralign := 1 |};
              {| lm := {| m_size := 16; m_align := 16; m_offset := 16 |}; lralign := 4 |};
              {| lm := {| m_size := 1; m_align := 1; m_offset := 32 |}; lralign := 1 |} ] in
  c_natural 48 16 (map lm ms) = true /\ forallb lowered_ok ms = true /\
  (let '(fs, ea) := emit_l (plain_env false 48 16) 48 16 ms in
   member_offsets fs = [0; 8; 16; 32] /\ rust_size_align ea (map snd fs) = (48, 16)).
Proof. vm_compute. repeat split; reflexivity. Qed.
