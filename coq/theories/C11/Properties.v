(* C11 — property theorems *)
From Coq Require Import NArith List Bool Sorting.Permutation.
From BG Require Import C11.Model C11.Proofs.
From BGgen Require Import C11_Table.
Import ListNotations.
Open Scope N_scope.

(* an order-insensitive sink gives the same result on every order of the same elements *)
Theorem insensitive_sink_perm : forall s l l',
  insensitive s = true -> Permutation l l' -> run_sink s l = run_sink s l'.
Proof. exact C11.Proofs.insensitive_sink_perm. Qed.
Print Assumptions insensitive_sink_perm.

(* ... and the two sensitive sinks really are *)
Theorem sensitive_sinks_refuted :
  (exists p l l', Permutation l l' /\ run_sink (SFindFirst p) l <> run_sink (SFindFirst p) l') /\
  (exists l l', Permutation l l' /\ run_sink SCollectVec l <> run_sink SCollectVec l').
Proof. exact C11.Proofs.sensitive_sinks_refuted. Qed.
Print Assumptions sensitive_sinks_refuted.

(* a generation all of whose seeded iterations end in insensitive sinks does not depend on the seed
   (per-process RandomState, addresses): for every state type, program, and any two seeds *)
Theorem seed_independent : forall (state : Type) (shuffle : N -> list N -> list N),
  (forall seed l, Permutation (shuffle seed l) l) ->
  forall p, forallb (step_ok state) p = true ->
  forall s1 s2 x, exec state shuffle s1 p x = exec state shuffle s2 p x.
Proof. exact C11.Proofs.seed_independent. Qed.
Print Assumptions seed_independent.

(* the inventory regenerated from the source on this run: every iteration over a Random or
   pointer-keyed container ends in an insensitive sink (Fx containers keyed by values iterate in an
   order that is a function of their insertion history) *)
Theorem all_sites_ok : forallb site_ok C11_Table.sites = true.
Proof. vm_compute. reflexivity. Qed.
Print Assumptions all_sites_ok.

(* init-once process state: every read, in any history of reads, returns init(env) *)
Theorem once_constant : forall (env value : Type) (init : env -> value) e c n,
  (c = None \/ c = Some (init e)) ->
  Forall (fun v => v = init e) (snd (reads env value init e c n)).
Proof. exact C11.Proofs.once_constant. Qed.
Print Assumptions once_constant.
