(* C11 — output is a function of the inputs.  Definitions only.

   In Gallina every definition is a function, so the content is: (1) the order in which a hash
   container is iterated is the only place where a per-process seed (std RandomState) or an address
   (pointer-keyed Fx maps) can enter; a generation is independent of it iff every iteration over such
   a container ends in an order-insensitive sink; (2) process-wide state is a set of init-once cells
   whose initialiser reads the environment only. *)
From Coq Require Import NArith List Bool Sorting.Permutation.
Import ListNotations.
Open Scope N_scope.

(* hasher classes of the containers of bindgen/ (translator/tr_c11.py) *)
Inductive hasher := Fx | Random | PtrKeyed.

(* what happens with the yielded elements *)
Inductive sink :=
| SAny (p : N -> bool) | SAll (p : N -> bool) | SCount
| SSortDedup                    (* collected into a BTreeSet / sorted, then used *)
| SJoinMax                      (* lattice join of the elements *)
| SSum
| SFindFirst (p : N -> bool)    (* order reaches the result *)
| SCollectVec.                  (* order reaches the result *)

Inductive result := RBool (b : bool) | RNum (n : N) | RList (l : list N) | ROpt (o : option N).

Fixpoint insert_sorted (x : N) (l : list N) : list N :=
  match l with
  | [] => [x]
  | y :: l' => if x <? y then x :: l else if x =? y then l else y :: insert_sorted x l'
  end.
Definition sort_dedup (l : list N) : list N := fold_right insert_sorted [] l.

Definition run_sink (s : sink) (l : list N) : result :=
  match s with
  | SAny p => RBool (existsb p l)
  | SAll p => RBool (forallb p l)
  | SCount => RNum (N.of_nat (length l))
  | SSortDedup => RList (sort_dedup l)
  | SJoinMax => RNum (fold_right N.max 0 l)
  | SSum => RNum (fold_right N.add 0 l)
  | SFindFirst p => ROpt (find p l)
  | SCollectVec => RList l
  end.

Definition insensitive (s : sink) : bool :=
  match s with SFindFirst _ | SCollectVec => false | _ => true end.

(* a site of the inventory: the container's hasher class and whether its sink is order-insensitive *)
Definition site_ok (x : hasher * bool) : bool :=
  match fst x with Fx => true | Random | PtrKeyed => snd x end.

(* ---------- a generation as a sequence of steps over an abstract state ---------- *)
Section Pipeline.
  Variable state : Type.
  (* the order in which a seeded container yields a given multiset of elements *)
  Variable shuffle : N -> list N -> list N.

  Inductive step :=
  | Pure (f : state -> state)
  | IterSeeded (s : sink) (sel : state -> list N) (k : state -> result -> state).

  Definition step_ok (st : step) : bool :=
    match st with Pure _ => true | IterSeeded s _ _ => insensitive s end.

  Definition exec1 (seed : N) (x : state) (st : step) : state :=
    match st with
    | Pure f => f x
    | IterSeeded s sel k => k x (run_sink s (shuffle seed (sel x)))
    end.
  Definition exec (seed : N) (p : list step) (x : state) : state := fold_left (exec1 seed) p x.
End Pipeline.

(* ---------- init-once cells (OnceLock::get_or_init, thread_local) ---------- *)
Section Once.
  Variable env value : Type.
  Variable init : env -> value.
  Definition cell := option value.
  Definition read (e : env) (c : cell) : cell * value :=
    match c with Some v => (c, v) | None => (Some (init e), init e) end.
  (* n reads in a row *)
  Fixpoint reads (e : env) (c : cell) (n : nat) : cell * list value :=
    match n with
    | O => (c, [])
    | S n' => let (c', v) := read e c in let (c'', vs) := reads e c' n' in (c'', v :: vs)
    end.
End Once.
