From Coq Require Import NArith List Bool Sorting.Permutation Lia.
From BG Require Import C11.Model.
Import ListNotations.
Open Scope N_scope.

Lemma existsb_perm (p : N -> bool) l l' : Permutation l l' -> existsb p l = existsb p l'.
Proof.
  induction 1 as [|x l l' _ IH|x y l|l l' l'' _ IH1 _ IH2]; cbn [existsb].
  - reflexivity.
  - rewrite IH. reflexivity.
  - destruct (p x), (p y); reflexivity.
  - congruence.
Qed.

Lemma forallb_perm (p : N -> bool) l l' : Permutation l l' -> forallb p l = forallb p l'.
Proof.
  induction 1 as [|x l l' _ IH|x y l|l l' l'' _ IH1 _ IH2]; cbn [forallb].
  - reflexivity.
  - rewrite IH. reflexivity.
  - destruct (p x), (p y); reflexivity.
  - congruence.
Qed.

Lemma max_perm l l' : Permutation l l' -> fold_right N.max 0 l = fold_right N.max 0 l'.
Proof.
  induction 1 as [|x l l' _ IH|x y l|l l' l'' _ IH1 _ IH2]; cbn [fold_right].
  - reflexivity.
  - rewrite IH. reflexivity.
  - lia.
  - congruence.
Qed.

Lemma sum_perm l l' : Permutation l l' -> fold_right N.add 0 l = fold_right N.add 0 l'.
Proof.
  induction 1 as [|x l l' _ IH|x y l|l l' l'' _ IH1 _ IH2]; cbn [fold_right].
  - reflexivity.
  - rewrite IH. reflexivity.
  - lia.
  - congruence.
Qed.

(* sorted, duplicate-free lists are determined by their elements *)
Inductive sorted : list N -> Prop :=
| sorted_nil : sorted []
| sorted_one x : sorted [x]
| sorted_cons x y l : x < y -> sorted (y :: l) -> sorted (x :: y :: l).

Lemma insert_sorted_in x l z : In z (insert_sorted x l) <-> z = x \/ In z l.
Proof.
  induction l as [|y l IH]; cbn [insert_sorted In].
  - intuition.
  - destruct (x <? y) eqn:H1; [cbn [In]; intuition|].
    destruct (x =? y) eqn:H2.
    + apply N.eqb_eq in H2. subst. cbn [In]. intuition.
    + cbn [In]. rewrite IH. intuition.
Qed.

Lemma insert_sorted_sorted x l : sorted l -> sorted (insert_sorted x l).
Proof.
  induction 1 as [|y|y z l Hyz Hs IH]; cbn [insert_sorted].
  - constructor.
  - destruct (x <? y) eqn:H1; [apply N.ltb_lt in H1; constructor; [assumption|constructor]|].
    destruct (x =? y) eqn:H2; [constructor|].
    apply N.ltb_ge in H1. apply N.eqb_neq in H2. constructor; [lia|constructor].
  - destruct (x <? y) eqn:H1; [apply N.ltb_lt in H1; constructor; [assumption|constructor; assumption]|].
    destruct (x =? y) eqn:H2; [constructor; assumption|].
    apply N.ltb_ge in H1. apply N.eqb_neq in H2.
    cbn [insert_sorted] in IH.
    destruct (x <? z) eqn:H3.
    + apply N.ltb_lt in H3. constructor; [lia|]. constructor; assumption.
    + destruct (x =? z) eqn:H4.
      * constructor; assumption.
      * constructor; [assumption|]. exact IH.
Qed.

Lemma sort_dedup_sorted l : sorted (sort_dedup l).
Proof. induction l as [|x l IH]; cbn [sort_dedup fold_right]; [constructor|]. apply insert_sorted_sorted, IH. Qed.

Lemma sort_dedup_in l z : In z (sort_dedup l) <-> In z l.
Proof.
  induction l as [|x l IH]; cbn [sort_dedup fold_right In]; [tauto|].
  fold (sort_dedup l). rewrite insert_sorted_in, IH. intuition.
Qed.

Lemma sorted_head_min x l : sorted (x :: l) -> forall z, In z l -> x < z.
Proof.
  revert x. induction l as [|y l IH]; intros x Hs z Hz; [contradiction|].
  inversion Hs as [| |a b c Hab Hs']; subst.
  destruct Hz as [<-|Hz]; [assumption|].
  specialize (IH y Hs' z Hz). lia.
Qed.

Lemma sorted_tail x l : sorted (x :: l) -> sorted l.
Proof. inversion 1; subst; [constructor|assumption]. Qed.

Lemma sorted_ext l : forall l', sorted l -> sorted l' -> (forall z, In z l <-> In z l') -> l = l'.
Proof.
  induction l as [|x l IH]; intros [|y l'] Hs Hs' He.
  - reflexivity.
  - exfalso. apply (He y). left. reflexivity.
  - exfalso. apply (He x). left. reflexivity.
  - assert (x = y).
    { destruct (proj1 (He x) (or_introl eq_refl)) as [<-|Hx]; [reflexivity|].
      destruct (proj2 (He y) (or_introl eq_refl)) as [->|Hy]; [reflexivity|].
      pose proof (sorted_head_min _ _ Hs y Hy). pose proof (sorted_head_min _ _ Hs' x Hx). lia. }
    subst y. f_equal. apply IH; [eapply sorted_tail; eassumption|eapply sorted_tail; eassumption|].
    intro z. split; intro Hz.
    + destruct (proj1 (He z) (or_intror Hz)) as [<-|H']; [|assumption].
      pose proof (sorted_head_min _ _ Hs x Hz). lia.
    + destruct (proj2 (He z) (or_intror Hz)) as [<-|H']; [|assumption].
      pose proof (sorted_head_min _ _ Hs' x Hz). lia.
Qed.

Lemma sort_dedup_perm l l' : Permutation l l' -> sort_dedup l = sort_dedup l'.
Proof.
  intro H. apply sorted_ext; try apply sort_dedup_sorted.
  intro z. rewrite !sort_dedup_in. split; intro Hz.
  - eapply Permutation_in; eassumption.
  - eapply Permutation_in; [apply Permutation_sym|]; eassumption.
Qed.

Lemma insensitive_sink_perm : forall s l l',
  insensitive s = true -> Permutation l l' -> run_sink s l = run_sink s l'.
Proof.
  intros s l l' Hi Hp. destruct s; cbn [insensitive] in Hi; try discriminate; cbn [run_sink]; f_equal.
  - apply existsb_perm, Hp.
  - apply forallb_perm, Hp.
  - rewrite (Permutation_length Hp). reflexivity.
  - apply sort_dedup_perm, Hp.
  - apply max_perm, Hp.
  - apply sum_perm, Hp.
Qed.

Lemma sensitive_sinks_refuted :
  (exists p l l', Permutation l l' /\ run_sink (SFindFirst p) l <> run_sink (SFindFirst p) l') /\
  (exists l l', Permutation l l' /\ run_sink SCollectVec l <> run_sink SCollectVec l').
Proof.
  split.
  - exists (fun _ => true), [1; 2], [2; 1]. split; [apply perm_swap|]. cbn. discriminate.
  - exists [1; 2], [2; 1]. split; [apply perm_swap|]. cbn. discriminate.
Qed.

Lemma seed_independent : forall (state : Type) (shuffle : N -> list N -> list N),
  (forall seed l, Permutation (shuffle seed l) l) ->
  forall p, forallb (step_ok state) p = true ->
  forall s1 s2 x, exec state shuffle s1 p x = exec state shuffle s2 p x.
Proof.
  intros state shuffle Hsh p. induction p as [|st p IH]; intros Hok s1 s2 x; [reflexivity|].
  cbn [forallb] in Hok. apply andb_true_iff in Hok as [H1 H2].
  unfold exec. cbn [fold_left]. fold (exec state shuffle s1 p). fold (exec state shuffle s2 p).
  assert (exec1 state shuffle s1 x st = exec1 state shuffle s2 x st) as ->.
  { destruct st as [f|s sel k]; cbn [exec1]; [reflexivity|]. f_equal.
    apply insensitive_sink_perm; [exact H1|].
    eapply Permutation_trans; [apply Hsh|apply Permutation_sym, Hsh]. }
  apply IH, H2.
Qed.

Lemma once_constant : forall (env value : Type) (init : env -> value) e c n,
  (c = None \/ c = Some (init e)) ->
  Forall (fun v => v = init e) (snd (reads env value init e c n)).
Proof.
  intros env value init e c n. revert c. induction n as [|n IH]; intros c Hc; cbn [reads]; [constructor|].
  destruct Hc as [->| ->]; cbn [read].
  - specialize (IH (Some (init e)) (or_intror eq_refl)).
    destruct (reads env value init e (Some (init e)) n) as [c'' vs]. cbn [snd] in *. constructor; [reflexivity|exact IH].
  - specialize (IH (Some (init e)) (or_intror eq_refl)).
    destruct (reads env value init e (Some (init e)) n) as [c'' vs]. cbn [snd] in *. constructor; [reflexivity|exact IH].
Qed.

(* non-vacuity *)
Example ex_sortdedup : sort_dedup [3; 1; 3; 2] = [1; 2; 3]. Proof. reflexivity. Qed.
Example ex_pipeline : forall seed,
  exec (list N) (fun s l => if N.even s then l else rev l) seed
       [IterSeeded (list N) SSortDedup (fun x => x) (fun _ r => match r with RList l => l | _ => [] end)] [3; 1; 2] = [1; 2; 3].
Proof. intro seed. unfold exec. cbn [fold_left exec1]. destruct (N.even seed); reflexivity. Qed.
