#!/bin/sh
# tools/seedtest.sh <seeded dir> <Cxx>... : apply the seeded change to /repo, run the given checks, undo it
D=$1; shift
git -C /repo diff --quiet || { echo "/repo has uncommitted changes"; exit 2; }
git -C /repo apply $D/patch.diff || { echo "patch does not apply"; exit 2; }
for P in "$@"; do
  find /verif/replays -name "$P-*.json" -delete
  cd /verif && ./check $P > /tmp/seedtest_$P.out 2>&1
  echo "$P exit=$? :: $(grep -c '^VIOLATION' /tmp/seedtest_$P.out) violation line(s)"
  grep '^VIOLATION\|^KNOWN' /tmp/seedtest_$P.out | cut -c1-160 | head -5
  /verif/tools/show.py $P | grep "^REPLAY\|^FAILED" | cut -c1-260 | head -8
done
git -C /repo checkout -- .
# the evidence files now describe a run on the seeded tree: put the committed ones back
git -C /verif checkout -- evidence 2>/dev/null
git -C /repo status --short | head -3
