#!/bin/sh
# tools/runall.sh [tier] : run every claimed check on the current tree, one line per property
T=${1:-quick}
cd /verif
for P in $(python3 -c "import json;print(' '.join(c['property_id'] for c in json.load(open('MANIFEST.json'))['checks']))"); do
  find /verif/replays -name "$P-*.json" -delete
  S=$(date +%s)
  ./check $P --tier $T > /tmp/runall_$P.out 2>&1
  RC=$?
  echo "$P rc=$RC $(( $(date +%s) - S ))s violations=$(grep -c '^VIOLATION' /tmp/runall_$P.out) known=$(grep -c '^KNOWN-FINDING' /tmp/runall_$P.out)"
done
