#!/bin/sh
# tools/seedall.sh : every seeded change against the check(s) of its property (quick tier); prints one line per seed
cd /verif
for D in seeded/*/; do
  S=$(basename $D); P=${S%%-*}
  EXTRA=""
  [ "$S" = "C08-2" ] && EXTRA="C07"
  OUT=$(tools/seedtest.sh /verif/seeded/$S $P $EXTRA 2>&1)
  echo "$S :: $(echo "$OUT" | grep 'exit=' | tr '\n' ' ') $(echo "$OUT" | grep -c 'does not apply\|uncommitted') apply-problems"
done
find /verif/replays -name "*.json" -newer /verif/tools/seedall.sh -delete 2>/dev/null
