#!/usr/bin/env python3
# regenerates MANIFEST.json from the table below (single source of truth for claimed checks)
import json, subprocess
base_cmd = "cd /repo/$(cat /w/out/cargo_root.txt) && cargo nextest run --workspace --no-fail-fast --tool-config-file pb:/w/lib/nextest.toml --profile pb --test-threads 8 --offline"
ALL = ["C%02d" % i for i in range(1, 19)]
CHECKS = {
 "C03": ("Bit-field accessor arithmetic: Gallina model of bitfield_unit.rs (little/big endian, u64 and usize paths) proved equal to a bit-vector reference for every storage, offset, width and value under the guard width+offset%8<=64; the guard is shown necessary by a refutation witness (known finding). Model tied to the code by exhaustive differential execution of the verbatim source (release and debug semantics, all 8 entry points) against the OCaml extraction.",
         "Coq kernel; ExtrOcamlBasic extraction; OCaml driver; Rust integer semantics transcribed by hand; allocation of units and accessor codegen exercised end-to-end only",
         "Coq proof (bit-level extensionality) + extraction-based correspondence sweep", "DESIGN.md §6 C03"),
 "C07": ("Fix-point analyses: a generic theorem about the LIFO work-list solver (terminates within the stated fuel; its answer is a fixed point and the least one; any permutation of the allowlisted items, hence any initial order and any dependency-vector order, gives the same facts) for every analysis of the join-of-reads shape; five analyses (has_vtable, sizedness, has_destructor, has_float, has_type_param_in_array) are transcribed and shown to read only over edge kinds their consider_edge filter (regenerated from source each run) accepts, for all regular items; the irregular items (stdint-named aliases, opaque composites) are characterised and a refutation witness shows order dependence there. Ties: IR dumps of repository headers and generated graphs (modelled Trace == real edges, model run == implementation's answer), the H2 post-convergence sweep on the real constrain functions with consulted-fact probes, and a declaration re-ordering experiment.",
         "Coq kernel; translator for consider_edge; hooks H1/H2; rules transcribed by hand; CannotDerive and UsedTemplateParameters covered by the sweep and re-ordering only; libclang giving an isomorphic AST for re-ordered headers is assumed",
         "Coq proof (least fixed point, schedule independence) + dump-based correspondence + fix-point sweep", "DESIGN.md §6 C07"),
 "C13": ("Flag round trip: for the ~93 table-driven option rows a generic theorem (wf tables => parse(print o) agrees with o on every printed field, print is stable, defaults agree; the leading-dash hazard and a missing flag are shown to break it) is instantiated on the tables regenerated from options/mod.rs and options/cli.rs each run (including secondary effects of builder methods); command_line_flags compared with the model inside Coq; every Builder method (also the custom, unmodelled ones), boolean pairs and random configurations are round-tripped on the real library (flags and generated bindings), as is every clap flag in the CLI->builder->flags direction.",
         "Coq kernel; translator for options!/clap struct/apply_args!; clap's grammar modelled by hand; custom as_args closures exercised dynamically only",
         "Coq proof (codec round trip over regenerated tables) + in-Coq differential check + dynamic round trips", "DESIGN.md §6 C13"),
 "C14": ("Feature gating: monotonicity, nightly-top, not-too-early w.r.t. a release-notes specification, edition rules and defaults proved for ANY feature table and re-instantiated on the table regenerated from features.rs each run; RustFeatures::new compared with the model on every minor/edition inside Coq; CLI token scan per target.",
         "Coq kernel; translator for the two macro invocations; Spec.v stabilisation table hand-written from release notes; macro bodies transcribed by hand and tied by the exhaustive differential run",
         "Coq proof over regenerated table + in-Coq differential check", "DESIGN.md §6 C14"),
 "C15": ("Formatter outcomes: the decision table of format_tokens/write is a total function of the child's observable outcome; theorems: every signalled failure (spawn, pipe, wait, signal, exit status outside {0,3}, non-UTF-8 output) yields prefix ++ unformatted source, success yields the formatter's bytes, the header comment and raw lines are independent of formatter and child. Tie: the real Bindings::write driven with 16 scripted fake formatters x sizes x prefix options, compared with the model inside Coq; token sequences of none/rustfmt/prettyplease output compared (modulo trailing commas and punctuation spacing) on repository headers.",
         "Coq kernel; fake formatter scripts; OS pipe/process semantics assumed (a child that neither reads nor exits hangs: not exhibited); real rustfmt/prettyplease token preservation sampled",
         "Coq proof (total decision table) + fault-injection correspondence", "DESIGN.md §6 C15"),
 "C17": ("Depfile and dependency reporting: escaping proved injective and exactly inverted by the cargo/ninja dialect reader for all byte strings; GNU make round trip proved under an explicit path condition and refuted outside it (known findings); reported set = inputs U included files, sorted, duplicate-free; DepfileSpec::to_string compared with the model inside Coq, the model's make reader validated against real GNU make, include DAGs end-to-end against clang -H, env-var read sites inventoried by a translator.",
         "Coq kernel; hook for to_string; GNU make 4.3 and clang as oracles; libclang's inclusion directives are an oracle list in the model; dialect reader is specification-side only",
         "Coq proof (codec round trip) + in-Coq differential check + end-to-end DAGs", "DESIGN.md §6 C17"),
 "C18": ("Post-processing passes: merge keeps non-extern items in order, preserves every foreign item under its key (multiset, per-key order), yields one block per key; stable sort is a permutation, sorted, order-preserving within a rank; leaves of the whole module tree are preserved; passes are idempotent — all for arbitrary item trees and rank functions. Rank table, sort stability shape, merge key fields and pass order regenerated from source; real postprocessing() compared with the model inside Coq on rendered random trees; CLI inventory comparison on repository headers.",
         "Coq kernel; translator for the three postprocessing files; hook for postprocessing(); syn parser/printer and the tree canonicaliser trusted",
         "Coq proof (permutation / stability / idempotence) + in-Coq differential check", "DESIGN.md §6 C18"),
}
PLANNED = "check not built yet in this round (planned at level proof; see DESIGN.md §6)"
def chk(pid):
    text, note, tech, ref = CHECKS[pid]
    return {"property_id": pid, "quick_cmd": "./check %s --tier quick" % pid, "thorough_cmd": "./check %s --tier thorough" % pid,
            "evidence_file": "/verif/evidence/%s.json" % pid, "replay_cmd_template": "./check %s --replay {path}" % pid,
            "engine": "coq", "level_claimed": {"category": "proof", "text": text, "design_ref": ref}, "level_note": note, "technique": tech}
commits = subprocess.run("git -C /repo log --format=%h --grep='^verif hooks' ", shell=True, capture_output=True, text=True).stdout.split()
m = {"version": 1, "setup_cmd": "./check --setup",
 "hooks": {"guard": "bindgen_verif", "enable": "RUSTFLAGS=\"--cfg bindgen_verif\" (cargo builds of /repo/bindgen by the harness, CARGO_TARGET_DIR=/verif/.cache/target); dump hooks additionally need BINDGEN_VERIF_LOG=<file>",
           "baseline_off_cmd": base_cmd, "source_commits": commits, "add_only": True},
 "engines": [{"name": "coq", "path": "/verif/coq", "serves_properties": sorted(CHECKS), "kind_free_text": "Coq 8.16.1 development: executable Gallina models, theorems, Print Assumptions audit; translators regenerate tables into coq/gen; correspondence harness compares model and implementation (inside Coq by vm_compute, or through the OCaml extraction for volume)"}],
 "checks": [chk(p) for p in sorted(CHECKS)],
 "not_applicable": [{"property_id": p, "reason": PLANNED} for p in ALL if p not in CHECKS],
 "notes": "All checks: ./check <Cxx> --tier quick|thorough; VERIF_SEED honoured; evidence rewritten on every run; known findings in KNOWN_FINDINGS.jsonl (read-only at run time)."}
json.dump(m, open('/verif/MANIFEST.json', 'w'), indent=1)
print("claimed:", sorted(CHECKS))
