#!/bin/sh
# tools/run.sh <Cxx> [tier]: clean replays of that property, run the check, show a summary
P=$(echo "$1" | tr a-z A-Z)
rm -f /verif/replays/$P-*.json
cd /verif && ./check $P --tier ${2:-quick} > /tmp/check_$P.out 2>&1
echo "exit=$?"
tail -${3:-8} /tmp/check_$P.out
/verif/tools/show.py $P
