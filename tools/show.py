#!/usr/bin/env python3
# summary of the last run of a property: replay classes, failed obligations, counters
import json, glob, sys
p = sys.argv[1].upper()
for f in sorted(glob.glob('/verif/replays/%s-*.json' % p)):
    d = json.load(open(f))
    print("REPLAY", f.split('/')[-1], d.get('class', d.get('kind')), '|', str(d.get('what', ''))[:200])
    if '-v' in sys.argv:
        print(json.dumps(d, indent=1, ensure_ascii=False)[:3000])
d = json.load(open('/verif/evidence/%s.json' % p))
c = d['coverage']
print("obligations %d/%d evaluations %d nontrivial %d wall %.1fs violations %s" % (c['discharged'], c['obligations'], c['evaluations'], c['distinct_nontrivial'], d['wall_s'], d.get('violations')))
print("counters", {k: (v if len(str(v)) < 200 else str(v)[:200] + "...") for k, v in (c.get('counters') or {}).items()})
print("known reproduced", c.get('known_findings_reproduced'), "not reproduced", c.get('known_findings_listed_not_reproduced_this_run'))
for o in c['obligation_list']:
    if not o['ok']:
        print("FAILED", o['name'], '|', o['detail'][:600])
