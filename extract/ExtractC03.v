(* Extraction of the C03 model.  ExtrOcamlBasic only (bool, option, unit, list,
   prod, sumbool, comparison -> native OCaml); N / positive / Z stay the
   extracted inductive types.  No Extract Constant. *)
Require Extraction.
Require Import ExtrOcamlBasic.
From BG Require Import C03.Model.
Extraction Language OCaml.
Extraction "c03.ml" get set get_const set_const dbg_ok get_spec set_spec wf_storage.
