(* Reads cases produced by the Rust bit-field harness on stdin, recomputes each
   with the extracted Coq model, prints mismatches and a summary.
   line:  op n off w vhi vlo b0..b(n-1) | R rhi rlo a0..a(n-1)      (ran)
          op n off w vhi vlo b0..b(n-1) | P                           (panicked)
   args:  <rel|dbg> <usize bits> <be 0|1> *)
open C03

let rec pos_of_int i = if i = 1 then XH else if i land 1 = 0 then XO (pos_of_int (i lsr 1)) else XI (pos_of_int (i lsr 1))
let n_of_int i = if i = 0 then N0 else Npos (pos_of_int i)
let rec int_of_pos = function XH -> 1 | XO p -> 2 * int_of_pos p | XI p -> 2 * int_of_pos p + 1
let int_of_n = function N0 -> 0 | Npos p -> int_of_pos p
let two32 = n_of_int (1 lsl 32)
let n_of_hl hi lo = N.add (N.mul (n_of_int hi) two32) (n_of_int lo)
let hl_of_n x = let (q, r) = N.div_eucl x two32 in (int_of_n q, int_of_n r)

let () =
  let dbg = Sys.argv.(1) = "dbg" in
  let wsz = n_of_int (int_of_string Sys.argv.(2)) in
  let be = Sys.argv.(3) = "1" in
  let total = ref 0 and bad = ref 0 and panics = ref 0 and guard_out = ref 0 in
  let spec_bad_guarded = ref 0 and spec_bad_unguarded = ref 0 in
  (try
     while true do
       let line = input_line stdin in
       if String.length line > 0 then begin
         incr total;
         let (l, r) = match String.index_opt line '|' with
           | Some i -> (String.sub line 0 i, String.sub line (i + 1) (String.length line - i - 1))
           | None -> failwith ("bad line " ^ line) in
         let li = List.filter (fun s -> s <> "") (String.split_on_char ' ' l) in
         let ri = List.filter (fun s -> s <> "") (String.split_on_char ' ' r) in
         match List.map int_of_string li with
         | op :: n :: off :: w :: vhi :: vlo :: bytes ->
           let st = List.map n_of_int bytes in
           let noff = n_of_int off and nw = n_of_int w and v = n_of_hl vhi vlo in
           let isget = (op land 2) = 0 in
           let isconst = op >= 4 in
           let okdbg = dbg_ok (n_of_int n) noff nw in
           if not okdbg then incr guard_out;
           let mres, mst =
             if isget then
               ((if isconst then get_const wsz be st noff nw else get be st noff nw), st)
             else
               (N0, (if isconst then set_const wsz be st noff nw v else set be st noff nw v)) in
           (match ri with
            | "P" :: _ ->
              incr panics;
              if not (dbg && not okdbg) then begin
                incr bad; Printf.printf "MISMATCH unexpected-panic %s\n" line end
            | "R" :: rest ->
              if dbg && not okdbg then begin
                incr bad; Printf.printf "MISMATCH missing-panic %s\n" line end
              else begin
                match List.map int_of_string rest with
                | rhi :: rlo :: after ->
                  (* implementation against the reference semantics (the property itself) *)
                  let sres, sst =
                    if isget then (get_spec be st noff nw, st) else (N0, set_spec be st noff nw v) in
                  let (sh, sl) = hl_of_n sres in
                  if (isget && (sh <> rhi || sl <> rlo)) || List.map int_of_n sst <> after then begin
                    let guarded = w = 0 || w + (off mod 8) <= 64 in
                    let ctr = if guarded then spec_bad_guarded else spec_bad_unguarded in
                    incr ctr;
                    if !ctr <= 3 then
                      Printf.printf "SPECFAIL %s %s || spec R %d %d %s\n"
                        (if guarded then "inside-guard" else "straddle9") line sh sl
                        (String.concat " " (List.map (fun x -> string_of_int (int_of_n x)) sst)) end;
                  let (mh, ml) = hl_of_n mres in
                  let mafter = List.map int_of_n mst in
                  if (isget && (mh <> rhi || ml <> rlo)) || mafter <> after then begin
                    incr bad;
                    Printf.printf "MISMATCH value %s || model R %d %d %s\n" line mh ml
                      (String.concat " " (List.map string_of_int mafter)) end
                | _ -> failwith "bad result"
              end
            | _ -> failwith "bad rhs")
         | _ -> failwith "bad lhs"
       end
     done
   with End_of_file -> ());
  Printf.printf "SUMMARY total=%d mismatches=%d panics=%d outside_guard=%d specfail_inside_guard=%d specfail_straddle9=%d\n" !total !bad !panics !guard_out !spec_bad_guarded !spec_bad_unguarded
